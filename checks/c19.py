# C19 - concurrent operation never corrupts state or loses writes.
# Parts: (pool) specs/pool Pool.tla exhaustive + PoolGen replay + stress on the real boundedPool;
#        (hh)   the C04 concurrent drivers (trace validation + processor stress) re-run under -race;
#        (more parts are added below as they are built: shard visibility, field types, meta publish)
import os, json
from vcheck import Infra, log

def pool(ctx):
    sd = ctx.spec_dir("pool")
    inv = ["TypeOK", "C19_PoolBound", "C19_TokenPerConn", "C19_NoSharing", "C19_OnlyLiveHandedOut", "C19_NothingLeftAfterClose"]
    if not ctx.replay:
        c = {"Clients": ["c1", "c2", "c3"], "Max": 2, "MaxConns": ctx.pick(4, 5), "Prune": False, "Dev": []}
        ctx.write_cfg(sd, "MC.cfg", "Spec", c, inv + ["C19_PrunerNeverStuck"], "Bounded")
        ctx.tlc_check(sd, "Pool", "MC.cfg", workers=8, timeout=900)
        c2 = dict(c, Prune=True, Clients=["c1", "c2"])
        ctx.write_cfg(sd, "MCP.cfg", "Spec", c2, inv + ["C19_PrunerNeverStuck"], "Bounded")
        ctx.tlc_check(sd, "Pool", "MCP.cfg", workers=8, timeout=900)
        # negative control: the pruner behaviour found in the repository gets stuck holding connections after Close
        c3 = dict(c2, Dev=['"prunerStuck"'])
        ctx.write_cfg(sd, "MCN.cfg", "Spec", c3, ["C19_PrunerNeverStuck"], "Bounded")
        neg = ctx.tlc_check(sd, "Pool", "MCN.cfg", workers=4, timeout=300, expect_ok=False)
        if neg["ok"]:
            raise Infra("negative control: Pool with the stuck pruner does not violate C19_PrunerNeverStuck")
    gl = 10
    gc = {"Clients": ['"c1"', '"c2"', '"c3"'], "Max": 2, "MaxConns": 6, "Prune": False, "Dev": [], "GenLen": gl}
    files = ["coordinator/zz_verif_pool_test.go"]
    def run_replay(inp, label):
        p = ctx.write_json("pool-%s.json" % label, inp)
        return ctx.go_test("coordinator", files, "^TestVerifPoolReplay$", env={"VERIF_IN": p}, timeout=600, label=label)
    if ctx.replay:
        rp = json.load(open(ctx.replay))["replay"]
        if rp.get("test") != "POOL":
            return
        inp = {"consts": rp["consts"], "behaviours": [rp["behaviour"]]}
    else:
        ctx.write_cfg(sd, "G.cfg", "GSpec", gc, extra="INVARIANT Emit")
        n = ctx.pick(300, 3000)
        behs = ctx.tlc_generate(sd, "PoolGen", "G.cfg", num=n, depth=gl + 1)[:n]
        inp = {"consts": {"Max": 2}, "behaviours": behs}
    def confirm(rp):
        recs, out, rc = run_replay({"consts": rp["consts"], "behaviours": [rp["behaviour"]]}, "confirm")
        return any(r.get("k") == "mismatch" for r in recs)
    recs, out, rc = run_replay(inp, "replay")
    d = ctx.process(recs, out, rc, "TestVerifPoolReplay", confirm)
    ctx.cov["traces_validated_against_impl"] += d.get("behaviours", 0)
    if not ctx.replay:
        recs, out, rc = ctx.go_test("coordinator", files, "^TestVerifPoolStress$", env={"VERIF_ROUNDS": ctx.pick(40, 300)},
                                    timeout=900, race=True, label="poolstress-race")
        if race_guard(ctx, out, "pool stress"):
            rc = 0
        d = ctx.process(recs, out, rc, "TestVerifPoolStress")
        ctx.cov["pool_stress_gets"] = d.get("gets", 0)
        recs, out, rc = ctx.go_test("coordinator", files, "^TestVerifClientPoolRace$", env={"VERIF_ROUNDS": ctx.pick(30, 300)},
                                    timeout=900, label="clientpool-race")
        ctx.process(recs, out, rc, "TestVerifClientPoolRace")

def race_guard(ctx, out, what):
    """The data-race clause is decided by Go's race detector on the drivers (auxiliary to the specification,
    see DESIGN section 6).  A report whose stacks touch repository code is a real-code observation and is
    reported as a violation; a report that only involves harness code is a defect of the harness (exit 2)."""
    import re
    blocks = out.split("WARNING: DATA RACE")[1:]
    for b in blocks:
        b = b.split("==================")[0]
        files = re.findall(r"^\s+(/\S+\.go):\d+", b, re.M)
        # the access stacks are the first two paragraphs; goroutine-creation stacks follow
        access = b.split("Goroutine ")[0]
        afiles = re.findall(r"^\s+(/\S+\.go):\d+", access, re.M)
        repo_files = [f for f in afiles if f.startswith(ctx.repo + "/") and "zz_verif_" not in f and not f.endswith("_test.go")]
        if not repo_files:
            raise Infra("data race inside the harness itself (%s):\n%s" % (what, b[:1500]))
        top = [f for f in afiles if f.startswith(ctx.repo + "/")]
        sig = "race:" + what.replace(" ", "-") + ":" + os.path.relpath(repo_files[0], ctx.repo)
        ctx.report_mismatch(sig, "WARNING: DATA RACE" + b[:3000], {"test": "RACE", "what": what})
    return bool(blocks)

def shard(ctx):
    """Shard/store: visibility under concurrent writers, readers, snapshots, compactions, deletes (race build)."""
    if ctx.replay:
        rp = json.load(open(ctx.replay))["replay"]
        if rp.get("test") != "VIS":
            return
        sd = ctx.spec_dir("visibility")
        p = os.path.join(ctx.scratch, "replay-vis.ndjson")
        open(p, "w").write("\n".join(json.dumps(e) for e in rp["events"]) + "\n")
        validate_vis(ctx, sd, [p])
        return
    sd = ctx.spec_dir("visibility")
    ctx.write_cfg(sd, "V.cfg", "Spec", {"Series": ['"s1"', '"s2"'], "MaxK": 3, "Readers": ['"r1"', '"r2"']},
                  ["TypeOK", "C19_ReadSeesAcked"])
    ctx.tlc_check(sd, "Visibility", "V.cfg", workers=4, timeout=300)
    tdir = os.path.join(ctx.scratch, "vis")
    os.makedirs(tdir, exist_ok=True)
    files = ["tsdb/zz_verif_conc_test.go"]
    recs, out, rc = ctx.go_test("tsdb", files, "^TestVerifConcVisibility$", race=True, timeout=1800, label="visibility-race",
                                env={"VERIF_TRACE_DIR": tdir, "VERIF_ROUNDS": ctx.pick(4, 24), "VERIF_PERWRITER": ctx.pick(50, 150)})
    if race_guard(ctx, out, "shard visibility"):
        rc = 0
    d = ctx.process(recs, out, rc, "TestVerifConcVisibility")
    traces = [r["file"] for r in recs if r.get("k") == "trace"]
    if traces:
        validate_vis(ctx, sd, traces)
        ctx.add_sample({"visibility_trace_prefix": open(traces[0]).read().splitlines()[:10]})
    ctx.cov["visibility_reads"] = d.get("reads", 0)
    recs, out, rc = ctx.go_test("tsdb", files, "^TestVerifConcFieldTypes$", race=True, timeout=1800, label="fieldtypes-race",
                                env={"VERIF_ROUNDS": ctx.pick(20, 200)})
    if race_guard(ctx, out, "field types"):
        rc = 0
    ctx.process(recs, out, rc, "TestVerifConcFieldTypes")
    recs, out, rc = ctx.go_test("tsdb", files, "^TestVerifConcNewFields$", race=True, timeout=1800, label="newfields-race",
                                env={"VERIF_ROUNDS": ctx.pick(60, 600)})
    if race_guard(ctx, out, "new fields"):
        rc = 0
    ctx.process(recs, out, rc, "TestVerifConcNewFields")
    sibling(ctx, files)

def sibling(ctx, files):
    """A delete of the measurement's only series racing writers that create sibling series (SiblingDrop.tla)."""
    sd = ctx.spec_dir("siblingdrop")
    base = {"Writers": ['"w1"', '"w2"']}
    inv = ["TypeOK", "C19_SiblingAckedReadable"]
    # the repaired design holds; the behaviour found in the repository (check-then-act in the index, field-set
    # cleanup that looks at the cache only) and the half repair are negative controls (recorded finding F32)
    ctx.write_cfg(sd, "Rep.cfg", "Spec", dict(base, AtomicDrop=True, CleanupSeesIndex=True), inv)
    ctx.tlc_check(sd, "SiblingDrop", "Rep.cfg", workers=2, timeout=300)
    for a, c in ((False, False), (True, False)):
        ctx.write_cfg(sd, "Neg.cfg", "Spec", dict(base, AtomicDrop=a, CleanupSeesIndex=c), inv)
        ctx.tlc_check(sd, "SiblingDrop", "Neg.cfg", workers=2, timeout=300, expect_ok=False)
    recs, out, rc = ctx.go_test("tsdb", files, "^TestVerifConcSiblingSeries$", race=True, timeout=1800, label="sibling-race",
                                env={"VERIF_ROUNDS": ctx.pick(6, 40), "VERIF_PERROUND": ctx.pick(40, 100)})
    if race_guard(ctx, out, "sibling series"):
        rc = 0
    d = ctx.process(recs, out, rc, "TestVerifConcSiblingSeries")
    ctx.cov["sibling_series_writes"] = d.get("writes", 0)

def validate_vis(ctx, sd, files):
    consts = {"Series": ['"s1"', '"s2"', '"s3"'], "MaxK": 100000, "Readers": ['"r1"', '"r2"']}
    ctx.write_cfg(sd, "T.cfg", "TraceSpec", consts, ["C19_ReadSeesAcked"], extra="POSTCONDITION TraceAccepted")
    cat = os.path.join(ctx.scratch, "vis-cat.ndjson")
    with open(cat, "w") as fh:
        for f in files:
            fh.write(open(f).read())
    r = ctx.tlc_trace(sd, "VisibilityTrace", cat, "T.cfg", timeout=900)
    if r["accepted"]:
        ctx.cov["traces_validated_against_impl"] += len(files)
        return
    for f in files:
        r = ctx.tlc_trace(sd, "VisibilityTrace", f, "T.cfg", timeout=600)
        if not r["accepted"]:
            lines = open(f).read().splitlines()
            nxt = json.loads(lines[r["matched"]]) if 0 <= r["matched"] < len(lines) else {}
            # every event of this trace is an observation of the property's own terms (acknowledgements and reads)
            ctx.report_mismatch("vis:trace:" + str(nxt.get("e")), "recorded execution rejected at line %d: %s" % (r["matched"] + 1, nxt),
                                {"test": "VIS", "events": [json.loads(x) for x in lines]})
        else:
            ctx.cov["traces_validated_against_impl"] += 1

def hh_race(ctx):
    """The hinted-handoff concurrent drivers of C04, built with the race detector."""
    if ctx.replay:
        return
    files = ["hh/zz_verif_hh_test.go", "hh/zz_verif_hhproc_test.go"]
    tdir = os.path.join(ctx.scratch, "hhtraces")
    os.makedirs(tdir, exist_ok=True)
    recs, out, rc = ctx.go_test("services/hh", files, "^(TestVerifHHConcurrent|TestVerifHHProcStress)$", race=True, timeout=1800,
                                label="hh-race", env={"VERIF_TRACE_DIR": tdir, "VERIF_ROUNDS": ctx.pick(12, 100), "VERIF_MAXQW": 100000})
    if race_guard(ctx, out, "hinted handoff"):
        rc = 0
    ctx.process(recs, out, rc, "TestVerifHHConcurrent")
    ctx.process([r for r in recs if r.get("k") != "mismatch"], out, rc, "TestVerifHHProcStress")

def run(ctx):
    pool(ctx)
    shard(ctx)
    hh_race(ctx)
    return ctx.finish("model_checking", {}, assumptions=[
        "data-race clause: decided by the Go race detector on the stress drivers, not by the specification"])
