# C19 - concurrent operation never corrupts state or loses writes.
# Parts: (pool) specs/pool Pool.tla exhaustive + PoolGen replay + stress on the real boundedPool;
#        (hh)   the C04 concurrent drivers (trace validation + processor stress) re-run under -race;
#        (more parts are added below as they are built: shard visibility, field types, meta publish)
import os, json
from vcheck import Infra, log

def pool(ctx):
    sd = ctx.spec_dir("pool")
    inv = ["TypeOK", "C19_PoolBound", "C19_TokenPerConn", "C19_NoSharing", "C19_OnlyLiveHandedOut", "C19_NothingLeftAfterClose"]
    if not ctx.replay:
        # without the pruner every invariant holds; with it C19_PrunerNeverStuck is the recorded deviation
        c = {"Clients": ["c1", "c2", "c3"], "Max": 2, "MaxConns": ctx.pick(4, 5), "Prune": False}
        ctx.write_cfg(sd, "MC.cfg", "Spec", c, inv + ["C19_PrunerNeverStuck"], "Bounded")
        ctx.tlc_check(sd, "Pool", "MC.cfg", workers=8, timeout=900)
        c2 = dict(c, Prune=True, Clients=["c1", "c2"])
        ctx.write_cfg(sd, "MCP.cfg", "Spec", c2, [i for i in inv if i != "C19_NothingLeftAfterClose"], "Bounded")
        ctx.tlc_check(sd, "Pool", "MCP.cfg", workers=8, timeout=900)
    gl = 10
    gc = {"Clients": ['"c1"', '"c2"', '"c3"'], "Max": 2, "MaxConns": 6, "Prune": False, "GenLen": gl}
    files = ["coordinator/zz_verif_pool_test.go"]
    def run_replay(inp, label):
        p = ctx.write_json("pool-%s.json" % label, inp)
        return ctx.go_test("coordinator", files, "^TestVerifPoolReplay$", env={"VERIF_IN": p}, timeout=600, label=label)
    if ctx.replay:
        rp = json.load(open(ctx.replay))["replay"]
        if rp.get("test") != "POOL":
            return
        inp = {"consts": rp["consts"], "behaviours": [rp["behaviour"]]}
    else:
        ctx.write_cfg(sd, "G.cfg", "GSpec", gc, extra="INVARIANT Emit")
        n = ctx.pick(300, 3000)
        behs = ctx.tlc_generate(sd, "PoolGen", "G.cfg", num=n, depth=gl + 1)[:n]
        inp = {"consts": {"Max": 2}, "behaviours": behs}
    def confirm(rp):
        recs, out, rc = run_replay({"consts": rp["consts"], "behaviours": [rp["behaviour"]]}, "confirm")
        return any(r.get("k") == "mismatch" for r in recs)
    recs, out, rc = run_replay(inp, "replay")
    d = ctx.process(recs, out, rc, "TestVerifPoolReplay", confirm)
    ctx.cov["traces_validated_against_impl"] += d.get("behaviours", 0)
    if not ctx.replay:
        recs, out, rc = ctx.go_test("coordinator", files, "^TestVerifPoolStress$", env={"VERIF_ROUNDS": ctx.pick(40, 300)},
                                    timeout=900, race=True, label="poolstress-race")
        race_guard(ctx, out, "pool stress")
        d = ctx.process(recs, out, rc, "TestVerifPoolStress")
        ctx.cov["pool_stress_gets"] = d.get("gets", 0)

def race_guard(ctx, out, what):
    """The data-race clause is decided by Go's race detector on the drivers (auxiliary to the specification,
    see DESIGN section 6): a report is a real-code observation and is reported as a violation."""
    if "WARNING: DATA RACE" in out:
        i = out.index("WARNING: DATA RACE")
        ctx.report_mismatch("race:" + what.replace(" ", "-"), out[i:i + 3000], {"test": "RACE", "what": what})

def run(ctx):
    pool(ctx)
    return ctx.finish("model_checking", {}, assumptions=[
        "data-race clause: decided by the Go race detector on the stress drivers, not by the specification"])
