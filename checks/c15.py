# C15 - the inter-node protocol is lossless and cannot be used to crash a node.
# specs: specs/wire (Wire, WireGen, WirePatterns); harness: harness/coordinator/zz_verif_wire*_test.go
#
# 1. TLC exhaustive: Wire.tla (mux header, <=3 frames per connection over every message type x length class x
#    payload class, half-close / disconnect at any time, probe connection afterwards) satisfies the C15 invariants;
#    each recorded deviation of the pinned tree / mutation idea (Dev) violates the invariant it is about.
# 2. WireGen (exhaustive BFS with the history in the state) prints every abstract connection with the reactions the
#    PROPERTY allows per frame; the Go harness renders each to bytes against a live coordinator.Service behind a
#    real tcp.Mux and judges survival, allocation, reactions, what the stub store saw, reply contents, probe.
#    A dead test binary = a panic in a handler: the connection in flight is re-run alone, bisected to the frame,
#    reported, and that frame class is left out of the rest of the run.
# 3. WirePatterns prints the partition of well-formed message values / streamed points; every pattern is round-tripped
#    (exploration level for this half, DESIGN section 6).
import json, os, random, re
from vcheck import Infra, log, VERIF

PKG = "coordinator"
FILES = ["coordinator/zz_verif_wire_test.go", "coordinator/zz_verif_wirecodec_test.go", "coordinator/zz_verif_wirereal_test.go"]
GOENV = {"GOFLAGS": "-mod=mod -exec=" + os.path.join(VERIF, "lib", "netns_exec.sh"), "GOMAXPROCS": "4"}

RAWLV = ["writeShard", "executeStatement"]
LOOP = ["taskManager", "measurementNames", "tagKeys", "tagValues", "seriesSketches", "measurementsSketches",
        "iteratorCost", "fieldDimensions", "mapType"]
ONCE = ["storeReadFilter", "storeReadGroup", "createIterator", "expandSources", "copyShard", "removeShard",
        "joinCluster", "removeHintedHandoff"]
SILENT = ["backupShard"]
BODYLESS = ["listShards", "leaveCluster"]
UNKNOWN = ["zero", "response", "max255"]
ALL = RAWLV + LOOP + ONCE + SILENT + BODYLESS + UNKNOWN

INV = ["TypeOK", "C15_NeverPanic", "C15_AllocBound", "C15_MalformedAnswered", "C15_ValidAnswered", "C15_NeverSkipped",
       "C15_ReplyWellFormed", "C15_ListenerAccepts", "C15_FreshConnAnswered", "C15_NoNilToStore"]
# deviation -> invariant it must violate (negative controls: the model can tell the pinned tree from the design)
DEVS = [("negLenPanics", "C15_NeverPanic"), ("unknownTypeSkipped", "C15_MalformedAnswered"),
        ("nilPointForwarded", "C15_NoNilToStore"), ("errReplyTruncated", "C15_ReplyWellFormed"),
        ("unsignedPanics", "C15_NeverPanic"), ("lenCheckOffByOne", "C15_AllocBound"),
        ("errClosesListener", "C15_ListenerAccepts")]


def q(xs):
    return ['"%s"' % x for x in xs]


def representatives(rnd):
    """one type per handler kind (two loop types, createIterator always): the types of the multi-frame sequences"""
    loop = rnd.sample(LOOP, 2)
    once = ["createIterator", rnd.choice([t for t in ONCE if t != "createIterator"])]
    return [rnd.choice(RAWLV)] + loop + once + SILENT + [rnd.choice(BODYLESS), rnd.choice(UNKNOWN)]


def model_checking(ctx, sd, rnd):
    ctx.write_cfg(sd, "MC.cfg", "Spec", {"Types": q(ALL), "MaxFrames": 3, "Dev": []}, INV)
    r = ctx.tlc_check(sd, "Wire", "MC.cfg", workers=4, timeout=900, coverage=not ctx.quick())
    if r.get("zero_coverage"):
        raise Infra("actions never taken in Wire: %s" % r["zero_coverage"])
    reps = representatives(random.Random(0))
    devs = DEVS if not ctx.quick() else [DEVS[(ctx.seed + i) % len(DEVS)] for i in range(2)]
    for dev, inv in devs:
        ctx.write_cfg(sd, "MCdev.cfg", "Spec", {"Types": q(reps + ["seriesSketches", "writeShard"]), "MaxFrames": 2, "Dev": q([dev])}, INV)
        r = ctx.tlc_check(sd, "Wire", "MCdev.cfg", workers=2, timeout=300, expect_ok=False)
        if not any(inv in v for v in r["violated"]):
            raise Infra("negative control: deviation %s does not violate %s (%s)" % (dev, inv, r["violated"]))
    if not ctx.quick():
        for probe in ("Probe_ErrReply", "Probe_CloseReact", "Probe_ThirdFrame", "Probe_MaxAlloc"):
            ctx.write_cfg(sd, "MCp.cfg", "Spec", {"Types": q(reps), "MaxFrames": 3, "Dev": []}, [probe])
            r = ctx.tlc_check(sd, "Wire", "MCp.cfg", workers=2, timeout=300, expect_ok=False)
            if not r["violated"]:
                raise Infra("vacuity: %s is not reachable in the model" % probe)


PAYS = ["none", "valid", "validU", "edge", "badenv", "badcontent", "short", "bare", "empty", "embedded"]


def generate(ctx, sd, rnd):
    def gen(label, types, frames, hdr=("coord",), ends=("half", "disconnect"), ftypes=None, fpays=None):
        ctx.write_cfg(sd, "G%s.cfg" % label, "GSpec",
                      {"Types": q(types), "MaxFrames": frames, "Dev": [], "GenHdr": q(hdr), "GenEnds": q(ends),
                       "FollowTypes": q(ftypes or types), "FollowPays": q(fpays or PAYS)},
                      extra="INVARIANT Emit")
        return ctx.tlc_generate(sd, "WireGen", "G%s.cfg" % label, exhaustive=True, timeout=1500, workers=4)
    reps = representatives(rnd)
    # every type x every frame class alone (all mux headers) ...
    behs = gen("all1", ALL, 1, hdr=("coord", "other", "nothing"))
    n1 = len(behs)
    if ctx.quick():
        # ... every frame of every type after which the server keeps reading, followed by one valid request
        # (a frame that was passed over instead of answered shows only when something follows it) ...
        follow = rnd.choice(["tagKeys", "measurementNames", "writeShard", "mapType"])
        more = gen("all2f", ALL, 2, ends=("half",), ftypes=[follow], fpays=["valid"])
        # ... and every connection of <=2 frames over one representative per handler kind
        more += gen("rep2", reps, 2)
        label = "every type x every frame class alone and followed by a valid %s request; <=2 frames over %s" % (follow, reps)
        exhaustive = False
    else:
        more = gen("rep3", reps, 3) + gen("all2", ALL, 2)
        label = "every type x every frame class in connections of <=2 frames; <=3 frames over %s" % reps
        exhaustive = True
    seen, out = set(), []
    for b in behs + more:
        k = json.dumps(b, sort_keys=True)
        if k not in seen:
            seen.add(k)
            out.append(b)
    for i, b in enumerate(out):
        b["id"] = i + 1
    log("connections: %d single-frame (all types), %d in total (%s)" % (n1, len(out), label))
    return out, label, exhaustive


PANIC_RE = re.compile(r"^(panic: .*|fatal error: .*)$", re.M)
FUNC_RE = re.compile(r"^github\.com/influxdata/influxdb/([\w/]+)\.((?:\(\*?\w+\)\.)?\w+)", re.M)


def panic_signature(out):
    m = PANIC_RE.search(out)
    if not m:
        return None, None
    # the panicking goroutine is printed first: a panic on the test's own goroutine is a defect of the harness
    first = out[m.end():].split("\n\ngoroutine ", 2)
    first = first[1] if len(first) > 1 else out[m.end():]
    if "testing.tRunner" in first or "[recovered]" in m.group(1):
        raise Infra("the harness itself panicked:\n%s" % out[m.start():][:3000])
    msg = re.sub(r"0x[0-9a-f]+|\d{3,}", "N", m.group(1))[:100]
    msg = re.sub(r"\*coordinator\.vw\w+", "iterator", msg)
    where = "?"
    for fm in FUNC_RE.finditer(out[m.end():]):
        if "vw" not in fm.group(2) and "Test" not in fm.group(2):
            where = fm.group(1).split("/")[-1] + "." + fm.group(2)
            break
    return "panic:%s@%s" % (msg.replace("panic: ", "").replace("fatal error: ", ""), where), m.group(1)


def frames_of(b):
    return [s for s in b["steps"] if s["a"] == "frame"]


def replay(ctx, behs, maxm1):
    """Run every connection; survive handler panics (report, skip the frame class, go on)."""
    def run(bs, label, skip=(), only=0, m1=None):
        p = ctx.write_json("wire-%s-%d.json" % (label, len(os.listdir(ctx.scratch))),
                           {"behaviours": bs, "skip": list(skip), "maxm1": maxm1 if m1 is None else m1, "onlyframes": only})
        env = dict(GOENV, VERIF_IN=p)
        if any(f["lenc"] == "maxm1" for b in bs for f in frames_of(b)):
            # a frame that announces MaxMessageSize-1 bytes makes the node allocate 1 GiB.  Touching a gigabyte of
            # fresh memory takes up to a minute in this sandbox (measured), and Go touches (zeroes) a large span only
            # when it re-uses one: with the collector off every such buffer is fresh address space that nobody
            # touches.  These connections therefore run in a binary of their own.
            env["GOGC"] = "off"
        return ctx.go_test(PKG, FILES, "^TestVerifWireReplay$", env=env, timeout=3000, label=label)

    def died(recs, out):
        return not any(r.get("k") == "done" for r in recs) and panic_signature(out)[0] is not None

    def confirm(rp):
        recs, out, rc = run([rp["behaviour"]], "confirm", m1=9)
        return died(recs, out) or any(r.get("k") == "mismatch" for r in recs)

    def digest(recs):
        for r in recs:
            if r.get("k") == "sample":
                ctx.add_sample(r.get("v"))
            if r.get("k") == "mismatch":
                if ctx.match_known(r["sig"]) is None and not ctx.replay and not confirm(r["replay"]):
                    raise Infra("mismatch %s did not reproduce when replayed alone: %s" % (r["sig"], r.get("detail")))
                ctx.report_mismatch(r["sig"], r.get("detail"), r.get("replay"))

    byid = {b["id"]: b for b in behs}
    remaining, skip, totals = list(behs), [], {}
    for rnd_no in range(10):
        recs, out, rc = run(remaining, "replay%d" % rnd_no, skip)
        infra = [r for r in recs if r.get("k") == "infra"]
        if infra:
            raise Infra("wire harness: %s" % infra[0])
        done = [r for r in recs if r.get("k") == "done"]
        if done:
            d = ctx.process(recs, out, rc, "TestVerifWireReplay", confirm)
            for k, v in d.items():
                if isinstance(v, int) and not isinstance(v, bool):
                    totals[k] = max(totals.get(k, 0), v) if k.startswith("max_") else totals.get(k, 0) + v
                elif isinstance(v, dict):
                    t = totals.setdefault(k, {})
                    for kk, vv in v.items():
                        t[kk] = t.get(kk, 0) + vv
            totals["crash_rounds"] = rnd_no
            return totals
        sig, line = panic_signature(out)
        if sig is None:
            raise Infra("driver TestVerifWireReplay died without a panic (rc=%s):\n%s" % (rc, out[-3000:]))
        fl = [r["id"] for r in recs if r.get("k") == "inflight"]
        if not fl:
            raise Infra("test binary died before the first connection:\n%s" % out[-3000:])
        case = byid[fl[-1]]
        # the binary is dead: confirm with this connection alone, then find the frame
        r2, o2, c2 = run([case], "crash-confirm", m1=9)
        if not died(r2, o2):
            raise Infra("the test binary died (%s) while connection %d was in flight, but not when it was re-run alone:\n%s"
                        % (line, case["id"], out[-3000:]))
        sig, line = panic_signature(o2)
        fr = frames_of(case)
        culprit = fr[-1] if fr else {"typ": "-", "lenc": "-", "pay": "-"}
        for k in range(1, len(fr)):
            r3, o3, c3 = run([case], "crash-bisect", only=k, m1=9)
            if died(r3, o3):
                culprit = fr[k - 1]
                break
        key = "%s:%s" % (culprit["lenc"], culprit["pay"])
        stack = o2[o2.find(line):][:1800]
        log("handler panic on frame %s/%s: %s" % (culprit["typ"], key, line))
        ctx.report_mismatch(sig, "the node process died while serving a connection whose frame %s (%s) was the last one sent:\n%s"
                            % (culprit["typ"], key, stack), {"test": "replay", "behaviour": case})
        if key in skip:
            raise Infra("frame class %s crashed the binary again although it is skipped" % key)
        skip.append(key)
        digest(recs)
        seen = set(fl)
        remaining = [b for b in remaining if b["id"] not in seen]
        for r in recs:      # counters of the part that ran are lost with the binary; count connections at least
            pass
        totals["behaviours"] = totals.get("behaviours", 0) + len(seen) - 1
    raise Infra("more than 10 distinct crash classes")


def realstore(ctx, only=None):
    """The frame classes whose effect depends on the storage layer, against a real tsdb.Store."""
    def run(label, skip=(), only=None):
        env = dict(GOENV, VERIF_SKIP=",".join(skip))
        if only:
            env["VERIF_ONLY"] = only
        return ctx.go_test(PKG, FILES, "^TestVerifWireRealStore$", env=env, timeout=900, label=label)

    def confirm(rp):
        recs, out, rc = run("real-confirm", only=rp["case"])
        return not any(r.get("k") == "done" for r in recs) or any(r.get("k") == "mismatch" for r in recs)

    skip, cases = [], 0
    for _ in range(6):
        recs, out, rc = run("realstore", skip, only)
        if any(r.get("k") == "done" for r in recs):
            d = ctx.process(recs, out, rc, "TestVerifWireRealStore", confirm)
            return cases + d.get("cases", 0)
        sig, line = panic_signature(out)
        fl = [r["id"] for r in recs if r.get("k") == "inflight"]
        if sig is None or not fl:
            raise Infra("driver TestVerifWireRealStore died without a panic (rc=%s):\n%s" % (rc, out[-3000:]))
        r2, o2, c2 = run("real-crash-confirm", only=fl[-1])
        if any(r.get("k") == "done" for r in r2):
            raise Infra("the test binary died (%s) in case %s, but not when it was re-run alone" % (line, fl[-1]))
        sig, line = panic_signature(o2)
        log("handler panic with the real store, case %s: %s" % (fl[-1], line))
        ctx.report_mismatch(sig, "the node process died serving the request of case %s against a real tsdb.Store:\n%s"
                            % (fl[-1], o2[o2.find(line):][:1800]), {"test": "realstore", "case": fl[-1]})
        for r in recs:
            if r.get("k") == "mismatch":
                ctx.report_mismatch(r["sig"], r.get("detail"), r.get("replay"))
        skip.append(fl[-1])
        cases += len(fl) - 1
        if only:
            return cases
    raise Infra("real store driver keeps dying")


def patterns(ctx, sd, rnd):
    def gen(label, spec, consts):
        ctx.write_cfg(sd, "P%s.cfg" % label, spec, consts, extra="INVARIANT Emit")
        return ctx.tlc_generate(sd, "WirePatterns", "P%s.cfg" % label, exhaustive=True, timeout=1500, workers=1)
    base = {"Full": 7, "MaxAux": 1, "Times": q(["zero", "neg", "pos", "min", "max"]), "Aggs": [0, 3],
            "Names": q(["", "cpu"]), "TagSets": q(["none", "one", "two", "emptyval"])}
    msgs = gen("m", "SpecM", base)
    if ctx.quick():
        pts = gen("p", "SpecP", dict(base, Times=q(rnd.sample(["zero", "neg", "pos", "min", "max"], 2)), Aggs=[rnd.choice([0, 3])]))
    else:
        pts = gen("p", "SpecP", base)
        pts += gen("p2", "SpecP", dict(base, MaxAux=2, Times=q(["pos"]), Aggs=[0], Names=q(["cpu"]), TagSets=q(["one"])))
    return msgs, pts


def codec(ctx, msgs, pts):
    def run(test, inp, label):
        p = ctx.write_json("codec-%s-%d.json" % (label, len(os.listdir(ctx.scratch))), inp)
        return ctx.go_test(PKG, FILES, "^%s$" % test, env=dict(GOENV, VERIF_IN=p), timeout=1500, label=label)

    def confirm_m(rp):
        recs, out, rc = run("TestVerifWireRoundTrip", {"messages": [rp["message"]]}, "confirm")
        return any(r.get("k") == "mismatch" for r in recs)

    def confirm_p(rp):
        recs, out, rc = run("TestVerifWireStream", {"points": [rp["point"]]}, "confirm")
        return any(r.get("k") == "mismatch" for r in recs)

    recs, out, rc = run("TestVerifWireRoundTrip", {"messages": msgs}, "roundtrip")
    d1 = ctx.process(recs, out, rc, "TestVerifWireRoundTrip", confirm_m)
    recs, out, rc = run("TestVerifWireStream", {"points": pts, "streams": 64}, "stream")
    d2 = ctx.process(recs, out, rc, "TestVerifWireStream", confirm_p)
    return d1, d2


def run(ctx):
    sd = ctx.spec_dir("wire")
    rnd = random.Random(ctx.seed)
    if ctx.replay:
        rp = json.load(open(ctx.replay))["replay"]
        kind = rp.get("test")
        if kind == "replay":
            replay(ctx, [dict(rp["behaviour"], id=rp["behaviour"].get("id", 1))], 9)
        elif kind == "realstore":
            realstore(ctx, only=rp["case"])
        elif kind == "roundtrip":
            codec_single(ctx, "TestVerifWireRoundTrip", {"messages": [rp["message"]]})
        elif kind == "stream":
            codec_single(ctx, "TestVerifWireStream", {"points": [rp["point"]]})
        else:
            raise Infra("unknown replay kind %r" % kind)
        return ctx.finish("model_checking", {"replayed": 1})

    model_checking(ctx, sd, rnd)
    behs, label, exhaustive = generate(ctx, sd, rnd)
    # connections with a frame that announces MaxMessageSize-1 bytes run apart (see replay.run), a seeded sample
    big = [b for b in behs if any(f["lenc"] == "maxm1" for f in frames_of(b))]
    rest = [b for b in behs if not any(f["lenc"] == "maxm1" for f in frames_of(b))]
    rnd.shuffle(big)
    nbig = ctx.pick(8, 40)
    tot = replay(ctx, rest, 0)
    tot_big = replay(ctx, big[:nbig], nbig)
    for k, v in tot_big.items():
        if isinstance(v, dict):
            for kk, vv in v.items():
                tot.setdefault(k, {})[kk] = tot.get(k, {}).get(kk, 0) + vv
        elif k.startswith("max_"):
            tot[k] = max(tot.get(k, 0), v)
        else:
            tot[k] = tot.get(k, 0) + v
    tot["skipped_maxm1_budget"] = len(big) - min(nbig, len(big))
    ctx.cov["traces_validated_against_impl"] += tot.get("behaviours", 0)
    real_cases = realstore(ctx)
    msgs, pts = patterns(ctx, sd, rnd)
    d1, d2 = codec(ctx, msgs, pts)
    # every generated connection was replayed except the sampled-out Max-1 ones: not exhaustive when any was left out
    ctx.cov["exhaustive"] = exhaustive and tot.get("skipped_maxm1_budget", 0) == 0 and tot.get("skipped_crash_class", 0) == 0
    evaluations = d1.get("patterns", 0) + d2.get("points", 0)
    extra = {
        "connections_generated": len(behs), "connections_replayed": tot.get("behaviours", 0),
        "frames_judged": tot.get("frames_judged", 0), "connections_held": tot.get("held", 0),
        "reactions_observed": tot.get("reactions", {}), "crash_rounds": tot.get("crash_rounds", 0),
        "skipped_crash_class": tot.get("skipped_crash_class", 0), "skipped_maxm1_budget": tot.get("skipped_maxm1_budget", 0),
        "max_alloc_delta_bytes": tot.get("max_alloc_delta", 0), "max_alloc_delta_bytes_maxm1_frames": tot.get("max_alloc_delta_maxm1", 0),
        "generation": label, "real_store_cases": real_cases,
        "message_patterns": d1.get("patterns", 0), "message_types": d1.get("message_types", 0),
        "message_patterns_held": d1.get("held", 0), "point_patterns": d2.get("points", 0), "point_streams": d2.get("streams", 0),
        "point_patterns_held": d2.get("held", 0),
        "mismatch_signatures": dict(tot.get("signatures", {}), **dict(d1.get("signatures", {}), **d2.get("signatures", {}))),
        # the payload half is exploration (DESIGN section 6): the keys that level asks for
        "evaluations": evaluations, "distinct_nontrivial": evaluations,
        "rule": "WirePatterns.tla enumerates, per message type of rpc.go, the subsets of optional parts present (all subsets "
                "up to 7 knobs, else none/singles/pairs/all/all-but-one) and, for streamed points, value type x nil marker x "
                "tag set x aux sequences (every type, typed nil of every type, untyped nil) x aggregate x name x time class; "
                "TLC prints each pattern once (distinct by construction); every one is instantiated, encoded, decoded and compared",
    }
    return ctx.finish("model_checking", extra, assumptions=[
        "collaborators of coordinator.Service (TSDBStore, Store, MetaClient, HintedHandoff, Server) are stubs that record what they were handed; the TaskManager is the real one",
        "MaxMessageSize convention read from ReadLV: a length >= MaxMessageSize is rejected, the largest accepted message is MaxMessageSize-1 bytes; no payload of that size is ever sent (the frame ends with the connection)",
        "allocation is watched process-wide through runtime.MemStats.TotalAlloc around each connection, with 48 MiB slack",
        "byte streams outside the enumerated frame classes (DESIGN section 6) are not explored; payload fidelity is exploration over the spec-generated partition, not model checking",
        "TLS transport, the HTTP side of the default listener and client-side decoding of hostile replies are outside"])


def codec_single(ctx, test, inp):
    p = ctx.write_json("codec-replay.json", inp)
    recs, out, rc = ctx.go_test(PKG, FILES, "^%s$" % test, env=dict(GOENV, VERIF_IN=p), timeout=600, label="replay")
    ctx.process(recs, out, rc, test, None)
