# C08 - every point is routed to exactly one, well-defined shard.
# spec: specs/routing (Routing, RoutingGen); harness: harness/coordinator/zz_verif_routing_test.go
import json, os
from vcheck import Infra, log

PKG = "coordinator"
FILES = ["coordinator/zz_verif_routing_test.go"]
TEST = "TestVerifRouting"

# Series: measurement + tags as the user gives them (any order).  The canonical key is the documented one:
# escaped measurement, then ",key=value" for the tags sorted by key (line protocol escaping of , = and space).
SERIES = [
    {"id": 1, "m": "cpu", "tags": [["region", "x"], ["host", "a"]]},
    {"id": 2, "m": "cpu", "tags": [["host", "b"], ["region", "x"]]},
    {"id": 3, "m": "mem", "tags": [["rack", "r2"], ["host", "a"], ["dc", "1"]]},
    {"id": 4, "m": "disk io", "tags": [["path", "/a b,c"], ["host", "a=1"]]},
    {"id": 5, "m": "cpu", "tags": []},
    # tag keys that are prefixes of one another, the longer key continuing with a byte below '=' (digit - . / :):
    # a comparator that looks beyond the end of the key orders them differently
    {"id": 6, "m": "net", "tags": [["host1", "b"], ["host", "a"], ["host-a", "c"]]},
    {"id": 7, "m": "cpu", "tags": [["dc.2", "y"], ["zone id", "k 1"], ["dc", "x"]]},   # + a key with an escaped character
    {"id": 8, "m": "io", "tags": [["a:c", "3"], ["a", "1"], ["a0", "4"], ["a/b", "2"]]},
]


def esc(s, measurement=False):
    out = ""
    for ch in s:
        if ch in ", " or (ch == "=" and not measurement):
            out += "\\"
        out += ch
    return out


def canonical(sr):
    return esc(sr["m"], True) + "".join(",%s=%s" % (esc(k), esc(v)) for k, v in sorted(sr["tags"]))


def fnv64a(b):
    h = 0xcbf29ce484222325
    for c in b:
        h ^= c
        h = (h * 0x100000001b3) % (1 << 64)
    return h


def hash_tables():
    codes, hm = [], {}
    for sr in SERIES:
        sr["key"] = canonical(sr)
        h = fnv64a(sr["key"].encode())
        for n in (2, 3):
            codes.append(100 * sr["id"] + 10 * n + h % n)
            hm["%d:%d" % (sr["id"], n)] = h % n
    return codes, hm


def base_consts(codes):
    return {"SDs": {2, 3}, "T": 6, "LOmag": 47, "HI": 61, "NodeCfgs": {31}, "MaxGroups": 2,
            "CreateTimes": {0, 1, 2, 3, 4, 5}, "TruncTimes": {0, 1, 2, 3, 4, 5, 6}, "MaxDel": 1, "CreateExtremes": False, "MaxBatch": 2, "MaxBatchCut": 2,
            "Series": {s["id"] for s in SERIES}, "HashCodes": set(codes), "Cuts": {2}, "Dev": []}


INV = ["TypeOK", "C08_WellDefined", "C08_CreateCovers", "C08_TagOrderIndependent", "C08_All"]


def run(ctx):
    sd = ctx.spec_dir("routing")
    codes, hm = hash_tables()
    quick = ctx.quick()

    # VERIF_SKIP_MC=1 (development aid, e.g. mutation runs on the Go code): skip the model-only TLC runs
    if not ctx.replay and not os.environ.get("VERIF_SKIP_MC"):
        # 1. the model of MapShards satisfies the property on every reachable metadata state, for every batch
        #    (TLC needs ~0.4 ms per MapShards evaluation: batches of 3 on few states, batches of 2 on more)
        c = dict(base_consts(codes), MaxDel=0, MaxBatch=3, MaxBatchCut=pick(ctx, 2, 3), CreateTimes=pick(ctx, {1, 4}, {0, 1, 2, 3, 4, 5}),
                 TruncTimes=pick(ctx, {2}, {1, 2, 4}), Cuts=pick(ctx, {2}, {1, 3}))
        ctx.write_cfg(sd, "MC3.cfg", "Spec", c, INV + pick(ctx, [], ["C08_LazyEqualsPre"]))
        ctx.tlc_check(sd, "Routing", "MC3.cfg", workers=8, timeout=2400, coverage=not quick)
        c = dict(base_consts(codes), MaxGroups=pick(ctx, 2, 3), MaxDel=0, MaxBatch=2, MaxBatchCut=2, TruncTimes=pick(ctx, {1, 2, 4}, {1, 2, 4, 5}),
                 Cuts={2})
        ctx.write_cfg(sd, "MC2.cfg", "Spec", c, INV)
        ctx.tlc_check(sd, "Routing", "MC2.cfg", workers=8, timeout=2400)
        # shards per group 1, 2, 3 (nodes x replication), extreme timestamps in the history, deleted groups
        c = dict(base_consts(codes), NodeCfgs=pick(ctx, {11, 21, 32}, {11, 21, 31, 32, 42}), MaxBatch=pick(ctx, 1, 2), MaxBatchCut=1,
                 MaxDel=pick(ctx, 0, 1), CreateTimes={1, 4}, CreateExtremes=True, TruncTimes=pick(ctx, {2}, {2, 5}), Cuts={2})
        ctx.write_cfg(sd, "MCN.cfg", "Spec", c, INV)
        ctx.tlc_check(sd, "Routing", "MCN.cfg", workers=8, timeout=2400)
        # negative controls: with the pinned code's deviations switched on the same formulas must fail
        for dev, inv in (('"truncIgnored"', "C08_DesignatedGroup"), ('"lateCutoff"', "C08_DroppedIffTooOld"))[:pick(ctx, 1, 2)]:
            c = dict(base_consts(codes), MaxDel=0, MaxBatch=2, Dev=[dev])
            ctx.write_cfg(sd, "NEG.cfg", "Spec", c, [inv])
            r = ctx.tlc_check(sd, "Routing", "NEG.cfg", workers=4, timeout=600, expect_ok=False)
            if r["ok"]:
                raise Infra("negative control: %s does not fail with Dev={%s}: the formula does not discriminate" % (inv, dev))

    # 2. scenarios -> real meta.Data + real PointsWriter.MapShards
    inp = {"T": 6, "LOmag": 47, "HI": 61, "SDs": [2, 3], "series": SERIES, "hm": hm, "workers": 6}
    if ctx.replay:
        rp = json.load(open(ctx.replay))["replay"]
        inp.update(scenarios=[rp["scenario"]], only=rp["only"])
    else:
        scen = []

        def add(behs, mb, mbc):
            for i, b in enumerate(behs):
                b["mb"], b["mbc"] = mb, mbc
                # quick tier: batches of 3 for every state that has a truncated live group (where the order of the
                # per-request list matters) and for every 4th other state; batches of 2 elsewhere
                if quick and mb == 3 and i % 4 != 0 and not any(g["tr"] and not g["del"] for g in b["groups"]):
                    b["mb"] = 2
                if quick and mbc == 2 and i % 2 != 0:
                    b["mbc"] = 1
            scen.extend(behs)
        # every metadata state reachable with <= 2 (thorough: 3) groups, one shortest history each;
        # every batch of <= 3 boundary instants in every order; every cut-off with batches of <= 2
        g = dict(base_consts(codes), MaxGroups=pick(ctx, 2, 3), GenLen=0)
        ctx.write_cfg(sd, "G1.cfg", "GSpec", g, extra="VIEW GView\nINVARIANT Emit")
        add(ctx.tlc_generate(sd, "RoutingGen", "G1.cfg", exhaustive=True, timeout=2400), 3, 2)
        # other node counts / replication factors (shards per group 1, 2, 3), extreme timestamps in the history
        g = dict(base_consts(codes), NodeCfgs=pick(ctx, {11, 21, 32}, {11, 21, 32, 42}), CreateTimes={1, 4}, CreateExtremes=True,
                 TruncTimes=pick(ctx, {2, 5}, {0, 2, 5}), GenLen=0)
        ctx.write_cfg(sd, "G2.cfg", "GSpec", g, extra="VIEW GView\nINVARIANT Emit")
        add(ctx.tlc_generate(sd, "RoutingGen", "G2.cfg", exhaustive=True, timeout=900), pick(ctx, 2, 3), pick(ctx, 1, 2))
        # longer random histories (up to 5 groups, several truncations and deletions)
        g = dict(base_consts(codes), NodeCfgs={31, 21}, MaxGroups=5, MaxDel=2, GenLen=9)
        ctx.write_cfg(sd, "G3.cfg", "GSpec", g, extra="INVARIANT Emit")
        n3 = pick(ctx, 150, 2500)
        # in simulation TLC evaluates Emit on every successor of the last state: ~10 scenarios per requested trace
        add(ctx.tlc_generate(sd, "RoutingGen", "G3.cfg", num=n3 // 6, depth=10)[:n3], 3, 2)
        ctx.cov["exhaustive"] = True
        inp["scenarios"] = scen

    def run_h(inp, label):
        p = ctx.write_json("routing-%s.json" % label, inp)
        return ctx.go_test(PKG, FILES, "^%s$" % TEST, env={"VERIF_IN": p}, timeout=2400, label=label)

    def confirm(rp):
        recs, out, rc = run_h(dict(inp, scenarios=[rp["scenario"]], only=rp["only"]), "confirm")
        return any(r.get("k") == "mismatch" for r in recs)

    recs, out, rc = run_h(inp, "replay")
    done = ctx.process(recs, out, rc, TEST, confirm)
    ctx.cov["traces_validated_against_impl"] += done.get("scenarios", 0)
    extra = {k: done.get(k, 0) for k in ("scenarios", "steps", "batches", "points", "dropped", "groups_created_by_writes",
                                         "points_beyond_truncation", "cut_cases", "tag_order_cases")}
    if not ctx.replay and not done.get("mismatches") and (extra["points_beyond_truncation"] == 0 or extra["dropped"] == 0 or extra["groups_created_by_writes"] == 0 or extra["tag_order_cases"] == 0):
        raise Infra("vacuous replay: %s" % extra)
    return ctx.finish("model_checking", extra, assumptions=[
        "the writer's MetaClient is a thin struct over a real meta.Data that performs meta.Client.CreateShardGroup's steps without the raft round trip; metadata replication is C07's subject",
        "the retention cut-off is exercised whole half-hours away from the wall clock reading inside MapShards",
        "concurrent metadata changes during one MapShards call are not modelled"])


def pick(ctx, q, t):
    return ctx.pick(q, t)
