# X02 - subscriber service: write fan-out to subscriptions (specification growth, no line in properties.jsonl).
# spec: specs/subscriber (Subscriber, SubscriberGen); harness: harness/subscriber
import json, os, re, threading
from vcheck import Infra, log

# many small JVMs run side by side: keep their GC thread pools small (the machine is shared)
os.environ.setdefault("JAVA_TOOL_OPTIONS", "-XX:ParallelGCThreads=3")

PKG = "services/subscriber"
FILES = ["subscriber/zz_verif_subscriber_test.go"]
REPLAY = "TestVerifSubscriberReplay"
STRESS = "TestVerifSubscriberStress"
PROBE = "TestVerifSubscriberProbe"

INV = ["TypeOK", "X02a_OwnRPOnly", "X02a_OfferedOnce", "X02b_All", "X02b_Any", "X02b_OrderW1", "X02c_Accounting",
       "X02c_RunNeverBlocked", "X02c_Counters", "X02c_Written", "X02d_Converged", "X02d_SubsFollowObserved",
       "X02d_NoOfferAfterClose", "X02e_NoPanic", "X02e_ClosedMeansGone", "X02e_CloseCanFinish"]


def consts(**kw):
    c = {"RPs": ['"r1"', '"r2"'], "SubNames": ['"a"'], "DefIds": [1, 2], "Bufs": [1], "Ws": [1], "MaxBatches": 2,
         "MaxChanges": 1, "MaxInc": 2, "Dev": [], "ServerOrder": True}
    c.update(kw)
    return c


def parallel(jobs):
    """Run callables in threads (each TLC run has its own metadir); re-raise the first failure."""
    res, errs = [None] * len(jobs), []
    def wrap(i, f):
        try:
            res[i] = f()
        except BaseException as e:      # noqa
            errs.append(e)
    ts = [threading.Thread(target=wrap, args=(i, f)) for i, f in enumerate(jobs)]
    for t in ts:
        t.start()
    for t in ts:
        t.join()
    if errs:
        raise errs[0]
    return res


def exhaustive(ctx, sd):
    q = ctx.quick()
    one = dict(RPs=['"r1"'], SubNames=['"a"'])
    cfgs = {
        # fan-out, buffers, destinations ok/fail/slow, Close; every initial metadata over two keys on different (D,R)
        "MCfan": consts(MaxBatches=3, MaxChanges=0, MaxInc=1, DefIds=[1, 2] if q else [1, 2, 4]),
        # two writer goroutines per subscription (shared balancewriter)
        "MCw2": consts(Ws=[2], MaxBatches=2, MaxChanges=0, MaxInc=1, DefIds=[1, 2]) if not q else
                consts(Ws=[2], MaxBatches=3, MaxChanges=0, MaxInc=1, DefIds=[1, 2], **one),
        # two subscriptions on the same (D,R), buffer 2
        "MCsame": consts(RPs=['"r1"'], SubNames=['"a"', '"b"'], Bufs=[2], MaxBatches=3, MaxChanges=0, MaxInc=1, DefIds=[2] if q else [2, 3]),
        # metadata changes against waiter / run loop / batches (create, drop, redefine, creation failure)
        "MCmeta": consts(MaxBatches=1, MaxChanges=2, MaxInc=3, DefIds=[1, 3, 5], **one) if q else
                  consts(MaxBatches=1, MaxChanges=2, MaxInc=3, DefIds=[1, 3, 5]),
        # Close against updates and batches in flight
        "MCclose": consts(MaxBatches=2, MaxChanges=1, MaxInc=2, Bufs=[2], DefIds=[2], **(one if q else {})),
    }
    if not q:
        # one subscription, four changes: every create / drop / redefine / failing-definition sequence
        cfgs["MCmeta1"] = consts(MaxBatches=1, MaxChanges=4, MaxInc=5, DefIds=[1, 3, 5], **one)
    jobs = []
    for name, c in cfgs.items():
        ctx.write_cfg(sd, name + ".cfg", "Spec", c, INV, "Bounded")
        jobs.append(lambda n=name: ctx.tlc_check(sd, "Subscriber", n + ".cfg", workers=4, timeout=ctx.pick(600, 2400),
                                                 coverage=(not q and n == "MCmeta"), heap="6g"))
    # negative controls: the code as found (one deviation each) violates the property formula on the model
    neg = {
        "NEGlate": (consts(Dev=['"lateChannel"']), "X02d_Converged"),
        "NEGkeep": (consts(Dev=['"keepOldDef"'], MaxChanges=2, MaxBatches=1), "X02d_"),
        "NEGcursor": (consts(Dev=['"sharedCursor"'], Ws=[2], MaxChanges=0), "X02b_All"),
        "NEGorder": (consts(ServerOrder=False, MaxChanges=0), "X02e_NoPanic"),
    }
    if q:
        neg = {}        # the negative controls are statements about the model only: thorough tier
    for name, (c, _) in neg.items():
        ctx.write_cfg(sd, name + ".cfg", "Spec", c, INV, "Bounded")
        jobs.append(lambda n=name: ctx.tlc_check(sd, "Subscriber", n + ".cfg", workers=2, timeout=600, expect_ok=False, heap="4g"))
    if not q:
        for probe in ("Probe_DropReachable", "Probe_AnyFailover", "Probe_Redefined", "Probe_CloseReturns", "Probe_CreateFails"):
            ctx.write_cfg(sd, probe + ".cfg", "Spec", consts(MaxChanges=2, MaxInc=3, DefIds=[2, 5], MaxBatches=2), [probe], "Bounded")
            jobs.append(lambda n=probe: ctx.tlc_check(sd, "Subscriber", n + ".cfg", workers=2, timeout=900, expect_ok=False, heap="4g"))
    res = parallel(jobs)
    names = list(cfgs) + list(neg) + ([] if q else ["Probe_DropReachable", "Probe_AnyFailover", "Probe_Redefined", "Probe_CloseReturns", "Probe_CreateFails"])
    for n, r in zip(names, res):
        if n in neg and not any(neg[n][1] in v for v in r["violated"]):
            raise Infra("negative control %s: the model of the code as found does not violate %s (%s)" % (n, neg[n][1], r["violated"]))
        if n.startswith("Probe_") and not r["violated"]:
            raise Infra("vacuity: %s is not reachable in the model" % n)
        if "zero_coverage" in r:
            # vacuity guard on the FINAL coverage report (TLC also prints interim ones in which late actions are 0)
            last = r["out"].split("The coverage statistics at")[-1]
            zero = re.findall(r"^<(\w+) line \d+, col \d+ to line \d+, col \d+ of module Subscriber>: 0:0", last, re.M)
            acts = re.findall(r"^<(\w+) line \d+, col \d+ to line \d+, col \d+ of module Subscriber>: \d+:\d+", last, re.M)
            if zero or len(acts) < 18:
                raise Infra("actions never taken in Subscriber (%s): %s (of %d actions listed)" % (n, zero, len(acts)))


def generate(ctx, sd, variant):
    dev = ['"lateChannel"'] if variant == "late" else []
    # write-concurrency and buffer size are chosen per behaviour (Init): one JVM serves several configurations
    gens = {
        "Gx": (ctx.pick(60, 240), dict(RPs=['"r1"', '"r2"'], SubNames=['"a"'], Ws=[1, 2], Bufs=[1, 2])),
        "Gy": (ctx.pick(24, 60), dict(RPs=['"r1"'], SubNames=['"a"', '"b"'], Ws=[1, 2], Bufs=[1], DefIds=[1, 2, 4])),
    }
    if not ctx.quick():
        gens["Gz"] = (100, dict(RPs=['"r1"', '"r2"'], SubNames=['"a"', '"b"'], Ws=[1, 2], Bufs=[1, 2]))
    jobs = []
    for name, (n, kw) in gens.items():
        c = consts(DefIds=[1, 2, 3, 4, 5], MaxBatches=7, MaxChanges=5, MaxInc=4, Dev=dev, GenLen=ctx.pick(18, 26), MetaEvery=4)
        c.update(kw)
        ctx.write_cfg(sd, name + ".cfg", "GSpec", c, extra="INVARIANT Emit")
        # the simulator is single-threaded: chunks of behaviours, each in its own JVM with its own seed
        k = 0
        while n > 0:
            m = min(n, ctx.pick(30, 50))
            jobs.append(lambda nm=name, m=m, k=k: ctx.tlc_generate(sd, "SubscriberGen", nm + ".cfg", num=m, depth=250,
                                                                   seed=ctx.seed + 1000 * k, timeout=ctx.pick(900, 2400))[:m])
            n -= m
            k += 1
    behs = []
    for b in parallel(jobs):
        behs += b
    return behs


def race_report(out):
    """First data race report that involves non-test code of the package -> (signature, excerpt)."""
    for rep in out.split("WARNING: DATA RACE")[1:]:
        rep = rep.split("==================")[0]
        m = re.findall(r"services/subscriber\.(\(?\*?\w+\)?\.\w+)\(\)\s*\n\s*\S*services/subscriber/(service|http|udp)\.go:(\d+)", rep)
        if m:
            fn = m[0][0].replace("(*", "").replace(")", "")
            return "race:" + fn, rep[:1800]
    return None, None


def run(ctx):
    sd = ctx.spec_dir("subscriber")

    def replay(inp, label, race=False):
        p = ctx.write_json("beh-%s.json" % label, inp)
        return ctx.go_test(PKG, FILES, "^%s$" % REPLAY, env={"VERIF_IN": p}, timeout=1500, label=label, race=race)

    def confirm(rp):
        if rp.get("test") == "stress":
            recs, out, rc = ctx.go_test(PKG, FILES, "^%s$" % STRESS, env={"VERIF_ROUNDS": ctx.pick(60, 300)}, timeout=1500, label="stress-confirm", race=True)
            return any(r.get("k") == "mismatch" for r in recs)
        recs, out, rc = replay({"variants": {rp["variant"]: [rp["behaviour"]]}}, "confirm")
        return any(r.get("k") == "mismatch" for r in recs)

    if ctx.replay:
        rp = json.load(open(ctx.replay))["replay"]
        if rp.get("test") in ("stress", "race"):
            recs, out, rc = ctx.go_test(PKG, FILES, "^%s$" % STRESS, env={"VERIF_ROUNDS": 200}, timeout=1500, label="stress-replay", race=True)
            sig, rep = race_report(out)
            if sig:
                ctx.report_mismatch(sig, rep, rp)
            ctx.process(recs, out, rc if not sig else 0, STRESS, None)
        else:
            # a behaviour can only be followed by a tree with the waiter protocol it was generated for
            recs, out, rc = replay({"variants": {rp["variant"]: [rp["behaviour"]]}}, "replay")
            d = ctx.process(recs, out, rc, REPLAY, None)
            if d.get("behaviours") == 0:
                log("replay not applicable: the behaviour was generated for the waiter protocol '%s', this tree follows '%s'" % (rp["variant"], d.get("variant")))
        return ctx.finish("model_checking", {})

    # which waiter protocol does the tree under test follow?  (the repaired one fetches the changed channel
    # before s.Update() and once in Open(); the model has both, selected by the deviation "lateChannel")
    recs, out, rc = ctx.go_test(PKG, FILES, "^%s$" % PROBE, timeout=600, label="probe")
    variant = ctx.process(recs, out, rc, PROBE).get("variant")
    if variant not in ("fixed", "late"):
        raise Infra("probe did not report the waiter variant")
    log("waiter protocol of the tree: %s" % variant)

    # 1. exhaustive runs + negative controls, 2. generation -- all TLC runs side by side
    behs = []
    cache = os.environ.get("VERIF_X02_BEHS")     # self-test convenience (mutation runs): reuse generated behaviours,
    def gen():                                   # skip the model-only part; never set in a regular run
        if cache and os.path.exists("%s.%s" % (cache, variant)):
            behs.extend(json.load(open("%s.%s" % (cache, variant))))
            return
        behs.extend(generate(ctx, sd, variant))
        if cache:
            json.dump(behs, open("%s.%s" % (cache, variant), "w"))
    if os.environ.get("VERIF_X02_SKIP_MC"):
        gen()
    else:
        parallel([lambda: exhaustive(ctx, sd), gen])
    log("behaviours generated: %d (variant %s)" % (len(behs), variant))

    # 3. replay on the real service
    recs, out, rc = replay({"variants": {variant: behs}, "max_sigs": 4}, "replay")
    done = ctx.process(recs, out, rc, REPLAY, confirm)
    ctx.cov["traces_validated_against_impl"] += done.get("held", 0)

    if not ctx.quick():
        # the same replay (a part of it) under the race detector: gated interleavings, writer goroutines, harness
        recs2, out2, rc2 = replay({"variants": {variant: behs[:200]}, "max_sigs": 4}, "replay-race", race=True)
        sig, rep = race_report(out2)
        if sig:
            ctx.report_mismatch(sig, rep, {"test": "race"})
        elif "DATA RACE" in out2:
            raise Infra("race detector report outside the package's code (harness?):\n%s" % out2[-5000:])
        else:
            ctx.process(recs2, out2, rc2, REPLAY, confirm)

    # 4. stress under the race detector
    recs, out, rc = ctx.go_test(PKG, FILES, "^%s$" % STRESS, env={"VERIF_ROUNDS": ctx.pick(60, 400)}, timeout=1500, label="stress", race=True)
    sig, rep = race_report(out)
    if sig:
        ctx.report_mismatch(sig, rep, {"test": "race"})
    elif "DATA RACE" in out:
        raise Infra("race detector report outside the package's code (harness?):\n%s" % out[-5000:])
    sdone = ctx.process(recs, out, 0 if sig and not [r for r in recs if r.get("k") == "mismatch"] else rc, STRESS, confirm)

    extra = {"waiter_variant": variant, "replayed_behaviours": done.get("behaviours", 0), "replayed_steps": done.get("steps", 0),
             "behaviours_held": done.get("held", 0), "mismatch_signatures": done.get("signatures", {}),
             "stress_rounds": sdone.get("rounds", 0), "stress_destination_calls": sdone.get("destination_calls", 0)}
    return ctx.finish("model_checking", extra, assumptions=[
        "MetaClient and destination writers are scripted fakes: the MetaClient has the semantics of meta.Client (every change closes and replaces the changed channel), a destination is whatever PointsWriter NewPointsWriter returns; the HTTP/UDP writers themselves are not exercised",
        "senders follow the protocol of coordinator.PointsWriter (non-blocking send under RLock, PointsWriter.Close before Service.Close as in cmd/influxd/run/server.go); a sender that ignores it panics on the closed channel (negative control NEGorder)",
        "the replay enumerates sequential schedules of the controllable steps; races between two automatic steps (select between s.update and s.points, Close against a waking waiter) are covered by the exhaustive model runs and by the stress driver only",
        "per-subscription order of delivery is claimed for write-concurrency 1 only (with more writer goroutines the code does not order deliveries)"])
