# C11 - query results depend only on the data and the statement.
# spec: specs/query (Query, QueryGen); harness: harness/coordinator/zz_verif_query_test.go
import copy, json, os
from vcheck import Infra, log, VERIF

PKG = "coordinator"
FILES = ["coordinator/zz_verif_query_test.go"]
TEST = "TestVerifQueryReplay"
UNIT_NS = 20 * 60 * 10**9                 # one model time unit = 20 minutes
BASE2 = 262980 * 3600 * 10**9             # 2000-01-01T12:00:00Z: a multiple of every GROUP BY interval used (and of 1 h)

INV = ["TypeOK", "C11_CountIsCardinality", "C11_OrderOfAggregates", "C11_DescIsReverse", "C11_LimitIsWindow",
       "C11_SLimitIsWindow", "C11_FillOnlyFillsGaps", "C11_MergeOK"]

# Physical layouts; the first one is the reference (single shard, everything in the cache).
#  mode cache: snapshot/compact steps of the behaviour ignored; steps: done where the model does them;
#  snapq: snapshot before every query; compacted: snapshot after every write + full compaction before every
#  query; reopen: like steps, and every store is closed and reopened (WAL replay) before every query.
#  shard_units: shard-group duration in model time units (0 = one shard).
L_CACHE = {"name": "cache", "nodes": 1, "rf": 1, "shard_dur": "168h", "index": "inmem", "mode": "cache", "shard_units": 0}
L_TSM = {"name": "tsm", "nodes": 1, "rf": 1, "shard_dur": "168h", "index": "inmem", "mode": "snapq", "shard_units": 0}
L_COMPACTED = {"name": "compacted", "nodes": 1, "rf": 1, "shard_dur": "168h", "index": "tsi1", "mode": "compacted", "shard_units": 0}
L_STEPS = {"name": "steps", "nodes": 1, "rf": 1, "shard_dur": "168h", "index": "inmem", "mode": "steps", "shard_units": 0}
L_SHARDS = {"name": "shards1h", "nodes": 1, "rf": 1, "shard_dur": "1h", "index": "inmem", "mode": "steps", "shard_units": 3}
L_SHARDS_RE = {"name": "shards1h-tsi-reopen", "nodes": 1, "rf": 1, "shard_dur": "1h", "index": "tsi1", "mode": "reopen", "shard_units": 3}
L_CLUSTER = {"name": "cluster3rf2", "nodes": 3, "rf": 2, "shard_dur": "1h", "index": "inmem", "mode": "steps", "shard_units": 3}
L_CLUSTER2 = {"name": "cluster2rf1", "nodes": 2, "rf": 1, "shard_dur": "2h", "index": "inmem", "mode": "cache", "shard_units": 6}
L_CLUSTER3 = {"name": "cluster3rf1", "nodes": 3, "rf": 1, "shard_dur": "1h", "index": "tsi1", "mode": "snapq", "shard_units": 3}
QUICK_LAYOUTS = [L_CACHE, L_TSM, L_COMPACTED, L_SHARDS, L_SHARDS_RE, L_CLUSTER]
THOROUGH_LAYOUTS = QUICK_LAYOUTS + [L_STEPS, L_CLUSTER2, L_CLUSTER3]


def mc_consts(ctx, **kw):
    c = {"SeriesIds": [1, 2], "Fields": ['"v"'], "MaxT": 3, "Vals": [1, 2], "SVals": [0, 1], "MaxBatch": 1,
         "MaxPoints": 2, "MaxFiles": 2, "Wide": False}
    c.update(kw)
    return c


def gen_consts(glen):
    return {"SeriesIds": [1, 2, 3, 4, 5], "Fields": ['"v"', '"s"'], "MaxT": 11, "Vals": [0, 1, 2, 3], "SVals": [0, 1, 2, 3],
            "MaxBatch": 6, "MaxPoints": 999, "MaxFiles": 99, "Wide": False, "GenLen": glen}


def decorate(behs, seed):
    """ids and the concrete representatives of the abstract values (field types, instant of model time 0)"""
    out = []
    for i, b in enumerate(behs):
        k = i + seed
        out.append({"id": i, "ftype": ["float", "int"][k % 2], "stype": ["string", "bool"][(k // 2) % 2],
                    "base": [0, BASE2][(k // 4) % 2], "series": b["series"], "steps": b["steps"]})
    return out


def copies(beh, n):
    out = []
    for i in range(n):
        c = copy.deepcopy(beh)
        c["id"] = 9100 + i
        out.append(c)
    return out


def run(ctx):
    # package coordinator's own tests bind a fixed port in an init function: private network namespace (see c03.py)
    goenv = {"GOFLAGS": "-mod=mod -exec=/verif/lib/netns_exec.sh"}
    layouts = ctx.pick(QUICK_LAYOUTS, THOROUGH_LAYOUTS)

    def replay(behs, label, only_step=-1, max_sigs=6, lays=None, workers=2):
        p = ctx.write_json("beh-%s.json" % label, {"behaviours": behs, "layouts": lays or layouts, "unit_ns": UNIT_NS,
                                                   "max_sigs": max_sigs, "only_step": only_step, "workers": workers})
        return ctx.go_test(PKG, FILES, "^%s$" % TEST, env=dict(goenv, VERIF_IN=p), timeout=3000, label=label)

    def confirm(rp):
        # the owner a coordinator reads a shard from is chosen at random and remote inputs arrive in scheduling
        # order: a cluster-only difference needs several attempts to show again
        recs, out, rc = replay(copies(rp["behaviour"], 10), "confirm", only_step=rp["step"], lays=THOROUGH_LAYOUTS, workers=2)
        ok = any(r.get("k") == "mismatch" for r in recs)
        if not ok:
            # not a verdict (vcheck turns it into exit 2); keep the case for diagnosis
            d = os.path.join(os.environ.get("VERIF_TMP") or "/tmp", "verif-C11-unreproduced")
            os.makedirs(d, exist_ok=True)
            f = os.path.join(d, "case-%d-%d.json" % (os.getpid(), len(os.listdir(d))))
            json.dump(rp, open(f, "w"))
            log("unreproduced mismatch kept in %s" % f)
        return ok

    if ctx.replay:
        rp = json.load(open(ctx.replay))["replay"]
        recs, out, rc = replay(copies(rp["behaviour"], 10), "replay", only_step=rp["step"], lays=THOROUGH_LAYOUTS)
        done = ctx.process(recs, out, rc, TEST, None)
        return ctx.finish("model_checking", {"replayed_behaviours": done.get("behaviours", 0)})

    sd = ctx.spec_dir("query")
    # 1. the model.  (a) Eval: every data set within the bound x every statement of the families of the sanity
    #    theorems (count = cardinality, min <= mean/median/first/last <= max, spread, sum = mean*count, DESC is the
    #    reverse, LIMIT/OFFSET and SLIMIT/SOFFSET are windows, fill only fills gaps, per-shard partial results
    #    merge to the overall result);  (b) the layout actions leave the logical data unchanged
    if not os.environ.get("C11_SKIP_MC"):
        if ctx.quick():
            # 129 data sets (2 series x 4 instants x 2 values, <= 2 points) x ~300 statements
            ctx.write_cfg(sd, "MC.cfg", "SpecData", mc_consts(ctx), INV, "Bounded")
            ctx.tlc_check(sd, "Query", "MC.cfg", workers=8, timeout=1200)
        else:
            # 577 data sets (<= 3 points) x the small families; 201 data sets (5 instants) x the wide families
            ctx.write_cfg(sd, "MC3.cfg", "SpecData", mc_consts(ctx, MaxPoints=3), INV, "Bounded")
            ctx.tlc_check(sd, "Query", "MC3.cfg", workers=8, timeout=3000)
            ctx.write_cfg(sd, "MCW.cfg", "SpecData", mc_consts(ctx, MaxT=4, Wide=True), INV, "Bounded")
            ctx.tlc_check(sd, "Query", "MCW.cfg", workers=8, timeout=3400)
        lc = dict(mc_consts(ctx), SeriesIds=[1], MaxBatch=ctx.pick(1, 2), MaxPoints=2, MaxFiles=ctx.pick(2, 3), MaxT=1, Wide=False)
        ctx.write_cfg(sd, "MCL.cfg", "Spec", lc, ["TypeOK", "C11_LayoutKeepsData"], "Bounded")
        r = ctx.tlc_check(sd, "Query", "MCL.cfg", workers=4, timeout=600, coverage=not ctx.quick())
        if r.get("zero_coverage"):
            raise Infra("actions never taken in Query: %s" % r["zero_coverage"])

    # 2. (data set, statement, Eval) triples -> every layout of the real engine / cluster
    glen = 16
    nbeh = ctx.pick(24, 470)
    ctx.write_cfg(sd, "Gen.cfg", "GSpec", gen_consts(glen), extra="INVARIANT Emit")
    behs = ctx.tlc_generate(sd, "QueryGen", "Gen.cfg", num=nbeh, depth=glen + 1, timeout=1800)[:nbeh]
    behs = decorate(behs, ctx.seed)
    # the representative of the recorded finding is always replayed
    kn = json.load(open(os.path.join(VERIF, "replays", "C11", "known-slimit-per-shard.json")))["replay"]["behaviour"]
    behs.append(dict(kn, id=len(behs)))
    pairs = sum(1 for b in behs for s in b["steps"] if s["a"] == "query")
    feats = {}
    for b in behs:
        for s in b["steps"]:
            if s["a"] != "query":
                feats["step:" + s["a"]] = feats.get("step:" + s["a"], 0) + 1
                continue
            st = s["st"]
            for k in ("fn:" + st["fn"], "field:" + st["field"], "fill:" + st["fill"], "group:%d" % len(st["group"]),
                      "desc" if st["desc"] else "asc", "limit" if st["limit"] else "nolimit", "offset" if st["offrows"] else "nooffset",
                      "slimit" if st["slimit"] else "noslimit", "pred" if st["pred"]["k"] else "nopred",
                      "time" if st["interval"] else "notime", "time-offset" if st["offset"] else "no-time-offset",
                      "result:nonempty" if s["res"] else "result:empty"):
                feats[k] = feats.get(k, 0) + 1
    if not ctx.quick():
        missing = [k for k in ["fn:" + f for f in ("raw", "count", "sum", "mean", "min", "max", "first", "last", "spread", "median")] +
                   ["fill:" + f for f in ("none", "null", "number", "previous", "linear")] +
                   ["field:both", "field:s", "desc", "limit", "offset", "slimit", "pred", "time-offset", "group:2", "step:snapshot", "step:compact"]
                   if not feats.get(k)]
        if missing:
            raise Infra("generator never produced: %s" % missing)
    log("behaviours: %d, (data set, statement) pairs: %d, layouts: %d" % (len(behs), pairs, len(layouts)))
    recs, out, rc = replay(behs, "replay", workers=3)
    done = ctx.process(recs, out, rc, TEST, confirm)
    ctx.cov["traces_validated_against_impl"] += done.get("behaviours", 0)
    extra = {k: done.get(k, 0) for k in ("behaviours", "steps", "queries", "queries_nonempty", "evaluations", "eval_equal",
                                         "layout_equal", "distinct_answers", "slimit_per_shard_deviations")}
    extra["layouts"] = [l["name"] for l in layouts]
    extra["layout_seconds"] = done.get("layout_seconds", {})
    extra["mismatch_signatures"] = done.get("signatures", {})
    extra["generated_features"] = feats
    extra["rule"] = ("a case = (write sequence with overwrites and snapshot/compact steps, statement); evaluations = answers "
                     "obtained from the real executor over all layouts and nodes; distinct_answers = distinct normalised answers of the reference layout")
    return ctx.finish("model_checking", extra, assumptions=[
        "bounded reference: <=5 series (4 of the queried measurement), 2 fields, 12 instants, values 0..3; numeric accuracy beyond 1e-9 is not judged",
        "rows of different series with the same timestamp in one result series of a raw select have no defined order: compared as multisets; LIMIT/OFFSET cutting through such a run is not generated",
        "OFFSET without LIMIT and SOFFSET without SLIMIT are documented as unsupported and not generated",
        "writes are placed on the owners chosen by the real meta.Data (CreateShardGroup, ShardFor) directly through tsdb.Shard.WritePoints; write routing is C03/C08",
        "SLIMIT/SOFFSET on data spanning several shards: recorded finding C11-slimit-per-shard (answers of such statements on multi-shard layouts are not judged further)",
    ])
