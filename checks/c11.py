# C11 - query results depend only on the data and the statement.
# spec: specs/query (Query, QueryGen); harness: harness/coordinator/zz_verif_query_test.go
import json, os, random
from vcheck import Infra, log

PKG = "coordinator"
FILES = ["coordinator/zz_verif_query_test.go"]
TEST = "TestVerifQueryReplay"
UNIT_NS = 20 * 60 * 10**9                 # one model time unit = 20 minutes
BASE2 = 262980 * 3600 * 10**9             # 2000-01-01T12:00:00Z: a multiple of every GROUP BY interval used (and of 1 h)

INV = ["TypeOK", "C11_CountIsCardinality", "C11_OrderOfAggregates", "C11_DescIsReverse", "C11_LimitIsWindow",
       "C11_SLimitIsWindow", "C11_FillOnlyFillsGaps", "C11_MergeOK"]

# physical layouts; the first one is the reference (single shard, everything in the cache)
L_CACHE = {"name": "cache", "nodes": 1, "rf": 1, "shard_dur": "168h", "index": "inmem", "mode": "cache"}
L_TSM = {"name": "tsm", "nodes": 1, "rf": 1, "shard_dur": "168h", "index": "inmem", "mode": "snapq"}
L_COMPACTED = {"name": "compacted", "nodes": 1, "rf": 1, "shard_dur": "168h", "index": "tsi1", "mode": "compacted"}
L_SHARDS = {"name": "shards1h", "nodes": 1, "rf": 1, "shard_dur": "1h", "index": "inmem", "mode": "steps"}
L_SHARDS_RE = {"name": "shards1h-tsi-reopen", "nodes": 1, "rf": 1, "shard_dur": "1h", "index": "tsi1", "mode": "reopen"}
L_CLUSTER = {"name": "cluster3rf2", "nodes": 3, "rf": 2, "shard_dur": "1h", "index": "inmem", "mode": "steps"}
L_CLUSTER2 = {"name": "cluster2rf1", "nodes": 2, "rf": 1, "shard_dur": "2h", "index": "inmem", "mode": "cache"}
L_CLUSTER3 = {"name": "cluster3rf1", "nodes": 3, "rf": 1, "shard_dur": "1h", "index": "tsi1", "mode": "snapq"}
L_STEPS = {"name": "steps", "nodes": 1, "rf": 1, "shard_dur": "168h", "index": "inmem", "mode": "steps"}
QUICK_LAYOUTS = [L_CACHE, L_TSM, L_COMPACTED, L_SHARDS, L_SHARDS_RE, L_CLUSTER]
THOROUGH_LAYOUTS = QUICK_LAYOUTS + [L_STEPS, L_CLUSTER2, L_CLUSTER3]


def mc_consts(ctx):
    return {"SeriesIds": [1, 2], "Fields": ['"v"'], "MaxT": 4, "Vals": [1, 2], "SVals": [0, 1], "MaxBatch": 1,
            "MaxPoints": ctx.pick(2, 3), "MaxFiles": 2, "Wide": not ctx.quick()}


def gen_consts(glen):
    return {"SeriesIds": [1, 2, 3, 4, 5], "Fields": ['"v"', '"s"'], "MaxT": 11, "Vals": [0, 1, 2, 3], "SVals": [0, 1, 2, 3],
            "MaxBatch": 6, "MaxPoints": 999, "MaxFiles": 99, "Wide": False, "GenLen": glen}


def decorate(behs, seed):
    """ids and the concrete representatives of the abstract values (field types, instant of model time 0)"""
    out = []
    for i, b in enumerate(behs):
        k = i + seed
        out.append({"id": i, "ftype": ["float", "int"][k % 2], "stype": ["string", "bool"][(k // 2) % 2],
                    "base": [0, BASE2][(k // 4) % 2], "series": b["series"], "steps": b["steps"]})
    return out


def run(ctx):
    goenv = {"GOFLAGS": "-mod=mod -exec=/verif/lib/netns_exec.sh"}
    layouts = ctx.pick(QUICK_LAYOUTS, THOROUGH_LAYOUTS)

    def replay(behs, label, only_step=-1, max_sigs=4, lays=None):
        p = ctx.write_json("beh-%s.json" % label, {"behaviours": behs, "layouts": lays or layouts, "unit_ns": UNIT_NS,
                                                   "max_sigs": max_sigs, "only_step": only_step})
        return ctx.go_test(PKG, FILES, "^%s$" % TEST, env=dict(goenv, VERIF_IN=p), timeout=2400, label=label)

    def confirm(rp):
        recs, out, rc = replay([rp["behaviour"]], "confirm", only_step=rp["step"], lays=THOROUGH_LAYOUTS)
        return any(r.get("k") == "mismatch" for r in recs)

    if ctx.replay:
        rp = json.load(open(ctx.replay))["replay"]
        recs, out, rc = replay([rp["behaviour"]], "replay", only_step=rp["step"], lays=THOROUGH_LAYOUTS)
        done = ctx.process(recs, out, rc, TEST, None)
        return ctx.finish("model_checking", {"replayed_behaviours": done.get("behaviours", 0)})

    sd = ctx.spec_dir("query")
    # 1. the model: every data set within the bound, every statement of the families of the sanity theorems
    if not os.environ.get("C11_DEV"):
        ctx.write_cfg(sd, "MC.cfg", "SpecData", mc_consts(ctx), INV, "Bounded")
        ctx.tlc_check(sd, "Query", "MC.cfg", workers=8, timeout=ctx.pick(600, 2400))
        #    layout actions leave the logical data unchanged
        lc = dict(mc_consts(ctx), MaxBatch=2, MaxPoints=2, MaxFiles=3, Vals=[1, 2], MaxT=1)
        ctx.write_cfg(sd, "MCL.cfg", "Spec", lc, ["TypeOK", "C11_LayoutKeepsData"], "Bounded")
        ctx.tlc_check(sd, "Query", "MCL.cfg", workers=4, timeout=600, coverage=not ctx.quick())

    # 2. (data set, statement, Eval) triples -> every layout of the real engine / cluster
    glen = 16
    nbeh = ctx.pick(24, 420)
    ctx.write_cfg(sd, "Gen.cfg", "GSpec", gen_consts(glen), extra="INVARIANT Emit")
    behs = ctx.tlc_generate(sd, "QueryGen", "Gen.cfg", num=nbeh, depth=glen + 1, timeout=1200)[:nbeh]
    behs = decorate(behs, ctx.seed)
    pairs = sum(1 for b in behs for s in b["steps"] if s["a"] == "query")
    log("behaviours: %d, (data set, statement) pairs: %d, layouts: %d" % (len(behs), pairs, len(layouts)))
    recs, out, rc = replay(behs, "replay")
    done = ctx.process(recs, out, rc, TEST, confirm)
    ctx.cov["traces_validated_against_impl"] += done.get("behaviours", 0)
    extra = {k: done.get(k, 0) for k in ("behaviours", "steps", "queries", "queries_nonempty", "evaluations", "eval_equal",
                                         "layout_equal", "distinct_answers")}
    extra["layouts"] = [l["name"] for l in layouts]
    extra["mismatch_signatures"] = done.get("signatures", {})
    return ctx.finish("model_checking", extra, assumptions=[
        "bounded reference: <=5 series, 2 fields, 12 instants, values 0..3; numeric accuracy beyond 1e-9 is not judged",
        "rows of different series with the same timestamp in one ungrouped raw result have no defined order: compared as multisets, LIMIT/OFFSET cutting through such a run is not generated",
        "writes are placed on the owners chosen by the real meta.Data (CreateShardGroup, ShardFor) directly through tsdb.Store; write routing is C03/C08",
    ])
