# X03 - write/delete guard protocol of the store (specification growth, deepens C10; no line in properties.jsonl).
# spec: specs/epoch (Epoch, EpochGen, GuardMatch); harness: harness/tsdb/zz_verif_epoch_int_test.go (package tsdb),
# harness/tsdb/zz_verif_epoch_test.go (package tsdb_test)
import json, os, random, re, threading
from vcheck import Infra, log

os.environ.setdefault("JAVA_TOOL_OPTIONS", "-XX:ParallelGCThreads=3")

PKG = "tsdb"
FILES = ["tsdb/zz_verif_epoch_int_test.go", "tsdb/zz_verif_epoch_test.go"]

INV = ["TypeOK", "X03a_NoOverlap", "X03a_AllOrNothing", "X03b_LaterWritesKept", "X03b_NoStaleGuard",
       "X03c_BlockedOnlyByMatching", "X03c_DeleterWaitsEarlierOnly", "X03c_NoDeadlock", "X03_Accounting"]
PROBES = ["Probe_WriterBlocked", "Probe_DeleterBlocked", "Probe_AllRemoved", "Probe_NoneRemoved", "Probe_PassNonMatching"]
KIND_OF_TEST = {"TestVerifEpochReplay": "REPLAY", "TestVerifGuardMatch": "MATCH", "TestVerifGuardSelection": "MATCH",
                "TestVerifEpochStoreRace": "RACE"}


def consts(**kw):
    c = {"Writers": ['"w1"', '"w2"'], "Deleters": ['"d1"', '"d2"'], "Keys": [1, 2, 3],
         "Batches": [[1, 2], [2, 3]], "Sels": [[2, 3], [1]], "Dev": []}
    c.update(kw)
    return c


def parallel(jobs):
    res, errs = [None] * len(jobs), []
    def wrap(i, f):
        try:
            res[i] = f()
        except BaseException as e:      # noqa
            errs.append(e)
    ts = [threading.Thread(target=wrap, args=(i, f)) for i, f in enumerate(jobs)]
    for t in ts:
        t.start()
    for t in ts:
        t.join()
    if errs:
        raise errs[0]
    return res


def exhaustive(ctx, sd):
    q = ctx.quick()
    cfgs = {"MC22": consts() if q else consts(Sels=[[2, 3], [3], [1]])}
    if not q:
        # three writers against two deletes; one write against three deletes
        cfgs["MC32"] = consts(Writers=['"w1"', '"w2"', '"w3"'], Keys=[1, 2], Batches=[[1, 2], [2]], Sels=[[1], [1, 2]])
        cfgs["MC13"] = consts(Writers=['"w1"'], Deleters=['"d1"', '"d2"', '"d3"'], Sels=[[2, 3], [3], [1]])
    jobs, names = [], []
    for n, c in cfgs.items():
        ctx.write_cfg(sd, n + ".cfg", "Spec", c, INV)
        jobs.append(lambda n=n: ctx.tlc_check(sd, "Epoch", n + ".cfg", workers=ctx.pick(6, 8), timeout=ctx.pick(600, 2400),
                                              coverage=(not q and n == "MC22"), heap="6g"))
        names.append(n)
    neg = {}
    if not q:
        # no waiter stays blocked forever (weak fairness per process); the model has no cycles, so this is cheap
        ctx.write_cfg(sd, "LIVE.cfg", "FairSpec", consts(), ["TypeOK"], extra="PROPERTY X03c_Terminates")
        jobs.append(lambda: ctx.tlc_check(sd, "Epoch", "LIVE.cfg", workers=2, timeout=1800, heap="6g"))
        names.append("LIVE")
        # negative controls (statements about the model): without the guard wait / the wait for earlier writes /
        # the generation test in EndWrite the property formulas fail
        neg = {"NEGmatch": ('"noMatchWait"', "X03a_"), "NEGwait": ('"noWaitWrites"', "X03a_"), "NEGdone": ('"doneAll"', "X03")}
        for n, (dev, _) in neg.items():
            ctx.write_cfg(sd, n + ".cfg", "Spec", consts(Dev=[dev]), INV)
            jobs.append(lambda n=n: ctx.tlc_check(sd, "Epoch", n + ".cfg", workers=2, timeout=600, expect_ok=False, heap="4g"))
            names.append(n)
        for p in PROBES:
            ctx.write_cfg(sd, p + ".cfg", "Spec", consts(), [p])
            jobs.append(lambda p=p: ctx.tlc_check(sd, "Epoch", p + ".cfg", workers=2, timeout=600, expect_ok=False, heap="4g"))
            names.append(p)
    res = parallel(jobs)
    for n, r in zip(names, res):
        if n in neg and not any(neg[n][1] in v for v in r["violated"]):
            raise Infra("negative control %s: the model without that step does not violate %s (%s)" % (n, neg[n][1], r["violated"]))
        if n.startswith("Probe_") and not r["violated"]:
            raise Infra("vacuity: %s is not reachable in the model" % n)
        if r.get("zero_coverage"):
            raise Infra("actions never taken in Epoch (%s): %s" % (n, r["zero_coverage"]))
    ctx.cov["exhaustive"] = True


def gen_behaviours(ctx, sd):
    gc = consts(Batches=[[1, 2], [2, 3], [3]], Sels=[[2, 3], [1], [1, 3]])
    ctx.write_cfg(sd, "Gen.cfg", "GSpec", gc, extra="INVARIANT Emit")
    n = ctx.pick(150, 1200)
    chunk = ctx.pick(75, 200)
    jobs = []
    k = 0
    while n > 0:
        m = min(n, chunk)
        jobs.append(lambda m=m, k=k: ctx.tlc_generate(sd, "EpochGen", "Gen.cfg", num=m, depth=80, seed=ctx.seed * 1000 + k, timeout=900))
        n -= m
        k += 1
    behs, seen = [], set()
    for part in parallel(jobs):
        for b in part:
            key = json.dumps(b, sort_keys=True)
            if key not in seen:
                seen.add(key)
                behs.append(b)
    if not ctx.quick():
        # three deleters / three writers as well
        gc3 = consts(Writers=['"w1"', '"w2"', '"w3"'], Deleters=['"d1"', '"d2"', '"d3"'], Batches=[[1, 2], [2, 3], [3]], Sels=[[2, 3], [1], [1, 3]])
        ctx.write_cfg(sd, "Gen3.cfg", "GSpec", gc3, extra="INVARIANT Emit")
        behs += ctx.tlc_generate(sd, "EpochGen", "Gen3.cfg", num=300, depth=120, seed=ctx.seed, timeout=900)
    for i, b in enumerate(behs):
        b["variant"] = i % 3
        b.pop("final", None)
    return behs


def gen_cases(ctx, sd):
    out = []
    jobs = []
    for fam, deep in [("A", not ctx.quick()), ("B", False)]:
        name = "GM%s.cfg" % fam
        ctx.write_cfg(sd, name, "Spec", {"Family": '"%s"' % fam, "Deep": deep}, ["X03d_EvalSane", "Emit"])
        jobs.append(lambda name=name: ctx.tlc_generate(sd, "GuardMatch", name, exhaustive=True, workers=2, timeout=1200))
    ra, rb = parallel(jobs)
    rnd = random.Random(ctx.seed)
    for fam, cases in (("A", ra), ("B", rb)):
        cases.sort(key=lambda c: json.dumps(c, sort_keys=True))
        # the real DeleteSeries is run for every atom and a seeded sample of the compound conditions (260 quick / 3000 thorough; family B: 50 / all)
        idx = list(range(len(cases)))
        rnd.shuffle(idx)
        budget = ctx.pick({"A": 260, "B": 50}[fam], {"A": 3000, "B": 10 ** 9}[fam])
        chosen = set(idx[:budget])
        for i, c in enumerate(cases):
            c["family"] = fam
            atom = c["sel"]["expr"]["t"] in ("cmp", "true", "false")
            c["real"] = (i in chosen) or (fam == "A" and atom)
            out.append(c)
    return out


def run(ctx):
    sd = ctx.spec_dir("epoch")
    rp = json.load(open(ctx.replay))["replay"] if ctx.replay else None
    kind = rp.get("test") if rp else None
    stats = {}

    # ---- behaviours on the real epochTracker/guard + X03d cases on the real guard and the real DeleteSeries
    def run_main(behs, cases, label):
        tests, env = [], {}
        if behs:
            env["VERIF_IN_REPLAY"] = ctx.write_json("beh-%s.json" % label, {"behaviours": behs})
            tests.append("EpochReplay")
        if cases:
            env["VERIF_IN_MATCH"] = ctx.write_json("cases-%s.json" % label, {"cases": cases})
            env["VERIF_MATCHES"] = os.path.join(ctx.scratch, "matches-%s.json" % label)
            tests += ["GuardMatch", "GuardSelection"]
        import copy
        c2 = copy.copy(ctx)             # own scratch: go_test derives file names from the directory listing
        c2.scratch = os.path.join(ctx.scratch, "go-" + label)
        os.makedirs(c2.scratch, exist_ok=True)
        return c2.go_test(PKG, FILES, "^TestVerif(%s)$" % "|".join(tests), env=env, timeout=ctx.pick(900, 3000), label=label)

    def confirm(r):
        if r.get("test") == "REPLAY":
            recs, out, rc = run_main([r["behaviour"]], [], "confirm")
        else:
            recs, out, rc = run_main([], [dict(r["case"], real=True)], "confirm")
        return any(x.get("k") == "mismatch" and not x["sig"].startswith("note:") for x in recs)

    def split(recs, test, first):
        """records of one of the tests that ran in the same binary: its done record, the mismatches of its kind
        (those of GuardSelection are digested together with GuardMatch's), samples with the first test"""
        knd = KIND_OF_TEST[test]
        keep = []
        for x in recs:
            if x.get("k") == "done":
                if x.get("test") == test:
                    keep.append(x)
            elif x.get("k") == "mismatch":
                t = (x.get("replay") or {}).get("test", "MATCH")
                if t == knd and test != "TestVerifGuardSelection":
                    keep.append(x)
            elif first:
                keep.append(x)
        return keep

    def run_and_digest(behs, cases):
        if not behs and not cases:
            return
        recs, out, rc = run_main(behs, cases, "main")
        if behs:
            d = ctx.process(split(recs, "TestVerifEpochReplay", True), out, rc, "TestVerifEpochReplay", confirm)
            stats["replay"] = d
            ctx.cov["traces_validated_against_impl"] += d.get("behaviours", 0)
        if cases:
            d = ctx.process(split(recs, "TestVerifGuardMatch", not behs), out, rc, "TestVerifGuardMatch", confirm)
            stats["match"] = d
            stats["selection"] = ctx.process(split(recs, "TestVerifGuardSelection", False), out, rc, "TestVerifGuardSelection", None)
            ctx.cov["traces_validated_against_impl"] += d.get("cases", 0)

    def main_part():
        r = parallel([lambda: gen_behaviours(ctx, sd), lambda: gen_cases(ctx, sd)])
        run_and_digest(r[0], r[1])

    # ---- store-level race under the race detector, inmem and tsi1 (runs beside everything else)
    def race(index):
        import copy
        c2 = copy.copy(ctx)
        c2.scratch = os.path.join(ctx.scratch, "race-" + index)
        os.makedirs(c2.scratch, exist_ok=True)
        env = {"VERIF_INDEX": index, "VERIF_ROUNDS": ctx.pick(30, 300)}
        if kind == "RACE":
            if rp.get("round"):
                env["VERIF_IN_RACE"] = c2.write_json("round.json", {"round": rp["round"]})
            env["VERIF_ROUNDS"] = 200
            if rp.get("force_pred"):
                env["VERIF_FORCE_PRED"] = rp["force_pred"]
        return c2.go_test(PKG, FILES, "^TestVerifEpochStoreRace$", env=env, timeout=ctx.pick(900, 3000), race=True, label="race-" + index)

    def races():
        idxs = [rp.get("index", "inmem")] if kind == "RACE" else ["inmem", "tsi1"]
        res = parallel([lambda i=i: race(i) for i in idxs])
        for index, (recs, out, rc) in zip(idxs, res):
            raced = False
            for blk in out.split("WARNING: DATA RACE")[1:6]:
                blk = blk.split("==================")[0]
                # the two conflicting accesses: first frame below "Write at / Read at / Previous write at / Previous read at"
                tops = re.findall(r"(?:[Ww]rite|[Rr]ead) at 0x[0-9a-f]+ by [^\n]*\n\s+(\S+)\(", blk)
                tops = sorted({t.split("/")[-1] for t in tops[:2]})
                if not tops or not any("tsdb" in t or "tsi1" in t or "inmem" in t or "tsm1" in t for t in tops):
                    continue
                raced = True
                # history class: does a write take part, or are these two deletes overlapping on the shard?
                if "WritePoints" in blk or "WriteToShard" in blk:
                    cls = "write:"
                elif "DeleteSeriesRange" in blk or "DeleteMeasurement" in blk:
                    cls = "delete-delete:"
                else:
                    cls = ""
                ctx.report_mismatch("race:" + cls + "+".join(tops), "race detector report in the store race driver (index %s):\nWARNING: DATA RACE%s" % (index, blk[:2500]),
                                    {"test": "RACE", "index": index, "round": None})
            if raced and rc != 0 and any(x.get("k") == "done" for x in recs):
                rc = 0          # the detector's report is what made the test binary fail; the driver itself completed
            d = ctx.process(recs, out, rc, "TestVerifEpochStoreRace", None)
            stats["race-" + index] = d
            ctx.cov["traces_validated_against_impl"] += d.get("rounds", 0)

    if not ctx.replay:
        parallel([lambda: exhaustive(ctx, sd), main_part, races])
    elif kind == "REPLAY":
        run_and_digest([rp["behaviour"]], [])
    elif kind == "MATCH":
        run_and_digest([], [dict(rp["case"], real=True)])
    elif kind == "RACE":
        races()
    else:
        raise Infra("unknown replay kind %r" % kind)

    extra = {
        "behaviours_replayed": stats.get("replay", {}).get("behaviours", 0),
        "replay_steps": stats.get("replay", {}).get("steps", 0),
        "blocked_observations": stats.get("replay", {}).get("blocked_observations", 0),
        "guard_match": {k: v for k, v in stats.get("match", {}).items() if k not in ("k", "test")},
        "guard_selection_real_delete": {k: v for k, v in stats.get("selection", {}).items() if k not in ("k", "test")},
        "store_race": {k: {a: b for a, b in v.items() if a not in ("k", "test")} for k, v in stats.items() if k.startswith("race-")},
    }
    return ctx.finish("model_checking", extra, assumptions=[
        "Epoch.tla: one write per writer, one delete per deleter, 2-3 of each, batches/selections over 3 keys; engine write and engine delete are one step per key",
        "replay covers the call sequences of WriteToShardWithContext and DeleteSeries/DeleteMeasurement copied into the harness goroutines; the store's own glue is exercised by the store-level race driver only (real scheduling, no gates)",
        "GuardMatch.tla: tag predicates over two tag keys, measurement names, five regular expressions, equality of two tags, up to one AND/OR (two in the thorough tier); missing tag = empty string as in the index (confirmed per case by the real DeleteSeries)",
    ])
