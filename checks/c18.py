# C18 - backup, restore and shard copy reproduce the shard exactly.
# spec: specs/copyshard (CopyShard, CopyShardGen); harness: harness/tsdb/zz_verif_backup_test.go (store level),
# harness/meta/zz_verif_copyshard_test.go (meta handler -> coordinator services -> stores over loopback),
# shared code harness/c18kit (overlay-only package pkg/verifx/c18kit).
import json, random, collections
from vcheck import Infra, log

KIT = {"pkg/verifx/c18kit": ["c18kit/kit.go"]}
TSDB_FILES = ["tsdb/zz_verif_backup_test.go"]
META_FILES = ["meta/zz_verif_copyshard_test.go"]
ALL_CUTS = ['"beforeFirst"', '"midFile"', '"boundary"', '"beforeTrailer"']
INV = ["TypeOK", "C18_CopyEqualsSomeStateInWindow", "C18_FailedCopyNotAdvertised"]
PROPS = "PROPERTIES C18_SourceUnchanged C18_OwnerOnlyAfterOk C18_FailedRestoreLeavesDest"


def consts(**kw):
    c = {"NP": 2, "Vals": {1, 2}, "MaxPrep": 4, "MaxMid": 0, "MaxRace": 1, "MaxBackups": 1, "MaxFiles": 3,
         "Cuts": ALL_CUTS, "Missing": True, "Modes": ['"restore"', '"import"'], "SnapFails": ['"disabled"', '"io"'], "Dev": []}
    c.update(kw)
    return c


def classify(b):
    """Content class of the source at the first backup, fault, restore mode, and flags of a scenario."""
    cls, cut, mode, race, comp, rounds, since = None, "none", "", 0, False, 0, 0
    for i, s in enumerate(b):
        a = s["a"]
        if a == "SrcMissing" and cls is None:
            cls, cut = "missing", "missing"
        if a == "BackupBeginFail" and cut == "none":
            cut = "snapfail-" + s["x"]
        if a in ("BackupBegin", "BackupBeginFail"):
            rounds += 1
            if s["v"] > 0:
                since = 1
            if cls is None:
                p = b[i - 1]["st"] if i > 0 else None
                files = p["files"]
                tomb = any(f["tomb"] for f in files)
                if p["snapOn"]:
                    cls = "inflight"
                elif not files and p["cacheEmpty"]:
                    cls = "empty"
                elif not files:
                    cls = "cache"
                elif tomb:
                    cls = "tomb" if p["cacheEmpty"] else "tomb+cache"
                else:
                    cls = "files" if p["cacheEmpty"] else "mixed"
                comp = any(f["s"] > 1 for f in files)
        if a == "ConnCut" and cut == "none":
            cut = s["x"]
        if a in ("Write", "Snapshot") and i > 0 and b[i - 1]["st"]["pc"] == "stream":
            race += 1
        if a == "DestRestore" and not mode:
            mode = s["x"]
    return (cls, cut, mode, "race" if race else "", "comp" if comp else "", rounds, since)


def select(behs, per, rnd, cap):
    """Stratified choice: at most `per` scenarios of each (class, fault, mode, race, compacted, rounds, since)."""
    groups = collections.defaultdict(list)
    for b in behs:
        groups[classify(b)].append(b)
    out = []
    for k in sorted(groups, key=str):
        g = groups[k]
        rnd.shuffle(g)
        n = per
        if k[0] == "inflight":
            n = 1      # every such backup sleeps > 1 s inside CreateSnapshot's retry loop
        out += g[:n]
    rnd.shuffle(out)
    out.sort(key=lambda b: classify(b)[0] == "inflight")
    return out[:cap], {str(k): len(v) for k, v in groups.items()}


def model_checks(ctx, sd):
    q = ctx.quick()
    # 1. repaired design (Dev = {}): one full copy with every fault; restore and import
    ctx.write_cfg(sd, "MC1.cfg", "Spec", consts(NP=ctx.pick(2, 3), MaxPrep=5, MaxFiles=4, MaxRace=ctx.pick(1, 2)), INV, "Bounded", PROPS)
    r = ctx.tlc_check(sd, "CopyShard", "MC1.cfg", workers=8, timeout=ctx.pick(600, 1500), coverage=not q)
    if not q and r.get("zero_coverage"):
        raise Infra("actions never taken in CopyShard: %s" % r["zero_coverage"])
    # 2. chain of two backups over one destination (second one full or time-bounded)
    ctx.write_cfg(sd, "MC2.cfg", "Spec",
                  consts(MaxPrep=ctx.pick(2, 3), MaxMid=ctx.pick(2, 3), MaxRace=0, MaxBackups=2, Cuts=['"boundary"'], Missing=False,
                         Modes=['"restore"']), INV, "Bounded", PROPS)
    ctx.tlc_check(sd, "CopyShard", "MC2.cfg", workers=8, timeout=ctx.pick(600, 1500))
    # 3. negative controls: each deviation of the code as found violates its property in the model
    for dev, inv in (("eofOk", "C18_CopyEqualsSomeStateInWindow"), ("noTomb", "C18_CopyEqualsSomeStateInWindow"),
                     ("skipCache", "C18_CopyEqualsSomeStateInWindow"), ("snapFailOk", "C18_CopyEqualsSomeStateInWindow")):
        ctx.write_cfg(sd, "MCd.cfg", "Spec", consts(MaxPrep=3, MaxRace=0, Dev=['"%s"' % dev], Modes=['"restore"']), INV, "Bounded")
        r = ctx.tlc_check(sd, "CopyShard", "MCd.cfg", workers=4, timeout=600, expect_ok=False)
        if not any(inv in v for v in r["violated"]):
            raise Infra("negative control: deviation %s does not violate %s in the model: %s" % (dev, inv, r["violated"]))
    ctx.write_cfg(sd, "MCd.cfg", "Spec", consts(MaxPrep=2, MaxRace=0, Dev=['"eofOk"'], Modes=['"restore"']), ["C18_FailedCopyNotAdvertised"], "Bounded")
    r = ctx.tlc_check(sd, "CopyShard", "MCd.cfg", workers=4, timeout=600, expect_ok=False)
    if not r["violated"]:
        raise Infra("negative control: eofOk does not violate C18_FailedCopyNotAdvertised")
    if not q:
        for probe, kw in (("Probe_OwnerAdded", {}), ("Probe_TombShipped", {}), ("Probe_RaceWindow", {}), ("Probe_CutFailed", {}), ("Probe_SnapFailRefused", {}),
                          ("Probe_ChainRound2", dict(MaxPrep=2, MaxMid=2, MaxBackups=2, MaxRace=0, Cuts=[], Missing=False, Modes=['"restore"']))):
            ctx.write_cfg(sd, "MCp.cfg", "Spec", consts(MaxPrep=3, **kw) if "MaxPrep" not in kw else consts(**kw), [probe], "Bounded")
            r = ctx.tlc_check(sd, "CopyShard", "MCp.cfg", workers=4, timeout=600, expect_ok=False)
            if not r["violated"]:
                raise Infra("vacuity: %s is not reachable in the model" % probe)


def generate(ctx, sd, focus, num, **kw):
    c = consts(NP=3, MaxPrep=5, MaxMid=3, MaxRace=2, MaxFiles=4, Dev=['"eofOk"', '"noTomb"', '"skipCache"'],
               GenMax=60, GenFocus='"%s"' % focus, GenReqAt=[0])
    c.update(kw)
    name = "G%s%d%d.cfg" % (focus, c["MaxPrep"], c["MaxBackups"])
    ctx.write_cfg(sd, name, "GSpec", c, extra="INVARIANT Emit")
    return ctx.tlc_generate(sd, "CopyShardGen", name, num=num, depth=61, timeout=900)


def run(ctx):
    rnd = random.Random(ctx.seed)
    sd = ctx.spec_dir("copyshard")
    indexes = ["inmem", "tsi1"]

    def store_replay(behs, label, **kw):
        inp = {"behaviours": behs, "indexes": kw.get("indexes", indexes), "workers": 6, "max_sigs": 2,
               "dest_default_planner": kw.get("dest_plan", False), "race_rounds": ctx.pick(8, 40)}
        p = ctx.write_json("store-%s.json" % label, inp)
        return ctx.go_test("tsdb", TSDB_FILES, "^%s$" % kw.get("test", "TestVerifBackupReplay"), env={"VERIF_IN": p},
                           timeout=1500, label=label, extra_pkgs=KIT)

    def batch_confirm(recs, runner):
        """Re-run every scenario that produced an unknown mismatch, all in one go test run; return the signatures that
        reproduced.  (One confirmation run per signature would cost a build + start each.)"""
        todo, seen = [], set()
        for r in recs:
            if r.get("k") == "mismatch" and not r["sig"].startswith("note:") and ctx.match_known(r["sig"]) is None \
                    and r["sig"] not in seen and (r.get("replay") or {}).get("behaviour"):
                seen.add(r["sig"])
                todo.append(r["replay"]["behaviour"])
        if not todo:
            return set()
        recs2, out2, rc2 = runner(todo)
        return {r["sig"] for r in recs2 if r.get("k") == "mismatch"}

    def need_done(done, out, test):
        # vcheck.process accepts a driver that stopped early when it left a mismatch record - also a known one.  A driver
        # that could not drive its scenarios and found nothing new must not pass for "held".
        if not done and not ctx.violations:
            raise Infra("driver %s did not complete:\n%s" % (test, out[-3000:]))

    def net_replay(behs, label, rst=False, index="inmem"):
        p = ctx.write_json("net-%s.json" % label, {"behaviours": behs, "index": index, "max_sigs": 2, "rst": rst})
        return ctx.go_test("services/meta", META_FILES, "^TestVerifCopyShardNet$", env={"VERIF_IN": p}, timeout=1500,
                           label=label, extra_pkgs=KIT)

    if ctx.replay:
        rp = json.load(open(ctx.replay))["replay"]
        if rp.get("test") == "net":
            recs, out, rc = net_replay([rp["behaviour"]], "replay-net", rst=rp.get("rst", False), index=rp.get("index", "inmem"))
            ctx.process(recs, out, rc, "TestVerifCopyShardNet", None)
        elif rp.get("test") == "store":
            recs, out, rc = store_replay([rp["behaviour"]], "replay", indexes=[rp["index"]])
            ctx.process(recs, out, rc, "TestVerifBackupReplay", None)
        if rp.get("test") == "race":
            recs, out, rc = store_replay([], "replay-race", test="TestVerifBackupRace", indexes=[rp["index"]])
            ctx.process(recs, out, rc, "TestVerifBackupRace", None)
        return ctx.finish("model_checking", {})

    model_checks(ctx, sd)

    # scenarios: plain backup/restore (races, chain of two backups) and copies with faults
    per = ctx.pick(2, 12)
    store, stats = [], {}
    n = ctx.pick(400, 1200)
    # quick: one run whose preparation phase has 5 (6) or 2 (3) steps; thorough: lengths 2, 4 and 6
    for mp in ctx.pick((5 + ctx.seed % 2,), (2, 4, 6)):
        store += generate(ctx, sd, "store", n, MaxPrep=mp, Cuts=[], Missing=False, GenReqAt=ctx.pick([0, 3], [0]))
    for mp in ctx.pick((3,), (2, 4)):
        store += generate(ctx, sd, "store", n, MaxPrep=mp, MaxBackups=2, Cuts=[], Missing=False, Modes=['"restore"'], MaxRace=1)
    copy = []
    for mp in ctx.pick((4 + ctx.seed % 2,), (2, 4, 6)):
        copy += generate(ctx, sd, "copy", n + n // 2, MaxPrep=mp, MaxRace=0, Missing=False, GenReqAt=ctx.pick([0, 2], [0]))
    copy += generate(ctx, sd, "copy", 20, MaxPrep=1, MaxRace=0, Missing=True)
    sel_store, st1 = select(store, per, rnd, ctx.pick(90, 600))
    sel_copy, st2 = select(copy, per, rnd, ctx.pick(90, 600))
    log("scenarios: store %d generated / %d replayed, copy %d generated / %d replayed" % (len(store), len(sel_store), len(copy), len(sel_copy)))
    need = {"cache", "files", "mixed", "tomb", "tomb+cache", "empty", "inflight"}
    have = {classify(b)[0] for b in sel_store}
    if need - have:
        raise Infra("generated scenarios miss content classes %s" % sorted(need - have))
    havecut = {classify(b)[1] for b in sel_copy}
    if {"beforeFirst", "midFile", "boundary", "beforeTrailer", "missing", "none", "snapfail-disabled", "snapfail-io"} - havecut:
        raise Infra("generated scenarios miss faults: have %s" % sorted(havecut))

    recs, out, rc = store_replay(sel_store + sel_copy, "replay")
    ok = batch_confirm(recs, lambda behs: store_replay(behs, "confirm"))
    done = ctx.process(recs, out, rc, "TestVerifBackupReplay", lambda rp: rp.get("sig") in ok)
    need_done(done, out, "TestVerifBackupReplay")
    ctx.cov["traces_validated_against_impl"] += done.get("behaviours", 0)
    recs, out, rc = store_replay([], "race", test="TestVerifBackupRace")
    # schedule dependent; the oracle is a set of prefixes and cannot misfire, so a mismatch is reported as found
    done_r = ctx.process(recs, out, rc, "TestVerifBackupRace", lambda rp: True)
    # the same copy scenarios end to end: meta handler -> rpc client -> coordinator services -> stores, connection cut
    # by a net.Conn wrapper on the source node (clean close; thorough: also with a reset, and on tsi1)
    net = [b for b in sel_copy if classify(b)[2] == "restore"]
    recs, out, rc = net_replay(net, "net")
    ok = batch_confirm(recs, lambda behs: net_replay(behs, "confirm-net"))
    done_n = ctx.process(recs, out, rc, "TestVerifCopyShardNet", lambda rp: rp.get("sig") in ok)
    need_done(done_n, out, "TestVerifCopyShardNet")
    ctx.cov["traces_validated_against_impl"] += done_n.get("completed", 0)
    if done_n and done_n.get("cuts_done", 0) == 0:
        raise Infra("network replay: no connection was cut")
    if not ctx.quick():
        recs, out, rc = net_replay(net, "net-rst", rst=True, index="tsi1")
        ok = batch_confirm(recs, lambda behs: net_replay(behs, "confirm-net-rst", rst=True, index="tsi1"))
        done_n2 = ctx.process(recs, out, rc, "TestVerifCopyShardNet", lambda rp: rp.get("sig") in ok)
        ctx.cov["traces_validated_against_impl"] += done_n2.get("completed", 0)
    extra_net = {k: done_n.get(k) for k in ("behaviours", "completed", "copies", "http_ok", "http_failed", "advertised", "held", "cuts_done",
                                            "classes", "cuts", "source_tmp_leftovers", "snapshot_faults", "signatures")}
    extra = {"network_level": extra_net,
             "store_level": {k: done.get(k) for k in ("behaviours", "steps", "backups", "restores", "restores_ok", "restores_failed",
                                                      "judged", "not_judged", "held", "race_writes", "cuts", "reopens", "source_reopens", "snapshot_faults",
                                                      "snapshot_faults_backup_went_on", "classes", "signatures")},
             "race_rounds": done_r.get("rounds", 0), "race_distinct_prefixes": done_r.get("distinct_prefixes", 0),
             "generated": {"store": len(store), "copy": len(copy)}}
    return ctx.finish("model_checking", extra, assumptions=[
        "a point of the model is one series at one timestamp with a float and an integer field; values are small integers",
        "file modification times are set by the harness from the model clock, so a time-bounded backup is decided by SinceFilterTarFile's comparison alone",
        "the in-flight cache snapshot is produced with the exported calls WriteSnapshot itself makes (Cache.Snapshot ... FileStore.Replace, ClearSnapshot)",
        "a chain of backups over one destination is claimed only while no compaction ran at the source after the first backup (Restore never removes files)"])
