# Shared orchestration for C01 and C10: spec specs/tsmengine (TSMEngine, TSMEngineGen),
# harness harness/tsm1/zz_verif_engine_test.go (package tsm1, real tsdb.Store on a scratch directory).
import json, os, shutil, tempfile, random, glob
from concurrent.futures import ThreadPoolExecutor
from vcheck import Infra, log

PKG = "tsdb/engine/tsm1"
FILES = ["tsm1/zz_verif_engine_test.go"]
TEST = "TestVerifTSMEngineReplay"

INV_C01 = ["TypeOK", "C01_Durable", "C01_TornTailOnlyUnacked", "C10_NoResurrection", "C10_LaterWritesKept"]
INV_C10 = ["TypeOK", "C10_ExactRange", "C10_NoResurrection", "C10_LaterWritesKept", "C10_ListedIffHasPoints", "C01_Durable"]

ALL_ACTS = ['"write"', '"snapshot"', '"gate"', '"compact"', '"delete"', '"reopen"', '"crash"']


def q(*xs):
    return {'"%s"' % x for x in xs}


def mc_consts(keys=("a1", "b1"), times=(0, 1), w=3, batch=1, snap=1, comp=0, dele=0, crash=2, dev=(), roll=0):
    return {"Keys": q(*keys), "Times": set(times), "MaxWrites": w, "MaxBatch": batch, "MaxSnap": snap,
            "MaxCompact": comp, "MaxDelete": dele, "MaxCrash": crash, "Dev": q(*dev), "MaxRoll": roll}


def mc(ctx, sd, name, consts, invs, timeout=1500, workers=8):
    ctx.write_cfg(sd, name + ".cfg", "Spec", consts, invs, "Bounded")
    res = ctx.tlc_check(sd, "TSMEngine", name + ".cfg", workers=workers, timeout=timeout, coverage=not ctx.quick())
    log("  TLC %s: %d distinct states, %d generated, %.1fs" % (name, res["distinct"], res["generated"], res["wall_s"]))
    if not ctx.quick():
        # vacuity guard: every process of the configuration must have moved (bounds > 0 => its actions are covered)
        zero = [z for z in res.get("zero_coverage", []) if z.split("@")[0] in expected_procs(consts)]
        if zero:
            raise Infra("zero-coverage actions in %s: %s" % (name, zero))
    return res


def expected_procs(c):
    p = {"Writer", "Faults"} if c["MaxCrash"] > 0 else {"Writer"}
    if c["MaxSnap"] > 0: p.add("Snapshotter")
    if c["MaxCompact"] > 0: p.add("CompactorP")
    if c["MaxDelete"] > 0: p.add("Deleter")
    return p


def run_parallel(jobs, max_workers=3):
    """jobs: list of zero-argument callables (TLC runs); the machine is shared, wall-clock matters more than CPU."""
    with ThreadPoolExecutor(max_workers=max_workers) as ex:
        futs = [ex.submit(j) for j in jobs]
        return [f.result() for f in futs]


def negative_control(ctx, sd, name, consts, inv):
    """With the deviation enabled the model must be able to break the property; otherwise the
    configuration is vacuous (the deviation or the invariant lost its teeth): check broken."""
    ctx.write_cfg(sd, name + ".cfg", "Spec", consts, [inv], "Bounded")
    res = ctx.tlc_check(sd, "TSMEngine", name + ".cfg", workers=4, timeout=600, expect_ok=False)
    if res["ok"] or not any(inv in v for v in res["violated"]):
        raise Infra("negative control %s: TLC did not find the expected violation of %s" % (name, inv))
    log("  TLC %s: deviation reproduces as a violation of %s (expected)" % (name, inv))
    return res


ALL_CRASH = ("idle", "write", "snapshot", "compact", "delete", "restart")


def gen_consts(acts, w=6, batch=2, snap=3, comp=2, dele=2, crash=3, genlen=12, dev=("F14",), crash_in=ALL_CRASH, roll=2, keys=("a1", "a2", "b1"), times=(0, 1, 2)):
    return {"Keys": q(*keys), "Times": set(times), "MaxWrites": w, "MaxBatch": batch, "MaxSnap": snap,
            "MaxCompact": comp, "MaxDelete": dele, "MaxCrash": crash, "Dev": q(*dev), "MaxRoll": roll, "GenLen": genlen,
            "Acts": q(*acts), "CrashIn": q(*crash_in)}


def generate(ctx, sd, name, consts, num, variants=3, seed=None):
    """Simulation prints, for every random trace, one behaviour per successor of its last-but-one state.
    Keep at most `variants` of those per trace (they share GenLen-1 steps), preferring different actions."""
    ctx.write_cfg(sd, name + ".cfg", "GSpec", consts, extra="INVARIANT Emit")
    gl = consts["GenLen"]
    behs = ctx.tlc_generate(sd, "TSMEngineGen", name + ".cfg", num=num, depth=gl + 1, timeout=600, seed=seed)
    rnd = random.Random(ctx.seed)
    groups = {}
    for b in behs:
        key = json.dumps(b[:-1], sort_keys=True)
        groups.setdefault(key, []).append(b)
    out = []
    for key in sorted(groups):
        g = groups[key]
        rnd.shuffle(g)
        seen, picked = set(), []
        for b in g:                      # first one of every (action, in, stage/how) class
            cls = (b[-1]["a"], b[-1].get("in"), b[-1].get("stage"), b[-1].get("how"))
            if cls not in seen:
                seen.add(cls)
                picked.append(b)
        out += picked[:variants]
    log("  generated %s: %d traces -> %d behaviours (of %d printed)" % (name, len(groups), len(out), len(behs)))
    return out


def stats(behs):
    acts = {}
    f1 = f14 = 0
    for b in behs:
        for s in b:
            k = s["a"] + ("/" + s["in"] if s.get("in") else "") + ("/" + (s.get("stage") or s.get("how")) if (s.get("stage") or s.get("how")) else "")
            acts[k] = acts.get(k, 0) + 1
        if has_f1_history(b):
            f1 += 1
        if has_f14_window(b):
            f14 += 1
    return acts, f1, f14


SCEN = "TestVerifTSMEngineScenarios"


def replay(ctx, behs, label, workers=8, timeout=1500, scenarios=False):
    fast = None
    env = {}
    if os.path.isdir("/dev/shm") and os.access("/dev/shm", os.W_OK):
        fast = tempfile.mkdtemp(prefix="verif-%s-" % ctx.prop, dir="/dev/shm")   # tmpfs: fsync is free, images are small
        env["VERIF_FAST_SCRATCH"] = fast
    try:
        p = ctx.write_json("beh-%s.json" % label, {"consts": {"MaxT": 2}, "behaviours": behs, "workers": workers})
        env["VERIF_IN"] = p
        rx = "^(%s|%s)$" % (TEST, SCEN) if scenarios else "^%s$" % TEST      # one build + one process for both
        return ctx.go_test(PKG, FILES, rx, env=env, timeout=timeout, label=label)
    finally:
        if fast:
            shutil.rmtree(fast, ignore_errors=True)


def replay_and_judge(ctx, behs, label, scenarios=False):
    def confirm(rp):
        if "scenario" in rp:
            recs, out, rc = ctx.go_test(PKG, FILES, "^%s$" % SCEN, env={}, timeout=600, label="confirm-scenario")
        else:
            recs, out, rc = replay(ctx, [rp["behaviour"]], "confirm", workers=1, timeout=600)
        return any(r.get("k") == "mismatch" for r in recs)
    recs, out, rc = replay(ctx, behs, label, scenarios=scenarios)
    done = ctx.process(recs, out, rc, TEST, confirm)
    ctx.cov["traces_validated_against_impl"] += done.get("behaviours", 0)
    if scenarios:
        sc = [r for r in recs if r.get("k") == "done" and r.get("test") == SCEN]
        if not sc and not any(r.get("k") == "mismatch" and str(r.get("sig", "")).startswith("scenario:") for r in recs):
            raise Infra("driver %s did not complete:\n%s" % (SCEN, out[-3000:]))
        done["scenarios"] = sc[0].get("scenarios", 0) if sc else 1
    return done


def need_hooks(ctx):
    p = os.path.join(ctx.repo, "tsdb/engine/tsm1/wal.go")
    if "verifhook" not in open(p).read():
        raise Infra("the tsm1 verif hooks are not in %s (apply /verif/patches/C01/0[1-3]-hook-*.diff, or run with "
                    "VERIF_REPO=<worktree that has them>)" % ctx.repo)


def known_behaviours(ctx):
    """The minimal replays of the recorded (known-*) and repaired (fixed-*) findings are part of every batch (DESIGN 4.10)."""
    out = []
    for p in sorted(glob.glob(os.path.join(os.path.dirname(os.path.dirname(os.path.abspath(__file__))), "replays", ctx.prop, "*.json"))):
        if os.path.basename(p).startswith(("known-", "fixed-", "regress-")):      # recorded findings, repaired ones, regression histories
            rp = json.load(open(p))["replay"]
            if "behaviour" in rp:                       # (scenario replays have none: TestVerifTSMEngineScenarios runs anyway)
                out.append(rp["behaviour"])
    return out


def _bounds(st):
    """real bounds of a delete step (None = open-ended: MinInt64 / MaxInt64), as the harness builds the condition"""
    lo = None if (st.get("open") and st["lo"] == 0) else st["lo"]
    hi = None if (st.get("open") and st["hi"] == 2) else st["hi"]
    return lo, hi


def shared_bound_pairs(beh):
    """Number of pairs of completed deletes on data that is already in a TSM file, with no compaction in between,
    whose ranges share exactly ONE bound and are not simply 'same selection, later range contains the earlier'
    (tombstones of one file that differ in one bound only: TSMReader.applyTombstones batches by range)."""
    n = 0
    dels = []
    for i, st in enumerate(beh):
        if st["a"] == "compact" or (st["a"] == "crash" and st.get("in") == "compact"):
            dels = []
        if st["a"] != "delete" or i == 0 or beh[i - 1]["st"]["nfiles"] < 1 or not beh[i - 1]["st"]["up"]:
            continue
        if beh[i - 1]["st"]["read"] == st["st"]["read"]:
            continue                                    # removed nothing
        lo, hi = _bounds(st)
        for (plo, phi, psel) in dels:
            one = (plo == lo) != (phi == hi)
            nested = sorted(psel) == sorted(st["sel"]) and (lo is None or (plo is not None and lo <= plo)) and (hi is None or (phi is not None and hi >= phi))
            if one and not nested:
                n += 1
        dels.append((lo, hi, st["sel"]))
    return n


def has_f1_history(b):
    """torn WAL tail -> restart -> acknowledged write (-> a later recovery: the crash image taken at the next
    step boundary, or a restart step): the history that lost data before patches/C01/04-fix"""
    names = [(x["a"], x.get("how")) for x in b]
    for i, (a, how) in enumerate(names):
        if a == "crash" and how == "torn":
            rest = [x[0] for x in names[i + 1:]]
            if "restart" in rest and "write" in rest[rest.index("restart"):]:
                return True
    return False


def has_f14_window(b):
    return any("F14" in x["st"]["taint"] for x in b)


def generate_with(ctx, sd, name, consts, num, pred, need, what, keep_matching=None, variants=3, max_attempts=12, have=0):
    """Generate a profile and top it up with further TLC seeds derived from VERIF_SEED until at least `need` behaviours
    satisfy `pred`: what a vacuity guard requires is present for every seed, not by luck.  Returns (all, matching)."""
    allb, match = [], []
    for attempt in range(max_attempts):
        behs = generate(ctx, sd, name, consts, num=num, variants=variants, seed=ctx.seed + 1000 * attempt)
        new = behs if attempt == 0 else [b for b in behs if pred(b)]     # top-up rounds only add what is missing
        allb += new
        match += [b for b in new if pred(b)]
        if len(match) >= need:
            break
    log("  %s: %d behaviours, %d with %s (needed %d, %d generation round(s))" % (name, len(allb), len(match), what, need, attempt + 1))
    if len(match) + have == 0:      # `have`: always-replayed behaviour files (replays/<ID>/known-|fixed-|regress-*) with it
        raise Infra("%s: no behaviour with %s after %d rounds" % (name, what, max_attempts))
    if keep_matching is not None:
        match.sort(key=lambda b: -shared_bound_pairs(b))
        return match[:keep_matching], match[:keep_matching]
    return allb, match


def generate_shared_bound(ctx, sd, name, consts, num, keep, need, have=0):
    """Targeted profile: only behaviours with >= 1 pair of deletes sharing exactly one bound on file data are kept
    (every later step boundary recovers a crash image, i.e. re-reads the tombstone files)."""
    sel, _ = generate_with(ctx, sd, name, consts, num, lambda b: shared_bound_pairs(b) >= 1, need,
                           "two deletes sharing exactly one bound on file data", keep_matching=keep, variants=6, have=have)
    return sel


def has_remove_hook(ctx):
    """patches/C01/05-hook: event after each file WAL.Remove unlinks (crash point between the removals)"""
    return "wal.remove.file" in open(os.path.join(ctx.repo, "tsdb/engine/tsm1/wal.go")).read()


def multi_segment_overwrites(b):
    """Number of snapshot steps (or crashes inside a snapshot) taken while >= 2 WAL segments hold data and a point written
    in an older segment is overwritten or deleted by an entry of a newer one."""
    n = 0
    segs = [dict()]                      # per segment: point -> last op
    for st in b:
        a = st["a"]
        if a == "write":
            for p in st["pts"]:
                segs[-1][(p["k"], p["t"])] = "w"
        elif a == "delete":
            for k in ("a1", "a2", "b1"):
                if k[0] in st["sel"]:
                    for t in range(st["lo"], st["hi"] + 1):
                        segs[-1][(k, t)] = "d"
        elif a == "walroll":
            if segs[-1]:
                segs.append(dict())
        elif a in ("snapshot", "snapbegin") or (a == "crash" and st.get("in") == "snapshot"):
            full = [x for x in segs if x]
            if len(full) >= 2 and any(p in full[j] for i in range(len(full)) for j in range(i + 1, len(full)) for p, op in full[i].items() if op == "w"):
                n += 1
            segs = [dict()]
        elif a in ("crash", "restart", "restartcrash", "reopen"):
            # conservative: what is in which segment after a restart is not tracked here
            segs = [dict()] if a != "crash" else segs
    return n


def scenarios(ctx):
    """hand-written crash histories for crash points without a hook (harness TestVerifTSMEngineScenarios)"""
    def run_sc(label):
        fast = None
        env = {}
        if os.path.isdir("/dev/shm") and os.access("/dev/shm", os.W_OK):
            fast = tempfile.mkdtemp(prefix="verif-%s-" % ctx.prop, dir="/dev/shm")
            env["VERIF_FAST_SCRATCH"] = fast
        try:
            return ctx.go_test(PKG, FILES, "^TestVerifTSMEngineScenarios$", env=env, timeout=600, label=label)
        finally:
            if fast:
                shutil.rmtree(fast, ignore_errors=True)
    recs, out, rc = run_sc("scenarios")
    def confirm(rp):
        r2, o2, c2 = run_sc("scenarios-confirm")
        return any(r.get("k") == "mismatch" for r in r2)
    return ctx.process(recs, out, rc, "TestVerifTSMEngineScenarios", confirm)
