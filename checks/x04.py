# X04 - shard-group pre-creation (+ precreator service timing, announcer): specification growth, not a listed property.
# spec: specs/precreate (Precreate, PrecreateGen); harness: harness/meta/zz_verif_precreate_test.go,
# harness/precreator/zz_verif_precreator_test.go, harness/announcer/zz_verif_announcer_test.go
import os, json, collections, time, concurrent.futures
from vcheck import Infra, log

PKG = "services/meta"
FILES = ["meta/zz_verif_precreate_test.go"]
TEST = "TestVerifPrecreateReplay"

INVS = ["TypeOK", "X04a_TwinEqual", "X04a_Successor", "X04b_NoOverlap", "X04b_NoResurrect",
        "X04b_OnlySuccessorOfLiveNewest", "X04b_Fixpoint", "PrecreateUnchangedByOthers", "X04c_Window", "X04c_EmptyNever"]

# FixSucc: the successor instant is end(newest) (patches/X04/01-fix) instead of end(newest)+1ns (code as found): the model
# describes the repaired code; X04_ASFOUND=1 checks the model of the code as found (X04a fails in family Prune: negative control)
FIX = not os.environ.get("X04_ASFOUND")

# instants: 4 ticks = 1h; 4q+1 = q h + 1ns, 4q+3 = (q+1) h - 1ns
GEN = {"WTimes": [0, 1, 7, 8, 9, 12, 15, 16, 19, 24, 33], "TTimes": [0, 3, 7, 8, 9, 12, 16, 17],
       "NowTimes": [0, 3, 7, 8, 9, 11, 12, 15, 16, 17, 23, 24, 25], "Advs": [1, 2, 8, 9, 17], "Durs": [4, 8, 12],
       "D0": 8, "MaxG": 6, "FixSucc": FIX, "WithPrune": True, "Script": '"none"', "Probes": [0, 7, 8, 9, 12, 16, 20, 24, 28]}


def mc_families(ctx):
    t = not ctx.quick()
    fam = {}
    # window boundaries: one duration, clock and advance around the group end 8 (= 2h): 7, 8, 9 = 2h-1ns, 2h, 2h+1ns
    fam["Window"] = {"WTimes": [0, 8, 19], "TTimes": [7, 9] if not t else [7, 8, 9], "NowTimes": [0, 7, 8, 9] if not t else [0, 7, 8, 9, 15, 16, 17],
                     "Advs": [1, 2, 8, 9], "Durs": [8], "D0": 8, "MaxG": 3, "FixSucc": FIX, "WithPrune": False}
    # truncation and deletion of the newest / the pre-created group
    fam["Trunc"] = {"WTimes": [0, 9] if not t else [0, 9, 19], "TTimes": [3, 7, 8, 9] if not t else [3, 7, 8, 9, 12], "NowTimes": [0, 7, 9],
                    "Advs": [9], "Durs": [8], "D0": 8, "MaxG": 3 if not t else 4, "FixSucc": FIX, "WithPrune": False}
    # altered shard-group duration
    fam["Alter"] = {"WTimes": [0, 9] if not t else [0, 9, 12], "TTimes": [7] if not t else [7, 8], "NowTimes": [0, 8] if not t else [0, 7, 8],
                    "Advs": [9, 17], "Durs": [4, 8, 12], "D0": 8, "MaxG": 3, "FixSucc": FIX, "WithPrune": False}
    # pruning of deleted groups: the newest group may then end 1ns before a whole multiple of the duration
    fam["Prune"] = {"WTimes": [0, 7] if not t else [0, 7, 8], "TTimes": [7], "NowTimes": [0, 3], "Advs": [9], "Durs": [8] if not t else [8, 12],
                    "D0": 8, "MaxG": 4, "FixSucc": FIX, "WithPrune": True}
    return fam


def mc(ctx, sd):
    fam = mc_families(ctx)
    to = ctx.pick(400, 2400)
    for name, c in fam.items():
        ctx.write_cfg(sd, "MC%s.cfg" % name, "Spec", c, INVS, "Bounded")

    def one(name):
        return name, ctx.tlc_check(sd, "Precreate", "MC%s.cfg" % name, workers=ctx.pick(2, 4), timeout=to, heap="3g",
                                   coverage=not ctx.quick())

    with concurrent.futures.ThreadPoolExecutor(max_workers=len(fam)) as ex:
        res = list(ex.map(one, list(fam)))
    for name, r in res:
        log("X04: MC %-7s %8d distinct %9d generated %6.1fs" % (name, r["distinct"], r["generated"], r["wall_s"]))
        if r["distinct"] < 200:
            raise Infra("exhaustive configuration %s is vacuous (%d states)" % (name, r["distinct"]))
    # vacuity (thorough tier, -coverage): every action of the spec is taken in at least one family
    zs = [set(x.split("@")[0] for x in r.get("zero_coverage", [])) for _, r in res if "zero_coverage" in r]
    if zs:
        never = set.intersection(*zs) & {"Write", "Precreate", "Truncate", "Alter", "Delete", "Prune", "Tick"}
        if never:
            raise Infra("actions never taken in any exhaustive family: %s" % sorted(never))


def gen(ctx, sd):
    n = ctx.pick(250, 2500)
    glen = ctx.pick(14, 18)
    jobs = []
    jobs.append(("walk", "Gen.cfg", dict(GEN, GenLen=glen, Sim=True), dict(num=n, depth=glen + 1, seed=ctx.seed), n))
    # boundary walk: one duration, everything around the first group's end
    m = n // 2
    jobs.append(("edge", "GenEdge.cfg", dict(GEN, GenLen=glen - 4, Sim=True, WTimes=[0, 7, 8, 9], TTimes=[7, 8, 9, 15, 16, 17],
                                             NowTimes=[0, 7, 8, 9, 15, 16, 17], Advs=[1, 2, 7, 8, 9], Durs=[8, 12], MaxG=4),
                 dict(num=m, depth=glen - 3, seed=ctx.seed + 500), m))
    # exhaustive: every sequence of 4 (thorough: 5) steps over a tiny domain
    xl = ctx.pick(4, 5)
    jobs.append(("bfs", "GenX.cfg", dict(GEN, GenLen=xl, Sim=False, WTimes=[0, 9], TTimes=[7], NowTimes=[0, 7, 8], Advs=[1, 9],
                                         Durs=[8, 12], MaxG=3, Probes=[0, 7, 8, 12, 16]),
                 dict(exhaustive=True, workers=2), ctx.pick(600, 6000)))
    # scripted corners, then every continuation of 2 (thorough: 3) steps
    for sc, extra in (("endMinus1ns", dict(WTimes=[0, 7, 8], TTimes=[7], NowTimes=[0, 3, 7, 8], Advs=[1, 9], Durs=[8, 12], MaxG=5)),
                      ("truncAlter", dict(WTimes=[0, 9, 12], TTimes=[7, 8], NowTimes=[0, 7], Advs=[9, 17], Durs=[4, 8, 12], MaxG=4)),
                      ("preDeleted", dict(WTimes=[0, 9, 16], TTimes=[9], NowTimes=[0, 8], Advs=[9, 17], Durs=[8, 12], MaxG=4))):
        sl = {"endMinus1ns": 7, "truncAlter": 3, "preDeleted": 3}[sc]
        jobs.append(("script-" + sc, "GenS-%s.cfg" % sc, dict(GEN, GenLen=sl + ctx.pick(2, 3), Sim=False, Script='"%s"' % sc,
                                                              Probes=[0, 7, 8, 12, 16], **extra),
                     dict(exhaustive=True, workers=2), ctx.pick(200, 3000)))
    for tag, cfg, c, kw, lim in jobs:
        ctx.write_cfg(sd, cfg, "GSpec", c, extra="INVARIANT Emit")

    def one(job):
        tag, cfg, c, kw, lim = job
        got = ctx.tlc_generate(sd, "PrecreateGen", cfg, timeout=900, **kw)
        if kw.get("exhaustive") and len(got) > lim:        # deterministic thinning, keeps every k-th
            k = (len(got) + lim - 1) // lim
            got = got[ctx.seed % k::k]
        return tag, got[:lim]

    with concurrent.futures.ThreadPoolExecutor(max_workers=3) as ex:
        return list(ex.map(one, jobs))     # three JVMs at a time


def replay(ctx, behs, label, timeout=1500):
    def confirm(rp):
        p = ctx.write_json("confirm.json", {"d0": rp["d0"], "behaviours": [rp["behaviour"]]})
        recs, out, rc = ctx.go_test(PKG, FILES, "^%s$" % TEST, env={"VERIF_IN": p}, timeout=600, label="confirm")
        return any(r.get("k") == "mismatch" for r in recs)

    p = ctx.write_json("behaviours-%s.json" % label, {"d0": GEN["D0"], "behaviours": behs})
    recs, out, rc = ctx.go_test(PKG, FILES, "^%s$" % TEST, env={"VERIF_IN": p}, timeout=timeout, label=label)
    return ctx.process(recs, out, rc, TEST, confirm)


def simple(ctx, pkg, files, test, label, timeout=600, env=None):
    """Drivers without generated input (service timing, announcer): a mismatch is confirmed by a second run."""
    def confirm(rp):
        recs, out, rc = ctx.go_test(pkg, files, "^%s$" % test, timeout=timeout, label="confirm-" + label, env=env)
        return any(r.get("k") == "mismatch" for r in recs)
    recs, out, rc = ctx.go_test(pkg, files, "^%s$" % test, timeout=timeout, label=label, env=env)
    return ctx.process(recs, out, rc, test, confirm)


def run(ctx):
    sd = ctx.spec_dir("precreate")
    if ctx.replay:
        rp = json.load(open(ctx.replay))["replay"]
        if "behaviour" in rp:
            p = ctx.write_json("replay.json", {"d0": rp["d0"], "behaviours": [rp["behaviour"]]})
            recs, out, rc = ctx.go_test(PKG, FILES, "^%s$" % TEST, env={"VERIF_IN": p}, timeout=600, label="replay")
            ctx.process(recs, out, rc, TEST)
        else:
            t = rp["test"]
            pkg, files = {"TestVerifPrecreateService": (PKG, FILES),
                          "TestVerifPrecreatorTiming": ("services/precreator", ["precreator/zz_verif_precreator_test.go"]),
                          "TestVerifAnnouncer": ("services/announcer", ["announcer/zz_verif_announcer_test.go"])}[t]
            recs, out, rc = ctx.go_test(pkg, files, "^%s$" % t, timeout=600, label="replay")
            ctx.process(recs, out, rc, t)
        return ctx.finish("model_checking", {})

    bg = concurrent.futures.ThreadPoolExecutor(max_workers=1)
    fut = bg.submit(mc, ctx, sd) if not os.environ.get("X04_SKIP_MC") else None     # SKIP: development aid (mutation self-test)
    t0 = time.time()
    sets = gen(ctx, sd)
    behs = [b for (_, bs) in sets for b in bs]
    log("X04: %d behaviours generated in %.0fs (%s)" % (len(behs), time.time() - t0, {t: len(b) for t, b in sets}))
    t0 = time.time()
    done = replay(ctx, behs, "replay")
    cover = done.get("cover", {})
    log("X04: replay %.0fs: %s" % (time.time() - t0, {k: done.get(k) for k in ("behaviours", "steps", "groups_created", "mismatching_behaviours")}))
    ctx.cov["traces_validated_against_impl"] += done.get("behaviours", 0)
    need = ["Precreate:true", "Precreate:false", "Write:true", "Write:false", "Truncate:false", "Alter:false", "Delete:false", "Tick:false", "Prune:false"]
    missing = [k for k in need if not cover.get(k)]
    if missing and not ctx.violations:
        raise Infra("step classes never replayed: %s" % missing)

    # the recording client first: a wrong cutoff is a violation there, and only a watchdog expiry in the end-to-end run
    tim = simple(ctx, "services/precreator", ["precreator/zz_verif_precreator_test.go"], "TestVerifPrecreatorTiming", "timing")
    try:
        svc = simple(ctx, PKG, FILES, "TestVerifPrecreateService", "service")
    except Infra:
        if not ctx.violations:
            raise
        svc = {"skipped": "watchdog after violations were already established"}
    ann = {}
    if os.path.exists(os.path.join(os.path.dirname(os.path.dirname(os.path.abspath(__file__))), "harness", "announcer", "zz_verif_announcer_test.go")):
        ann = simple(ctx, "services/announcer", ["announcer/zz_verif_announcer_test.go"], "TestVerifAnnouncer", "announcer")
    if fut is not None:
        fut.result()
    extra = {"replayed_behaviours": done.get("behaviours", 0), "replayed_steps": done.get("steps", 0),
             "groups_created_in_replay": done.get("groups_created", 0), "step_classes": dict(sorted(cover.items())),
             "behaviour_sources": {t: len(b) for t, b in sets},
             "precreator_service": {k: v for k, v in svc.items() if k not in ("k", "test")},
             "precreator_timing": {k: v for k, v in tim.items() if k not in ("k", "test")},
             "announcer": {k: v for k, v in ann.items() if k not in ("k", "test")}}
    return ctx.finish("model_checking", extra, assumptions=[
        "one policy, two data nodes, replication 1; policies/databases are independent in PrecreateShardGroups (a policy without groups is checked to stay empty)",
        "at most 12 groups per policy (sort.Sort is an insertion sort, i.e. stable, up to 12 elements)",
        "PruneShardGroups: 'two weeks pass' is emulated by moving the deletion stamps back in the store's value (in-package)",
        "X04a is the step equivalence 'pre-creation = a point arriving at the first instant after the newest group'; dropping "
        "pre-creation altogether is not equivalent when a truncation or an altered duration falls between it and the first write"])
