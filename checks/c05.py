# C05 - a distributed query reads every shard exactly once or fails.
# spec: specs/queryfanout (QueryFanout, QueryFanoutGen, QueryFanoutTrace); harness: harness/coordinator/zz_verif_fanout_test.go
#
# 1. TLC exhaustive: the design (Dev = {}) satisfies the C05 invariants for every layout x coordinator x fault
#    vector x statement kind of the bounds; with the recorded deviations enabled the invariants hold modulo taint;
#    with all deviations the strict invariants fail (the model reproduces the findings: non-vacuity).
# 2. QueryFanoutGen (exhaustive BFS) prints every terminal state; grouped by scenario they are the outcomes the
#    real code may show (its random owner choice selects the path).
# 3. The Go harness runs the scenarios on a loopback mini cluster of real coordinator.Services with the real
#    ClusterShardMapper / MetaExecutor / ClusterTSDBStore / query engine on the coordinator, evaluates the
#    property's oracles and compares with the model's terminal states.
# 4. The recorded requests / dirty sets / results are validated by TLC against QueryFanoutTrace.
import os, json, random, collections, copy
from concurrent.futures import ThreadPoolExecutor
from vcheck import Infra, log, VERIF

PKG = "coordinator"
FILES = ["coordinator/zz_verif_fanout_test.go"]
# the test binary runs in its own network namespace: pool_test.go binds 127.0.0.1:7777 in init()
GOENV = {"GOFLAGS": "-mod=mod -exec=" + os.path.join(VERIF, "lib", "netns_exec.sh")}

STREAMF = ["up", "dialFail", "errReply", "stall", "cutMid", "cutFrame", "stallMid"]
CALLF = ["up", "dialFail", "errReply", "stall"]
ASIS = ["F7", "F8", "MTL"]          # recorded deviations (known findings); F6 is repaired by patches/C05
STRICT_INV = ["TypeOK", "C05_ExactlyOnce", "C05_ErrorIfUnservable", "C05_NeverSilentlyPartial",
              "C05_NeverSilentlyPartialStrict", "C05_NeverTwice", "C05_ErrorReplySurfaces",
              "C05_ErrorReplySurfacesStrict", "C05_MapTypeFailureCovered", "C05_FailoverAtRequestTime",
              "C05_NoSpuriousError", "C05_DirtyNotRetried", "C05_RoundsBounded", "C05_PlanPartitions"]
ASIS_INV = [i for i in STRICT_INV if not i.endswith("Strict")]


def q(xs):
    return ['"%s"' % x for x in xs]


def consts(nn, ns, kinds, dev, coords=("n1",), minrf=1, maxrf=None, streamf=STREAMF, callf=CALLF, localf=("up", "errReply"), sources=(1,)):
    nodes = ["n%d" % i for i in range(1, nn + 1)]
    return {"Nodes": q(nodes), "NShards": ns, "Coords": q(coords), "StreamFaults": q(streamf), "CallFaults": q(callf),
            "LocalFaults": q(localf), "Kinds": q(kinds), "Sources": list(sources), "MinRF": minrf, "MaxRF": maxrf or nn, "Dev": q(dev)}


def scenarios_of(records):
    """Group the generator's terminal records by scenario."""
    sc = collections.OrderedDict()
    for r in records:
        key = json.dumps([r["owners"], r["coord"], r["fault"], r["kind"], r.get("nsrc", 1)], sort_keys=True)
        s = sc.get(key)
        if s is None:
            s = sc[key] = {"owners": r["owners"], "coord": r["coord"], "fault": r["fault"], "kind": r["kind"], "nsrc": r.get("nsrc", 1),
                           "nodes": sorted(r["fault"].keys()), "allowed": [], "unservable": r["unservable"]}
        a = {"outcome": r["outcome"], "reads": r["reads"], "taint": sorted(r["taint"])}
        if a not in s["allowed"]:
            s["allowed"].append(a)
    return [sc[k] for k in sorted(sc)]


def sample(rnd, scs, n, stall_share=0.12):
    """Seeded sample, stratified by statement kind; scenarios that wait for a deadline are rationed."""
    if n >= len(scs):
        return list(scs)
    slow = [s for s in scs if set(s["fault"].values()) & {"stall", "stallMid"}]
    fast = [s for s in scs if not (set(s["fault"].values()) & {"stall", "stallMid"})]
    out = []
    for pool, cnt in ((slow, int(n * stall_share)), (fast, n - int(n * stall_share))):
        by = collections.defaultdict(list)
        for s in pool:
            by[s["kind"]].append(s)
        kinds = sorted(by)
        for k in kinds:
            rnd.shuffle(by[k])
        share = {"select": 0.45, "query": 0.15, "cost": 0.15, "meta": 0.25}
        tot = sum(share[k] for k in kinds) or 1
        for k in kinds:
            out += by[k][:max(1, int(cnt * share[k] / tot))]
    return out


def par(ctx, jobs):
    """Run independent TLC jobs side by side (JVM start-up and initial-state enumeration dominate; the runs use
    separate cfg files and metadirs).  Every job gets a shallow copy of ctx with its own counters, merged afterwards."""
    subs = []
    for _ in jobs:
        c = copy.copy(ctx)
        c.cov = {"states": 0, "transitions": 0, "tlc_runs": []}
        subs.append(c)
    with ThreadPoolExecutor(max_workers=len(jobs)) as ex:
        futs = [ex.submit(j, c) for j, c in zip(jobs, subs)]
        res, err = [], None
        for f in futs:
            try:
                res.append(f.result())
            except Exception as e:      # keep the first failure, let the others finish
                res.append(None)
                err = err or e
    for c in subs:
        ctx.cov["states"] += c.cov["states"]
        ctx.cov["transitions"] += c.cov["transitions"]
        ctx.cov["tlc_runs"] += c.cov["tlc_runs"]
    if err:
        raise err
    return res


def split_capable(s):
    """A retry round can spread the shards of one remote group over two nodes: two remote shards share an owner
    that fails at request time and have live owners that are not the same for both (needs four nodes)."""
    c, f, ow = s["coord"], s["fault"], s["owners"]
    rem = [i for i, o in enumerate(ow) if c not in o]
    for i in rem:
        for j in rem:
            if i < j:
                for n in set(ow[i]) & set(ow[j]):
                    if f[n] in ("dialFail", "errReply", "stall"):
                        li = {x for x in ow[i] if f[x] == "up"}
                        lj = {x for x in ow[j] if f[x] == "up"}
                        if li and lj and (li - set(ow[j]) or lj - set(ow[i])):
                            return True
    return False


def run(ctx):
    sd = ctx.spec_dir("queryfanout")
    rnd = random.Random(ctx.seed)
    quick = ctx.quick()
    kinds = ["select", "query", "cost", "meta"]

    def go(inp, label, test="^TestVerifFanout$", timeout=1500):
        p = ctx.write_json("in-%s-%d.json" % (label, len(os.listdir(ctx.scratch))), inp)
        env = dict(GOENV, VERIF_IN=p)
        return ctx.go_test(PKG, FILES, test, env=env, timeout=timeout, label=label)

    def base_input(scs, reps=1):
        return {"scenarios": scs, "reps": reps, "workers": 12, "timeout_ms": int(os.environ.get("VERIF_C05_TIMEOUT_MS", "600")),
                "trace_out": os.path.join(ctx.scratch, "trace-%d.ndjson" % len(os.listdir(ctx.scratch)))}

    confirmed = [0]

    def confirm(rp):
        if not rp:
            return False
        if confirmed[0] >= 4:
            return True       # four classes reproduced on their own already: the remaining ones are reported as observed
        ok = confirm1(rp)
        if ok:
            confirmed[0] += 1
        return ok

    def confirm1(rp):
        if "rpc" in rp:
            recs, out, rc = go({"scenarios": []}, "confirm-rpc", test="^TestVerifFanoutRPC$")
            return any(r.get("k") == "mismatch" and r.get("replay", {}).get("rpc") == rp["rpc"] for r in recs)
        if "storestream" in rp:
            recs, out, rc = go({"scenarios": []}, "confirm-stream", test="^TestVerifFanoutStoreStream$")
            return any(r.get("k") == "mismatch" and r.get("replay", {}).get("storestream") == rp["storestream"] for r in recs)
        if "limitoffset" in rp:
            recs, out, rc = go({"scenarios": []}, "confirm-limitoffset", test="^TestVerifFanoutLimitOffset$")
            return any(r.get("k") == "mismatch" and r.get("replay", {}).get("limitoffset") for r in recs)
        sc = dict(rp["scenario"])
        inp = base_input([sc])
        inp["confirm"] = True
        inp["workers"] = 1
        recs, out, rc = go(inp, "confirm")
        return any(r.get("k") == "mismatch" for r in recs)

    # ------------------------------------------------------------------ replay of one stored case
    if ctx.replay:
        rp = json.load(open(ctx.replay))["replay"]
        if "rpc" in rp:
            recs, out, rc = go({"scenarios": []}, "replay-rpc", test="^TestVerifFanoutRPC$")
            ctx.process(recs, out, rc, "TestVerifFanoutRPC", None)
        elif "storestream" in rp:
            recs, out, rc = go({"scenarios": []}, "replay-stream", test="^TestVerifFanoutStoreStream$")
            ctx.process(recs, out, rc, "TestVerifFanoutStoreStream", None)
        elif "limitoffset" in rp:
            recs, out, rc = go({"scenarios": []}, "replay-limitoffset", test="^TestVerifFanoutLimitOffset$")
            ctx.process(recs, out, rc, "TestVerifFanoutLimitOffset", None)
        else:
            inp = base_input([dict(rp["scenario"])])
            inp["confirm"] = True
            inp["workers"] = 1
            recs, out, rc = go(inp, "replay")
            ctx.process(recs, out, rc, "TestVerifFanout", None)
        return ctx.finish("model_checking", {"replayed": ctx.replay})

    # ------------------------------------------------------------------ 1. exhaustive model checking, 2. scenarios
    cov = not quick
    RT = ["up", "dialFail", "errReply"]
    jobs = []

    def mc(name, c, workers=8, timeout=900, coverage=False):
        def job(cx):
            cx.write_cfg(sd, name + ".cfg", "Spec", c, STRICT_INV)
            r = cx.tlc_check(sd, "QueryFanout", name + ".cfg", workers=workers, timeout=timeout, coverage=coverage)
            if coverage:
                # TLC also prints interim coverage (all zero at first) when a run takes longer than a minute:
                # only the last report counts
                last = r["out"].rsplit("The coverage statistics at", 1)[-1]
                zero = cx._zero_coverage(last)
                if zero:
                    raise Infra("actions never taken in %s: %s" % (name, zero))
            return r
        return job

    def neg(name, inv):
        # non-vacuity: with every deviation of the code enabled the model must show the silent partial results
        def job(cx):
            cx.write_cfg(sd, name + ".cfg", "Spec", consts(2, 2, kinds, ["F6", "F7", "F8", "MTL"], coords=("n1",)), [inv])
            r = cx.tlc_check(sd, "QueryFanout", name + ".cfg", workers=2, timeout=300, expect_ok=False)
            if r["ok"]:
                raise Infra("negative model run: %s is not violated with all deviations enabled (vacuous model)" % inv)
            return r
        return job

    def gen(name, c, workers=4, timeout=900):
        # the generator runs with the recorded deviations enabled and checks the invariants modulo taint on the way
        def job(cx):
            cx.write_cfg(sd, name + ".cfg", "Spec", c, ASIS_INV, extra="INVARIANT Emit")
            return scenarios_of(cx.tlc_generate(sd, "QueryFanoutGen", name + ".cfg", exhaustive=True, workers=workers, timeout=timeout))
        return job

    jobs.append(mc("MC32", consts(3, 2, kinds, []), coverage=cov))
    jobs.append(neg("MCneg1", "C05_NeverSilentlyPartialStrict"))
    jobs.append(gen("G32", consts(3, 2, kinds, ASIS)))
    # statements with two measurement sources of the one db/rp (FROM m, m2 / subqueries): the shards are mapped once,
    # every operation runs once per source over the same groups, every shard is read once per source
    MK = ["select", "query", "cost"]
    mf = ["up", "dialFail", "errReply", "cutFrame", "stall"] if quick else STREAMF
    jobs.append(mc("MC32m", consts(3, 2, MK, [], streamf=mf, callf=RT if quick else CALLF, sources=(2,)), timeout=1800))
    jobs.append(gen("G32m", consts(3, 2, MK, ASIS, streamf=mf, callf=RT if quick else CALLF, sources=(2,)), workers=4, timeout=1800))
    if quick:
        jobs.append(gen("G33", consts(3, 3, ["select", "query", "cost"], ASIS, minrf=2, maxrf=2,
                                      streamf=["up", "dialFail", "errReply", "cutFrame", "cutMid"], callf=RT)))
        # four nodes: the only size at which a retry round can split a group's shards over two nodes
        jobs.append(gen("G42", consts(4, 2, ["select"], ASIS, minrf=2, maxrf=3, streamf=RT, callf=RT, localf=("up",))))
        r = par(ctx, jobs)
        s32, s32m, s33, s42, s22 = r[2], r[4], r[5], r[6], []
    else:
        r = par(ctx, jobs)
        s32, s32m = r[2], r[4]
        jobs = [mc("MC22", consts(2, 2, kinds, [], coords=("n1", "n2")), workers=4, timeout=600),
                neg("MCneg2", "C05_ErrorReplySurfacesStrict"),
                mc("MC32c", consts(3, 2, kinds, [], coords=("n1", "n2", "n3"), streamf=["up", "dialFail", "errReply", "cutFrame"]), timeout=1200),
                gen("G22", consts(2, 2, kinds, ASIS, coords=("n1", "n2")), workers=2, timeout=600)]
        r = par(ctx, jobs)
        s22 = r[3]
        jobs = [mc("MC33", consts(3, 3, kinds, []), timeout=2400),
                gen("G33", consts(3, 3, kinds, ASIS), workers=8, timeout=2400)]
        r = par(ctx, jobs)
        s33 = r[1]
        jobs = [mc("MC42", consts(4, 2, ["select", "query", "cost"], [], minrf=2, maxrf=3, streamf=RT + ["cutFrame"], callf=RT), timeout=1800),
                gen("G42", consts(4, 2, ["select", "query", "cost"], ASIS, minrf=2, maxrf=3, streamf=RT + ["cutFrame"], callf=RT), workers=8, timeout=1800)]
        r = par(ctx, jobs)
        s42 = r[1]
    n32, n33, n22, n42 = ctx.pick((900, 250, 0, 200), (6000, 5000, len(s22), 2500))
    chosen = [dict(s) for s in sample(rnd, s32, n32) + sample(rnd, s33, n33, 0.05) + sample(rnd, s22, n22) + sample(rnd, s42, n42, 0.0)]
    # two-source statements: a sample, plus the layouts in which the coordinator owns nothing of the db/rp (every
    # fault-free one, and a sample of the others): there only the remote mapping says "this db/rp is mapped already"
    remote_only = [s for s in s32m if all(s["coord"] not in ow for ow in s["owners"])]
    healthy = [s for s in remote_only if set(s["fault"].values()) == {"up"}]
    chosen += [dict(s) for s in sample(rnd, s32m, ctx.pick(220, 2500), 0.08) + healthy + sample(rnd, remote_only, ctx.pick(80, 1000), 0.05)]
    # rare but important class: run every such scenario of the universe, three times (the owner choice is random)
    split = [s for s in s42 if split_capable(s)]
    rnd.shuffle(split)
    split = split[:ctx.pick(40, 400)]
    chosen += [dict(s, split=True) for s in split for _ in range(3)]
    rnd.shuffle(chosen)
    for i, s in enumerate(chosen):
        s["id"] = i + 1
        s["variant"] = rnd.randrange(0, 5040)
        s["trace"] = s["kind"] != "query" and (rnd.random() < 0.8 or s.get("split", False))
        if len(s["nodes"]) >= 3 and rnd.random() < 0.4:
            # the model does not depend on node names (the generator fixes the coordinator to n1): rename the nodes
            # so that every node coordinates and owner lists start with every node
            perm = dict(zip(s["nodes"], rnd.sample(s["nodes"], len(s["nodes"]))))
            s["owners"] = [sorted(perm[o] for o in ow) for ow in s["owners"]]
            s["coord"] = perm[s["coord"]]
            s["fault"] = {perm[k]: v for k, v in s["fault"].items()}
    # the recorded findings are re-run every time (deterministic representatives)
    import glob
    for i, f in enumerate(sorted(glob.glob(os.path.join(VERIF, "replays", "C05", "known-*.json")))):
        rp = json.load(open(f))["replay"]
        if "scenario" in rp:
            chosen.append(dict(rp["scenario"]))
    model_scenarios = len(s32) + len(s33) + len(s22) + len(s42) + len(s32m)
    log("scenarios: model %d (3n2s %d, 3n3s %d, 2n2s %d, 4n2s %d of which %d can split a retry round, two-source 3n2s %d of which %d all-remote); run %d"
        % (model_scenarios, len(s32), len(s33), len(s22), len(s42), len(split), len(s32m), len(remote_only), len(chosen)))

    # ------------------------------------------------------------------ 3. real code
    inp = base_input(chosen, reps=1)
    recs, out, rc = go(inp, "scenarios", test="^TestVerifFanout(RPC|StoreStream|LimitOffset)?$", timeout=ctx.pick(1500, 5400))
    for t in ("TestVerifFanoutRPC", "TestVerifFanoutStoreStream", "TestVerifFanoutLimitOffset"):
        if not any(r.get("k") == "done" and r.get("test") == t for r in recs) and rc == 0:
            raise Infra("driver %s did not complete" % t)
    done = ctx.process(recs, out, rc, "TestVerifFanout", confirm)
    noise = [r for r in recs if r.get("k") == "noise"]
    if len(noise) > max(5, len(chosen) // 50):
        raise Infra("too many unreproduced observations (%d): timing noise makes this run meaningless" % len(noise))

    # ------------------------------------------------------------------ 4. trace validation (code -> spec)
    by_id = {s["id"]: s for s in chosen}
    tv = validate_traces(ctx, sd, inp["trace_out"], by_id, go, base_input)

    extra = {"model_scenarios": model_scenarios, "scenarios_run": done.get("scenarios", 0), "runs": done.get("runs", 0),
             "kinds_run": done.get("kinds", {}), "traced_runs": tv["runs"], "trace_lines_validated": tv["lines"],
             "trace_rejections_confirmed": tv["rejected"], "trace_noise": tv["noise"], "negative_controls_rejected": tv["neg"],
             "unreproduced_observations": len(noise), "slow_reruns": done.get("slow_reruns", 0),
             "leaked_pool_conns_seen": done.get("leaked_conns", 0)}
    ctx.cov["traces_validated_against_impl"] += tv["runs"]
    ctx.cov["exhaustive"] = False   # the model runs are exhaustive for their bounds; the scenarios run on the code are a seeded sample
    return ctx.finish("model_checking", extra, assumptions=[
        "fault classes are static for one statement; one fault class per node; faults of the coordinator's own store: error only",
        "stub stores serve one marker per owned shard (a node that lacks a shard it owns per the metadata is out of scope)",
        "the loopback TCP stack, tcp.Mux and the Go runtime are trusted; SelectOptions.NodeID (read from one node only) is not explored"])


def validate_traces(ctx, sd, path, by_id, go, base_input):
    """Split the recorded events by (nodes, shards), validate every group with TLC.  A rejected run is cut out,
    re-run and re-validated on its own: reproduced => mismatch, otherwise timing noise (bounded)."""
    res = {"runs": 0, "lines": 0, "rejected": 0, "noise": 0, "neg": 0}
    if not os.path.exists(path):
        raise Infra("harness wrote no trace file")
    groups = collections.OrderedDict()
    for line in open(path):
        line = line.strip()
        if not line:
            continue
        e = json.loads(line)
        groups.setdefault((e["nn"], e["ns"]), []).append((e["rid"], e["sid"], line, e))
    if not groups:
        raise Infra("empty trace")

    sds = {k: ctx.spec_dir("queryfanout") for k in groups}      # one spec directory per group: they run side by side

    def check(nn, ns, items, name, cx=None):
        cx = cx or ctx
        sdg = sds[(nn, ns)]
        cfg = "T%d%d.cfg" % (nn, ns)
        cx.write_cfg(sdg, cfg, "TSpec", consts(nn, ns, ["select"], ASIS), ["TraceInv"], extra="POSTCONDITION Post")
        p = os.path.join(ctx.scratch, name)
        with open(p, "w") as fh:
            for it in items:
                fh.write(it[2] + "\n")
        return cx.tlc_trace(sdg, "QueryFanoutTrace", p, cfg=cfg, timeout=1200)

    for k in groups:
        groups[k] = normalize(groups[k], by_id)
    keys = list(groups)
    firstpass = dict(zip(keys, par(ctx, [(lambda cx, k=k: check(k[0], k[1], groups[k], "trace-%d-%d-0.ndjson" % k, cx)) for k in keys])))

    first = True
    for (nn, ns), items in groups.items():
        rejected = []
        validated = False
        for attempt in range(5):
            if not items:
                validated = True
                break
            r = firstpass.pop((nn, ns), None) or check(nn, ns, items, "trace-%d-%d-%d.ndjson" % (nn, ns, attempt))
            if r["accepted"]:
                validated = True
                break
            if r["matched"] < 0 or r["matched"] >= len(items):
                raise Infra("trace validation gave no high-water mark:\n%s" % r["out"][-2000:])
            bad = items[r["matched"]]            # first line no behaviour of the model could consume
            rejected.append((bad, [it for it in items if it[0] == bad[0]]))
            items = [it for it in items if it[0] != bad[0]]
        if not validated:
            # many runs are rejected: the first ones are confirmed below; the rest of the group stays unvalidated
            log("note: trace group %s: %d runs rejected, validation of the group stopped" % ((nn, ns), len(rejected)))
            items = []
        res["runs"] += len({it[0] for it in items})
        res["lines"] += len(items)
        for bad, run_lines in rejected:
            sc = by_id.get(bad[1])
            ev = bad[3]
            sig = "trace:%s:%s:%s" % (sc["kind"], ev.get("e"), "+".join(sorted({f for f in sc["fault"].values() if f != "up"})) or "none")
            detail = "run %d of scenario %s: the model cannot take event %s after %s" % (bad[0], json.dumps(sc)[:600], bad[2][:300],
                                                                                            [x[2][:160] for x in run_lines][:14])
            # confirm on its own: run the scenario again a few times, validate each run alone
            inp = base_input([dict(sc, trace=True)], reps=6)
            inp["workers"] = 1
            recs, out, rc = go(inp, "trace-confirm")
            again = False
            if os.path.exists(inp["trace_out"]):
                its = []
                for line in open(inp["trace_out"]):
                    e = json.loads(line)
                    its.append((e["rid"], e["sid"], line.strip(), e))
                # one TLC run for all re-runs: any rejection confirms
                if its and not check(nn, ns, normalize(its, by_id), "trace-confirm-%d.ndjson" % bad[0])["accepted"]:
                    again = True
            if again:
                res["rejected"] += 1
                ctx.report_mismatch(sig, detail, {"scenario": sc})
            else:
                res["noise"] += 1
                log("note: rejected trace of scenario %s did not reproduce (timing noise): %s" % (sc["id"], bad[2][:200]))
        if res["noise"] > 4 or (not validated and res["rejected"] == 0):
            raise Infra("too many unreproduced trace rejections (%d)" % res["noise"])
        # negative control: a corrupted copy of an accepted trace must be rejected (binding is demonstrated)
        if items and not ctx.quick():
            for kind in ("node", "drop", "outcome"):
                # a corruption can by chance be another valid execution (e.g. the other owner): try up to 3 places
                rejected_one = None
                for skip in range(3):
                    bad_items = corrupt(items[:400], kind, nn, skip)
                    if bad_items is None:
                        break
                    rejected_one = not check(nn, ns, bad_items, "trace-neg-%s.ndjson" % kind)["accepted"]
                    if rejected_one:
                        break
                if rejected_one is False:
                    raise Infra("negative control '%s' was accepted by QueryFanoutTrace: the trace spec does not bind" % kind)
                if rejected_one:
                    res["neg"] += 1
            first = False
    return res


def normalize(items, by_id):
    """A node of class `stall` never answers: the caller goes on when its own deadline expires, which is not caused
    by anything the node does.  Under load the node's record of the request can therefore be written after the
    harness recorded the end of the operation.  The request names its operation: a `call` line of such a node that
    shows up while a different operation (or none) is in progress is moved back in front of the latest `opEnd` of
    its own operation."""
    out = []
    runs = collections.OrderedDict()
    for it in items:
        runs.setdefault(it[0], []).append(it)
    for rid, its in runs.items():
        sc = by_id.get(its[0][1])
        stalls = {n for n, f in (sc["fault"].items() if sc else []) if f == "stall"}
        if stalls:
            ends = {}
            res = []
            open_op = None
            for it in its:
                e = it[3]
                if e.get("e") == "opStart":
                    open_op = e["op"]
                if e.get("e") == "opEnd":
                    ends[e["op"]] = len(res)
                    open_op = None
                if e.get("e") == "end":
                    ends.setdefault("MQ", len(res))      # the all-nodes fan-out has no opEnd
                    open_op = None
                # late = the operation the request belongs to is not the one in progress
                if e.get("e") == "call" and e.get("node") in stalls and e.get("op") in ends and e.get("op") != open_op:
                    pos = ends[e["op"]]
                    res.insert(pos, it)
                    for k in ends:
                        if ends[k] >= pos:
                            ends[k] += 1
                    continue
                res.append(it)
            its = res
        out += its
    return out


def corrupt(items, kind, nn, skip=0):
    items = list(items)
    if kind == "node":
        for k, it in enumerate(items):
            e = it[3]
            if e.get("e") == "call" and e.get("op") in ("CI", "IC"):
                if skip > 0:
                    skip -= 1
                    continue
                e2 = dict(e)
                e2["node"] = "n%d" % (int(e["node"][1:]) % nn + 1)
                items[k] = (it[0], it[1], json.dumps(e2), e2)
                return items
    if kind == "drop":
        for k, it in enumerate(items):
            if it[3].get("e") == "call" and it[3].get("op") == "FD":
                if skip > 0:
                    skip -= 1
                    continue
                del items[k]
                return items
    if kind == "outcome":
        for k, it in enumerate(items):
            e = it[3]
            if e.get("e") == "end" and e.get("outcome") == "success" and sum(e["reads"]) > 0:
                if skip > 0:
                    skip -= 1
                    continue
                e2 = dict(e)
                e2["reads"] = [0] + e["reads"][1:] if e["reads"][0] else [1] + e["reads"][1:]
                items[k] = (it[0], it[1], json.dumps(e2), e2)
                return items
    return None
