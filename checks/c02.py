# C02 - reads equal a last-write-wins model of the shard.
# specs: specs/tsmread (TSMRead, TSMReadGen), specs/fieldtypes (FieldTypes, FieldTypesGen)
# harness: harness/tsm1/zz_verif_read_test.go (+ values helper), harness/tsdb/zz_verif_read_types_test.go
import json, os
from vcheck import Infra, log

PKG = "tsdb/engine/tsm1"
FILES = ["tsm1/zz_verif_read_test.go", "tsm1/zz_verif_read_values_test.go"]
PKG_T = "tsdb"
FILES_T = ["tsdb/zz_verif_read_types_test.go"]

KEYS = ['"k1"', '"k2"']


def mc_consts(**kw):
    c = {"Keys": KEYS, "MaxT": 1, "Vals": {0, 1}, "MaxFiles": 3, "MaxBatch": 1, "MaxWrites": 2, "MaxSnaps": 1,
         "MaxCompacts": 1, "MaxDeletes": 1, "MaxReopens": 0, "MaxFails": 1}
    c.update(kw)
    return c


def gen_consts(genlen):
    return {"Keys": KEYS, "MaxT": 5, "Vals": {0, 1, 2}, "MaxFiles": 4, "MaxBatch": 3, "MaxWrites": 99, "MaxSnaps": 99,
            "MaxCompacts": 99, "MaxDeletes": 99, "MaxReopens": 99, "MaxFails": 99, "GenLen": genlen}


PROPS = "PROPERTIES C02_IdempotentRewrite C09_ContentPreserved"


def model_check(ctx, sd):
    """Exhaustive TLC runs of the read model (one config per family, every growing value bounded).
    Sizes: the quick configs generate ~1e5 states each (10-20 s on an idle machine, 2 min when the
    machine is shared with a dozen other checks)."""
    inv = ["TypeOK", "C02_ReadIsLww"]
    one = ['"k1"']
    # A: two keys, single-point batches, write/snapshot/compact/delete/failed snapshot or compaction
    ctx.write_cfg(sd, "MCA.cfg", "Spec", mc_consts(), inv, "Bounded", extra=PROPS)
    ra = ctx.tlc_check(sd, "TSMRead", "MCA.cfg", workers=8, timeout=1200, coverage=not ctx.quick())
    # B: one key, batches with duplicate / out-of-order timestamps, two snapshots (two files or file +
    # snapshot in flight + hot store), reopen
    ctx.write_cfg(sd, "MCB.cfg", "Spec", mc_consts(Keys=one, MaxBatch=2, MaxSnaps=2, MaxDeletes=0, MaxReopens=1), inv, "Bounded", extra=PROPS)
    rb = ctx.tlc_check(sd, "TSMRead", "MCB.cfg", workers=8, timeout=1200, coverage=not ctx.quick())
    if not ctx.quick():
        # vacuity guard: every action of the module is taken in at least one of the two configs
        never = set(ra.get("zero_coverage", [])) & set(rb.get("zero_coverage", []))
        if never:
            raise Infra("vacuity: actions never taken in MCA/MCB: %s" % sorted(never))
    # non-vacuity: files + in-flight snapshot + hot store at once must be reachable
    ctx.write_cfg(sd, "MCV.cfg", "Spec", mc_consts(Keys=one, MaxWrites=3, MaxSnaps=3, MaxDeletes=0, MaxCompacts=0, MaxFails=0),
                  ["NeverThreeLayers"], "Bounded")
    r = ctx.tlc_check(sd, "TSMRead", "MCV.cfg", workers=2, timeout=600, expect_ok=False)
    if r["ok"]:
        raise Infra("vacuity: the three-layer state (2 files + snapshot in flight + hot store) is unreachable in TSMRead")
    if not ctx.quick():
        # the counter-based step classification used by the action properties agrees with the action definitions
        ctx.write_cfg(sd, "MCK.cfg", "Spec", mc_consts(Keys=one), ["TypeOK"], "Bounded",
                      extra="PROPERTIES StepKindsAgree IdenticalLeavesAcked")
        ctx.tlc_check(sd, "TSMRead", "MCK.cfg", workers=4, timeout=1200)
        ctx.write_cfg(sd, "MCC.cfg", "Spec", mc_consts(MaxT=2, MaxReopens=1), inv, "Bounded", extra=PROPS)
        ctx.tlc_check(sd, "TSMRead", "MCC.cfg", workers=8, timeout=2400)
        ctx.write_cfg(sd, "MCD.cfg", "Spec", mc_consts(Keys=one, MaxBatch=2, MaxWrites=3, MaxSnaps=2, MaxReopens=1), inv, "Bounded", extra=PROPS)
        ctx.tlc_check(sd, "TSMRead", "MCD.cfg", workers=8, timeout=2400)


def run(ctx):
    sd = ctx.spec_dir("tsmread")
    if not ctx.replay and not os.environ.get("VERIF_SKIP_MC"):   # (VERIF_SKIP_MC: mutation self-tests only)
        model_check(ctx, sd)

    # ---- behaviours -> real shard
    gl = 16
    num = ctx.pick(180, 2400)
    scaled = ctx.pick(0, 45)
    if ctx.replay:
        rp = json.load(open(ctx.replay))["replay"]
        if rp.get("test") == "types":
            return run_types(ctx, rp)
        inp = {"maxt": rp["maxt"], "keys": rp["keys"], "behaviours": [rp["behaviour"]], "variants": [rp["variant"]], "scaled": 0}
    else:
        gc = gen_consts(gl)
        ctx.write_cfg(sd, "Gen.cfg", "GSpec", gc, extra="INVARIANT Emit")
        behs = ctx.tlc_generate(sd, "TSMReadGen", "Gen.cfg", num=num, depth=gl + 1, timeout=900)[:num]
        gc2 = gen_consts(26)
        ctx.write_cfg(sd, "Gen2.cfg", "GSpec", gc2, extra="INVARIANT Emit")
        behs += ctx.tlc_generate(sd, "TSMReadGen", "Gen2.cfg", num=num // 6, depth=27, seed=ctx.seed + 1000, timeout=900)[:num // 6]
        inp = {"maxt": gc["MaxT"], "keys": ["k1", "k2"], "behaviours": behs, "variants": [], "scaled": scaled}

    def run_r(inp, label):
        p = ctx.write_json("behR-%s.json" % label, inp)
        return ctx.go_test(PKG, FILES, "^TestVerifReadReplay$", env={"VERIF_IN": p}, timeout=2400, label=label)

    def confirm(rp):
        recs, out, rc = run_r({"maxt": rp["maxt"], "keys": rp["keys"], "behaviours": [rp["behaviour"]],
                               "variants": [rp["variant"]], "scaled": 0}, "confirm")
        return any(r.get("k") == "mismatch" for r in recs)

    recs, out, rc = run_r(inp, "replay")
    done = ctx.process(recs, out, rc, "TestVerifReadReplay", confirm)
    ctx.cov["traces_validated_against_impl"] += done.get("behaviours", 0)
    extra = {"replayed_behaviours": done.get("behaviours", 0), "replayed_steps": done.get("steps", 0),
             "reads_compared": done.get("reads", 0), "actions": done.get("actions", {}), "variants": done.get("variants", {}),
             "steps_with_2plus_files": done.get("steps_with_2plus_files", 0)}
    if not ctx.replay:
        extra.update(run_types(ctx, None))
    return ctx.finish("model_checking", extra, assumptions=[
        "sequential driver: one engine call at a time; a cache snapshot is held in flight at the point where the TSM writer flushes (Compactor.RateLimit seam) while the other calls run",
        "deletes while a cache snapshot exists are C10's subject and are excluded from these behaviours",
        "value domains are representatives (extremes of the five field types), not all bit patterns (C13)",
        "TLC, the Go runtime and the OS file semantics of the sandbox are trusted"])


def run_types(ctx, rp):
    """FieldTypes: exhaustive model check + exhaustive behaviours replayed through Shard.WritePoints."""
    sd = ctx.spec_dir("fieldtypes")
    if rp is None:
        inv = ["TypeOK", "C02_OneTypePerField", "C02_ConflictRejectedOnlyThatPoint", "C02_PartialWriteReported"]
        c = {"Fields": ['"f"', '"g"'], "Types": ['"float"', '"integer"'], "Series": ['"s1"'], "MaxBatch": 2,
             "MaxWrites": 2, "MaxT": 0, "MaxV": 0, "MaxDrops": 1, "MaxReopens": 1, "IndexPersistent": True}
        skip = bool(os.environ.get("VERIF_SKIP_MC"))
        if not skip:
            ctx.write_cfg(sd, "MC1.cfg", "Spec", c, inv, "Bounded")
            ctx.tlc_check(sd, "FieldTypes", "MC1.cfg", workers=8, timeout=1200, coverage=not ctx.quick())
            c2 = dict(c, Series=['"s1"', '"s2"'], MaxBatch=1, MaxWrites=2, MaxDrops=2, IndexPersistent=False)
            ctx.write_cfg(sd, "MC2.cfg", "Spec", c2, inv, "Bounded")
            ctx.tlc_check(sd, "FieldTypes", "MC2.cfg", workers=8, timeout=1200)
        if not ctx.quick() and not skip:
            c3 = dict(c, Series=['"s1"', '"s2"'], MaxBatch=2, MaxWrites=2, MaxDrops=1)   # ~1e6 states generated
            ctx.write_cfg(sd, "MC3.cfg", "Spec", c3, inv, "Bounded")
            ctx.tlc_check(sd, "FieldTypes", "MC3.cfg", workers=8, timeout=2400)
        gl = ctx.pick(7, 9)
        gc = {"Fields": ['"f"', '"g"'], "Types": ['"float"', '"integer"', '"unsigned"', '"string"', '"boolean"'], "Series": ['"s1"', '"s2"'],
              "MaxBatch": 4, "MaxWrites": 99, "MaxT": 2, "MaxV": 1, "MaxDrops": 99, "MaxReopens": 99, "GenLen": gl, "IntraBatch": False,
              "IndexPersistent": False}
        num = ctx.pick(160, 2000)
        # strict batches: points agree about the type of a field that does not exist yet (the conflicts are
        # with types the fields already have); intra batches: they may disagree (first point wins).
        # The index type is part of the model (what a reopen does to a series without data).
        behs, indexes = [], []
        for name, intra, persistent, n, sd_off in (("GenS", False, False, num // 2, 0), ("GenT", False, True, num // 2, 300),
                                                   ("GenI", True, False, num // 6, 500), ("GenJ", True, True, num // 6, 700)):
            ctx.write_cfg(sd, name + ".cfg", "GSpec", dict(gc, IntraBatch=intra, IndexPersistent=persistent), extra="INVARIANT Emit")
            b = ctx.tlc_generate(sd, "FieldTypesGen", name + ".cfg", num=n, depth=gl + 1, seed=ctx.seed + sd_off, timeout=900)[:n]
            behs += b
            indexes += ["tsi1" if persistent else "inmem"] * len(b)
        inp = {"behaviours": behs, "indexes": indexes}
    else:
        inp = {"behaviours": [rp["behaviour"]], "indexes": [rp.get("index", "inmem")]}

    def run_t(inp, label):
        p = ctx.write_json("behT-%s.json" % label, inp)
        return ctx.go_test(PKG_T, FILES_T, "^TestVerifReadTypes$", env={"VERIF_IN": p}, timeout=1200, label=label)

    def confirm(r):
        recs, out, rc = run_t({"behaviours": [r["behaviour"]], "indexes": [r.get("index", "inmem")]}, "confirm-types")
        return any(x.get("k") == "mismatch" for x in recs)

    recs, out, rc = run_t(inp, "types")
    done = ctx.process(recs, out, rc, "TestVerifReadTypes", confirm)
    ctx.cov["traces_validated_against_impl"] += done.get("behaviours", 0)
    extra = {"types_behaviours": done.get("behaviours", 0), "types_batches": done.get("batches", 0),
             "types_conflicting_points": done.get("conflicts", 0), "types_partial_writes": done.get("partial", 0)}
    if rp is not None:
        return ctx.finish("model_checking", extra)
    return extra
