# X01 (extra check, not one of the listed properties) - the LEASE protocol of the meta service and its user, the
# continuous-query service.  Semantic properties X01..X04 are written down in specs/lease/Lease.tla and CQSched.tla.
# spec: specs/lease (Lease, LeaseGen, CQSched, CQSchedGen); harness: harness/meta/zz_verif_lease_test.go,
# harness/continuous_querier/zz_verif_cq_test.go
import json, os, re, threading
from vcheck import Infra, log

M_PKG = "services/meta"
M_FILES = ["meta/zz_verif_lease_test.go"]
CQ_PKG = "services/continuous_querier"
CQ_FILES = ["continuous_querier/zz_verif_cq_test.go"]

X01 = ["TypeOK", "X01_TableExclusive", "X01_RefusedOnlyValid", "X01_GrantExtends", "X01_SingleHolder", "TableInHistory"]
X02 = ["X02_OnlyAcrossGranters", "X02_OverlapBounded"]
X04 = ["X04_EntryServerDown"]
X03 = ["TypeOK", "X03_LeaseGuards", "X03_NeverFuture", "X03_AtMostOnce", "X03_NoGap", "X03_Demand"]


def lease_consts(**kw):
    c = {"Meta": ['"m1"', '"m2"'], "Nodes": {1, 2}, "Names": ['"cq"'], "D": 2, "MaxNow": 4, "MaxEvents": 0, "MaxHops": 2,
         "AllowStale": False, "AllowRestart": False, "TryAllServers": True}
    c.update(kw)
    return c


def cq_consts(**kw):
    c = {"Nodes": {1}, "Is": {2, 4}, "Es": {0, 2, 4, 8}, "Fs": {0, 4, 8}, "Os": {0, 2}, "D": 4, "Now0": {40, 41},
         "MaxNow": 58, "MaxFaults": 0}
    c.update(kw)
    return c


def never_taken(out, module):
    """Actions with zero states in the LAST coverage report of a TLC run (-coverage prints interim reports too)."""
    last = {}
    for line in out.splitlines():
        m = re.match(r"^<(\w+) line \d+, col .* of module (\w+)>: (\d+):(\d+)", line.strip())
        if m and m.group(2) == module:
            last[m.group(1)] = int(m.group(4))
    return sorted(a for a, n in last.items() if n == 0)


def model_checking(ctx, sd, res):
    """All exhaustive TLC runs (own thread: they only need CPU while the replays mostly wait for real time)."""
    try:
        q = ctx.quick()
        # -- Lease: stable leader, the clock, two nodes racing for one name (X01, X04)
        ctx.write_cfg(sd, "L0.cfg", "Spec", lease_consts(MaxNow=ctx.pick(4, 6)), X01 + X02 + X04)
        ctx.tlc_check(sd, "Lease", "L0.cfg", workers=4, timeout=900, coverage=False)
        # -- Lease: leadership moves (StepDown, Elect, Learn, Forget): X01 per table, X02 characterisation
        ctx.write_cfg(sd, "L1.cfg", "Spec", lease_consts(D=1, MaxNow=ctx.pick(2, 3), MaxEvents=ctx.pick(2, 4)), X01 + X02 + X04)
        ctx.tlc_check(sd, "Lease", "L1.cfg", workers=8, timeout=1800)
        if not q:
            # processes stop and start (tables lost), three meta nodes, a stale second leader
            ctx.write_cfg(sd, "L2.cfg", "Spec", lease_consts(D=1, MaxNow=2, MaxEvents=3, AllowRestart=True), X01 + X02 + X04)
            r = ctx.tlc_check(sd, "Lease", "L2.cfg", workers=8, timeout=1800, coverage=True)
            if never_taken(r["out"], "Lease"):
                raise Infra("vacuity: actions of Lease.tla never taken in L2.cfg: %s" % never_taken(r["out"], "Lease"))
            ctx.write_cfg(sd, "L3.cfg", "Spec", lease_consts(Meta=['"m1"', '"m2"', '"m3"'], D=1, MaxNow=2, MaxEvents=2), X01 + X02 + X04)
            ctx.tlc_check(sd, "Lease", "L3.cfg", workers=8, timeout=1800)
            ctx.write_cfg(sd, "L4.cfg", "Spec", lease_consts(D=1, MaxNow=2, MaxEvents=3, AllowStale=True),
                          X01 + ["X02_OnlyAcrossGranters"] + X04)
            ctx.tlc_check(sd, "Lease", "L4.cfg", workers=8, timeout=1800)
        # -- X02: TLC shows when two holders are possible (expected violation = the lead that is replayed on the cluster)
        ctx.write_cfg(sd, "LN.cfg", "Spec", lease_consts(D=1, MaxNow=2, MaxEvents=2), ["X02_SingleHolder"])
        r = ctx.tlc_check(sd, "Lease", "LN.cfg", workers=2, timeout=600, expect_ok=False)
        if not any("X02_SingleHolder" in v for v in r["violated"]):
            raise Infra("X02: the model with a change of leadership does not reach two simultaneous holders")
        steps = [l for l in r["out"].splitlines() if l.startswith("State ") and "<" in l]
        res["x02_counterexample"] = [l.split("<", 1)[1].split(" line", 1)[0] for l in steps]
        # -- X04: the client as found (only metaServers[0]) violates it on the model
        ctx.write_cfg(sd, "LA.cfg", "Spec", lease_consts(D=1, MaxNow=1, MaxEvents=1, AllowRestart=True, TryAllServers=False), X04)
        r = ctx.tlc_check(sd, "Lease", "LA.cfg", workers=2, timeout=600, expect_ok=False)
        if not r["violated"]:
            raise Infra("X04 negative control: the first-server-only client does not violate X04_EntryServerDown")
        if not q:
            for probe, kw in (("Probe_Takeover", {}), ("Probe_Renew", {}), ("Probe_Refuse", {}), ("Probe_Redirect", {}),
                              ("Probe_NoLeader", {"MaxEvents": 1}), ("Probe_StaleTable", {"MaxEvents": 4, "D": 1, "MaxNow": 1}),
                              ("Probe_EntryDown", {"MaxEvents": 3, "AllowRestart": True, "Meta": ['"m1"']})):
                ctx.write_cfg(sd, "LP.cfg", "Spec", lease_consts(**kw), [probe])
                r = ctx.tlc_check(sd, "Lease", "LP.cfg", workers=2, timeout=600, expect_ok=False)
                if not r["violated"]:
                    raise Infra("vacuity: %s is not reachable in Lease.tla" % probe)
        # -- CQSched: one service, every valid (interval, EVERY, FOR, offset) combination of the small domain
        if q:
            ctx.write_cfg(sd, "Q0.cfg", "Spec", cq_consts(Es={0, 2, 8}, Fs={0, 8}, MaxNow=54), X03)
        else:
            ctx.write_cfg(sd, "Q0.cfg", "Spec", cq_consts(Is={2, 4, 6}, Es={0, 2, 4, 8, 12}, Fs={0, 4, 8, 12}, Os={0, 2}, Now0={80, 81}, MaxNow=100), X03)
        ctx.tlc_check(sd, "CQSched", "Q0.cfg", workers=4, timeout=1800)
        # two services, the lease moving between them, restarts / manual runs / failing queries
        ctx.write_cfg(sd, "Q1.cfg", "Spec", cq_consts(Nodes={1, 2}, Is={4} if q else {2, 4}, Es={0, 2} if q else {0, 2, 8}, Fs={0, 8},
                                                      Os={0} if q else {0, 2}, MaxNow=ctx.pick(50, 52), MaxFaults=1), X03)
        r = ctx.tlc_check(sd, "CQSched", "Q1.cfg", workers=8, timeout=1800, coverage=not q)
        if not q and never_taken(r["out"], "CQSched"):
            raise Infra("vacuity: actions of CQSched.tla never taken in Q1.cfg: %s" % never_taken(r["out"], "CQSched"))
        # leads: what the hand-over of the lease (no fault at all) does to the cluster-wide view
        leads = {}
        all_leads = [("Lead_ClusterAtMostOnce", 0), ("Lead_ClusterNoGap", 0), ("Lead_FailedQueryNoGap", 1)]
        for inv, faults in ([all_leads[ctx.seed % 3]] if q else all_leads):   # quick: one of them, chosen by the seed
            ctx.write_cfg(sd, "QL.cfg", "Spec", cq_consts(Nodes={1, 2}, Is={4}, Es={0}, Fs={0}, Os={0}, MaxNow=56, MaxFaults=faults), [inv])
            r = ctx.tlc_check(sd, "CQSched", "QL.cfg", workers=2, timeout=600, expect_ok=False)
            leads[inv] = bool(r["violated"])
            if not r["violated"]:
                raise Infra("lead %s is not violated on the model: CQSched.tla and its description disagree" % inv)
        # the recorded finding on the model: parameters that are not GapFree leave holes between on-time passes
        ctx.write_cfg(sd, "QK.cfg", "Spec", cq_consts(Is={6}, Es={8}, Fs={0}, Os={0}, Now0={80}, MaxNow=92), ["Lead_ParamGap"])
        r = ctx.tlc_check(sd, "CQSched", "QK.cfg", workers=2, timeout=600, expect_ok=False)
        if not r["violated"]:
            raise Infra("known finding X01-cq-gap: the model with interval 3u / EVERY 4u leaves no hole")
        leads["Lead_ParamGap(i=3u,e=4u)"] = True
        res["cq_leads_violated_on_model"] = leads
        if not q:
            for probe in ("Probe_Ran", "Probe_CatchUp", "Probe_Refused", "Probe_Takeover"):
                ctx.write_cfg(sd, "QP.cfg", "Spec", cq_consts(Nodes={1, 2}, Is={4}, Es={0}, Fs={0}, Os={0}, MaxNow=60), [probe])
                r = ctx.tlc_check(sd, "CQSched", "QP.cfg", workers=2, timeout=600, expect_ok=False)
                if not r["violated"]:
                    raise Infra("vacuity: %s is not reachable in CQSched.tla" % probe)
    except BaseException as e:  # re-raised in the main thread
        res["error"] = e


def x02_score(beh):
    """How many times a node is granted the lease while another node holds a grant from another table."""
    bel, n = {}, 0
    for s in beh:
        if s["a"] == "resp" and s["code"] == "ok":
            n += sum(1 for o, b in bel.items() if o != s["n"] and b != s["by"])
            bel[s["n"]] = s["by"]
        elif s["a"] == "resp" and s["code"] == "conflict":
            bel.pop(s["n"], None)
    return n


def split_records(recs, rc, test):
    """Several drivers ran in one `go test`: the records of one of them and its own exit status."""
    mine = [r for r in recs if (r.get("k") in ("done",) and r.get("test") == test)
            or (r.get("k") == "mismatch" and (r.get("replay") or {}).get("test") == test)]
    failed = any(r.get("k") == "mismatch" and not r["sig"].startswith("note:") for r in mine) or not any(r.get("k") == "done" for r in mine)
    return mine, (rc if failed else 0)


def run(ctx):
    import copy, tempfile
    sd = ctx.spec_dir("lease")
    rp = json.load(open(ctx.replay))["replay"] if ctx.replay else None

    def meta_run(tests, inputs, label, timeout=2400, c=ctx):
        env = {}
        for kind, inp in inputs.items():
            env["VERIF_IN_" + kind] = c.write_json("in-%s-%s.json" % (label, kind), inp)
        return c.go_test(M_PKG, M_FILES, "^(%s)$" % "|".join(tests), env=env, timeout=timeout, label=label)

    KIND = {"TestVerifLeaseTable": "TABLE", "TestVerifLeaseHTTP": "HTTP", "TestVerifLeaseCluster": "CLUSTER"}

    def one_meta(r, label):
        if r["test"] == "TestVerifLeaseClosing":
            return meta_run([r["test"]], {}, label, 600)
        inp = {"behaviours": [r["behaviour"]], "tick_ms": max(r.get("tick_ms", 0), 600), "parallel": 1}
        return meta_run([r["test"]], {KIND[r["test"]]: inp}, label)

    def stress(label):
        """thorough tier: concurrent requests for one lease, built with the race detector.  Semantic part: every answer is
        well formed.  A detector report that involves the lease table is reported as what it is (a verdict of the
        detector, as for C19's race clause), any other report is only noted."""
        recs, out, rc = ctx.go_test(M_PKG, M_FILES, "^TestVerifLeaseAnswerStress$", env={"VERIF_ROUNDS": 400}, timeout=900,
                                    label=label, race=True)
        races = re.findall(r"WARNING: DATA RACE.*?==================", out, re.S)
        mine = [x for x in races if "Leases).Acquire" in x or "serveLease" in x]
        done = [r for r in recs if r.get("k") == "done"]
        if mine:
            ctx.report_mismatch("race:lease-answer", "race detector: " + re.sub(r"\s+", " ", mine[0])[:1400], {"test": "TestVerifLeaseAnswerStress"})
        elif races and done and not any(r.get("k") == "mismatch" for r in recs):
            ctx.cov.setdefault("conformance_notes", []).append("race detector report outside the lease code during the stress: " + re.sub(r"\s+", " ", races[0])[:300])
            rc = 0
        if not mine:
            ctx.process(recs, out, rc, "TestVerifLeaseAnswerStress", None)
        return done[0] if done else {}

    def confirm_meta(r):
        recs, out, rc = one_meta(r, "confirm")
        return any(x.get("k") == "mismatch" and not x["sig"].startswith("note:") for x in recs)

    def cq_run(tests, inp, label, c=ctx):
        env = {"VERIF_IN": c.write_json("in-%s.json" % label, inp)} if inp else {}
        return c.go_test(CQ_PKG, CQ_FILES, "^(%s)$" % "|".join(tests), env=env, timeout=1500, label=label)

    def one_cq(r, label, c=ctx):
        if r["test"] == "TestVerifCQTimer":
            return cq_run(["TestVerifCQTimer"], None, label, c)
        return cq_run(["TestVerifCQReplay"], {"behaviours": [r["behaviour"]], "indices": [r["index"]], "seed": r["seed"]}, label, c)

    if rp:
        if rp["test"] == "TestVerifLeaseAnswerStress":
            stress("replay")
            return ctx.finish("model_checking", {"replay": rp["test"]})
        if rp["test"] in ("TestVerifCQReplay", "TestVerifCQTimer"):
            recs, out, rc = one_cq(rp, "replay")
        else:
            recs, out, rc = one_meta(rp, "replay")
        ctx.process(recs, out, rc, rp["test"], None)
        return ctx.finish("model_checking", {"replay": rp["test"]})

    res, extra, errors = {}, {}, []

    def guarded(fn):
        def w():
            try:
                fn()
            except BaseException as e:
                errors.append(e)
        t = threading.Thread(target=w)
        t.start()
        return t

    # ---- exhaustive TLC runs (own thread and spec directory)
    sd_mc = ctx.spec_dir("lease")
    t_mc = threading.Thread(target=model_checking, args=(ctx, sd_mc, res))
    t_mc.start()

    # ---- 4. the continuous-query service (own thread, own scratch directory, shared verdict lists):
    #         schedules replayed on real Services; the timer path with the real clock
    ctx2 = copy.copy(ctx)
    ctx2.scratch = tempfile.mkdtemp(prefix="cq-", dir=ctx.scratch)

    def cq_pipeline():
        sdq = ctx2.spec_dir("lease")
        glq = 30
        gq = cq_consts(Nodes={1, 2}, MaxNow=400, MaxFaults=3, GenLen=glq, MaxJump=5)
        if not ctx2.quick():
            gq.update(Is={2, 4, 6}, Es={0, 2, 4, 8, 12}, Fs={0, 4, 8, 12}, Now0={80, 81})
        ctx2.write_cfg(sdq, "GQ.cfg", "GSpec", gq, extra="INVARIANT Emit")
        nq = ctx2.pick(150, 2000)
        qb = ctx2.tlc_generate(sdq, "CQSchedGen", "GQ.cfg", num=nq, depth=glq + 1)[:nq]
        # the recorded finding is re-run every time (DESIGN 4.10): GROUP BY time(3u) RESAMPLE EVERY 4u skips buckets
        kf = os.path.join(os.path.dirname(os.path.dirname(os.path.abspath(__file__))), "replays", "X01", "known-cq-gap-every-vs-interval.json")
        qb.append(json.load(open(kf))["replay"]["behaviour"])
        recs, out, rc = cq_run(["TestVerifCQReplay", "TestVerifCQTimer"], {"behaviours": qb}, "cq", ctx2)
        for r in recs:
            if r.get("k") == "sample":
                ctx2.add_sample(r.get("v"))
        r4, rc4 = split_records(recs, rc, "TestVerifCQReplay")
        d4 = ctx2.process(r4, out, rc4, "TestVerifCQReplay", lambda r: any(x.get("k") == "mismatch" for x in one_cq(r, "confirm-cq", ctx2)[0]))
        ctx2.cov["traces_validated_against_impl"] += d4.get("behaviours", 0)
        if d4 and not ctx2.violations and not any(k[0]["id"] == "X01-cq-gap-every-vs-interval" for k in ctx2.known_hits):
            raise Infra("the recorded finding X01-cq-gap-every-vs-interval did not reproduce: if it was repaired, remove it from known/X01.json and drop GapFree from X03_NoGap")
        extra.update({"cq_" + k: v for k, v in d4.items() if k not in ("k", "test")})
        if d4 and not ctx2.violations:
            for k in ("passes_executed", "catch_up_passes", "refused", "restarts", "manual", "failed_queries"):
                if not d4.get(k):
                    raise Infra("replay vacuity: no %s in the replayed continuous-query behaviours" % k)
        r5, rc5 = split_records(recs, rc, "TestVerifCQTimer")
        d5 = ctx2.process(r5, out, rc5, "TestVerifCQTimer", lambda r: any(x.get("k") == "mismatch" for x in one_cq(r, "confirm-timer", ctx2)[0]))
        extra.update({"timer_" + k: v for k, v in d5.items() if k not in ("k", "test")})
    t_cq = guarded(cq_pipeline)

    # ---- 1.-3. the lease: behaviours for the real-time replays and for the three-node cluster
    gl = 24
    gt = lease_consts(Meta=['"m1"'], Nodes={1, 2, 3}, Names=['"a"', '"b"'], MaxNow=99, GenLen=gl, GenMode='"table"', TickWeight=9)
    ctx.write_cfg(sd, "GT.cfg", "GSpec", gt, extra="INVARIANT Emit")
    glc = 40
    gc = lease_consts(Meta=['"m1"', '"m2"', '"m3"'], Names=['"a"'], D=5, MaxNow=0, MaxEvents=7, AllowRestart=True, GenLen=glc,
                      GenMode='"cluster"', TickWeight=1)
    sd_c = ctx.spec_dir("lease")
    ctx.write_cfg(sd_c, "GC.cfg", "GSpec", gc, extra="INVARIANT Emit")
    gen = {}
    t_gc = guarded(lambda: gen.update(cand=ctx.tlc_generate(sd_c, "LeaseGen", "GC.cfg", num=ctx.pick(60, 300), depth=glc + 1)))
    num = ctx.pick(120, 1200)
    behs = ctx.tlc_generate(sd, "LeaseGen", "GT.cfg", num=num, depth=gl + 1)[:num]
    t_gc.join()
    if errors:
        raise errors[0]
    cand = gen["cand"]
    nc = ctx.pick(4, 24)
    cand.sort(key=lambda b: -x02_score(b))            # stable: the double-holder scenarios first
    with_stop = [b for b in cand if any(s["a"] == "send" and s["skipped"] for s in b)]
    chosen = cand[:nc - nc // 2]
    chosen += [b for b in with_stop if b not in chosen][:nc // 2]
    chosen += [b for b in cand if b not in chosen][:nc - len(chosen)]
    if x02_score(chosen[0]) == 0:
        raise Infra("no generated cluster behaviour contains the two-holder scenario")
    nh = ctx.pick(48, 400)
    tests = ["TestVerifLeaseTable", "TestVerifLeaseHTTP", "TestVerifLeaseClosing", "TestVerifLeaseCluster"]
    recs, out, rc = meta_run(tests, {"TABLE": {"behaviours": behs, "tick_ms": 200, "parallel": 48},
                                     "HTTP": {"behaviours": behs[:nh], "tick_ms": 800, "parallel": 16, "min_on_schedule_pct": 25},
                                     "CLUSTER": {"behaviours": chosen}}, "lease", timeout=3000)
    d = {}
    for r in recs:
        if r.get("k") == "sample":
            ctx.add_sample(r.get("v"))
    for tname in tests:
        r, rct = split_records(recs, rc, tname)
        d[tname] = ctx.process(r, out, rct, tname, confirm_meta)
    d1, d2, d3 = d["TestVerifLeaseTable"], d["TestVerifLeaseHTTP"], d["TestVerifLeaseCluster"]
    ctx.cov["traces_validated_against_impl"] += d1.get("behaviours_on_schedule", 0) + d2.get("behaviours_on_schedule", 0) + d3.get("behaviours", 0)
    extra.update({"table_behaviours": d1.get("behaviours", 0), "table_on_schedule": d1.get("behaviours_on_schedule", 0),
                  "table_calls": d1.get("calls", 0),
                  "table_kinds": {k[5:]: v for k, v in d1.items() if k.startswith("kind_")},
                  "http_behaviours": d2.get("behaviours", 0), "http_on_schedule": d2.get("behaviours_on_schedule", 0),
                  "http_calls": d2.get("calls", 0), "http_kinds": {k[5:]: v for k, v in d2.items() if k.startswith("kind_")},
                  "closing_answer": d["TestVerifLeaseClosing"].get("answer")})
    extra.update({"cluster_" + k: v for k, v in d3.items() if k not in ("k", "test")})
    if not ctx.violations:
        for k in ("new", "renew", "takeover", "refuse"):
            if not extra["table_kinds"].get(k) or not extra["http_kinds"].get(k):
                raise Infra("replay vacuity: no on-schedule '%s' answer was compared (table %s, http %s)" % (k, extra["table_kinds"], extra["http_kinds"]))
        if d3.get("x02_two_holders_observed", 0) == 0 and "note:x02-stricter" not in str(ctx.cov.get("conformance_notes")):
            raise Infra("the two-holder scenario of the model was not observed on the real cluster although it was replayed")
        for k in ("leadership_transfers", "stops", "served_after_redirect", "calls_first_server_down"):
            if not d3.get(k):
                raise Infra("replay vacuity: no %s in the cluster replay" % k)
    if d3.get("x02_two_holders_observed", 0):
        log("X02 (design limitation, documented in client.go: 'Leases are not ... fully consistent'): after a change of "
            "leadership the real cluster granted a lease while another node held an unexpired one, %d times in %d behaviours"
            % (d3["x02_two_holders_observed"], d3.get("behaviours_with_two_holders", 0)))

    if not ctx.quick():
        ds = stress("lease-stress-race")
        extra.update({"stress_" + k: v for k, v in ds.items() if k not in ("k", "test")})

    t_cq.join()
    t_mc.join()
    if "error" in res:
        raise res.pop("error")
    if errors:
        raise errors[0]
    extra.update(res)
    return ctx.finish("model_checking", extra, assumptions=[
        "one global clock; every expiry is judged by the granting meta node, clock skew between meta nodes is not modelled",
        "hashicorp/raft is trusted (at most one leader per term); what is modelled is each meta node's own view of the leader",
        "real-time binding: the lease duration is D ticks + half a tick and every call is measured to lie in the first half of its tick; behaviours that leave the schedule are inconclusive (counted), X01 is still judged on them with the measured instants",
        "the exact boundary now == expiration (not expired) is model-checked but cannot be hit with a real clock",
        "continuous queries: UTC only (no TZ clause / DST), one CQ definition per behaviour (in two databases), queries are executed by a recording statement executor",
        "cluster replay: calls are made when every running meta node knows the leader, or after a final quorum loss; the transient views in between are model-checked only"])
