# X01 (extra check, not one of the listed properties) - the LEASE protocol of the meta service and its user, the
# continuous-query service.  Semantic properties X01..X04 are written down in specs/lease/Lease.tla and CQSched.tla.
# spec: specs/lease (Lease, LeaseGen, CQSched, CQSchedGen); harness: harness/meta/zz_verif_lease_test.go,
# harness/continuous_querier/zz_verif_cq_test.go
import json, threading
from vcheck import Infra, log

M_PKG = "services/meta"
M_FILES = ["meta/zz_verif_lease_test.go"]
CQ_PKG = "services/continuous_querier"
CQ_FILES = ["continuous_querier/zz_verif_cq_test.go"]

X01 = ["TypeOK", "X01_TableExclusive", "X01_RefusedOnlyValid", "X01_GrantExtends", "X01_SingleHolder", "TableInHistory"]
X02 = ["X02_OnlyAcrossGranters", "X02_OverlapBounded"]
X04 = ["X04_EntryServerDown"]
X03 = ["TypeOK", "X03_LeaseGuards", "X03_NeverFuture", "X03_AtMostOnce", "X03_NoGap", "X03_Demand"]


def lease_consts(**kw):
    c = {"Meta": ['"m1"', '"m2"'], "Nodes": {1, 2}, "Names": ['"cq"'], "D": 2, "MaxNow": 4, "MaxEvents": 0, "MaxHops": 2,
         "AllowStale": False, "AllowRestart": False, "TryAllServers": True}
    c.update(kw)
    return c


def cq_consts(**kw):
    c = {"Nodes": {1}, "Is": {2, 4}, "Es": {0, 2, 4, 8}, "Fs": {0, 4, 8}, "Os": {0, 2}, "D": 4, "Now0": {40, 41},
         "MaxNow": 58, "MaxFaults": 0}
    c.update(kw)
    return c


def model_checking(ctx, sd, res):
    """All exhaustive TLC runs (own thread: they only need CPU while the replays mostly wait for real time)."""
    try:
        q = ctx.quick()
        # -- Lease: stable leader, the clock, two nodes racing for one name (X01, X04)
        ctx.write_cfg(sd, "L0.cfg", "Spec", lease_consts(MaxNow=ctx.pick(4, 6)), X01 + X02 + X04)
        ctx.tlc_check(sd, "Lease", "L0.cfg", workers=4, timeout=900, coverage=False)
        # -- Lease: leadership moves (StepDown, Elect, Learn, Forget): X01 per table, X02 characterisation
        ctx.write_cfg(sd, "L1.cfg", "Spec", lease_consts(D=1, MaxNow=ctx.pick(2, 3), MaxEvents=ctx.pick(2, 4)), X01 + X02 + X04)
        ctx.tlc_check(sd, "Lease", "L1.cfg", workers=8, timeout=1800)
        if not q:
            # processes stop and start (tables lost), three meta nodes, a stale second leader
            ctx.write_cfg(sd, "L2.cfg", "Spec", lease_consts(D=1, MaxNow=2, MaxEvents=3, AllowRestart=True), X01 + X02 + X04)
            ctx.tlc_check(sd, "Lease", "L2.cfg", workers=8, timeout=1800, coverage=True)
            ctx.write_cfg(sd, "L3.cfg", "Spec", lease_consts(Meta=['"m1"', '"m2"', '"m3"'], D=1, MaxNow=2, MaxEvents=2), X01 + X02 + X04)
            ctx.tlc_check(sd, "Lease", "L3.cfg", workers=8, timeout=1800)
            ctx.write_cfg(sd, "L4.cfg", "Spec", lease_consts(D=1, MaxNow=2, MaxEvents=3, AllowStale=True),
                          X01 + ["X02_OnlyAcrossGranters"] + X04)
            ctx.tlc_check(sd, "Lease", "L4.cfg", workers=8, timeout=1800)
        # -- X02: TLC shows when two holders are possible (expected violation = the lead that is replayed on the cluster)
        ctx.write_cfg(sd, "LN.cfg", "Spec", lease_consts(D=1, MaxNow=2, MaxEvents=2), ["X02_SingleHolder"])
        r = ctx.tlc_check(sd, "Lease", "LN.cfg", workers=2, timeout=600, expect_ok=False)
        if not any("X02_SingleHolder" in v for v in r["violated"]):
            raise Infra("X02: the model with a change of leadership does not reach two simultaneous holders")
        steps = [l for l in r["out"].splitlines() if l.startswith("State ") and "<" in l]
        res["x02_counterexample"] = [l.split("<", 1)[1].split(" line", 1)[0] for l in steps]
        # -- X04: the client as found (only metaServers[0]) violates it on the model
        ctx.write_cfg(sd, "LA.cfg", "Spec", lease_consts(D=1, MaxNow=1, MaxEvents=1, AllowRestart=True, TryAllServers=False), X04)
        r = ctx.tlc_check(sd, "Lease", "LA.cfg", workers=2, timeout=600, expect_ok=False)
        if not r["violated"]:
            raise Infra("X04 negative control: the first-server-only client does not violate X04_EntryServerDown")
        if not q:
            for probe, kw in (("Probe_Takeover", {}), ("Probe_Renew", {}), ("Probe_Refuse", {}), ("Probe_Redirect", {}),
                              ("Probe_NoLeader", {"MaxEvents": 1}), ("Probe_StaleTable", {"MaxEvents": 4, "D": 1, "MaxNow": 1}),
                              ("Probe_EntryDown", {"MaxEvents": 3, "AllowRestart": True, "Meta": ['"m1"']})):
                ctx.write_cfg(sd, "LP.cfg", "Spec", lease_consts(**kw), [probe])
                r = ctx.tlc_check(sd, "Lease", "LP.cfg", workers=2, timeout=600, expect_ok=False)
                if not r["violated"]:
                    raise Infra("vacuity: %s is not reachable in Lease.tla" % probe)
        # -- CQSched: one service, every valid (interval, EVERY, FOR, offset) combination of the small domain
        if q:
            ctx.write_cfg(sd, "Q0.cfg", "Spec", cq_consts(Es={0, 2, 8}, Fs={0, 8}, MaxNow=54), X03)
        else:
            ctx.write_cfg(sd, "Q0.cfg", "Spec", cq_consts(Is={2, 4, 6}, Es={0, 2, 4, 8, 12}, Fs={0, 4, 8, 12}, Os={0, 2}, Now0={80, 81}, MaxNow=100), X03)
        ctx.tlc_check(sd, "CQSched", "Q0.cfg", workers=4, timeout=1800)
        # two services, the lease moving between them, restarts / manual runs / failing queries
        ctx.write_cfg(sd, "Q1.cfg", "Spec", cq_consts(Nodes={1, 2}, Is={4} if q else {2, 4}, Es={0, 2} if q else {0, 2, 8}, Fs={0, 8},
                                                      Os={0} if q else {0, 2}, MaxNow=ctx.pick(50, 52), MaxFaults=1), X03)
        ctx.tlc_check(sd, "CQSched", "Q1.cfg", workers=8, timeout=1800, coverage=not q)
        # leads: what the hand-over of the lease (no fault at all) does to the cluster-wide view
        leads = {}
        for inv, faults in (("Lead_ClusterAtMostOnce", 0), ("Lead_ClusterNoGap", 0), ("Lead_FailedQueryNoGap", 1)):
            ctx.write_cfg(sd, "QL.cfg", "Spec", cq_consts(Nodes={1, 2}, Is={4}, Es={0}, Fs={0}, Os={0}, MaxNow=56, MaxFaults=faults), [inv])
            r = ctx.tlc_check(sd, "CQSched", "QL.cfg", workers=2, timeout=600, expect_ok=False)
            leads[inv] = bool(r["violated"])
            if not r["violated"]:
                raise Infra("lead %s is not violated on the model: CQSched.tla and its description disagree" % inv)
        res["cq_leads_violated_on_model"] = leads
        if not q:
            for probe in ("Probe_Ran", "Probe_CatchUp", "Probe_Refused", "Probe_Takeover"):
                ctx.write_cfg(sd, "QP.cfg", "Spec", cq_consts(Nodes={1, 2}, Is={4}, Es={0}, Fs={0}, Os={0}, MaxNow=60), [probe])
                r = ctx.tlc_check(sd, "CQSched", "QP.cfg", workers=2, timeout=600, expect_ok=False)
                if not r["violated"]:
                    raise Infra("vacuity: %s is not reachable in CQSched.tla" % probe)
    except BaseException as e:  # re-raised in the main thread
        res["error"] = e


def x02_score(beh):
    """How many times a node is granted the lease while another node holds a grant from another table."""
    bel, n = {}, 0
    for s in beh:
        if s["a"] == "resp" and s["code"] == "ok":
            n += sum(1 for o, b in bel.items() if o != s["n"] and b != s["by"])
            bel[s["n"]] = s["by"]
        elif s["a"] == "resp" and s["code"] == "conflict":
            bel.pop(s["n"], None)
    return n


def run(ctx):
    sd = ctx.spec_dir("lease")
    rp = json.load(open(ctx.replay))["replay"] if ctx.replay else None
    res = {}
    th = None
    if not rp:
        th = threading.Thread(target=model_checking, args=(ctx, ctx.spec_dir("lease"), res))
        th.start()

    def meta_test(test, inp, label, timeout=1500):
        p = ctx.write_json("in-%s.json" % label, inp)
        return ctx.go_test(M_PKG, M_FILES, "^%s$" % test, env={"VERIF_IN": p}, timeout=timeout, label=label)

    def confirm_meta(r):
        if r["test"] == "TestVerifLeaseClosing":
            recs, out, rc = ctx.go_test(M_PKG, M_FILES, "^TestVerifLeaseClosing$", timeout=600, label="confirm-closing")
        else:
            inp = {"behaviours": [r["behaviour"]], "tick_ms": max(r.get("tick_ms", 0), 400), "parallel": 1}
            recs, out, rc = meta_test(r["test"], inp, "confirm")
        return any(x.get("k") == "mismatch" and not x["sig"].startswith("note:") for x in recs)

    def cq_test(inp, label):
        p = ctx.write_json("in-%s.json" % label, inp)
        return ctx.go_test(CQ_PKG, CQ_FILES, "^TestVerifCQReplay$", env={"VERIF_IN": p}, timeout=1500, label=label)

    def confirm_cq(r):
        if r["test"] == "CQTIMER":
            recs, out, rc = ctx.go_test(CQ_PKG, CQ_FILES, "^TestVerifCQTimer$", timeout=600, label="confirm-timer")
        else:
            recs, out, rc = cq_test({"behaviours": [r["behaviour"]], "indices": [r["index"]], "seed": r["seed"]}, "confirm-cq")
        return any(x.get("k") == "mismatch" for x in recs)

    extra = {}
    if rp:
        if rp["test"] in ("CQ", "CQTIMER"):
            if rp["test"] == "CQ":
                recs, out, rc = cq_test({"behaviours": [rp["behaviour"]], "indices": [rp["index"]], "seed": rp["seed"]}, "replay")
                ctx.process(recs, out, rc, "TestVerifCQReplay", None)
            else:
                recs, out, rc = ctx.go_test(CQ_PKG, CQ_FILES, "^TestVerifCQTimer$", timeout=600, label="replay")
                ctx.process(recs, out, rc, "TestVerifCQTimer", None)
        elif rp["test"] == "TestVerifLeaseClosing":
            recs, out, rc = ctx.go_test(M_PKG, M_FILES, "^TestVerifLeaseClosing$", timeout=600, label="replay")
            ctx.process(recs, out, rc, rp["test"], None)
        else:
            recs, out, rc = meta_test(rp["test"], {"behaviours": [rp["behaviour"]], "tick_ms": max(rp.get("tick_ms", 0), 400), "parallel": 1}, "replay")
            ctx.process(recs, out, rc, rp["test"], None)
        return ctx.finish("model_checking", {"replay": rp["test"]})

    # ---- 1. lease table in real time: Leases.Acquire directly, then through serveLease + Client.AcquireLease
    gl = 24
    gt = lease_consts(Meta=['"m1"'], Nodes={1, 2, 3}, Names=['"a"', '"b"'], MaxNow=99, GenLen=gl, GenMode='"table"', TickWeight=9)
    ctx.write_cfg(sd, "GT.cfg", "GSpec", gt, extra="INVARIANT Emit")
    num = ctx.pick(120, 1200)
    behs = ctx.tlc_generate(sd, "LeaseGen", "GT.cfg", num=num, depth=gl + 1)[:num]
    recs, out, rc = meta_test("TestVerifLeaseTable", {"behaviours": behs, "tick_ms": 200, "parallel": 48}, "lease-table")
    d1 = ctx.process(recs, out, rc, "TestVerifLeaseTable", confirm_meta)
    nh = ctx.pick(64, 400)
    recs, out, rc = meta_test("TestVerifLeaseHTTP", {"behaviours": behs[:nh], "tick_ms": 600, "parallel": 32}, "lease-http")
    d2 = ctx.process(recs, out, rc, "TestVerifLeaseHTTP", confirm_meta)
    ctx.cov["traces_validated_against_impl"] += d1.get("behaviours_on_schedule", 0) + d2.get("behaviours_on_schedule", 0)
    extra.update({"table_behaviours": d1.get("behaviours", 0), "table_on_schedule": d1.get("behaviours_on_schedule", 0),
                  "table_calls": d1.get("calls", 0),
                  "table_kinds": {k[5:]: v for k, v in d1.items() if k.startswith("kind_")},
                  "http_behaviours": d2.get("behaviours", 0), "http_on_schedule": d2.get("behaviours_on_schedule", 0),
                  "http_calls": d2.get("calls", 0), "http_kinds": {k[5:]: v for k, v in d2.items() if k.startswith("kind_")}})
    for k in ("new", "renew", "takeover", "refuse"):
        if not extra["table_kinds"].get(k) or not extra["http_kinds"].get(k):
            raise Infra("replay vacuity: no on-schedule '%s' answer was compared (table %s, http %s)" % (k, extra["table_kinds"], extra["http_kinds"]))

    # ---- 2. a node that shuts down answers 503, not a crash
    recs, out, rc = ctx.go_test(M_PKG, M_FILES, "^TestVerifLeaseClosing$", timeout=600, label="lease-closing")
    d = ctx.process(recs, out, rc, "TestVerifLeaseClosing", confirm_meta)
    extra["closing_answer"] = d.get("answer")

    # ---- 3. three-node raft cluster: leadership transfer, stop/start, redirect, quorum loss (X01 per table, X02, X04)
    glc = 40
    gc = lease_consts(Meta=['"m1"', '"m2"', '"m3"'], Names=['"a"'], D=5, MaxNow=0, MaxEvents=7, AllowRestart=True, GenLen=glc,
                      GenMode='"cluster"', TickWeight=1)
    ctx.write_cfg(sd, "GC.cfg", "GSpec", gc, extra="INVARIANT Emit")
    nc = ctx.pick(4, 24)
    cand = ctx.tlc_generate(sd, "LeaseGen", "GC.cfg", num=ctx.pick(60, 300), depth=glc + 1)
    cand.sort(key=lambda b: -x02_score(b))            # stable: the double-holder scenarios first
    with_stop = [b for b in cand if any(s["a"] == "send" and s["skipped"] for s in b)]
    chosen = cand[:nc - nc // 2]
    chosen += [b for b in with_stop if b not in chosen][:nc // 2]
    chosen += [b for b in cand if b not in chosen][:nc - len(chosen)]
    if x02_score(chosen[0]) == 0:
        raise Infra("no generated cluster behaviour contains the two-holder scenario")
    recs, out, rc = meta_test("TestVerifLeaseCluster", {"behaviours": chosen}, "lease-cluster", timeout=2400)
    d3 = ctx.process(recs, out, rc, "TestVerifLeaseCluster", confirm_meta)
    ctx.cov["traces_validated_against_impl"] += d3.get("behaviours", 0)
    extra.update({"cluster_" + k: v for k, v in d3.items() if k not in ("k", "test")})
    if d3 and not ctx.violations and d3.get("x02_two_holders_observed", 0) == 0 and "note:x02-stricter" not in str(ctx.cov.get("conformance_notes")):
        raise Infra("the two-holder scenario of the model was not observed on the real cluster although it was replayed")
    if d3.get("x02_two_holders_observed", 0):
        log("X02 (design limitation, documented in client.go: 'Leases are not ... fully consistent'): after a change of "
            "leadership the real cluster granted a lease while another node held an unexpired one, %d times in %d behaviours"
            % (d3["x02_two_holders_observed"], d3.get("behaviours_with_two_holders", 0)))

    # ---- 4. the continuous-query service: schedules replayed on real Services; the timer path with the real clock
    glq = 30
    gq = cq_consts(Nodes={1, 2}, MaxNow=400, MaxFaults=3, GenLen=glq, MaxJump=5)
    ctx.write_cfg(sd, "GQ.cfg", "GSpec", gq, extra="INVARIANT Emit")
    nq = ctx.pick(150, 2000)
    qb = ctx.tlc_generate(sd, "CQSchedGen", "GQ.cfg", num=nq, depth=glq + 1)[:nq]
    recs, out, rc = cq_test({"behaviours": qb}, "cq-replay")
    d4 = ctx.process(recs, out, rc, "TestVerifCQReplay", confirm_cq)
    ctx.cov["traces_validated_against_impl"] += d4.get("behaviours", 0)
    extra.update({"cq_" + k: v for k, v in d4.items() if k not in ("k", "test")})
    if d4 and not ctx.violations:
        for k in ("passes_executed", "catch_up_passes", "refused", "restarts", "manual", "failed_queries"):
            if not d4.get(k):
                raise Infra("replay vacuity: no %s in the replayed continuous-query behaviours" % k)
    recs, out, rc = ctx.go_test(CQ_PKG, CQ_FILES, "^TestVerifCQTimer$", timeout=600, label="cq-timer")
    d5 = ctx.process(recs, out, rc, "TestVerifCQTimer", confirm_cq)
    extra.update({"timer_" + k: v for k, v in d5.items() if k not in ("k", "test")})

    th.join()
    if "error" in res:
        raise res["error"]
    extra.update({k: v for k, v in res.items()})
    return ctx.finish("model_checking", extra, assumptions=[
        "one global clock; every expiry is judged by the granting meta node, clock skew between meta nodes is not modelled",
        "hashicorp/raft is trusted (at most one leader per term); what is modelled is each meta node's own view of the leader",
        "real-time binding: the lease duration is D ticks + half a tick and every call is measured to lie in the first half of its tick; behaviours that leave the schedule are inconclusive (counted), X01 is still judged on them with the measured instants",
        "the exact boundary now == expiration (not expired) is model-checked but cannot be hit with a real clock",
        "continuous queries: UTC only (no TZ clause / DST), one CQ definition per behaviour (in two databases), queries are executed by a recording statement executor",
        "cluster replay: calls are made when every running meta node knows the leader, or after a final quorum loss; the transient views in between are model-checked only"])
