# C12 - line protocol and binary point encoding are faithful.
# spec: specs/lineprotocol/LineProtocol.tla (grammar-directed generator + documented meaning);
# harness: harness/models/zz_verif_lineprotocol_test.go, harness/hh/zz_verif_hhcodec_test.go
import json, os, random
from vcheck import Infra, log

PKG = "models"
FILES = ["models/zz_verif_lineprotocol_test.go"]
TEST = "TestVerifLineProtocol"
REPLAY = "TestVerifLineProtocolReplay"
INV = ["TypeOK", "C12_CanonicalTagOrder", "C12_TagSetPreserved", "C12_FieldsTyped", "C12_RejectReasons"]


def generate(ctx, sd, label, max_tags, max_fields, max_weird, rich, timeout):
    """TLC enumerates every line with at most max_weird non-default element forms; the model invariants are
    checked on every one of them in the same run."""
    cfg = "G%s.cfg" % label
    # EmitChecked = the four C12_* model invariants (named by Assert) + the print, with the meaning computed once
    ctx.write_cfg(sd, cfg, "Spec", {"MaxTags": max_tags, "MaxFields": max_fields, "MaxWeird": max_weird, "Rich": rich},
                  ["TypeOK"], extra="INVARIANT EmitChecked")
    lines = ctx.tlc_generate(sd, "LineProtocol", cfg, exhaustive=True, workers=4, timeout=timeout)
    log("lines %s: %d (tags<=%d fields<=%d non-default<=%d %s catalogs)" % (label, len(lines), max_tags, max_fields, max_weird, "full" if rich else "core"))
    return lines


def run(ctx):
    sd = ctx.spec_dir("lineprotocol")

    def replay_one(rp, label):
        p = ctx.write_json("lp-%s.json" % label, rp)
        return ctx.go_test(PKG, FILES, "^%s$" % REPLAY, env={"VERIF_IN": p}, timeout=300, label=label)

    def confirm(rp):
        recs, out, rc = replay_one(rp, "confirm")
        return any(r.get("k") == "mismatch" for r in recs)

    if ctx.replay:
        rp = json.load(open(ctx.replay))["replay"]
        if rp.get("test") == "HHC":
            recs, out, rc = ctx.go_test("services/hh", ["hh/zz_verif_hhcodec_test.go"], "^TestVerifHHCodec$",
                                        env={"VERIF_IN": ctx.write_json("hhc.json", rp)}, timeout=300, label="hhcodec-replay")
            ctx.process(recs, out, rc, "TestVerifHHCodec", None)
        else:
            recs, out, rc = replay_one(rp, "replay")
            ctx.process(recs, out, rc, REPLAY, None)
        return ctx.finish("exploration", {"evaluations": 1, "distinct_nontrivial": 2, "rule": "replay of one recorded case", "samples": [str(rp)[:300]]})

    # 1. the model: every line of the bounded grammar with its meaning; invariants on the model
    lines = []
    seen = set()

    def add(ls):
        for l in ls:
            k = json.dumps(l["form"], sort_keys=True) + l["pad"] + json.dumps(l["ts"], sort_keys=True) + l["prec"]
            if k not in seen:
                seen.add(k)
                lines.append(l)

    # the named invariants on their own (small configuration), so that a violated one is reported by name
    # (thorough tier; the generation runs check the same formulas through EmitChecked)
    if not ctx.quick():
        ctx.write_cfg(sd, "MC.cfg", "Spec", {"MaxTags": 2, "MaxFields": 2, "MaxWeird": 1, "Rich": True}, INV)
        ctx.tlc_check(sd, "LineProtocol", "MC.cfg", workers=4, timeout=600, coverage=True)
    if os.environ.get("VERIF_C12_DEV"):                          # development aid: the smallest configuration only
        add(generate(ctx, sd, "rich1", 3, 3, 1, True, 600))
    elif ctx.quick():
        add(generate(ctx, sd, "rich1", 3, 3, 1, True, 600))      # every form of the full catalogs on its own
        add(generate(ctx, sd, "core2", 2, 2, 2, False, 900))     # every pair of core forms
    else:
        add(generate(ctx, sd, "rich1", 3, 3, 1, True, 600))
        add(generate(ctx, sd, "core2", 3, 3, 2, False, 1700))    # every pair of core forms, up to 3 tags and 3 fields
        add(generate(ctx, sd, "rich2", 2, 2, 2, True, 1700))     # every pair of forms of the full catalogs
    n_model = len(lines)
    # the 64 KiB lines are expensive to render and parse: keep a handful of them
    rnd = random.Random(ctx.seed)
    big = [l for l in lines if l["pad"] != "none"]
    rnd.shuffle(big)
    keep_big = set(id(l) for l in big[:ctx.pick(40, 300)])
    lines = [l for l in lines if l["pad"] == "none" or id(l) in keep_big]
    rnd.shuffle(lines)
    for i, l in enumerate(lines):
        l["idx"] = i + 1
    dump = os.path.join(ctx.scratch, "c12-accepted-lines.txt")
    # one go test run per 60 000 lines (bounded memory); counters are summed
    done, chunk = {}, 60000
    nchunks = (len(lines) + chunk - 1) // chunk
    for ci in range(nchunks):
        part = lines[ci * chunk:(ci + 1) * chunk]
        inp = {"lines": part, "seed": ctx.seed, "multi": ctx.pick(3000, 30000) // nchunks, "mutations": ctx.pick(6, 20), "max_sigs": 8,
               "dump_lines": dump if ci == 0 else ""}
        p = ctx.write_json("lp-lines.json", inp)
        recs, out, rc = ctx.go_test(PKG, FILES, "^%s$" % TEST, env={"VERIF_IN": p}, timeout=1500, label="lineprotocol-%d" % ci)
        d = ctx.process(recs, out, rc, TEST, confirm)
        os.remove(p)
        if not ctx.violations and d.get("lines", 0) != len(part):
            raise Infra("driver checked %s lines of %d" % (d.get("lines"), len(part)))
        for k, v in d.items():
            if isinstance(v, int) and not isinstance(v, bool):
                done[k] = done.get(k, 0) + v
            elif isinstance(v, dict):
                done.setdefault(k, {}).update(v)
    ctx.cov["traces_validated_against_impl"] += done.get("lines", 0)

    # 2. the hinted-handoff block codec (marshalWrite / unmarshalWrite) on batches of the accepted lines
    hh = {}
    if os.path.exists(dump):
        hin = ctx.write_json("hhc.json", {"lines_file": dump, "seed": ctx.seed, "batches": ctx.pick(300, 3000)})
        recs, out, rc = ctx.go_test("services/hh", ["hh/zz_verif_hhcodec_test.go"], "^TestVerifHHCodec$", env={"VERIF_IN": hin},
                                    timeout=900, label="hhcodec")

        def confirm_hh(rp):
            r2, o2, c2 = ctx.go_test("services/hh", ["hh/zz_verif_hhcodec_test.go"], "^TestVerifHHCodec$",
                                     env={"VERIF_IN": ctx.write_json("hhc-confirm.json", rp)}, timeout=300, label="hhcodec-confirm")
            return any(r.get("k") == "mismatch" for r in r2)
        hh = ctx.process(recs, out, rc, "TestVerifHHCodec", confirm_hh)

    evaluations = (done.get("lines", 0) + done.get("permutations", 0) + done.get("binary_mutations", 0) + done.get("text_mutations", 0)
                   + done.get("multiline_requests", 0) + done.get("newpoint", 0) + hh.get("points", 0) + hh.get("mutations", 0))
    extra = {
        "evaluations": evaluations,
        "distinct_nontrivial": done.get("distinct_forms", 0),
        "rule": "TLC enumerates every line of the grammar of LineProtocol.tla with at most 2 non-default element forms "
                "(<=3 tags, <=3 fields; forms of DESIGN Appendix F) together with its documented meaning; each is rendered "
                "(plain characters chosen by VERIF_SEED, order-preserving) and parsed by the real ParsePointsWithPrecision; "
                "distinct_nontrivial = distinct lines (element forms, timestamp form, precision, outcome) with at least one "
                "non-default element",
        "lines_in_model": n_model, "lines_checked": done.get("lines", 0),
        "accepted": done.get("ok", 0), "rejected": done.get("reject", 0), "skipped": done.get("skip", 0),
        "tag_permutations": done.get("permutations", 0), "binary_roundtrips": done.get("binary_roundtrips", 0),
        "binary_mutations": done.get("binary_mutations", 0), "text_mutations": done.get("text_mutations", 0),
        "multiline_requests": done.get("multiline_requests", 0), "newpoint_agreement": done.get("newpoint", 0),
        "hh_batches": hh.get("batches", 0), "hh_points": hh.get("points", 0), "hh_mutations": hh.get("mutations", 0),
        "reject_reasons": {k[7:]: v for k, v in done.items() if k.startswith("reject:")},
        "mismatch_signatures": done.get("signatures", {}),
    }
    return ctx.finish("exploration", extra, assumptions=[
        "the oracle is the InfluxDB 1.x line-protocol reference as written down in LineProtocol.tla; expectations marked (cal) "
        "there (tab/NUL as leading blanks, CR not part of the line ending, '1.' and '.5' floats, last duplicate field wins, "
        "newline inside a quoted string) are not stated by the reference and were calibrated once against the parser",
        "bounded exploration: a defect that needs three or more unusual elements in one line, or bytes outside the enumerated "
        "forms, is not found; mutation of text and binary forms is seeded random, not coverage guided",
        "unsigned support is switched on (models.EnableUintSupport), as in a server built with the uint64 tag"])
