# C06 - cluster metadata is deterministic and keeps its invariants.
# spec: specs/metadata (MetaData, MetaDataGen); harness: harness/meta
import os, json, collections, time
from vcheck import Infra, log

PKG = "services/meta"
FILES = ["meta/zz_verif_metadata_test.go"]
TEST = "TestVerifMetaReplay"
NONE = 777777
# storeFSM.Apply writing term/index of a *rejected* command into the Data object published before it is reported
# as a mismatch (patches/C06/05 repairs it); False turns it into a counter in the evidence only.
STRICT_PUBLISHED = True


def q(*xs):
    return ['"%s"' % x for x in xs]


ALL_CMDS = ["CreateDatabase", "DropDatabase", "CreateRetentionPolicy", "DropRetentionPolicy", "UpdateRetentionPolicy",
            "CreateShardGroup", "DeleteShardGroup", "TruncateShardGroups", "PruneShardGroups", "Age", "DropShard",
            "CopyShardOwner", "RemoveShardOwner", "CreateDataNode", "UpdateDataNode", "DeleteDataNode",
            "CreateMetaNode", "SetMetaNode", "DeleteMetaNode", "UpdateNode", "DeleteNode",
            "CreateContinuousQuery", "DropContinuousQuery", "CreateSubscription", "DropSubscription",
            "CreateUser", "DropUser", "UpdateUser", "SetPrivilege", "SetAdminPrivilege"]
GROUP_CMDS = ["CreateShardGroup", "DeleteShardGroup", "TruncateShardGroups", "PruneShardGroups", "Age", "DropShard",
              "CopyShardOwner", "RemoveShardOwner", "CreateDataNode", "DeleteDataNode"]
ACCT_CMDS = ["CreateDatabase", "DropDatabase", "CreateRetentionPolicy", "DropRetentionPolicy",
             "CreateContinuousQuery", "DropContinuousQuery", "CreateSubscription", "DropSubscription",
             "CreateUser", "DropUser", "UpdateUser", "SetPrivilege", "SetAdminPrivilege"]

# invariants / action properties of the property text
INVS = ["TypeOK", "C06_LiveGroupsDisjoint", "C06_IdsUnique", "C06_NoRemovedOwner", "C06_RejectedChangesNothing",
        "C06_DataNodeIdsUnique"]
PROPS = "PROPERTY C06_IdsUniqueNeverReused C06_NewGroupOwners"


def base_consts():
    """Widest domains: used by the random-walk generator (arguments are drawn, not enumerated)."""
    return {
        "Names": q("", "a", "b", "p", "q", "autogen"), "DbN": q("", "a", "b"), "RpN": q("", "p", "q", "autogen"),
        "ObjN": q("", "a", "b"), "LongNames": q("L256"), "UpdNames": q("<none>", "", "p", "q", "L256"),
        "UpdDurs": [NONE, 0, 1, 2, 4, 96], "UpdRFs": [NONE, 0, 1, 2, 3, 4], "UpdSGDs": [NONE, 0, 1, 2, 3, 4, 5],
        "Ixs": [0], "InitKind": '"empty"', "SameAddr": False, "Addrs": q("h1", "h2", "h3"), "Times": list(range(0, 10)),
        "RFs": [0, 1, 2, 3, 4], "Durs": [0, 1, 2, 4, 96], "SGDs": [0, 1, 2, 3, 4, 5],
        "Hashes": q("x", "y"), "Queries": q("q1", "Q1", "q2"), "Privs": [0, 1, 2, 3], "DestSets": q("d1", "d2", "bad"),
        "Modes": q("ALL", "ANY"), "Rands": [7, 9], "MinDur": 2, "AutoCreate": True, "Cmds": q(*ALL_CMDS),
        "MaxNodeId": 99, "MaxGroupId": 99, "MaxShardId": 99, "MaxDbs": 9, "MaxRps": 9, "MaxUsers": 9, "MaxCqs": 9,
        "MaxSubs": 9, "MaxMeta": 9,
    }


def mc_consts(**over):
    """Small domains for the exhaustive runs; every family overrides what it explores."""
    c = base_consts()
    c.update({
        "Names": q("", "a", "b", "p", "q"), "DbN": q("", "a"), "RpN": q("", "p"), "ObjN": q("", "a"), "LongNames": [],
        "UpdNames": q("<none>"), "UpdDurs": [NONE], "UpdRFs": [NONE], "UpdSGDs": [NONE],
        "Addrs": q("h1", "h2"), "Times": [0], "RFs": [1], "Durs": [0], "SGDs": [0],
        "Hashes": q("x"), "Queries": q("q1"), "Privs": [1], "DestSets": q("d1"), "Modes": q("ALL"), "Rands": [7],
        "MaxNodeId": 2, "MaxGroupId": 2, "MaxShardId": 4, "MaxDbs": 1, "MaxRps": 2, "MaxUsers": 1, "MaxCqs": 1,
        "MaxSubs": 1, "MaxMeta": 1,
    })
    c.update(over)
    return c


def gen_inputs(ctx, sd):
    """Command logs: random walks over focus configurations + exhaustive short logs after prefixes.
    The generator runs are independent JVMs: run side by side."""
    import concurrent.futures
    n = ctx.pick(120, 1500)
    glen = ctx.pick(30, 40)
    allp = q("empty", "n3rf1", "n3rf2", "n2rf2", "n3rf3", "trunc", "trunc0", "aged", "aged1", "meta", "acct")
    jobs = []   # (tag, autocreate, cfg name, constants, kwargs of tlc_generate, max behaviours)
    # (a) everything
    jobs.append(("all", True, "GenAll.cfg", dict(base_consts(), GenLen=glen, Sim=True, Gaps=[1, 2], Prefixes=allp),
                 dict(num=n, depth=glen + 1, seed=ctx.seed), n))
    # (a') the same without auto-created policies
    m = max(20, n // 4)
    jobs.append(("noauto", False, "GenNoAuto.cfg", dict(base_consts(), GenLen=glen, Sim=True, Gaps=[1, 2], Prefixes=allp, AutoCreate=False),
                 dict(num=m, depth=glen + 1, seed=ctx.seed + 1000), m))
    # (b) shard-group algebra on one database / two policies, few names so that most commands hit
    jobs.append(("groups", True, "GenGroups.cfg",
                 dict(base_consts(), GenLen=glen, Sim=True, Gaps=[1, 2, 3],
                      Prefixes=q("n3rf1", "n3rf2", "n2rf2", "n3rf3", "trunc", "trunc0", "aged", "aged1", "meta"),
                      DbN=q("a"), RpN=q("p", "q"), UpdNames=q("<none>"), UpdDurs=[NONE, 0], Times=list(range(0, 12)),
                      Cmds=q(*(GROUP_CMDS + ["UpdateRetentionPolicy", "UpdateDataNode", "CreateMetaNode", "DropRetentionPolicy",
                                             "CreateRetentionPolicy"]))),
                 dict(num=n, depth=glen + 1, seed=ctx.seed + 2000), n))
    # (c) accounts: users, privileges, continuous queries, subscriptions
    m = max(30, n // 3)
    jobs.append(("acct", True, "GenAcct.cfg",
                 dict(base_consts(), GenLen=glen, Sim=True, Gaps=[1], Prefixes=q("acct", "empty"), DbN=q("", "a", "b"), RpN=q("p"),
                      ObjN=q("", "a"), Cmds=q(*ACCT_CMDS)),
                 dict(num=m, depth=glen + 1, seed=ctx.seed + 3000), m))
    # (d) exhaustive: every command sequence of length 2 over a reduced domain after each prefix
    xpref = ctx.pick((("trunc0", 5), ("n2rf2", 4), ("aged", 8)),
                     (("n3rf2", 6), ("trunc", 6), ("trunc0", 5), ("n2rf2", 4), ("aged", 8), ("aged1", 8)))
    for pref, plen in xpref:
        d = 2
        jobs.append(("x-" + pref, True, "GenX-%s.cfg" % pref,
                     dict(base_consts(), GenLen=plen + d, Sim=False, Gaps=[1], Prefixes=q(pref),
                          DbN=q("a"), RpN=q("p"), UpdNames=q("<none>"), UpdDurs=[NONE], UpdRFs=[NONE, 1], UpdSGDs=[NONE, 3],
                          Times=ctx.pick([0, 3, 4], [0, 2, 3, 4, 5]), Addrs=q("h4"), SameAddr=True,
                          Cmds=q(*([x for x in GROUP_CMDS if not (pref.startswith("aged") and x in ("CopyShardOwner", "RemoveShardOwner"))]
                                   + ["UpdateRetentionPolicy"]))),
                     dict(exhaustive=True, workers=2), None))
    for (tag, auto, cfg, c, kw, lim) in jobs:
        ctx.write_cfg(sd, cfg, "GSpec", c, extra="INVARIANT Emit")
    reps = ctx.pick(3, 5)

    def one(job):
        # one input file per generator run (the parsed logs are dropped at once: they are large)
        tag, auto, cfg, c, kw, lim = job
        got = ctx.tlc_generate(sd, "MetaDataGen", cfg, timeout=1800, **kw)
        got = got[:lim] if lim else got
        path = ctx.write_json("logs-%s.json" % tag, input_obj(auto, reps, got))
        return (tag, path, len(got))

    with concurrent.futures.ThreadPoolExecutor(max_workers=4) as ex:
        return list(ex.map(one, jobs))


def input_obj(auto, reps, behs):
    return {"consts": {"MinDur": 2, "AutoCreate": auto}, "reps": reps, "strictPublished": STRICT_PUBLISHED, "behaviours": behs}


def replay(ctx, paths, label):
    """One go test run over all input files."""
    def confirm(rp):
        one = input_obj(bool(rp["consts"].get("AutoCreate", True)), 200, [rp["behaviour"]])
        one["consts"] = rp["consts"]
        recs, out, rc = ctx.go_test(PKG, FILES, "^%s$" % TEST, env={"VERIF_IN": ctx.write_json("confirm.json", one)},
                                    timeout=600, label="confirm")
        return any(r.get("k") == "mismatch" for r in recs)

    recs, out, rc = ctx.go_test(PKG, FILES, "^%s$" % TEST, env={"VERIF_IN": ",".join(paths)}, timeout=2400, label=label)
    done = ctx.process(recs, out, rc, TEST, confirm)
    totals = {k: done.get(k, 0) for k in ("behaviours", "steps", "applies", "restores", "rejected", "rejected_stamped_published",
                                          "mismatching_behaviours")}
    return totals, collections.Counter(done.get("cover", {})), done.get("mismatch_signatures", {})


def run(ctx):
    sd = ctx.spec_dir("metadata")
    if ctx.replay:
        rp = json.load(open(ctx.replay))["replay"]
        one = input_obj(bool(rp["consts"].get("AutoCreate", True)), 200, [rp["behaviour"]])
        totals, cover, sigs = replay(ctx, [ctx.write_json("replay.json", one)], "replay")
        return ctx.finish("model_checking", {"replayed_behaviours": totals["behaviours"]})

    # 1. exhaustive model checking, one configuration per family -- runs beside generation and replay
    import concurrent.futures
    bg = concurrent.futures.ThreadPoolExecutor(max_workers=1)
    tmc = time.time()
    fut = bg.submit(mc, ctx, sd) if not os.environ.get("C06_SKIP_MC") else None   # SKIP: development aid (mutation self-test)
    if os.environ.get("C06_MC_ONLY"):
        fut.result()
        return ctx.finish("model_checking", {})

    # 2. command logs -> real storeFSM replicas
    t0 = time.time()
    files = gen_inputs(ctx, sd)
    nlogs = sum(n for (_, _, n) in files)
    log("C06: %d command logs generated in %.0fs" % (nlogs, time.time() - t0))
    t0 = time.time()
    totals, cover, sigs = replay(ctx, [p for (_, p, _) in files], "replay")
    log("C06: replay %.0fs: %s %s" % (time.time() - t0, totals, sigs or ""))
    ctx.cov["traces_validated_against_impl"] += totals["behaviours"]
    if fut is not None:
        fut.result()      # raises Infra on a model-level violation / timeout
        log("C06: model checking done after %.0fs" % (time.time() - tmc))
    # vacuity: every command type must have been accepted at least once in the replayed logs
    missing = [t for t in ALL_CMDS if not cover.get(t + ":ok")]
    if missing and not ctx.violations:
        raise Infra("command types never accepted in any replayed log: %s" % missing)
    extra = {"replayed_behaviours": totals["behaviours"], "replayed_steps": totals["steps"], "applies": totals["applies"],
             "replicas": 3, "repetitions_per_log": ctx.pick(3, 5), "snapshot_restore_round_trips": totals["restores"],
             "rejected_commands": totals["rejected"],
             "rejected_commands_stamped_into_published_value": totals["rejected_stamped_published"],
             "command_result_pairs_covered": len(cover), "command_result_coverage": dict(sorted(cover.items())),
             "log_sources": {tag: n for (tag, _, n) in files}}
    return ctx.finish("model_checking", extra, assumptions=[
        "hashicorp/raft delivers the same log entries in the same order to every replica (C07 covers replication)",
        "RemovePeerCommand / CreateNodeCommand (need a live raft instance) and SetDataCommand are not replayed",
        "deletion stamps are wall-clock values: only their age class (none / fresh / older than two weeks) is compared"])


def mc_families(ctx):
    """One exhaustive configuration per property family (DESIGN 4.2): name -> constants."""
    t = not ctx.quick()
    fam = {}
    # policy algebra: create/drop/alter of databases and policies, auto-created policy vs node count
    fam["Policy"] = mc_consts(
        Cmds=q("CreateDatabase", "DropDatabase", "CreateRetentionPolicy", "DropRetentionPolicy", "UpdateRetentionPolicy", "CreateDataNode"),
        UpdNames=q("<none>", "q") if not t else q("<none>", "q", ""), UpdDurs=[NONE, 1, 4], UpdRFs=[NONE, 0], UpdSGDs=[NONE, 3],
        RFs=[0, 1], Durs=[0, 4], SGDs=[0, 3], SameAddr=True, MaxNodeId=1 if not t else 2)
    # time ranges: creation with clipping, truncation, deletion, ageing, pruning, change of the shard duration
    fam["Ranges"] = mc_consts(
        InitKind='"rp1n1"', DbN=q("a"), RpN=q("p"), SameAddr=True, MaxNodeId=1,
        Cmds=q("CreateShardGroup", "DeleteShardGroup", "TruncateShardGroups", "PruneShardGroups", "Age", "UpdateRetentionPolicy"),
        UpdSGDs=[NONE, 3], Times=list(range(0, 6)), MaxGroupId=2 if not t else 3, MaxShardId=9)
    # owners: placement of new groups, shard drop, owner copy/removal, node removal with reassignment
    fam["Owners"] = mc_consts(
        InitKind='"rp2n3"', DbN=q("a"), RpN=q("p"), SameAddr=True, Addrs=q("h1", "h2", "h3"), MaxNodeId=3,
        Cmds=q("CreateShardGroup", "DeleteShardGroup", "DropShard", "CopyShardOwner", "RemoveShardOwner", "DeleteDataNode", "UpdateRetentionPolicy"),
        UpdRFs=[NONE, 3] if not t else [NONE, 1, 3], Times=[0, 4], Ixs=[0, 1] if not t else [0, 1, 2],
        MaxGroupId=1, MaxShardId=3)
    if t:
        # two groups side by side: node removal and shard drop across groups (no manual owner edits)
        fam["Owners2"] = mc_consts(
            InitKind='"rp2n3"', DbN=q("a"), RpN=q("p"), SameAddr=True, Addrs=q("h1", "h2", "h3"), MaxNodeId=3,
            Cmds=q("CreateShardGroup", "DeleteShardGroup", "DropShard", "DeleteDataNode", "UpdateRetentionPolicy"),
            UpdRFs=[NONE, 1, 3], Times=[0, 4], Ixs=[0, 1, 2], MaxGroupId=2, MaxShardId=6)
    # nodes: data/meta node create/update/delete, shared ids, groups created on the resulting node lists
    fam["Nodes"] = mc_consts(
        InitKind='"rp2"', DbN=q("a"), RpN=q("p"), Addrs=q("h1", "h2"), SameAddr=False if t else True, Rands=[7] if not t else [7, 9],
        Cmds=q("CreateDataNode", "UpdateDataNode", "DeleteDataNode", "CreateMetaNode", "SetMetaNode", "DeleteMetaNode", "CreateShardGroup"),
        Times=[0], Ixs=[0, 1], MaxNodeId=2 if not t else 3, MaxMeta=2, MaxGroupId=1, MaxShardId=2)
    # accounts: users, privileges, continuous queries, subscriptions against create/drop of databases and policies
    fam["Accounts"] = mc_consts(
        AutoCreate=False, DbN=q("", "a"), RpN=q("p"), ObjN=q("", "a") if not t else q("", "a", "b"),
        Cmds=q(*ACCT_CMDS), RFs=[1], Durs=[0], SGDs=[0], Hashes=q("x", "y"), Queries=q("q1", "Q1", "q2"), Privs=[1, 3],
        DestSets=q("d1", "bad"), MaxUsers=1 if not t else 2, MaxCqs=1, MaxSubs=1, MaxRps=1)
    return fam


def mc(ctx, sd):
    """The families are independent: run them side by side (each TLC with 4 workers)."""
    import concurrent.futures
    fam = mc_families(ctx)
    to = ctx.pick(600, 2400)
    for name, c in fam.items():
        ctx.write_cfg(sd, "MC%s.cfg" % name, "Spec", c, INVS, "Bounded", extra=PROPS)

    def one(name):
        return name, ctx.tlc_check(sd, "MetaData", "MC%s.cfg" % name, workers=4, timeout=to, heap="3g")

    only = os.environ.get("C06_MC_ONLY")
    names = [n for n in fam if not only or n in only.split(",")]
    with concurrent.futures.ThreadPoolExecutor(max_workers=len(names)) as ex:
        res = list(ex.map(one, names))
    for name, r in res:
        log("C06: MC %-8s %8d distinct %10d generated %6.1fs" % (name, r["distinct"], r["generated"], r["wall_s"]))
        if r["distinct"] < 50:
            raise Infra("exhaustive configuration %s is vacuous (%d states)" % (name, r["distinct"]))
