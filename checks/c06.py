# C06 - cluster metadata is deterministic and keeps its invariants.
# spec: specs/metadata (MetaData, MetaDataGen); harness: harness/meta
import os, json, collections, time
from vcheck import Infra, log

PKG = "services/meta"
FILES = ["meta/zz_verif_metadata_test.go"]
TEST = "TestVerifMetaReplay"
NONE = 777777
# storeFSM.Apply writing term/index of a *rejected* command into the Data object published before it is reported
# as a mismatch (patches/C06/05 repairs it); False turns it into a counter in the evidence only.
STRICT_PUBLISHED = True


def q(*xs):
    return ['"%s"' % x for x in xs]


ALL_CMDS = ["CreateDatabase", "DropDatabase", "CreateRetentionPolicy", "DropRetentionPolicy", "UpdateRetentionPolicy",
            "CreateShardGroup", "DeleteShardGroup", "TruncateShardGroups", "PruneShardGroups", "Age", "DropShard",
            "CopyShardOwner", "RemoveShardOwner", "CreateDataNode", "UpdateDataNode", "DeleteDataNode",
            "CreateMetaNode", "SetMetaNode", "DeleteMetaNode", "UpdateNode", "DeleteNode",
            "CreateContinuousQuery", "DropContinuousQuery", "CreateSubscription", "DropSubscription",
            "CreateUser", "DropUser", "UpdateUser", "SetPrivilege", "SetAdminPrivilege"]
GROUP_CMDS = ["CreateShardGroup", "DeleteShardGroup", "TruncateShardGroups", "PruneShardGroups", "Age", "DropShard",
              "CopyShardOwner", "RemoveShardOwner", "CreateDataNode", "DeleteDataNode"]
ACCT_CMDS = ["CreateDatabase", "DropDatabase", "CreateRetentionPolicy", "DropRetentionPolicy",
             "CreateContinuousQuery", "DropContinuousQuery", "CreateSubscription", "DropSubscription",
             "CreateUser", "DropUser", "UpdateUser", "SetPrivilege", "SetAdminPrivilege"]

# invariants / action properties of the property text
INVS = ["TypeOK", "C06_LiveGroupsDisjoint", "C06_IdsUnique", "C06_NoRemovedOwner", "C06_RejectedChangesNothing",
        "C06_DataNodeIdsUnique"]
PROPS = "PROPERTY C06_IdsUniqueNeverReused C06_NewGroupOwners"


def base_consts():
    """Widest domains: used by the random-walk generator (arguments are drawn, not enumerated)."""
    return {
        "Names": q("", "a", "b", "p", "q"), "DbN": q("", "a", "b"), "RpN": q("", "p", "q"), "ObjN": q("", "a", "b"),
        "LongNames": q("L256"), "UpdNames": q("<none>", "", "p", "q", "L256"),
        "UpdDurs": [NONE, 0, 1, 2, 4, 96], "UpdRFs": [NONE, 0, 1, 2, 3, 4], "UpdSGDs": [NONE, 0, 1, 2, 3, 4, 5],
        "Ixs": [0], "InitKind": '"empty"', "SameAddr": False, "Addrs": q("h1", "h2", "h3"), "Times": list(range(0, 10)),
        "RFs": [0, 1, 2, 3, 4], "Durs": [0, 1, 2, 4, 96], "SGDs": [0, 1, 2, 3, 4, 5],
        "Hashes": q("x", "y"), "Queries": q("q1", "Q1", "q2"), "Privs": [0, 1, 2, 3], "DestSets": q("d1", "d2", "bad"),
        "Modes": q("ALL", "ANY"), "Rands": [7, 9], "MinDur": 2, "AutoCreate": True, "Cmds": q(*ALL_CMDS),
        "MaxNodeId": 99, "MaxGroupId": 99, "MaxShardId": 99, "MaxDbs": 9, "MaxRps": 9, "MaxUsers": 9, "MaxCqs": 9,
        "MaxSubs": 9, "MaxMeta": 9,
    }


def mc_consts(**over):
    """Small domains for the exhaustive runs; every family overrides what it explores."""
    c = base_consts()
    c.update({
        "Names": q("", "a", "b", "p", "q"), "DbN": q("", "a"), "RpN": q("", "p"), "ObjN": q("", "a"), "LongNames": [],
        "UpdNames": q("<none>"), "UpdDurs": [NONE], "UpdRFs": [NONE], "UpdSGDs": [NONE],
        "Addrs": q("h1", "h2"), "Times": [0], "RFs": [1], "Durs": [0], "SGDs": [0],
        "Hashes": q("x"), "Queries": q("q1"), "Privs": [1], "DestSets": q("d1"), "Modes": q("ALL"), "Rands": [7],
        "MaxNodeId": 2, "MaxGroupId": 2, "MaxShardId": 4, "MaxDbs": 1, "MaxRps": 2, "MaxUsers": 1, "MaxCqs": 1,
        "MaxSubs": 1, "MaxMeta": 1,
    })
    c.update(over)
    return c


def gen_inputs(ctx, sd):
    """Command logs: random walks over three focus configurations + exhaustive short logs after prefixes."""
    behs = []
    n = ctx.pick(120, 1500)
    glen = ctx.pick(30, 40)
    allp = q("empty", "n3rf1", "n3rf2", "n2rf2", "n3rf3", "trunc", "trunc0", "meta", "acct")
    # (a) everything
    c = dict(base_consts(), GenLen=glen, Sim=True, Gaps=[1, 2], Prefixes=allp)
    ctx.write_cfg(sd, "GenAll.cfg", "GSpec", c, extra="INVARIANT Emit")
    behs += [("all", True, b) for b in ctx.tlc_generate(sd, "MetaDataGen", "GenAll.cfg", num=n, depth=glen + 1, timeout=900)[:n]]
    # (a') the same without auto-created policies
    c = dict(base_consts(), GenLen=glen, Sim=True, Gaps=[1, 2], Prefixes=allp, AutoCreate=False)
    ctx.write_cfg(sd, "GenNoAuto.cfg", "GSpec", c, extra="INVARIANT Emit")
    m = max(20, n // 4)
    behs += [("noauto", False, b) for b in ctx.tlc_generate(sd, "MetaDataGen", "GenNoAuto.cfg", num=m, depth=glen + 1, seed=ctx.seed + 1000, timeout=900)[:m]]
    # (b) shard-group algebra on one database / two policies, few names so that most commands hit
    c = dict(base_consts(), GenLen=glen, Sim=True, Gaps=[1, 2, 3],
             Prefixes=q("n3rf1", "n3rf2", "n2rf2", "n3rf3", "trunc", "trunc0", "meta"),
             DbN=q("a"), RpN=q("p", "q"), UpdNames=q("<none>"), UpdDurs=[NONE, 0], Times=list(range(0, 12)),
             Cmds=q(*(GROUP_CMDS + ["UpdateRetentionPolicy", "UpdateDataNode", "CreateMetaNode", "DropRetentionPolicy", "CreateRetentionPolicy"])))
    ctx.write_cfg(sd, "GenGroups.cfg", "GSpec", c, extra="INVARIANT Emit")
    behs += [("groups", True, b) for b in ctx.tlc_generate(sd, "MetaDataGen", "GenGroups.cfg", num=n, depth=glen + 1, seed=ctx.seed + 2000, timeout=900)[:n]]
    # (c) accounts: users, privileges, continuous queries, subscriptions
    c = dict(base_consts(), GenLen=glen, Sim=True, Gaps=[1], Prefixes=q("acct", "empty"), DbN=q("", "a", "b"), RpN=q("p"),
             ObjN=q("", "a"), Cmds=q(*ACCT_CMDS))
    ctx.write_cfg(sd, "GenAcct.cfg", "GSpec", c, extra="INVARIANT Emit")
    m = max(30, n // 3)
    behs += [("acct", True, b) for b in ctx.tlc_generate(sd, "MetaDataGen", "GenAcct.cfg", num=m, depth=glen + 1, seed=ctx.seed + 3000, timeout=900)[:m]]
    # (d) exhaustive: every command sequence of length 2 (quick) over a reduced domain after each prefix
    for pref, plen in (("n3rf2", 6), ("trunc", 6), ("trunc0", 5), ("n2rf2", 4)):
        d = 2
        c = dict(base_consts(), GenLen=plen + d, Sim=False, Gaps=[1], Prefixes=q(pref),
                 DbN=q("a"), RpN=q("p"), UpdNames=q("<none>"), UpdDurs=[NONE], UpdRFs=[NONE, 1], UpdSGDs=[NONE, 3],
                 Times=ctx.pick([0, 3, 4], [0, 2, 3, 4, 5]), Addrs=q("h4"),
                 Cmds=q(*(GROUP_CMDS + ["UpdateRetentionPolicy"])))
        ctx.write_cfg(sd, "GenX.cfg", "GSpec", c, extra="INVARIANT Emit")
        got = ctx.tlc_generate(sd, "MetaDataGen", "GenX.cfg", exhaustive=True, workers=4, timeout=900)
        behs += [("x-" + pref, True, b) for b in got]
    return behs


def replay(ctx, behs, reps, label):
    """behs: list of (tag, autocreate, behaviour).  One go test run per AutoCreate value."""
    totals = collections.Counter()
    cover = collections.Counter()
    for auto in (True, False):
        sel = [b for (_, a, b) in behs if a == auto]
        if not sel:
            continue
        inp = {"consts": {"MinDur": 2, "AutoCreate": auto}, "reps": reps, "strictPublished": STRICT_PUBLISHED, "behaviours": sel}
        p = ctx.write_json("logs-%s-%s.json" % (label, auto), inp)

        def confirm(rp):
            one = {"consts": rp["consts"], "reps": 200, "strictPublished": STRICT_PUBLISHED, "behaviours": [rp["behaviour"]]}
            recs, out, rc = ctx.go_test(PKG, FILES, "^%s$" % TEST, env={"VERIF_IN": ctx.write_json("confirm.json", one)},
                                        timeout=600, label="confirm")
            return any(r.get("k") == "mismatch" for r in recs)

        recs, out, rc = ctx.go_test(PKG, FILES, "^%s$" % TEST, env={"VERIF_IN": p}, timeout=1800, label=label)
        done = ctx.process(recs, out, rc, TEST, confirm)
        for k in ("behaviours", "steps", "applies", "restores", "rejected", "rejected_stamped_published", "mismatching_behaviours"):
            totals[k] += done.get(k, 0)
        cover.update(done.get("cover", {}))
    return totals, cover


def run(ctx):
    sd = ctx.spec_dir("metadata")
    if ctx.replay:
        rp = json.load(open(ctx.replay))["replay"]
        behs = [("replay", bool(rp["consts"].get("AutoCreate", True)), rp["behaviour"])]
        totals, cover = replay(ctx, behs, 200, "replay")
        return ctx.finish("model_checking", {"replayed_behaviours": totals["behaviours"]})

    # 1. exhaustive model checking, one configuration per family
    t0 = time.time()
    mc(ctx, sd)
    log("C06: model checking %.0fs" % (time.time() - t0))

    # 2. command logs -> real storeFSM replicas
    t0 = time.time()
    behs = gen_inputs(ctx, sd)
    log("C06: %d command logs generated in %.0fs" % (len(behs), time.time() - t0))
    t0 = time.time()
    reps = ctx.pick(3, 5)
    totals, cover = replay(ctx, behs, reps, "replay")
    log("C06: replay %.0fs: %s" % (time.time() - t0, dict(totals)))
    ctx.cov["traces_validated_against_impl"] += totals["behaviours"]
    # vacuity: every command type must have been accepted at least once and every error class of the model seen
    missing = [t for t in ALL_CMDS if not cover.get(t + ":ok")]
    if missing and not ctx.violations:
        raise Infra("command types never accepted in any replayed log: %s" % missing)
    tags = collections.Counter(t for (t, _, _) in behs)
    extra = {"replayed_behaviours": totals["behaviours"], "replayed_steps": totals["steps"], "applies": totals["applies"],
             "replicas": 3, "repetitions_per_log": reps, "snapshot_restore_round_trips": totals["restores"],
             "rejected_commands": totals["rejected"],
             "rejected_commands_stamped_into_published_value": totals["rejected_stamped_published"],
             "command_result_pairs_covered": len(cover), "command_result_coverage": dict(sorted(cover.items())),
             "log_sources": dict(tags)}
    return ctx.finish("model_checking", extra, assumptions=[
        "hashicorp/raft delivers the same log entries in the same order to every replica (C07 covers replication)",
        "RemovePeerCommand / CreateNodeCommand (need a live raft instance) and SetDataCommand are not replayed",
        "deletion stamps are wall-clock values: only their age class (none / fresh / older than two weeks) is compared"])


def mc(ctx, sd):
    quick = ctx.quick()
    to = ctx.pick(400, 1800)
    # policy algebra
    c = mc_consts(Cmds=q("CreateDatabase", "DropDatabase", "CreateRetentionPolicy", "DropRetentionPolicy", "UpdateRetentionPolicy", "CreateDataNode"),
                  UpdNames=q("<none>", "q"), UpdDurs=[NONE, 1, 4], UpdRFs=[NONE, 0], UpdSGDs=[NONE, 3],
                  RFs=[0, 1], Durs=[0, 4], SGDs=[0, 3])
    ctx.write_cfg(sd, "MCPolicy.cfg", "Spec", c, INVS, "Bounded", extra=PROPS)
    ctx.tlc_check(sd, "MetaData", "MCPolicy.cfg", workers=8, timeout=to)
