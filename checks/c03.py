# C03 - a cluster write honours the requested consistency level.
# spec: specs/clusterwrite (ClusterWrite, ClusterWriteGen); harness: harness/coordinator
import json
from vcheck import Infra, log

PKG = "coordinator"
FILES = ["coordinator/zz_verif_clusterwrite_test.go"]
TEST = "TestVerifClusterWriteReplay"
LEVELS = ['"any"', '"one"', '"quorum"', '"all"']
INV = ["TypeOK", "C03_SuccessOnlyIfMet", "C03_SuccessIfMetInTime", "C03_HHExactlyOnce", "C03_Classification"]


def consts(**kw):
    c = {"MaxN": 3, "Levels": LEVELS, "OOO": [True, False], "Coords": [0, 1, 2, 3], "Dev": []}
    c.update(kw)
    return c


def run(ctx):
    sd = ctx.spec_dir("clusterwrite")
    timeout_ms = ctx.pick(6, 12)
    workers = 16
    # The test binary of package coordinator binds a fixed port in an init function (pool_test.go): run it in its
    # own network namespace so that concurrent checks on the same package do not kill each other.  A small
    # GOMAXPROCS keeps the stop-the-world goroutine dumps cheap on an oversubscribed machine.
    goenv = {"GOFLAGS": "-mod=mod -exec=/verif/lib/netns_exec.sh", "GOMAXPROCS": "4"}

    def replay(behs, label, tmo=None, race=False):
        p = ctx.write_json("paths-%s.json" % label, {"behaviours": behs, "timeout_ms": tmo or timeout_ms, "workers": workers, "max_sigs": 3})
        return ctx.go_test(PKG, FILES, "^%s$" % TEST, env=dict(goenv, VERIF_IN=p), timeout=1500, label=label, race=race)

    def confirm(rp):
        # a single path: a long timer, so that a timeout path's released results are certainly consumed before it fires
        recs, out, rc = replay([rp["behaviour"]], "confirm", 1500)
        return any(r.get("k") == "mismatch" for r in recs)

    if ctx.replay:
        rp = json.load(open(ctx.replay))["replay"]
        recs, out, rc = replay([rp["behaviour"]], "replay", 1500)
        done = ctx.process(recs, out, rc, TEST, None)
        return ctx.finish("model_checking", {"replayed_behaviours": done.get("behaviours", 0)})

    # 1. the model satisfies the property: every configuration (1-3 owners, coordinator an owner or not, four
    #    levels, AllowOutOfOrderWrites on/off, every subset of non-empty hand-off queues), every interleaving of
    #    the owners' steps, channel sends, collector receives and the timer
    if ctx.quick():
        # quick: everything with one or two owners; with three owners the coordinator position chosen by the seed
        ctx.write_cfg(sd, "MC2.cfg", "Spec", consts(MaxN=2), INV)
        ctx.tlc_check(sd, "ClusterWrite", "MC2.cfg", workers=4, timeout=300)
        ctx.write_cfg(sd, "MC3.cfg", "Spec", consts(Coords=[ctx.seed % 4], OOO=[False]), INV)
        ctx.tlc_check(sd, "ClusterWrite", "MC3.cfg", workers=8, timeout=900)
    else:
        ctx.write_cfg(sd, "MC.cfg", "Spec", consts(), INV)
        r = ctx.tlc_check(sd, "ClusterWrite", "MC.cfg", workers=8, timeout=1500, coverage=True)
        if r.get("zero_coverage"):
            raise Infra("actions never taken in ClusterWrite: %s" % r["zero_coverage"])
    # negative control on the model: the code as it was before the repair of F5 (level any ignores a hand-off
    # accepted behind a non-empty queue) violates SuccessIfMetInTime
    ctx.write_cfg(sd, "MCdev.cfg", "Spec", consts(MaxN=2, Dev=['"anyIgnoresQueuedHandoff"']), INV)
    r = ctx.tlc_check(sd, "ClusterWrite", "MCdev.cfg", workers=4, timeout=300, expect_ok=False)
    if not any("C03_SuccessIfMetInTime" in v for v in r["violated"]):
        raise Infra("negative control: the pre-repair model does not violate C03_SuccessIfMetInTime: %s" % r["violated"])
    if not ctx.quick():
        # non-vacuity: partial writes and "any met by a queued hand-off alone" are reachable
        for probe in ("Probe_PartialReachable", "Probe_AnyByQueuedHandoff", "Probe_TimeoutReachable", "Probe_LateHandoff"):
            ctx.write_cfg(sd, "MCp.cfg", "Spec", consts(MaxN=2), [probe])
            r = ctx.tlc_check(sd, "ClusterWrite", "MCp.cfg", workers=4, timeout=300, expect_ok=False)
            if not r["violated"]:
                raise Infra("vacuity: %s is not reachable in the model" % probe)

    # 2. every maximal path of the model -> the real PointsWriter
    #    quick: all paths with one or two owners; with three owners one coordinator position chosen by the seed
    #    (no hanging remotes, queues looked at).  thorough: everything.
    def gen(label, **kw):
        ctx.write_cfg(sd, "G%s.cfg" % label, "GSpec", consts(**kw), extra="INVARIANT Emit")
        return ctx.tlc_generate(sd, "ClusterWriteGen", "G%s.cfg" % label, exhaustive=True, timeout=900, workers=4)
    behs = gen("12", GenN=[1, 2], GenHang=True)
    n12 = len(behs)
    if ctx.quick():
        b3 = gen("3q", GenN=[3], Coords=[ctx.seed % 4], GenHang=False, OOO=[False])
        exhaustive = False
    else:
        b3 = gen("3", GenN=[3], GenHang=True, OOO=[False])
        b3 += gen("3o", GenN=[3], GenHang=True, OOO=[True])
        exhaustive = True
    n3 = len(b3)
    behs += b3
    log("paths: %d with 1-2 owners, %d with 3 owners%s" % (n12, n3, "" if exhaustive else " (coordinator position %d)" % (ctx.seed % 4)))
    recs, out, rc = replay(behs, "replay")
    done = ctx.process(recs, out, rc, TEST, confirm)
    ctx.cov["traces_validated_against_impl"] += done.get("behaviours", 0)
    if not ctx.quick():
        # the same replay for the one/two-owner paths under the race detector (collector, owner goroutines, harness)
        recs2, out2, rc2 = replay(behs[:n12], "race", race=True)
        if "DATA RACE" in out2:
            raise Infra("race detector report during the replay:\n%s" % out2[-6000:])
        ctx.process(recs2, out2, rc2, TEST, confirm)
    ctx.cov["exhaustive"] = exhaustive
    extra = {"replayed_behaviours": done.get("behaviours", 0), "replayed_steps": done.get("steps", 0),
             "paths_total": n12 + n3, "paths_held": done.get("held", 0),
             "timeout_paths": done.get("timeout_paths", 0),
             "timeout_paths_prefix_consumed_before_return": done.get("timeout_paths_prefix_consumed_before_return", 0),
             "through_WritePointsPrivileged": done.get("through_WritePointsPrivileged", 0),
             "returns_later_than_model": done.get("returns_later_than_model", 0),
             "returns_earlier_than_model": done.get("returns_earlier_than_model", 0),
             "goroutine_dumps": done.get("goroutine_dumps", 0),
             "mismatch_signatures": done.get("signatures", {})}
    return ctx.finish("model_checking", extra, assumptions=[
        "collaborators (TSDBStore, ShardWriter, HintedHandoff, MetaClient) are scripted: 'stored' means the collaborator returned nil",
        "interleavings of the owners' internal steps are not distinguished (they interact only through the result channel); arrival order, timeouts and late answers are enumerated completely",
        "PointsWriter.Close during a write (returns 'write failed') is outside the property and not modelled"])
