# C07 - acknowledged metadata changes are never lost; replicas converge; snapshots are point-in-time images;
#       no accepted request can poison the log.
# spec: specs/metaraft (MetaCmds, MetaRaft, MetaRaftGen, MetaRaftTrace, MetaExec); harness: harness/meta
import os, json, re, shutil
from vcheck import Infra, log

PKG = "services/meta"
FILES = ["meta/zz_verif_metaraft_test.go"]
VERIF = os.path.dirname(os.path.dirname(os.path.abspath(__file__)))

# protobuf enum of internal.Command.Type (services/meta/internal/meta.proto) and the cases of storeFSM.Apply
ENUM = {1: "CreateNodeCommand", 2: "DeleteNodeCommand", 3: "CreateDatabaseCommand", 4: "DropDatabaseCommand",
        5: "CreateRetentionPolicyCommand", 6: "DropRetentionPolicyCommand", 7: "SetDefaultRetentionPolicyCommand",
        8: "UpdateRetentionPolicyCommand", 9: "CreateShardGroupCommand", 10: "DeleteShardGroupCommand",
        11: "CreateContinuousQueryCommand", 12: "DropContinuousQueryCommand", 13: "CreateUserCommand",
        14: "DropUserCommand", 15: "UpdateUserCommand", 16: "SetPrivilegeCommand", 17: "SetDataCommand",
        18: "SetAdminPrivilegeCommand", 19: "UpdateNodeCommand", 21: "CreateSubscriptionCommand",
        22: "DropSubscriptionCommand", 23: "RemovePeerCommand", 24: "CreateMetaNodeCommand", 25: "CreateDataNodeCommand",
        26: "UpdateDataNodeCommand", 27: "DeleteMetaNodeCommand", 28: "DeleteDataNodeCommand", 29: "SetMetaNodeCommand",
        30: "DropShardCommand", 31: "TruncateShardGroupsCommand", 32: "PruneShardGroupsCommand",
        33: "CopyShardOwnerCommand", 34: "RemoveShardOwnerCommand"}
UNHANDLED = {7}          # in the enum, no case in storeFSM.Apply
UNKNOWN = {0, 20, 99}    # outside the enum

S = lambda *xs: ['"%s"' % x for x in xs]


def kind_of(t):
    return "unhandled" if t in UNHANDLED else ("unknown" if t in UNKNOWN else "handled")


def mc_consts(**kw):
    c = {"Nodes": ["n1", "n2"], "Clients": [], "Kinds": S("CDN", "UDN"), "DBs": S("d1"), "SubNames": S("s1"),
         "Addrs": S("a1"), "Ids": [1], "MaxCmds": 2, "MaxSnaps": 1, "MaxCrashes": 2, "Dev": []}
    c.update(kw)
    return c


INV = ["TypeOK", "C07_StateIsFold", "C07_AckedNeverLost", "C07_SnapshotIsPointInTime", "C07_ClientCacheIsFold",
       "C07_AckImpliesClientCaughtUp"]
PROPS = "PROPERTIES C07_RestoreFidelity C07_ClientCacheMonotone"
EXEC = {"Handled": sorted(set(ENUM) - UNHANDLED), "Unhandled": sorted(UNHANDLED), "Unknown": sorted(UNKNOWN)}


def exhaustive(ctx, sd):
    """The exhaustive configurations, one per property family; run side by side (separate JVMs)."""
    from concurrent.futures import ThreadPoolExecutor
    q = ctx.quick()
    jobs = []   # (module, cfg, kwargs)
    # snapshot / crash / restart / install family: two nodes, leader-issued commands
    # (measured: 3 commands x 3 kinds x 2 crashes exceeds 12 M states - not used)
    ctx.write_cfg(sd, "MCS.cfg", "Spec", mc_consts(Kinds=S("CDN", "UDN") if q else S("CDN", "UDN", "CSUB"), MaxCmds=2,
                                                   MaxCrashes=1 if q else 2), INV, extra="SYMMETRY Sym\n" + PROPS)
    jobs.append(("MetaRaft", "MCS.cfg", dict(workers=4, timeout=ctx.pick(600, 3000), coverage=not q)))
    # client family: three nodes, one client, acknowledgements, cache, leader changes, one crash
    ctx.write_cfg(sd, "MCC.cfg", "Spec", mc_consts(Nodes=["n1", "n2", "n3"], Clients=S("c1"), MaxSnaps=0, MaxCrashes=1,
                                                   Kinds=S("CDN") if q else S("CDN", "UDN")), INV, extra="SYMMETRY Sym\n" + PROPS)
    jobs.append(("MetaRaft", "MCC.cfg", dict(workers=4, timeout=ctx.pick(600, 3000))))
    # liveness under fairness: no state constraint, no symmetry
    ctx.write_cfg(sd, "MCL.cfg", "FairSpec", mc_consts(Nodes=S("n1", "n2"), Clients=S("c1"), Kinds=S("CDN"), MaxCmds=1 if q else 2,
                                                       MaxCrashes=1), [], extra="PROPERTIES C07_Converge")
    jobs.append(("MetaRaft", "MCL.cfg", dict(workers=4, timeout=ctx.pick(600, 3000))))
    if not q:
        # the snapshot family with three nodes (follower installs, two followers snapshotting independently)
        ctx.write_cfg(sd, "MCS3.cfg", "Spec", mc_consts(Nodes=["n1", "n2", "n3"], Kinds=S("CDN"), MaxCmds=2, MaxCrashes=1),
                      INV, extra="SYMMETRY Sym\n" + PROPS)
        jobs.append(("MetaRaft", "MCS3.cfg", dict(workers=4, timeout=3000)))
    # (request pipeline: MetaExec is checked exhaustively by the run that enumerates its cases, see fsm_level)
    with ThreadPoolExecutor(max_workers=4) as ex:
        futs = {cfg: ex.submit(ctx.tlc_check, sd, mod, cfg, **kw) for mod, cfg, kw in jobs}
        res = {cfg: f.result() for cfg, f in futs.items()}
    if not q:
        # vacuity guard: every action of the module is taken (client actions are covered by MCC)
        clientside = ("Propose", "Respond", "Fail", "WaitDone", "Poll")
        zero = [z for z in res["MCS.cfg"].get("zero_coverage", []) if "@MetaRaft:" in z and not z.startswith(clientside)]
        if zero:
            raise Infra("actions never taken in MCS: %s" % zero)
        # negative controls: the invariants are able to fail on a model of the defects (vacuity guard)
        for name, consts, what in [
            ("NCS.cfg", mc_consts(Dev=S("persistLive"), MaxCrashes=1), "C07_SnapshotIsPointInTime"),
            ("NCC.cfg", mc_consts(Nodes=["n1", "n2", "n3"], Clients=S("c1"), MaxSnaps=0, MaxCrashes=1, Kinds=S("CDN"), Dev=S("staleInstall")),
             "C07_ClientCacheMonotone"),
        ]:
            ctx.write_cfg(sd, name, "Spec", consts, INV, extra="SYMMETRY Sym\n" + PROPS)
            r = ctx.tlc_check(sd, "MetaRaft", name, workers=8, timeout=1500, expect_ok=False)
            if r["ok"] or not any(what in v for v in r["violated"]):
                raise Infra("negative control %s did not violate %s: %s" % (name, what, r["violated"]))
        ctx.write_cfg(sd, "NCX.cfg", "Spec", dict(EXEC, Replicas=S("r1", "r2"), WeakValidate=True), ["C07_AcceptedNeverPoisonsLog"])
        r = ctx.tlc_check(sd, "MetaExec", "NCX.cfg", workers=2, timeout=300, expect_ok=False)
        if r["ok"]:
            raise Infra("negative control NCX did not violate C07_AcceptedNeverPoisonsLog")


def gen_consts(gl, dbs=("d1",), prelude=5):
    # one database and three subscription names: subscriptions pile up on the same policy, so that dropping one
    # that is not the last (the in-place shift) and updating an existing node happen while snapshots are held
    return {"Nodes": S("n1", "n2", "n3"), "Clients": [], "Kinds": S("CDB", "DDB", "CDN", "UDN", "CMN", "CSUB", "DSUB"),
            "DBs": S(*dbs), "SubNames": S("s1", "s2", "s3"), "Addrs": S("a1", "a2", "a3"), "Ids": [1, 2, 3],
            "MaxCmds": 0, "MaxSnaps": 9, "MaxCrashes": 3, "Dev": [], "GenLen": gl, "MaxLog": 20, "MaxPubs": 3, "PreludeLen": prelude}


TESTS = {"R": "TestVerifMetaRaftReplay", "RT": "TestVerifMetaRaftRoundTrip", "X": "TestVerifMetaRaftExec"}


def fsm_level(ctx, sd, which):
    """Replay of generated behaviours (R), snapshot round trips (RT) and request bodies (X) on real storeFSMs
    and the real /execute handler: one `go test` run serves the three drivers."""
    inputs, rp = {}, None
    if ctx.replay:
        rp = json.load(open(ctx.replay))["replay"]
    gl = 48
    num = ctx.pick(40, 500)
    if which in (None, "R"):
        if rp:
            behs = [rp["behaviour"]]
        else:
            ctx.write_cfg(sd, "Gen.cfg", "GSpec", gen_consts(gl), extra="INVARIANT Emit")
            behs = ctx.tlc_generate(sd, "MetaRaftGen", "Gen.cfg", num=num, depth=gl + 1, timeout=1200)[:num * 8]
            if not ctx.quick():
                ctx.write_cfg(sd, "Gen2.cfg", "GSpec", gen_consts(gl, ("d1", "d2"), prelude=0), extra="INVARIANT Emit")
                behs += ctx.tlc_generate(sd, "MetaRaftGen", "Gen2.cfg", num=num // 2, depth=gl + 1, seed=ctx.seed + 7, timeout=1200)[:num * 4]
        inputs["R"] = {"behaviours": behs}
    if which in (None, "RT"):
        inputs["RT"] = {"one": True, "seed": rp["seed"], "ncmd": rp["ncmd"]} if rp else \
                       {"seqs": ctx.pick(400, 6000), "len": 40, "seed": ctx.seed}
    if which in (None, "X"):
        if rp:
            cases = [rp["case"]]
        else:
            ctx.write_cfg(sd, "GenX.cfg", "Spec", dict(EXEC, Replicas=S("r1", "r2"), WeakValidate=False),
                          ["C07_AcceptedNeverPoisonsLog", "C07_LogOnlyExecutable"], extra="INVARIANT Emit")
            behs = ctx.tlc_generate(sd, "MetaExec", "GenX.cfg", exhaustive=True, timeout=300)
            cases = [{"type": b[0]["type"], "name": ENUM.get(b[0]["type"], "type%d" % b[0]["type"]), "class": b[0]["class"],
                      "expect": b[0]["expect"], "kind": kind_of(b[0]["type"])} for b in behs]
            want = (len(ENUM) + len(UNKNOWN)) * 7
            if len(cases) != want:
                raise Infra("MetaExec enumerated %d (type, class) cases, expected %d" % (len(cases), want))
        inputs["X"] = {"cases": cases}

    def run(inp, label):
        env = {}
        for k, v in inp.items():
            env["VERIF_IN_" + k] = ctx.write_json("in%s-%s-%d.json" % (k, label, len(os.listdir(ctx.scratch))), v)
        rx = "^(" + "|".join(TESTS[k] for k in inp) + ")$"
        return ctx.go_test(PKG, FILES, rx, env=env, timeout=1800, label=label)

    def confirm(r):
        t = r.get("test")
        one = {"R": lambda: {"behaviours": [r["behaviour"]]}, "RT": lambda: {"one": True, "seed": r["seed"], "ncmd": r["ncmd"]},
               "X": lambda: {"cases": [r["case"]]}}[t]()
        recs, out, rc = run({t: one}, "confirm")
        return any(x.get("k") == "mismatch" for x in recs)

    recs, out, rc = run(inputs, "fsm")
    extra = {}
    for k in inputs:
        mine = [r for r in recs if (r.get("k") == "done" and r.get("test") == TESTS[k])
                or (r.get("k") == "mismatch" and (r.get("replay") or {}).get("test") == k)
                or (r.get("k") == "sample" and k == "R")]
        done = ctx.process(mine, out, rc, TESTS[k], confirm)
        if k == "R":
            ctx.cov["traces_validated_against_impl"] += done.get("behaviours", 0)
            extra.update({"replayed_behaviours": done.get("behaviours", 0), "replayed_steps": done.get("steps", 0),
                          "replay_node_checks": done.get("node_checks", 0), "replay_actions": done.get("actions", {})})
            if not rp and done:
                for a in ("submit", "apply", "snapshot", "persist", "publish", "crash", "restart", "install"):
                    if not done.get("actions", {}).get(a):
                        raise Infra("generated behaviours never take action %s (vacuous): %s" % (a, done.get("actions")))
        elif k == "RT":
            feats = done.get("features", {})
            if not rp and done and not done.get("bad_sequences"):
                for need in ("users", "privileges", "subscriptions", "truncated-group", "group-starting-at-epoch0",
                             "group-truncated-at-epoch0", "deleted-group", "deleted-group-with-shards", "alias-probes"):
                    if not feats.get(need):
                        raise Infra("round-trip exploration never reached a value with %s (vacuous): %s" % (need, feats))
            extra.update({"roundtrip_values": done.get("values", 0), "roundtrip_features": feats})
        else:
            ctx.cov["traces_validated_against_impl"] += done.get("cases", 0)
            extra.update({"exec_cases": done.get("cases", 0), "exec_accepted": done.get("accepted", 0),
                          "exec_rejected": done.get("rejected", 0), "exec_unbuildable": done.get("skipped", 0)})
    return extra


SCENARIOS_QUICK = [["snapshot-gated", "kill-first", "transfer", "snapshot-all", "restart-all"]]
SCENARIOS_THOROUGH = [
    ["snapshot-gated", "kill-first", "transfer", "snapshot-all", "restart-all"],
    ["burst", "kill-leader", "snapshot-gated", "kill-follower", "burst"],
    ["snapshot-all", "kill-first", "snapshot-gated", "restart-all", "kill-leader", "transfer", "burst"],
    ["kill-follower", "kill-first", "snapshot-gated", "snapshot-gated", "restart-all", "restart-all"],
]


def cluster(ctx, sd):
    """Real 3-node meta cluster + real clients; the recorded trace is validated by MetaRaftTrace."""
    if ctx.replay:
        scs = [json.load(open(ctx.replay))["replay"]["scenario"]]
    else:
        lists = ctx.pick(SCENARIOS_QUICK, SCENARIOS_THOROUGH)
        scs = [{"seed": ctx.seed * 101 + i, "steps": s, "cmds": 2} for i, s in enumerate(lists)]
    out_extra = {"cluster_scenarios": 0, "trace_events": 0, "cluster_calls": 0, "cluster_acked": 0}
    ctx.write_cfg(sd, "Trace.cfg", "TSpec", {}, extra="POSTCONDITION Post")
    with open(os.path.join(sd, "Trace.cfg")) as fh:
        txt = fh.read().replace("CONSTANTS\n", "")
    with open(os.path.join(sd, "Trace.cfg"), "w") as fh:
        fh.write(txt)

    def run_one(sc, label):
        tp = os.path.join(ctx.scratch, "trace-%s-%d.ndjson" % (label, len(os.listdir(ctx.scratch))))
        p = ctx.write_json("cl-%s.json" % label, {"scenarios": [sc], "trace": tp})
        for attempt in (1, 2):
            recs, out, rc = ctx.go_test(PKG, FILES, "^TestVerifMetaRaftCluster$", env={"VERIF_IN": p}, timeout=900, label=label)
            done = [r for r in recs if r.get("k") == "done"]
            if done and rc == 0:
                break
            # no leader in time, port taken by another process, driver watchdog ...: the test bed failed, not the
            # property.  One more attempt (the machine is shared), then the check declares itself broken.
            if attempt == 2 or "INFRA:" not in out or "verif hooks are missing" in out:
                raise Infra("cluster driver did not complete (rc=%s):\n%s" % (rc, out[-3000:]))
            log("note: cluster test bed failed (%s), retrying once" % (re.findall(r"INFRA: [^\n]*", out) or ["?"])[0][:300])
        res = ctx.tlc_trace(sd, "MetaRaftTrace", tp, cfg="Trace.cfg", timeout=600)
        why = ""
        if not res["accepted"]:
            m = re.findall(r'<<"REJECT", "([^"]*)">>', res["out"])
            why = m[-1] if m else "?"
            if res["matched"] < 0 or why in ("", "?", "unknown-event"):
                raise Infra("trace validation broke (matched=%s why=%s):\n%s" % (res["matched"], why, res["out"][-3000:]))
        return done[0], res, why, tp

    last_ok = None
    for i, sc in enumerate(scs):
        done, res, why, tp = run_one(sc, "cluster%d" % i)
        out_extra["cluster_scenarios"] += 1
        out_extra["trace_events"] += done.get("events", 0)
        out_extra["cluster_calls"] += done.get("calls", 0)
        out_extra["cluster_acked"] += done.get("acked", 0)
        with open(tp) as fh:
            lines = fh.read().splitlines()
        if res["accepted"]:
            last_ok = tp
            ctx.cov["traces_validated_against_impl"] += 1
            if i == 0:
                ctx.add_sample({"trace_events": [json.loads(x) for x in lines[:3]], "total": len(lines)})
            continue
        bad = json.loads(lines[res["matched"]]) if 0 <= res["matched"] < len(lines) else {}
        sig = "trace:" + why
        detail = "real cluster trace rejected by MetaRaftTrace at event %d of %d (%s): %s" % (
            res["matched"] + 1, len(lines), why, json.dumps(bad)[:900])
        if ctx.match_known(sig) is None and not ctx.replay:
            # confirm: the same scenario must be rejected for the same reason again (raft timing varies: 3 attempts)
            again = False
            for k in range(3):
                d2, r2, w2, _ = run_one(sc, "confirm%d" % k)
                if not r2["accepted"] and w2 == why:
                    again = True
                    break
            if not again:
                raise Infra("trace rejection %s did not reproduce: %s" % (sig, detail))
            keep = os.path.join(VERIF, "replays", ctx.prop)
            os.makedirs(keep, exist_ok=True)
            shutil.copy(tp, os.path.join(keep, "trace-%s.ndjson" % why.replace(":", "_")))
        ctx.report_mismatch(sig, detail, {"test": "V", "scenario": sc})
    if not ctx.quick() and not ctx.replay and last_ok:
        negative_control(ctx, sd, last_ok)
    return out_extra


def negative_control(ctx, sd, tp):
    """Binding is demonstrated, not assumed: corrupted copies of an accepted trace must be rejected."""
    with open(tp) as fh:
        lines = fh.read().splitlines()
    evs = [json.loads(x) for x in lines]
    muts = []
    k = next((i for i, e in enumerate(evs) if e["e"] == "persist"), None)
    if k is not None:
        e = dict(evs[k]); e["hash"] = "0000000000000000"
        muts.append(("persist-hash", k, e))
    ks = [i for i, e in enumerate(evs) if e["e"] == "install" and e["c"] == "c1"]
    if len(ks) > 3:
        e = dict(evs[ks[3]]); e["idx"] = evs[ks[2]]["idx"] - 1
        muts.append(("install-regress", ks[3], e))
    ks = [i for i, e in enumerate(evs) if e["e"] == "apply" and e["cmd"]["t"] == "UDN" and e["err"] == "ok"]
    if ks:
        e = json.loads(lines[ks[0]]); e["proj"]["nodes"] = e["proj"]["nodes"][:-1]
        muts.append(("apply-state", ks[0], e))
    ks = [i for i, e in enumerate(evs) if e["e"] == "restore"]
    if ks:
        muts.append(("restore-dropped-apply", None, ks[0]))
    if len(muts) < 3:
        raise Infra("negative control: trace has no persist/install/apply events to corrupt")
    for name, k, e in muts:
        p = os.path.join(ctx.scratch, "neg-%s.ndjson" % name)
        if k is None:
            # delete the first apply event that follows a restore on that node: the node skipped a log entry
            n = evs[e]["n"]
            j = next((i for i in range(e + 1, len(evs)) if evs[i]["e"] == "apply" and evs[i]["n"] == n), None)
            if j is None:
                continue
            out = lines[:j] + lines[j + 1:]
        else:
            out = lines[:k] + [json.dumps(e)] + lines[k + 1:]
        with open(p, "w") as fh:
            fh.write("\n".join(out) + "\n")
        res = ctx.tlc_trace(sd, "MetaRaftTrace", p, cfg="Trace.cfg", timeout=600)
        if res["accepted"]:
            raise Infra("negative control %s: corrupted trace was accepted" % name)
    ctx.cov["trace_negative_controls_rejected"] = len(muts)


def run(ctx):
    sd = ctx.spec_dir("metaraft")
    extra = {}
    which = None
    if ctx.replay:
        which = json.load(open(ctx.replay))["replay"].get("test")
    stages = os.environ.get("VERIF_C07_STAGES", "mc,f,v").split(",")   # development aid: run a subset of the stages
    if not ctx.replay and "mc" in stages:
        exhaustive(ctx, sd)
    if which in (None, "R", "RT", "X") and "f" in stages:
        extra.update(fsm_level(ctx, sd, which))
    if which in (None, "V") and "v" in stages:
        try:
            extra.update(cluster(ctx, sd))
        except Infra as e:
            if not ctx.violations:
                raise
            # violations confirmed by the earlier stages stand; say that the cluster stage did not run to its end
            log("note: cluster stage broken, reporting the violations found before it: %s" % str(e)[:600])
    return ctx.finish("model_checking", extra, assumptions=[
        "hashicorp/raft (log agreement, commit, election, log compaction, snapshot store) and boltdb are trusted and abstracted as one agreed log",
        "node failure = Service.Close() and re-open on the same directory inside one process (no power-loss / torn-write model for raft's own files)",
        "cluster traces: events are consumed in the order the hooks ran under the recorder lock of the one test process; no wall-clock ordering is used"])
