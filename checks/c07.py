# C07 - acknowledged metadata changes are never lost; replicas converge; snapshots are point-in-time images;
#       no accepted request can poison the log.
# spec: specs/metaraft (MetaCmds, MetaRaft, MetaRaftGen, MetaRaftTrace, MetaExec); harness: harness/meta
import os, json, shutil
from vcheck import Infra, log

PKG = "services/meta"
FILES = ["meta/zz_verif_metaraft_test.go"]

# protobuf enum of internal.Command.Type (services/meta/internal/meta.proto) and the cases of storeFSM.Apply
ENUM = {1: "CreateNodeCommand", 2: "DeleteNodeCommand", 3: "CreateDatabaseCommand", 4: "DropDatabaseCommand",
        5: "CreateRetentionPolicyCommand", 6: "DropRetentionPolicyCommand", 7: "SetDefaultRetentionPolicyCommand",
        8: "UpdateRetentionPolicyCommand", 9: "CreateShardGroupCommand", 10: "DeleteShardGroupCommand",
        11: "CreateContinuousQueryCommand", 12: "DropContinuousQueryCommand", 13: "CreateUserCommand",
        14: "DropUserCommand", 15: "UpdateUserCommand", 16: "SetPrivilegeCommand", 17: "SetDataCommand",
        18: "SetAdminPrivilegeCommand", 19: "UpdateNodeCommand", 21: "CreateSubscriptionCommand",
        22: "DropSubscriptionCommand", 23: "RemovePeerCommand", 24: "CreateMetaNodeCommand", 25: "CreateDataNodeCommand",
        26: "UpdateDataNodeCommand", 27: "DeleteMetaNodeCommand", 28: "DeleteDataNodeCommand", 29: "SetMetaNodeCommand",
        30: "DropShardCommand", 31: "TruncateShardGroupsCommand", 32: "PruneShardGroupsCommand",
        33: "CopyShardOwnerCommand", 34: "RemoveShardOwnerCommand"}
UNHANDLED = {7}
UNKNOWN = {0, 20, 99}

S = lambda *xs: ['"%s"' % x for x in xs]


def mc_consts(**kw):
    c = {"Nodes": ["n1", "n2"], "Clients": [], "Kinds": S("CDN", "UDN"), "DBs": S("d1"), "SubNames": S("s1"),
         "Addrs": S("a1"), "Ids": [1], "MaxCmds": 2, "MaxSnaps": 1, "MaxCrashes": 2, "Dev": []}
    c.update(kw)
    return c


INV = ["TypeOK", "C07_StateIsFold", "C07_AckedNeverLost", "C07_SnapshotIsPointInTime", "C07_ClientCacheIsFold",
       "C07_AckImpliesClientCaughtUp"]
PROPS = "PROPERTIES C07_RestoreFidelity C07_ClientCacheMonotone"


def exhaustive(ctx, sd):
    q = ctx.quick()
    # snapshot / crash / restart / install family: two nodes, leader-issued commands
    ctx.write_cfg(sd, "MCS.cfg", "Spec", mc_consts(Kinds=S("CDN", "UDN") if q else S("CDN", "UDN", "CSUB"), MaxCmds=2 if q else 3),
                  INV, extra="SYMMETRY Sym\n" + PROPS)
    ctx.tlc_check(sd, "MetaRaft", "MCS.cfg", workers=8, timeout=ctx.pick(400, 2400), coverage=not q)
    # client family: three nodes, one client, acknowledgements, cache, leader changes, one crash
    ctx.write_cfg(sd, "MCC.cfg", "Spec", mc_consts(Nodes=["n1", "n2", "n3"], Clients=S("c1"), MaxSnaps=0, MaxCrashes=1),
                  INV, extra="SYMMETRY Sym\n" + PROPS)
    ctx.tlc_check(sd, "MetaRaft", "MCC.cfg", workers=8, timeout=ctx.pick(400, 1800))
    # liveness under fairness, no state constraint, no symmetry
    ctx.write_cfg(sd, "MCL.cfg", "FairSpec", mc_consts(Nodes=S("n1", "n2"), Clients=S("c1"), Kinds=S("CDN"), MaxCmds=1 if q else 2,
                                                       MaxCrashes=1), [], extra="PROPERTIES C07_Converge")
    ctx.tlc_check(sd, "MetaRaft", "MCL.cfg", workers=4, timeout=ctx.pick(400, 2400))
    # request pipeline
    ex = {"Handled": sorted(set(ENUM) - UNHANDLED), "Unhandled": sorted(UNHANDLED), "Unknown": sorted(UNKNOWN),
          "Replicas": S("r1", "r2"), "WeakValidate": False}
    ctx.write_cfg(sd, "MCX.cfg", "Spec", ex, ["C07_AcceptedNeverPoisonsLog", "C07_LogOnlyExecutable"])
    ctx.tlc_check(sd, "MetaExec", "MCX.cfg", workers=2, timeout=300)
    if not q:
        # negative controls: the invariants are able to fail (vacuity guard)
        for name, consts, mod, what in [
            ("NCS.cfg", mc_consts(Dev=S("persistLive")), "MetaRaft", "C07_SnapshotIsPointInTime"),
            ("NCC.cfg", mc_consts(Nodes=["n1", "n2", "n3"], Clients=S("c1"), MaxSnaps=0, MaxCrashes=1, Dev=S("staleInstall")), "MetaRaft", "C07_ClientCacheMonotone"),
        ]:
            ctx.write_cfg(sd, name, "Spec", consts, INV, extra="SYMMETRY Sym\n" + PROPS)
            r = ctx.tlc_check(sd, mod, name, workers=8, timeout=1200, expect_ok=False)
            if r["ok"] or not any(what in v for v in r["violated"]):
                raise Infra("negative control %s did not violate %s: %s" % (name, what, r["violated"]))
        ctx.write_cfg(sd, "NCX.cfg", "Spec", dict(ex, WeakValidate=True), ["C07_AcceptedNeverPoisonsLog"])
        r = ctx.tlc_check(sd, "MetaExec", "NCX.cfg", workers=2, timeout=300, expect_ok=False)
        if r["ok"]:
            raise Infra("negative control NCX did not violate C07_AcceptedNeverPoisonsLog")


def gen_consts(gl):
    return {"Nodes": S("n1", "n2", "n3"), "Clients": [], "Kinds": S("CDB", "DDB", "CDN", "UDN", "CMN", "CSUB", "DSUB"),
            "DBs": S("d1", "d2"), "SubNames": S("s1", "s2"), "Addrs": S("a1", "a2", "a3"), "Ids": [1, 2, 3],
            "MaxCmds": 0, "MaxSnaps": 9, "MaxCrashes": 3, "Dev": [], "GenLen": gl, "MaxLog": 14, "MaxPubs": 3}


def replay_fsm(ctx, sd):
    gl = 36
    num = ctx.pick(60, 600)
    if ctx.replay:
        behs = [json.load(open(ctx.replay))["replay"]["behaviour"]]
    else:
        ctx.write_cfg(sd, "Gen.cfg", "GSpec", gen_consts(gl), extra="INVARIANT Emit")
        behs = ctx.tlc_generate(sd, "MetaRaftGen", "Gen.cfg", num=num, depth=gl + 1, timeout=900)[:num * 6]

    def run(bs, label):
        p = ctx.write_json("behR-%s.json" % label, {"behaviours": bs})
        return ctx.go_test(PKG, FILES, "^TestVerifMetaReplay$", env={"VERIF_IN": p}, timeout=1200, label=label)

    def confirm(rp):
        recs, out, rc = run([rp["behaviour"]], "confirm")
        return any(r.get("k") == "mismatch" for r in recs)
    recs, out, rc = run(behs, "replay")
    done = ctx.process(recs, out, rc, "TestVerifMetaReplay", confirm)
    ctx.cov["traces_validated_against_impl"] += done.get("behaviours", 0)
    return {"replayed_behaviours": done.get("behaviours", 0), "replayed_steps": done.get("steps", 0),
            "replay_node_checks": done.get("node_checks", 0), "replay_actions": done.get("actions", {})}


def roundtrip(ctx):
    if ctx.replay:
        rp = json.load(open(ctx.replay))["replay"]
        inp = {"one": True, "seed": rp["seed"], "ncmd": rp["ncmd"]}
    else:
        inp = {"seqs": ctx.pick(400, 6000), "len": 40, "seed": ctx.seed}

    def run(i, label):
        p = ctx.write_json("rt-%s.json" % label, i)
        return ctx.go_test(PKG, FILES, "^TestVerifMetaRoundTrip$", env={"VERIF_IN": p}, timeout=1200, label=label)

    def confirm(rp):
        recs, out, rc = run({"one": True, "seed": rp["seed"], "ncmd": rp["ncmd"]}, "confirm")
        return any(r.get("k") == "mismatch" for r in recs)
    recs, out, rc = run(inp, "roundtrip")
    done = ctx.process(recs, out, rc, "TestVerifMetaRoundTrip", confirm)
    feats = done.get("features", {})
    if not ctx.replay:
        for need in ("users", "privileges", "subscriptions", "truncated-group", "group-starting-at-epoch0", "deleted-group"):
            if not feats.get(need):
                raise Infra("round-trip exploration never reached a value with %s (vacuous): %s" % (need, feats))
    return {"roundtrip_values": done.get("values", 0), "roundtrip_features": feats}


def exec_bodies(ctx, sd):
    if ctx.replay:
        cases = [json.load(open(ctx.replay))["replay"]["case"]]
    else:
        ex = {"Handled": sorted(set(ENUM) - UNHANDLED), "Unhandled": sorted(UNHANDLED), "Unknown": sorted(UNKNOWN),
              "Replicas": S("r1"), "WeakValidate": False}
        ctx.write_cfg(sd, "GenX.cfg", "Spec", ex, extra="INVARIANT Emit")
        behs = ctx.tlc_generate(sd, "MetaExec", "GenX.cfg", exhaustive=True, timeout=300)
        cases = []
        for b in behs:
            c = b[0]
            cases.append({"type": c["type"], "name": ENUM.get(c["type"], "type%d" % c["type"]), "class": c["class"], "expect": c["expect"]})
        want = (len(ENUM) + len(UNKNOWN)) * 7
        if len(cases) != want:
            raise Infra("MetaExec enumerated %d (type, class) cases, expected %d" % (len(cases), want))

    def run(cs, label):
        p = ctx.write_json("exec-%s.json" % label, {"cases": cs})
        return ctx.go_test(PKG, FILES, "^TestVerifMetaExec$", env={"VERIF_IN": p}, timeout=600, label=label)

    def confirm(rp):
        recs, out, rc = run([rp["case"]], "confirm")
        return any(r.get("k") == "mismatch" for r in recs)
    recs, out, rc = run(cases, "exec")
    done = ctx.process(recs, out, rc, "TestVerifMetaExec", confirm)
    ctx.cov["traces_validated_against_impl"] += done.get("cases", 0)
    return {"exec_cases": done.get("cases", 0), "exec_accepted": done.get("accepted", 0), "exec_rejected": done.get("rejected", 0)}


SCENARIOS_QUICK = [["snapshot-gated", "kill-first", "transfer", "snapshot-all", "restart-all"]]
SCENARIOS_THOROUGH = [
    ["snapshot-gated", "kill-first", "transfer", "snapshot-all", "restart-all"],
    ["burst", "kill-leader", "snapshot-gated", "kill-follower", "burst"],
    ["snapshot-all", "kill-first", "snapshot-gated", "restart-all", "kill-leader", "transfer", "burst"],
    ["kill-follower", "kill-first", "snapshot-gated", "snapshot-gated", "restart-all", "restart-all"],
]


def cluster(ctx, sd):
    if ctx.replay:
        scs = [json.load(open(ctx.replay))["replay"]["scenario"]]
    else:
        lists = ctx.pick(SCENARIOS_QUICK, SCENARIOS_THOROUGH)
        scs = [{"seed": ctx.seed * 101 + i, "steps": s, "cmds": 2} for i, s in enumerate(lists)]
    out_extra = {"cluster_scenarios": 0, "trace_events": 0, "cluster_calls": 0, "cluster_acked": 0}

    def run_one(sc, label):
        tp = os.path.join(ctx.scratch, "trace-%s-%d.ndjson" % (label, len(os.listdir(ctx.scratch))))
        p = ctx.write_json("cl-%s.json" % label, {"scenarios": [sc], "trace": tp})
        recs, out, rc = ctx.go_test(PKG, FILES, "^TestVerifMetaCluster$", env={"VERIF_IN": p}, timeout=900, label=label)
        done = [r for r in recs if r.get("k") == "done"]
        if not done or rc != 0:
            raise Infra("cluster driver did not complete (rc=%s):\n%s" % (rc, out[-3000:]))
        ctx.write_cfg(sd, "Trace.cfg", "TSpec", {}, extra="POSTCONDITION Post")
        with open(os.path.join(sd, "Trace.cfg")) as fh:
            txt = fh.read().replace("CONSTANTS\n", "")
        with open(os.path.join(sd, "Trace.cfg"), "w") as fh:
            fh.write(txt)
        res = ctx.tlc_trace(sd, "MetaRaftTrace", tp, cfg="Trace.cfg", timeout=600)
        why = ""
        if not res["accepted"]:
            import re
            m = re.findall(r'<<"REJECT", "([^"]*)">>', res["out"])
            why = m[-1] if m else "?"
            if res["matched"] < 0 or why in ("", "?", "unknown-event"):
                raise Infra("trace validation broke (matched=%s why=%s):\n%s" % (res["matched"], why, res["out"][-3000:]))
        return done[0], res, why, tp

    for i, sc in enumerate(scs):
        done, res, why, tp = run_one(sc, "cluster%d" % i)
        out_extra["cluster_scenarios"] += 1
        out_extra["trace_events"] += done.get("events", 0)
        out_extra["cluster_calls"] += done.get("calls", 0)
        out_extra["cluster_acked"] += done.get("acked", 0)
        if res["accepted"]:
            ctx.cov["traces_validated_against_impl"] += 1
            if i == 0:
                with open(tp) as fh:
                    lines = fh.read().splitlines()
                ctx.add_sample({"trace_events": [json.loads(x) for x in lines[:3]], "total": len(lines)})
            continue
        with open(tp) as fh:
            lines = fh.read().splitlines()
        bad = json.loads(lines[res["matched"]]) if 0 <= res["matched"] < len(lines) else {}
        sig = "trace:" + why
        detail = "real cluster trace rejected by MetaRaftTrace at event %d of %d (%s): %s" % (res["matched"] + 1, len(lines), why, json.dumps(bad)[:900])
        rp = {"test": "V", "scenario": sc}
        if ctx.match_known(sig) is None and not ctx.replay:
            # confirm: the same scenario must be rejected for the same reason again (up to 3 attempts; timing varies)
            again = False
            for k in range(3):
                d2, r2, w2, _ = run_one(sc, "confirm%d" % k)
                if not r2["accepted"] and w2 == why:
                    again = True
                    break
            if not again:
                raise Infra("trace rejection %s did not reproduce: %s" % (sig, detail))
        keep = os.path.join(os.path.dirname(os.path.dirname(os.path.abspath(__file__))), "replays", ctx.prop)
        os.makedirs(keep, exist_ok=True)
        if ctx.match_known(sig) is None:
            shutil.copy(tp, os.path.join(keep, "trace-%s.ndjson" % why.replace(":", "_")))
        ctx.report_mismatch(sig, detail, rp)
    if not ctx.quick() and not ctx.replay and ctx.cov["traces_validated_against_impl"]:
        negative_control(ctx, sd, tp)
    return out_extra


def negative_control(ctx, sd, tp):
    """Binding is demonstrated: a corrupted copy of an accepted trace must be rejected."""
    with open(tp) as fh:
        lines = fh.read().splitlines()
    evs = [json.loads(x) for x in lines]
    muts = []
    k = next((i for i, e in enumerate(evs) if e["e"] == "persist"), None)
    if k is not None:
        e = dict(evs[k]); e["hash"] = "0000000000000000"
        muts.append(("persist-hash", k, e))
    ks = [i for i, e in enumerate(evs) if e["e"] == "install"]
    if len(ks) > 3:
        e = dict(evs[ks[3]]); e["idx"] = evs[ks[1]]["idx"] - 1
        muts.append(("install-regress", ks[3], e))
    ks = [i for i, e in enumerate(evs) if e["e"] == "apply" and e["cmd"]["t"] == "UDN" and e["err"] == "ok"]
    if ks:
        e = json.loads(lines[ks[0]]); e["proj"]["nodes"] = e["proj"]["nodes"][:-1]
        muts.append(("apply-state", ks[0], e))
    if len(muts) < 2:
        raise Infra("negative control: trace has no persist/install/apply events to corrupt")
    for name, k, e in muts:
        p = os.path.join(ctx.scratch, "neg-%s.ndjson" % name)
        with open(p, "w") as fh:
            fh.write("\n".join(lines[:k] + [json.dumps(e)] + lines[k + 1:]) + "\n")
        res = ctx.tlc_trace(sd, "MetaRaftTrace", p, cfg="Trace.cfg", timeout=600)
        if res["accepted"]:
            raise Infra("negative control %s: corrupted trace was accepted" % name)


def run(ctx):
    sd = ctx.spec_dir("metaraft")
    extra = {}
    which = None
    if ctx.replay:
        which = json.load(open(ctx.replay))["replay"].get("test")
    stages = os.environ.get("VERIF_C07_STAGES", "mc,r,rt,x,v").split(",")   # development aid: run a subset
    if not ctx.replay and "mc" in stages:
        exhaustive(ctx, sd)
    if which in (None, "R") and "r" in stages:
        extra.update(replay_fsm(ctx, sd))
    if which in (None, "RT") and "rt" in stages:
        extra.update(roundtrip(ctx))
    if which in (None, "X") and "x" in stages:
        extra.update(exec_bodies(ctx, sd))
    if which in (None, "V") and "v" in stages:
        extra.update(cluster(ctx, sd))
    return ctx.finish("model_checking", extra, assumptions=[
        "hashicorp/raft (log agreement, commit, election, log compaction, snapshot store) and boltdb are trusted and abstracted as one agreed log",
        "node failure = Service.Close() and re-open on the same directory inside one process (no power-loss / torn-write model for raft's own files)",
        "cluster traces: the hook order is the recorder's lock order inside one process; no wall-clock ordering is used"])
