# C01 - acknowledged writes survive any crash and restart.
# spec: specs/tsmengine (TSMEngine, TSMEngineGen); harness: harness/tsm1/zz_verif_engine_test.go
import json
from vcheck import Infra, log
import tsmengine as te


def run(ctx):
    te.need_hooks(ctx)
    sd = ctx.spec_dir("tsmengine")
    if ctx.replay:
        rp = json.load(open(ctx.replay))["replay"]
        if "scenario" in rp:
            te.scenarios(ctx)
            return ctx.finish("model_checking", {"scenarios": 1})
        done = te.replay_and_judge(ctx, [rp["behaviour"]], "replay")
        return ctx.finish("model_checking", {"replayed_behaviours": done.get("behaviours", 0)})

    # 1. exhaustive: one configuration per family (crash/restart; compaction + crash; delete + crash).
    #    The deviation that was repaired (F1, stale WAL writer offset) must still be expressible: with it enabled
    #    TLC has to find the loss (vacuity guard for C01_Durable and the Crash/Restart actions).
    big = not ctx.quick()
    w = 8 if big else 4
    te.run_parallel([
        lambda: te.mc(ctx, sd, "MCcrash", te.mc_consts(w=3, snap=1, crash=2, times=(0, 1, 2) if big else (0, 1)), te.INV_C01, workers=w),
        lambda: te.mc(ctx, sd, "MCcompact", te.mc_consts(w=3 if big else 2, snap=2, comp=1, crash=1), te.INV_C01, workers=w),
        lambda: te.mc(ctx, sd, "MCdelcrash", te.mc_consts(keys=("a1", "a2", "b1") if big else ("a1", "b1"), w=2, snap=1, dele=1, crash=1), te.INV_C01, workers=w),
        # several closed WAL segments per snapshot (rollover), removed one by one after the snapshot file is live
        lambda: te.mc(ctx, sd, "MCroll", te.mc_consts(keys=("a1",), w=3, snap=1, crash=1, roll=2 if big else 1, dele=1 if big else 0), te.INV_C01, workers=w),
        lambda: te.negative_control(ctx, sd, "NCroll", te.mc_consts(keys=("a1",), w=3, snap=1, crash=1, roll=1, dev=("walNewestFirst",)), "C01_Durable"),
        lambda: te.negative_control(ctx, sd, "NCf1", te.mc_consts(w=3, snap=1, crash=2, dev=("F1",)), "C01_Durable"),
    ], max_workers=3 if big else 6)

    # 2. behaviours -> real store, crash images at every durable step, behaviour continued on the image
    n = ctx.pick(1, 5)
    fixed = te.known_behaviours(ctx)
    perseg = ["perseg"] if te.has_remove_hook(ctx) else []
    if not perseg:
        log("  note: patches/C01/05-hook (wal.remove.file) is not applied: no crash point between WAL segment removals")
    have_f1 = sum(1 for b in fixed if te.has_f1_history(b))
    have_roll = sum(1 for b in fixed if te.multi_segment_overwrites(b) >= 1)
    gens = te.run_parallel([
        lambda: te.generate_with(ctx, sd, "GenCrash", te.gen_consts(["write", "snapshot", "reopen", "crash"], crash=4, comp=0, dele=0), 10 * n,
                                 te.has_f1_history, 3, "the history torn tail -> restart -> acknowledged write", have=have_f1)[0],
        lambda: te.generate(ctx, sd, "GenCompact", te.gen_consts(["write", "snapshot", "gate", "compact", "crash"], crash=2, dele=0, w=5, snap=4, crash_in=("compact", "snapshot", "restart")), num=10 * n),
        # rollovers: a point overwritten / deleted across WAL segments, then snapshots and crashes inside them
        lambda: te.generate_with(ctx, sd, "GenRoll", te.gen_consts(["write", "walroll", "snapshot", "fullsnap", "multiseg", "crash"] + perseg, w=5, batch=1, snap=2, dele=0, comp=0, crash=1,
                                                                    roll=3, genlen=8, crash_in=("snapshot",), keys=("a1", "a2"), times=(0, 1)), 20 * n,
                                 lambda b: te.multi_segment_overwrites(b) >= 1, 5, "a snapshot over >= 2 WAL segments with a point overwritten across them",
                                 variants=4, have=have_roll)[1][:12 * n],
        lambda: te.generate(ctx, sd, "GenDelete", te.gen_consts(["write", "snapshot", "compact", "delete", "reopen", "crash"], crash=3, crash_in=("delete", "compact", "idle", "restart")), num=6 * n),
    ])
    behs = fixed + [b for g in gens for b in g]
    acts, f1, f14 = te.stats(behs)
    log("  behaviours: %d; second-restart-after-torn-tail histories: %d; step kinds: %d" % (len(behs), f1, len(acts)))
    if f1 == 0:
        raise Infra("no generated behaviour contains the history torn tail -> restart -> acknowledged write -> restart")
    done = te.replay_and_judge(ctx, behs, "replay", scenarios=True)
    extra = {"replayed_behaviours": done.get("behaviours", 0), "replayed_steps": done.get("steps", 0),
             "crash_images": done.get("crash_images", 0), "crash_images_recovered": done.get("crash_images_recovered", 0),
             "tainted_model_drift": done.get("tainted_model_drift", 0),
             "torn_tail_second_restart_histories": f1, "scenarios": done.get("scenarios", 0), "step_kinds": acts}
    return ctx.finish("model_checking", extra, assumptions=[
        "crash model: process death at a durable step (verif hooks + FileStoreObserver) plus any truncation of the WAL entry that was being synced; "
        "a crash image is a copy of the store directory (page-cache state), so loss of written-but-unsynced data other than the WAL tail is not modelled",
        "a missing fsync is invisible to hooks placed next to it (DESIGN 4.6: strace audit not part of this check)",
        "inmem index; one shard; values of two field types (integer, float)"])
