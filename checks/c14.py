# C14 - the series index always matches the data, for both index types.
# spec: specs/index (Index, IndexGen); harness: harness/tsdb/zz_verif_index_test.go
import json, random, hashlib, os
from vcheck import Infra, log

PKG = "tsdb"
FILES = ["tsdb/zz_verif_index_test.go"]
TEST = "TestVerifIndexReplay"
INV = ["TypeOK", "C14_ListingsExact", "C14_SeriesFileExact", "C14_LevelsOrdered", "C14_TagListingsBounded"]
LINGER = '"tsiTagEntriesLinger"'   # the recorded deviation (known/C14.json)
ALL_PREDS = ['"none"', '"k1=a"', '"k1!=a"', '"k2="', '"k2!="', '"k1=~^b?$"', '"k1!~a"', '"k2=~.+"', '"k1=aANDk2!=b"', '"k1!~.+ORk2=b"']


def consts(**kw):
    c = {"U": {1, 4}, "Shards": {1, 2}, "PhysShards": {1}, "Slots": {0}, "MaxGen": 2, "MaxFiles": 4, "MaxLevel": 3,
         "MaxOps": 5, "DropMeas": ['"m1"'], "DropPreds": ['"none"', '"k1=a"'], "Dev": []}
    c.update(kw)
    return c


def model_check(ctx, sd):
    prop = "PROPERTY C14_PhysicalStutter"
    # A: deep physical layer - two series of one measurement, two shards (one of them rolled and compacted up to
    #    level 3), re-creation after a database-wide drop (two ids per series); the code as it is (with the
    #    recorded deviation: tag entries of dropped series linger in tsi1)
    ctx.write_cfg(sd, "MCA.cfg", "Spec", consts(MaxOps=ctx.pick(4, 6), Dev=[LINGER]), INV, "Bounded", extra=prop)
    r = ctx.tlc_check(sd, "Index", "MCA.cfg", workers=8, timeout=ctx.pick(900, 3000), coverage=not ctx.quick())
    if r.get("zero_coverage"):
        raise Infra("actions never taken in Index (config A): %s" % r["zero_coverage"])
    # B: logical layer as designed (no deviation) - two time slots per shard (partial deletes, cache and TSM
    #    spans, zombies of slot-wise deletes), one log-file compaction
    ctx.write_cfg(sd, "MCB.cfg", "Spec",
                  consts(Slots={0, 1}, MaxFiles=2, MaxLevel=2, MaxOps=ctx.pick(3, 5)), INV, "Bounded", extra=prop)
    ctx.tlc_check(sd, "Index", "MCB.cfg", workers=8, timeout=ctx.pick(900, 3000))
    # negative control on the model: a reopen that resurrects dropped series violates the named properties
    ctx.write_cfg(sd, "MCn2.cfg", "Spec", consts(MaxOps=3, Dev=['"reopenKeepsInmem"'], PhysShards=set()), INV, "Bounded", extra=prop)
    r = ctx.tlc_check(sd, "Index", "MCn2.cfg", workers=8, timeout=900, expect_ok=False)
    if not r["violated"]:
        raise Infra("negative control: a reopen that resurrects dropped series does not violate the model's properties")
    if ctx.quick():
        return
    # C: two measurements, every drop predicate, DROP without FROM
    ctx.write_cfg(sd, "MCC.cfg", "Spec",
                  consts(U={1, 4, 14}, PhysShards={1, 2}, MaxFiles=2, MaxLevel=2, MaxOps=3, DropMeas=['"m1"', '"*"'], DropPreds=ALL_PREDS),
                  INV, "Bounded", extra=prop)
    ctx.tlc_check(sd, "Index", "MCC.cfg", workers=8, timeout=3000)
    # negative control: a level compaction that loses tombstones brings a dropped series back (needs an older file)
    ctx.write_cfg(sd, "MCn1.cfg", "Spec", consts(MaxOps=5, Dev=['"compactDropsTombstones"']), INV, "Bounded", extra=prop)
    r = ctx.tlc_check(sd, "Index", "MCn1.cfg", workers=8, timeout=1800, expect_ok=False)
    if not r["violated"]:
        raise Infra("negative control: a level compaction that drops tombstones does not violate the model's properties")
    # non-vacuity: the interesting situations are reachable within the bounds of config A / B
    for probe, kw in (("Probe_DroppedInOneShardOnly", {}), ("Probe_Recreated", {}), ("Probe_Level3", {"MaxOps": 6}),
                      ("Probe_TombstoneInIndexFile", {}), ("Probe_Zombie", {"Slots": {0, 1}, "MaxFiles": 2, "MaxLevel": 2})):
        ctx.write_cfg(sd, "MCp.cfg", "Spec", consts(**kw), [probe], "Bounded")
        r = ctx.tlc_check(sd, "Index", "MCp.cfg", workers=8, timeout=1800, expect_ok=False)
        if not r["violated"]:
            raise Infra("vacuity: %s is not reachable in the model" % probe)


def universes(seed):
    """series universes for the generated behaviours: 6 of the 18 series, both measurements, shared tag values"""
    rnd = random.Random(seed)
    out = []
    for _ in range(3):
        m1 = rnd.sample(range(0, 9), 4)
        m2 = rnd.sample(range(9, 18), 2)
        out.append(set(m1 + m2))
    return out


def generate(ctx, sd):
    """two of three behaviours are "stepped" (physical steps exactly where the behaviour has them; mixed profile),
    one is "auto" (1-byte TSI log files, level compactions enabled: every write and delete rolls and compacts the
    log; churn profile: drops, re-creations and restarts dominate, longer)"""
    behs = []
    for i, u in enumerate(universes(ctx.seed)):
        for mode, profile, glen, per in (("stepped", '"mixed"', ctx.pick(16, 24), ctx.pick(16, 110)),
                                         ("auto", '"churn"', ctx.pick(24, 32), ctx.pick(8, 55))):
            gc = {"U": u, "Shards": {1, 2}, "PhysShards": {1, 2}, "Slots": {0, 1}, "MaxGen": 99, "MaxFiles": 99, "MaxLevel": 7,
                  "MaxOps": 0, "DropMeas": ['"m1"', '"m2"', '"*"'], "DropPreds": ALL_PREDS, "Dev": [LINGER], "GenLen": glen,
                  "Profile": profile}
            cfg = "G%d%s.cfg" % (i, mode)
            ctx.write_cfg(sd, cfg, "GSpec", gc, extra="INVARIANT Emit")
            b = ctx.tlc_generate(sd, "IndexGen", cfg, num=per, depth=glen + 1, seed=ctx.seed * 10 + i, timeout=900)[:per]
            for x in b:
                x["mode"] = mode
            behs += b
    random.Random(ctx.seed).shuffle(behs)
    return behs


def run(ctx):
    sd = ctx.spec_dir("index")

    def replay(behs, partn, label):
        p = ctx.write_json("beh-%s.json" % label, {"behaviours": behs, "partn": partn, "workers": 4})
        return ctx.go_test(PKG, FILES, "^%s$" % TEST, env={"VERIF_IN": p, "GOMAXPROCS": "8"}, timeout=1700, label=label)

    confirmed = {}

    def confirm(rp):
        # one re-run per failing behaviour (several signatures usually come from the same step of one behaviour)
        key = hashlib.sha1(json.dumps(rp["behaviour"], sort_keys=True).encode()).hexdigest()
        if key not in confirmed:
            recs, out, rc = replay([rp["behaviour"]], rp.get("partn", 1), "confirm")
            confirmed[key] = any(r.get("k") == "mismatch" and not r["sig"].startswith("dev:") for r in recs)
        return confirmed[key]

    if ctx.replay:
        rp = json.load(open(ctx.replay))["replay"]
        recs, out, rc = replay([rp["behaviour"]], rp.get("partn", 1), "replay")
        done = ctx.process(recs, out, rc, TEST, None)
        return ctx.finish("model_checking", {"replayed_behaviours": done.get("behaviours", 0)})

    if not os.environ.get("VERIF_C14_SKIP_MC"):     # development aid for the mutation self-test only
        model_check(ctx, sd)
    behs = generate(ctx, sd)
    tot = {}
    # one TSI partition (the model's single file list per shard) and the default eight
    half = len(behs) // 2
    for partn, part in ((1, behs[:half]), (8, behs[half:])):
        recs, out, rc = replay(part, partn, "replay-p%d" % partn)
        done = ctx.process(recs, out, rc, TEST, confirm)
        for k, v in done.items():
            if isinstance(v, int) and k not in ("partn",):
                tot[k] = max(tot.get(k, 0), v) if k == "max_level" else tot.get(k, 0) + v
    ctx.cov["traces_validated_against_impl"] += tot.get("behaviours", 0)
    if not ctx.violations and (tot.get("level_compactions", 0) == 0 or tot.get("log_compactions", 0) == 0 or tot.get("drops_in_one_shard_only", 0) == 0 \
            or tot.get("recreations", 0) == 0 or tot.get("reopens", 0) == 0):
        raise Infra("vacuity: the replay did not exercise compactions / partial drops / re-creations / reopen: %s" % tot)
    extra = {"replayed_behaviours": tot.get("behaviours", 0), "replayed_steps": tot.get("steps", 0),
             "queries_compared": tot.get("queries", 0), "real_compactions": {k: tot.get(k, 0) for k in
             ("log_compactions", "level_compactions", "max_level", "series_file_compactions", "snapshots", "reopens")},
             "drops_in_one_shard_only": tot.get("drops_in_one_shard_only", 0), "recreations": tot.get("recreations", 0),
             "auto_mode_behaviours": tot.get("auto_mode_behaviours", 0),
             "measurement_cardinality_estimate_off": tot.get("measurement_cardinality_estimate_off", 0)}
    return ctx.finish("model_checking", extra, assumptions=[
        "inmem keeps one index per database: its measurement / tag listings are compared at database scope, its per-shard series sets through Shard.SeriesN and the series a SELECT reads",
        "Store.MeasurementsCardinality is a sketch estimate and is recorded, not judged; Store.SeriesCardinality is exact and judged",
        "SHOW MEASUREMENTS WHERE <tag predicate> is compared for positive predicates on present tags only (InfluxQL reads negative ones per measurement, not per series)",
        "TSM compaction and WAL durability are C09/C01's subject; here a Snapshot is one more physical step that must be invisible"])
