# C16 - requests run only with valid credentials and sufficient grants.
# specs: specs/auth (Auth, AuthGen, AuthCache, AuthCacheGen); harness: harness/meta/zz_verif_auth_test.go,
# harness/httpd/zz_verif_auth_test.go, shared table harness/authx/authx.go
import os, json, re, glob, random, subprocess, time
from vcheck import Infra, log, GOENV

META = "services/meta"
HTTPD = "services/httpd"
META_FILES = ["meta/zz_verif_auth_test.go"]
HTTPD_FILES = ["httpd/zz_verif_auth_test.go"]
AUTHX = {"pkg/verifx/authx": ["authx/authx.go"]}

# recorded deviations of the implementation (known/C16.json); the model enables them so that the
# rest of the matrix stays armed
DEVS = ["cardNoPriv", "cardFromDefault", "fromDbDefault", "cqWeak", "firstAdminMulti"]
KINDS = ["setpw", "drop", "create", "revoke", "grant", "admin", "unadmin"]


def q(xs):
    return ['"%s"' % x for x in xs]


def auth_consts(family, pairmode, devs=DEVS):
    return {"Dev": q(devs), "Family": '"%s"' % family, "PairMode": '"%s"' % pairmode}


def cache_consts(calls, maxchg, atomic, fixed=True, kinds=KINDS):
    return {"Calls": list(range(1, calls + 1)), "Pws": q(["p1", "p2"]), "InitPw": '"p1"', "Kinds": q(kinds),
            "MaxChanges": maxchg, "Atomic": atomic, "CodeOpts": q(["bhashOnLookup"]) if fixed else []}


def stmt_types(ctx):
    """Every type of the influxql package (the module the repository builds against) implementing Statement."""
    e = dict(os.environ); e.update(GOENV)
    p = subprocess.run(["go", "list", "-m", "-f", "{{.Dir}}", "github.com/influxdata/influxql"], cwd=ctx.repo, env=e,
                       stdout=subprocess.PIPE, stderr=subprocess.PIPE, text=True)
    d = p.stdout.strip()
    if p.returncode != 0 or not os.path.isdir(d):
        raise Infra("cannot locate the influxql module: %s %s" % (p.stdout, p.stderr))
    types = set()
    for f in glob.glob(os.path.join(d, "*.go")):
        if f.endswith("_test.go"):
            continue
        for m in re.finditer(r"^func \(\s*(?:\w+\s+)?\*?(\w+)\s*\) stmt\(\)", open(f, errors="replace").read(), re.M):
            types.add(m.group(1))
    if len(types) < 40:
        raise Infra("statement type scan found only %d types in %s" % (len(types), d))
    return sorted(types)


def expect_violated(ctx, sd, module, cfg, inv, timeout=300):
    """Non-vacuity / negative control: the invariant must be violated in the model."""
    r = ctx.tlc_check(sd, module, cfg, workers=4, timeout=timeout, expect_ok=False)
    if r["ok"] or not any(inv in v for v in r["violated"]):
        raise Infra("vacuity guard: %s is not violated in %s/%s (%s)" % (inv, module, cfg, r["violated"]))


def infra_records(recs, out, what, replay=False):
    for r in recs:
        if r.get("k") == "nohook":
            raise Infra(r["detail"])
        if r.get("k") == "unclassified":
            raise Infra("unclassified statement types (add them to Auth.tla and harness/authx): missing=%s stale=%s"
                        % (r.get("missing"), r.get("stale")))
    for r in recs:
        if r.get("k") == "infra":
            raise Infra("%s: %s" % (what, r["detail"]))
    mism = [r for r in recs if r.get("k") == "mismatch"]
    for r in recs:
        if r.get("k") == "drift" and not mism and not replay:
            # (in --replay mode the recorded expectation may be the one of the unrepaired tree: not reproduced = exit 0)
            raise Infra("%s: model and implementation disagree without a property violation (spec needs reconciling): %s"
                        % (what, r["detail"]))


def run(ctx):
    t0 = time.time()
    def phase(msg):
        log("[c16 %5.0fs] %s" % (time.time() - t0, msg))
    rnd = random.Random(ctx.seed)
    sd = ctx.spec_dir("auth")
    rp = json.load(open(ctx.replay)) if ctx.replay else None
    rpo = rp["replay"] if rp else None
    extra = {}
    pmA, pmB = ctx.pick(("partner", "none"), ("full", "partner"))
    # development aid: C16_STAGES=mc,authz,http,listing,cache,raft runs a subset (default: everything)
    stages = set((os.environ.get("C16_STAGES") or "mc,authz,http,listing,cache,raft").split(","))

    # ------------------------------------------------------------------ 1. exhaustive model checking
    if not ctx.replay and "mc" in stages:
        inv = ["TypeOK", "C16_ExecutedOnlyIfAllowed", "C16_FirstAdminOnly", "C16_RejectedNeverRuns",
               "C16_ListingOnlyGranted", "OutcomeAgrees"]
        ctx.write_cfg(sd, "MCA.cfg", "Spec", auth_consts("A", pmA), inv)
        ctx.tlc_check(sd, "Auth", "MCA.cfg", workers=8, timeout=1500)
        ctx.write_cfg(sd, "MCB.cfg", "Spec", auth_consts("B", pmB), inv)
        ctx.tlc_check(sd, "Auth", "MCB.cfg", workers=8, timeout=1500)
        # the repaired implementation (no deviation) satisfies the property without exception; with a single
        # recorded deviation left this run nearly repeats MCB, so it and the witness runs are thorough-tier only
        if not ctx.quick():
            ctx.write_cfg(sd, "MCS.cfg", "Spec", auth_consts("B", "none", devs=[]), inv + ["C16_ExecutedOnlyIfAllowedStrict"])
            ctx.tlc_check(sd, "Auth", "MCS.cfg", workers=8, timeout=900)
        for w in ctx.pick([], ["NeverRuns", "NeverTainted"]):
            ctx.write_cfg(sd, "W%s.cfg" % w, "Spec", auth_consts("W", "none"), [w])
            expect_violated(ctx, sd, "Auth", "W%s.cfg" % w, w)
        cinv = ["TypeOK", "C16_OldCredentialDiesOnArrival", "C16_OldPrivilegeDiesOnArrival", "CacheSound"]
        cc = cache_consts(*ctx.pick((3, 2, False), (3, 3, False)))
        ctx.write_cfg(sd, "MCC.cfg", "Spec", cc, cinv)
        r = ctx.tlc_check(sd, "AuthCache", "MCC.cfg", workers=8, timeout=1500, coverage=not ctx.quick())
        if r.get("zero_coverage"):
            raise Infra("vacuity guard: actions of AuthCache never taken: %s" % r["zero_coverage"])
        # negative control: without the lookup check the model has the F17 behaviour
        ctx.write_cfg(sd, "MCC0.cfg", "Spec", cache_consts(2, 1, True, fixed=False), cinv)
        expect_violated(ctx, sd, "AuthCache", "MCC0.cfg", "C16_OldCredentialDiesOnArrival")
        for w in ctx.pick([], ["NeverCacheHit", "NeverStaleEntry", "NeverRejectsOld"]):
            ctx.write_cfg(sd, "W%s.cfg" % w, "Spec", cache_consts(2, 1, True), [w])
            expect_violated(ctx, sd, "AuthCache", "W%s.cfg" % w, w)
        ctx.cov["exhaustive"] = True
        phase("model checking done: %d states" % ctx.cov["states"])

    # ------------------------------------------------------------------ 2. the matrix on the real authorizers / handler
    def gen_groups():
        fam = {}
        classes = listing = None
        for f, pm in (("A", pmA), ("B", pmB)):
            ctx.write_cfg(sd, "Gen%s.cfg" % f, "GSpec", auth_consts(f, pm), extra="INVARIANT Emit")
            fam[f] = []
            for x in ctx.tlc_generate(sd, "AuthGen", "Gen%s.cfg" % f, exhaustive=True, marker="CASE", timeout=1800):
                k = x.pop("k")
                if k == "case":
                    fam[f].append(x)
                elif k == "classes":
                    classes = x["classes"]
                elif k == "listing":
                    listing = x["users"]
        if not classes or not listing:
            raise Infra("AuthGen did not print the class list / the listing table")
        return fam, classes, listing

    def run_go(pkg, files, test, inp, label):
        p = ctx.write_json("in-%s-%s.json" % (test, label), inp)
        recs, out, rc = ctx.go_test(pkg, files, "^%s$" % test, env={"VERIF_IN": p}, timeout=1800, label=label,
                                    extra_pkgs=AUTHX)
        infra_records(recs, out, test, replay=bool(ctx.replay))
        return recs, out, rc

    def matrix(pkg, files, test, inp):
        def confirm(r):
            recs, out, rc = run_go(pkg, files, test, {"only": r}, "confirm")
            return any(x.get("k") == "mismatch" for x in recs)
        recs, out, rc = run_go(pkg, files, test, inp, "matrix")
        return ctx.process(recs, out, rc, test, confirm)

    kind = None
    if rpo is not None:
        kind = "cache" if "behaviour" in rpo else "listing" if "listing" in rpo else "matrix"
    if kind in (None, "matrix", "listing") and (ctx.replay or stages & {"authz", "http", "listing"}):
        level = rp["signature"].split(":")[0] if rp else None
        if kind == "matrix":
            inp_meta = inp_http = {"only": rpo}
        elif kind == "listing":
            inp_meta = inp_http = None
        else:
            fam, classes, listing = gen_groups()
            groups = fam["A"] + fam["B"]
            types = stmt_types(ctx)
            inp_meta = {"groups": groups, "classes": classes, "stmt_types": types}
            # HTTP level: everything (thorough) / all of family B (every credential case) and a seeded part of A (quick)
            hg = groups if not ctx.quick() else fam["B"] + [g for g in fam["A"] if rnd.random() < 0.4]
            inp_http = {"groups": hg, "classes": classes, "stmt_types": types}
            extra.update(matrix_groups=len(groups), matrix_groups_http=len(hg), statement_types=len(types))
            phase("matrix generated: %d groups (A %d, B %d), %d statement types" % (len(groups), len(fam["A"]), len(fam["B"]), len(types)))
        if inp_meta is not None and level in (None, "authz", "dev") and (ctx.replay or "authz" in stages):
            d = matrix(META, META_FILES, "TestVerifAuthMatrix", inp_meta)
            extra["authorizer_cases"] = d.get("cases", 0)
            extra["statement_instances"] = d.get("instances", 0)
            ctx.cov["traces_validated_against_impl"] += d.get("cases", 0)
            phase("authorizer matrix: %s" % {k: d.get(k) for k in ("cases", "granted", "denied", "instances")})
        if inp_http is not None and level in (None, "http", "dev") and (ctx.replay or "http" in stages):
            d = matrix(HTTPD, HTTPD_FILES, "TestVerifAuthHTTP", inp_http)
            extra["http_requests"] = d.get("requests", 0)
            extra["http_executed"] = d.get("executed", 0)
            ctx.cov["traces_validated_against_impl"] += d.get("requests", 0)
            phase("http matrix: %s" % {k: d.get(k) for k in ("requests", "executed", "status401", "status403")})
        # statements that list across databases, through the real coordinator.StatementExecutor
        if kind == "listing" or (kind is None and "listing" in stages):
            linp = {"listing": listing} if kind is None else rpo
            def lconfirm(r):
                recs, out, rc = run_go(HTTPD, HTTPD_FILES, "TestVerifAuthListing", r, "confirm")
                return any(x.get("k") == "mismatch" for x in recs)
            recs, out, rc = run_go(HTTPD, HTTPD_FILES, "TestVerifAuthListing", linp, "listing")
            d = ctx.process(recs, out, rc, "TestVerifAuthListing", lconfirm)
            extra["listing_requests"] = d.get("requests", 0)
            ctx.cov["traces_validated_against_impl"] += d.get("requests", 0)
            phase("listing: %s" % {k: d.get(k) for k in ("requests", "listed")})

    # ------------------------------------------------------------------ 3. cache interleavings on the real client
    def cache(test, behs):
        def confirm(r):
            recs, out, rc = run_go(META, META_FILES, r.get("test", test), {"behaviours": [r["behaviour"]], "init_pw": "p1"}, "confirm")
            return any(x.get("k") == "mismatch" for x in recs)
        recs, out, rc = run_go(META, META_FILES, test, {"behaviours": behs, "init_pw": "p1"}, "replay")
        return ctx.process(recs, out, rc, test, confirm)

    if kind == "cache":
        cache(rpo.get("test", "TestVerifAuthCache"), [rpo["behaviour"]])
    elif kind is None and "cache" in stages:
        # every interleaving of two calls with one change
        ctx.write_cfg(sd, "GC1.cfg", "GSpec", cache_consts(2, 1, True), extra="INVARIANT Emit")
        b1 = ctx.tlc_generate(sd, "AuthCacheGen", "GC1.cfg", exhaustive=True, timeout=600)
        # two changes: every interleaving (thorough) / a seeded sample of them (quick)
        ctx.write_cfg(sd, "GC2.cfg", "GSpec", cache_consts(2, 2, True), extra="INVARIANT Emit")
        b2 = ctx.tlc_generate(sd, "AuthCacheGen", "GC2.cfg", exhaustive=True, timeout=1800)
        n2 = len(b2)
        if ctx.quick():
            b2 = rnd.sample(b2, min(n2, 2500))
        # changes that are committed but delivered later (batched installs), three calls: simulation
        ctx.write_cfg(sd, "GC3.cfg", "GSpec", cache_consts(3, 3, False), extra="INVARIANT Emit")
        b3 = ctx.tlc_generate(sd, "AuthCacheGen", "GC3.cfg", num=ctx.pick(500, 6000), depth=40, timeout=900)[:ctx.pick(1000, 12000)]
        phase("cache behaviours generated: %d + %d + %d" % (len(b1), len(b2), len(b3)))
        d = cache("TestVerifAuthCache", b1 + b2 + b3)
        phase("cache replay: %s" % {k: d.get(k) for k in ("behaviours", "steps", "accepting_calls")})
        extra.update(cache_behaviours_exhaustive_1change=len(b1), cache_behaviours_2changes=len(b2),
                     cache_behaviours_2changes_total=n2, cache_behaviours_deferred_install=len(b3),
                     cache_steps=d.get("steps", 0), cache_accepting_calls=d.get("accepting_calls", 0))
        ctx.cov["traces_validated_against_impl"] += d.get("behaviours", 0)
        # a sample through a real single-node meta service (raft, the client's own command path)
        pool = [b for b in b1 + b2 if any(s["a"] == "change" for s in b)]
        rb = rnd.sample(pool, min(len(pool), ctx.pick(60, 400)))
        if "raft" in stages:
            d = cache("TestVerifAuthCacheRaft", rb)
            extra["cache_behaviours_raft"] = d.get("behaviours", 0)
            ctx.cov["traces_validated_against_impl"] += d.get("behaviours", 0)
            phase("raft replay: %s" % d.get("behaviours"))
    if stages != {"mc", "authz", "http", "listing", "cache", "raft"}:
        extra["stages_run"] = sorted(stages)

    return ctx.finish("model_checking", extra, assumptions=[
        "the oracle table `needs` of Auth.tla (which database a statement form reads/writes, which statements are administrative) is written from the InfluxDB 1.8 authorization documentation and the InfluxQL reference; five entries the documentation leaves open were calibrated once against influxql.RequiredPrivileges and frozen (header of Auth.tla)",
        "bcrypt, crypto/sha256, jwt-go signature verification and hashicorp/raft are trusted",
        "'reached a node' = installed by Client.pollForUpdates; propagation delay before that is outside the property",
        "Prometheus remote read and Flux endpoints are not in the matrix (remote read authorization is an opt-in configuration)"])
