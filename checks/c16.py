# C16 - requests run only with valid credentials and sufficient grants.
# specs: specs/auth (Auth, AuthGen, AuthCache, AuthCacheGen); harness: harness/meta/zz_verif_auth_test.go,
# harness/httpd/zz_verif_auth_test.go, shared table harness/authx/authx.go
import os, json, re, glob, random, subprocess
from vcheck import Infra, log, GOENV

META = "services/meta"
HTTPD = "services/httpd"
META_FILES = ["meta/zz_verif_auth_test.go"]
HTTPD_FILES = ["httpd/zz_verif_auth_test.go"]
AUTHX = {"pkg/verifx/authx": ["authx/authx.go"]}

# recorded deviations of the implementation (known/C16.json); the model enables them so that the
# rest of the matrix stays armed
DEVS = ["cardNoPriv", "cardFromDefault", "fromDbDefault", "wildcardDefault", "cqWeak", "firstAdminMulti"]
KINDS = ["setpw", "drop", "create", "revoke", "grant", "admin", "unadmin"]


def q(xs):
    return ['"%s"' % x for x in xs]


def auth_consts(family, pairmode, devs=DEVS):
    return {"Dev": q(devs), "Family": '"%s"' % family, "PairMode": '"%s"' % pairmode}


def cache_consts(calls, maxchg, atomic, fixed=True, kinds=KINDS):
    return {"Calls": list(range(1, calls + 1)), "Pws": q(["p1", "p2"]), "InitPw": '"p1"', "Kinds": q(kinds),
            "MaxChanges": maxchg, "Atomic": atomic, "CodeOpts": q(["bhashOnLookup"]) if fixed else []}


def stmt_types(ctx):
    """Every type of the influxql package (the module the repository builds against) implementing Statement."""
    e = dict(os.environ); e.update(GOENV)
    p = subprocess.run(["go", "list", "-m", "-f", "{{.Dir}}", "github.com/influxdata/influxql"], cwd=ctx.repo, env=e,
                       stdout=subprocess.PIPE, stderr=subprocess.PIPE, text=True)
    d = p.stdout.strip()
    if p.returncode != 0 or not os.path.isdir(d):
        raise Infra("cannot locate the influxql module: %s %s" % (p.stdout, p.stderr))
    types = set()
    for f in glob.glob(os.path.join(d, "*.go")):
        if f.endswith("_test.go"):
            continue
        for m in re.finditer(r"^func \(\s*(?:\w+\s+)?\*?(\w+)\s*\) stmt\(\)", open(f, errors="replace").read(), re.M):
            types.add(m.group(1))
    if len(types) < 40:
        raise Infra("statement type scan found only %d types in %s" % (len(types), d))
    return sorted(types)


def expect_violated(ctx, sd, module, cfg, inv, timeout=300):
    """Non-vacuity: the witness invariant must be violated (the situation is reachable in the model)."""
    r = ctx.tlc_check(sd, module, cfg, workers=4, timeout=timeout, expect_ok=False)
    if r["ok"] or not any(inv in v for v in r["violated"]):
        raise Infra("vacuity guard: %s is not reachable in %s/%s (%s)" % (inv, module, cfg, r["violated"]))


def infra_records(recs, out, what):
    for r in recs:
        if r.get("k") == "nohook":
            raise Infra(r["detail"])
        if r.get("k") == "unclassified":
            raise Infra("unclassified statement types (add them to Auth.tla and harness/authx): missing=%s stale=%s"
                        % (r.get("missing"), r.get("stale")))
    for r in recs:
        if r.get("k") == "infra":
            raise Infra("%s: %s" % (what, r["detail"]))
    mism = [r for r in recs if r.get("k") == "mismatch"]
    for r in recs:
        if r.get("k") == "drift" and not mism:
            raise Infra("%s: model and implementation disagree without a property violation (spec needs reconciling): %s"
                        % (what, r["detail"]))


def run(ctx):
    rnd = random.Random(ctx.seed)
    sd = ctx.spec_dir("auth")
    rp = json.load(open(ctx.replay)) if ctx.replay else None
    rpo = rp["replay"] if rp else None
    extra = {}

    # ------------------------------------------------------------------ 1. exhaustive model checking
    if not ctx.replay:
        pm = ctx.pick("partner", "full")
        inv = ["TypeOK", "C16_ExecutedOnlyIfAllowed", "C16_FirstAdminOnly", "C16_RejectedNeverRuns", "OutcomeAgrees"]
        ctx.write_cfg(sd, "MCA.cfg", "Spec", auth_consts("A", pm), inv)
        ctx.tlc_check(sd, "Auth", "MCA.cfg", workers=8, timeout=1500)
        ctx.write_cfg(sd, "MCB.cfg", "Spec", auth_consts("B", pm), inv)
        ctx.tlc_check(sd, "Auth", "MCB.cfg", workers=8, timeout=900)
        # the repaired implementation (no deviation) satisfies the property without exception
        ctx.write_cfg(sd, "MCS.cfg", "Spec", auth_consts("B", "none", devs=[]), inv + ["C16_ExecutedOnlyIfAllowedStrict"])
        ctx.tlc_check(sd, "Auth", "MCS.cfg", workers=8, timeout=900)
        for w in ("NeverRuns", "NeverTainted"):
            ctx.write_cfg(sd, "W%s.cfg" % w, "Spec", auth_consts("B", "none"), [w])
            expect_violated(ctx, sd, "Auth", "W%s.cfg" % w, w)
        cinv = ["TypeOK", "C16_OldCredentialDiesOnArrival", "C16_OldPrivilegeDiesOnArrival", "CacheSound"]
        cc = cache_consts(*ctx.pick((3, 2, False), (3, 3, False)))
        ctx.write_cfg(sd, "MCC.cfg", "Spec", cc, cinv)
        ctx.tlc_check(sd, "AuthCache", "MCC.cfg", workers=8, timeout=1500, coverage=not ctx.quick())
        # negative control: without the lookup check the model has the F17 behaviour
        ctx.write_cfg(sd, "MCC0.cfg", "Spec", cache_consts(2, 1, True, fixed=False), cinv)
        expect_violated(ctx, sd, "AuthCache", "MCC0.cfg", "C16_OldCredentialDiesOnArrival")
        for w in ("NeverCacheHit", "NeverStaleEntry", "NeverRejectsOld"):
            ctx.write_cfg(sd, "W%s.cfg" % w, "Spec", cache_consts(2, 1, True), [w])
            expect_violated(ctx, sd, "AuthCache", "W%s.cfg" % w, w)
        ctx.cov["exhaustive"] = True

    # ------------------------------------------------------------------ 2. the matrix on the real authorizers / handler
    types = stmt_types(ctx)
    def gen_groups():
        gs = []
        for fam in ("A", "B"):
            ctx.write_cfg(sd, "Gen%s.cfg" % fam, "GSpec", auth_consts(fam, ctx.pick("partner", "full")), extra="INVARIANT Emit")
            gs += ctx.tlc_generate(sd, "AuthGen", "Gen%s.cfg" % fam, exhaustive=True, marker="CASE", timeout=1200)
        ctx.write_cfg(sd, "GenCls.cfg", "GSpec", auth_consts("B", "none"), extra="INVARIANT EmitClasses")
        classes = ctx.tlc_generate(sd, "AuthGen", "GenCls.cfg", exhaustive=True, marker="CLASSES", timeout=300)[0]
        return gs, classes

    def run_matrix(pkg, files, test, inp, label):
        p = ctx.write_json("matrix-%s.json" % label, inp)
        recs, out, rc = ctx.go_test(pkg, files, "^%s$" % test, env={"VERIF_IN": p}, timeout=1500, label=label,
                                    extra_pkgs=AUTHX)
        infra_records(recs, out, test)
        return recs, out, rc

    def matrix(pkg, files, test, inp):
        def confirm(r):
            recs, out, rc = run_matrix(pkg, files, test, {"only": r, "groups": [], "classes": [], "stmt_types": []}, "confirm")
            return any(x.get("k") == "mismatch" for x in recs)
        recs, out, rc = run_matrix(pkg, files, test, inp, "matrix")
        return ctx.process(recs, out, rc, test, confirm)

    is_matrix_replay = rpo is not None and "group" in rpo
    is_cache_replay = rpo is not None and "behaviour" in rpo
    if not is_cache_replay:
        if is_matrix_replay:
            inp = {"only": rpo, "groups": [], "classes": [], "stmt_types": []}
        else:
            groups, classes = gen_groups()
            inp = {"groups": groups, "classes": classes, "stmt_types": types}
            extra["matrix_groups"] = len(groups)
            extra["statement_types"] = len(types)
        level = rp["signature"].split(":")[0] if rp else None
        if level in (None, "authz", "dev"):
            d = matrix(META, META_FILES, "TestVerifAuthMatrix", inp)
            extra["authorizer_cases"] = d.get("cases", 0)
            extra["statement_instances"] = d.get("instances", 0)
            ctx.cov["traces_validated_against_impl"] += d.get("cases", 0)
        if level in (None, "http", "dev"):
            d = matrix(HTTPD, HTTPD_FILES, "TestVerifAuthHTTP", inp)
            extra["http_requests"] = d.get("requests", 0)
            extra["http_executed"] = d.get("executed", 0)
            ctx.cov["traces_validated_against_impl"] += d.get("requests", 0)

    # ------------------------------------------------------------------ 3. cache interleavings on the real client
    def run_cache(test, behs, label):
        p = ctx.write_json("cache-%s.json" % label, {"behaviours": behs, "init_pw": "p1"})
        recs, out, rc = ctx.go_test(META, META_FILES, "^%s$" % test, env={"VERIF_IN": p}, timeout=1500, label=label,
                                    extra_pkgs=AUTHX)
        infra_records(recs, out, test)
        return recs, out, rc

    def cache(test, behs):
        def confirm(r):
            recs, out, rc = run_cache(r.get("test", test), [r["behaviour"]], "confirm")
            return any(x.get("k") == "mismatch" for x in recs)
        recs, out, rc = run_cache(test, behs, test)
        return ctx.process(recs, out, rc, test, confirm)

    if is_cache_replay:
        cache(rpo.get("test", "TestVerifAuthCache"), [rpo["behaviour"]])
    elif not ctx.replay:
        # every interleaving of two calls with one change; two changes: all (thorough) / a seeded sample (quick)
        ctx.write_cfg(sd, "GC1.cfg", "GSpec", cache_consts(2, 1, True), extra="INVARIANT Emit")
        b1 = ctx.tlc_generate(sd, "AuthCacheGen", "GC1.cfg", exhaustive=True, timeout=600)
        ctx.write_cfg(sd, "GC2.cfg", "GSpec", cache_consts(2, 2, True), extra="INVARIANT Emit")
        b2 = ctx.tlc_generate(sd, "AuthCacheGen", "GC2.cfg", exhaustive=True, timeout=900)
        n2 = len(b2)
        if ctx.quick():
            b2 = rnd.sample(b2, min(len(b2), 2500))
        # changes that are committed but delivered later (batched installs), three calls: simulation
        ctx.write_cfg(sd, "GC3.cfg", "GSpec", cache_consts(3, 3, False), extra="INVARIANT Emit")
        b3 = ctx.tlc_generate(sd, "AuthCacheGen", "GC3.cfg", num=ctx.pick(400, 4000), depth=40, timeout=600)
        b3 = b3[:ctx.pick(1200, 12000)]
        d = cache("TestVerifAuthCache", b1 + b2 + b3)
        extra.update(cache_behaviours_exhaustive_1change=len(b1), cache_behaviours_2changes=len(b2),
                     cache_behaviours_2changes_total=n2, cache_behaviours_deferred_install=len(b3),
                     cache_steps=d.get("steps", 0), cache_accepting_calls=d.get("accepting_calls", 0))
        ctx.cov["traces_validated_against_impl"] += d.get("behaviours", 0)
        # a sample through a real single-node meta service (raft, the client's own command path)
        pool = [b for b in b1 + b2 if any(s["a"] == "change" for s in b)]
        rb = rnd.sample(pool, min(len(pool), ctx.pick(60, 400)))
        d = cache("TestVerifAuthCacheRaft", rb)
        extra["cache_behaviours_raft"] = d.get("behaviours", 0)
        ctx.cov["traces_validated_against_impl"] += d.get("behaviours", 0)

    return ctx.finish("model_checking", extra, assumptions=[
        "the oracle table `needs` of Auth.tla (which database a statement form reads/writes, which statements are administrative) is written from the InfluxDB 1.8 authorization documentation and the InfluxQL reference; five entries the documentation leaves open were calibrated once against influxql.RequiredPrivileges and frozen (header of Auth.tla)",
        "bcrypt, crypto/sha256, jwt-go signature verification and hashicorp/raft are trusted",
        "'reached a node' = installed by Client.pollForUpdates; propagation delay before that is outside the property",
        "Prometheus remote read and Flux endpoints are not in the matrix (remote read authorization is an opt-in configuration)"])
