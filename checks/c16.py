# C16 - requests run only with valid credentials and sufficient grants.
# specs: specs/auth (Auth, AuthGen, AuthCache, AuthCacheGen); harness: harness/meta/zz_verif_auth_test.go,
# harness/httpd/zz_verif_auth_test.go, shared table harness/authx/authx.go
import os, json, re, glob, random, subprocess, time
from vcheck import Infra, log, GOENV

META = "services/meta"
HTTPD = "services/httpd"
META_FILES = ["meta/zz_verif_auth_test.go"]
HTTPD_FILES = ["httpd/zz_verif_auth_test.go"]
AUTHX = {"pkg/verifx/authx": ["authx/authx.go"]}

# recorded deviations of the implementation (known/C16.json); the model enables them so that the
# rest of the matrix stays armed
DEVS = ["cardNoPriv", "cardFromDefault", "fromDbDefault", "cqWeak", "firstAdminMulti"]
KINDS = ["setpw", "drop", "create", "revoke", "grant", "admin", "unadmin"]


def q(xs):
    return ['"%s"' % x for x in xs]


def auth_consts(family, pairmode, devs=DEVS):
    return {"Dev": q(devs), "Family": '"%s"' % family, "PairMode": '"%s"' % pairmode}


def cache_consts(calls, maxchg, atomic, fixed=True, kinds=KINDS):
    return {"Calls": list(range(1, calls + 1)), "Pws": q(["p1", "p2"]), "InitPw": '"p1"', "Kinds": q(kinds),
            "MaxChanges": maxchg, "Atomic": atomic, "CodeOpts": q(["bhashOnLookup"]) if fixed else []}


def stmt_types(ctx):
    """Every type of the influxql package (the module the repository builds against) implementing Statement."""
    e = dict(os.environ); e.update(GOENV)
    p = subprocess.run(["go", "list", "-m", "-f", "{{.Dir}}", "github.com/influxdata/influxql"], cwd=ctx.repo, env=e,
                       stdout=subprocess.PIPE, stderr=subprocess.PIPE, text=True)
    d = p.stdout.strip()
    if p.returncode != 0 or not os.path.isdir(d):
        raise Infra("cannot locate the influxql module: %s %s" % (p.stdout, p.stderr))
    types = set()
    for f in glob.glob(os.path.join(d, "*.go")):
        if f.endswith("_test.go"):
            continue
        for m in re.finditer(r"^func \(\s*(?:\w+\s+)?\*?(\w+)\s*\) stmt\(\)", open(f, errors="replace").read(), re.M):
            types.add(m.group(1))
    if len(types) < 40:
        raise Infra("statement type scan found only %d types in %s" % (len(types), d))
    return sorted(types)


def expect_violated(ctx, sd, module, cfg, inv, timeout=300):
    """Non-vacuity / negative control: the invariant must be violated in the model."""
    r = ctx.tlc_check(sd, module, cfg, workers=4, timeout=timeout, expect_ok=False)
    if r["ok"] or not any(inv in v for v in r["violated"]):
        raise Infra("vacuity guard: %s is not violated in %s/%s (%s)" % (inv, module, cfg, r["violated"]))


def infra_records(recs, out, what, replay=False):
    for r in recs:
        if r.get("k") == "nohook":
            raise Infra(r["detail"])
        if r.get("k") == "unclassified":
            raise Infra("unclassified statement types (add them to Auth.tla and harness/authx): missing=%s stale=%s"
                        % (r.get("missing"), r.get("stale")))
    for r in recs:
        if r.get("k") == "infra":
            raise Infra("%s: %s" % (what, r["detail"]))
    mism = [r for r in recs if r.get("k") == "mismatch"]
    for r in recs:
        if r.get("k") == "drift" and not mism and not replay:
            # (in --replay mode the recorded expectation may be the one of the unrepaired tree: not reproduced = exit 0)
            raise Infra("%s: model and implementation disagree without a property violation (spec needs reconciling): %s"
                        % (what, r["detail"]))


def run(ctx):
    t0 = time.time()
    def phase(msg):
        log("[c16 %5.0fs] %s" % (time.time() - t0, msg))
    rnd = random.Random(ctx.seed)
    sd = ctx.spec_dir("auth")
    rp = json.load(open(ctx.replay)) if ctx.replay else None
    rpo = rp["replay"] if rp else None
    extra = {}
    # multi-statement requests: "partner" = every instance before and after a harmless statement, "full" = also
    # all pairs of requirement signatures.  quick: the model-checking run of family A has single statements only
    # (pairs are model checked in the thorough tier); the generated matrix always has the partner requests AND all pairs
    # of requirement signatures (a WRITE statement before a READ statement on one database, ...).
    mcA, pmA, pmB = ctx.pick(("none", "full", "none"), ("full", "full", "partner"))
    # development aid: C16_STAGES=mc,authz,http,listing,cache,raft runs a subset (default: everything)
    stages = set((os.environ.get("C16_STAGES") or "mc,authz,http,listing,cache,raft").split(","))

    # ------------------------------------------------------------------ 1. exhaustive model checking
    if not ctx.replay and "mc" in stages:
        inv = ["TypeOK", "C16_ExecutedOnlyIfAllowed", "C16_FirstAdminOnly", "C16_RejectedNeverRuns",
               "C16_ListingOnlyGranted", "OutcomeAgrees"]
        ctx.write_cfg(sd, "MCA.cfg", "Spec", auth_consts("A", mcA), inv)
        ctx.tlc_check(sd, "Auth", "MCA.cfg", workers=8, timeout=1500)
        if not ctx.quick():
            # family B (every credential case) is model checked in the thorough tier only; the quick tier still
            # replays all of it on the real code
            ctx.write_cfg(sd, "MCB.cfg", "Spec", auth_consts("B", pmB), inv)
            ctx.tlc_check(sd, "Auth", "MCB.cfg", workers=8, timeout=1500)
            # the repaired implementation (no deviation) satisfies the property without exception
            ctx.write_cfg(sd, "MCS.cfg", "Spec", auth_consts("B", "none", devs=[]), inv + ["C16_ExecutedOnlyIfAllowedStrict"])
            ctx.tlc_check(sd, "Auth", "MCS.cfg", workers=8, timeout=900)
        for w in ctx.pick([], ["NeverRuns", "NeverTainted"]):
            ctx.write_cfg(sd, "W%s.cfg" % w, "Spec", auth_consts("W", "none"), [w])
            expect_violated(ctx, sd, "Auth", "W%s.cfg" % w, w)
        cinv = ["TypeOK", "C16_OldCredentialDiesOnArrival", "C16_OldPrivilegeDiesOnArrival", "CacheSound"]
        cc = cache_consts(*ctx.pick((3, 2, False), (3, 3, False)))
        ctx.write_cfg(sd, "MCC.cfg", "Spec", cc, cinv)
        r = ctx.tlc_check(sd, "AuthCache", "MCC.cfg", workers=8, timeout=1500, coverage=not ctx.quick())
        if r.get("zero_coverage"):
            raise Infra("vacuity guard: actions of AuthCache never taken: %s" % r["zero_coverage"])
        # negative control: without the lookup check the model has the F17 behaviour
        ctx.write_cfg(sd, "MCC0.cfg", "Spec", cache_consts(2, 1, True, fixed=False), cinv)
        expect_violated(ctx, sd, "AuthCache", "MCC0.cfg", "C16_OldCredentialDiesOnArrival")
        for w in ctx.pick([], ["NeverCacheHit", "NeverStaleEntry", "NeverRejectsOld"]):
            ctx.write_cfg(sd, "W%s.cfg" % w, "Spec", cache_consts(2, 1, True), [w])
            expect_violated(ctx, sd, "AuthCache", "W%s.cfg" % w, w)
        ctx.cov["exhaustive"] = True
        phase("model checking done: %d states" % ctx.cov["states"])

    # ------------------------------------------------------------------ helpers
    def gen_groups():
        fam = {}
        classes = listing = None
        for f, pm in (("A", pmA), ("B", pmB)):
            ctx.write_cfg(sd, "Gen%s.cfg" % f, "GSpec", auth_consts(f, pm), extra="INVARIANT Emit")
            fam[f] = []
            for x in ctx.tlc_generate(sd, "AuthGen", "Gen%s.cfg" % f, exhaustive=True, marker="CASE", timeout=1800):
                k = x.pop("k")
                if k == "case":
                    fam[f].append(x)
                elif k == "classes":
                    classes = x["classes"]
                elif k == "listing":
                    listing = x["users"]
        if not classes or not listing:
            raise Infra("AuthGen did not print the class list / the listing table")
        return fam, classes, listing

    def run_go(pkg, files, tests, inp, label):
        """One `go test` invocation running the given drivers of one package on one input file."""
        p = ctx.write_json("in-%s-%s.json" % (pkg.split("/")[-1], label), inp)
        recs, out, rc = ctx.go_test(pkg, files, "^(%s)$" % "|".join(tests), env={"VERIF_IN": p}, timeout=2400, label=label,
                                    extra_pkgs=AUTHX)
        infra_records(recs, out, "+".join(tests), replay=bool(ctx.replay))
        return recs, out, rc

    def owner(r, tests):
        """Which driver of a merged run a record belongs to."""
        if r.get("k") == "done":
            return r.get("test")
        sig = r.get("sig", "")
        if sig.startswith("cache:"):
            return (r.get("replay") or {}).get("test", "TestVerifAuthCache")
        if sig.startswith("listing:"):
            return "TestVerifAuthListing"
        for t in ("TestVerifAuthMatrix", "TestVerifAuthHTTP"):
            if t in tests:
                return t
        return tests[0]

    def confirm_for(pkg, files, test):
        def confirm(r):
            if test in ("TestVerifAuthMatrix", "TestVerifAuthHTTP"):
                inp = {"only": r}
            elif test == "TestVerifAuthListing":
                inp = r
            else:
                inp = {"behaviours": [r["behaviour"]], "init_pw": "p1"}
            recs, out, rc = run_go(pkg, files, [test], inp, "confirm")
            return any(x.get("k") == "mismatch" for x in recs)
        return confirm

    def drive(pkg, files, tests, inp, label):
        """Run the drivers in one invocation, digest each driver's records on its own."""
        recs, out, rc = run_go(pkg, files, tests, inp, label)
        res = {}
        for t in tests:
            sub = [r for r in recs if r.get("k") in ("done", "mismatch") and owner(r, tests) == t]
            if t == tests[0]:
                sub += [r for r in recs if r.get("k") not in ("done", "mismatch")]
            res[t] = ctx.process(sub, out, rc, t, confirm_for(pkg, files, t))
        return res

    kind = None
    if rpo is not None:
        kind = "cache" if "behaviour" in rpo else "listing" if "listing" in rpo else "matrix"

    # ------------------------------------------------------------------ replay of one recorded case
    if kind == "matrix":
        level = rp["signature"].split(":")[0]
        if level in ("authz", "dev"):
            drive(META, META_FILES, ["TestVerifAuthMatrix"], {"only": rpo}, "replay")
        if level in ("http", "dev"):
            drive(HTTPD, HTTPD_FILES, ["TestVerifAuthHTTP"], {"only": rpo}, "replay")
    elif kind == "listing":
        drive(HTTPD, HTTPD_FILES, ["TestVerifAuthListing"], rpo, "replay")
    elif kind == "cache":
        drive(META, META_FILES, [rpo.get("test", "TestVerifAuthCache")], {"behaviours": [rpo["behaviour"]], "init_pw": "p1"}, "replay")

    # ------------------------------------------------------------------ 2./3. matrix and cache interleavings on the real code
    if kind is None:
        meta_tests, meta_in = [], {"init_pw": "p1"}
        http_tests, http_in = [], {}
        if stages & {"authz", "http", "listing"}:
            fam, classes, listing = gen_groups()
            groups = fam["A"] + fam["B"]
            types = stmt_types(ctx)
            # HTTP level: everything (thorough) / all of family B (every credential case) and a seeded part of A (quick)
            hg = groups if not ctx.quick() else fam["B"] + [g for g in fam["A"] if rnd.random() < 0.4]
            extra.update(matrix_groups=len(groups), matrix_groups_http=len(hg), statement_types=len(types))
            phase("matrix generated: %d groups (A %d, B %d), %d statement types" % (len(groups), len(fam["A"]), len(fam["B"]), len(types)))
            if "authz" in stages:
                meta_tests.append("TestVerifAuthMatrix")
                meta_in.update(groups=groups, classes=classes, stmt_types=types)
            if "http" in stages:
                http_tests.append("TestVerifAuthHTTP")
                http_in.update(groups=hg, classes=classes, stmt_types=types)
            if "listing" in stages:
                # statements that list across databases, through the real coordinator.StatementExecutor
                http_tests.append("TestVerifAuthListing")
                http_in.update(listing=listing)
        if stages & {"cache", "raft"}:
            # every interleaving of two calls with one change
            ctx.write_cfg(sd, "GC1.cfg", "GSpec", cache_consts(2, 1, True), extra="INVARIANT Emit")
            b1 = ctx.tlc_generate(sd, "AuthCacheGen", "GC1.cfg", exhaustive=True, timeout=600)
            # two changes: every interleaving (thorough, 18 829) / seeded simulation (quick)
            ctx.write_cfg(sd, "GC2.cfg", "GSpec", cache_consts(2, 2, True), extra="INVARIANT Emit")
            if ctx.quick():
                b2 = ctx.tlc_generate(sd, "AuthCacheGen", "GC2.cfg", num=2000, depth=30, timeout=900)[:2500]
                n2 = 18829
            else:
                b2 = ctx.tlc_generate(sd, "AuthCacheGen", "GC2.cfg", exhaustive=True, timeout=1800)
                n2 = len(b2)
            # changes that are committed but delivered later (batched installs), three calls: simulation
            ctx.write_cfg(sd, "GC3.cfg", "GSpec", cache_consts(3, 3, False), extra="INVARIANT Emit")
            b3 = ctx.tlc_generate(sd, "AuthCacheGen", "GC3.cfg", num=ctx.pick(500, 6000), depth=40, timeout=900)[:ctx.pick(1000, 12000)]
            phase("cache behaviours generated: %d + %d + %d" % (len(b1), len(b2), len(b3)))
            extra.update(cache_behaviours_exhaustive_1change=len(b1), cache_behaviours_2changes=len(b2),
                         cache_behaviours_2changes_total=n2, cache_behaviours_deferred_install=len(b3))
            if "cache" in stages:
                meta_tests.append("TestVerifAuthCache")
                meta_in.update(behaviours=b1 + b2 + b3)
            if "raft" in stages:
                # a sample through a real single-node meta service (raft, the client's own command path)
                pool = [b for b in b1 + b2 if any(s["a"] == "change" for s in b)]
                meta_tests.append("TestVerifAuthCacheRaft")
                meta_in.update(raft_behaviours=rnd.sample(pool, min(len(pool), ctx.pick(60, 400))))
        if meta_tests:
            res = drive(META, META_FILES, meta_tests, meta_in, "meta")
            d = res.get("TestVerifAuthMatrix")
            if d is not None:
                extra.update(authorizer_cases=d.get("cases", 0), statement_instances=d.get("instances", 0))
                ctx.cov["traces_validated_against_impl"] += d.get("cases", 0)
                phase("authorizer matrix: %s" % {k: d.get(k) for k in ("cases", "granted", "denied", "instances")})
            d = res.get("TestVerifAuthCache")
            if d is not None:
                extra.update(cache_steps=d.get("steps", 0), cache_accepting_calls=d.get("accepting_calls", 0))
                ctx.cov["traces_validated_against_impl"] += d.get("behaviours", 0)
                phase("cache replay: %s" % {k: d.get(k) for k in ("behaviours", "steps", "accepting_calls")})
            d = res.get("TestVerifAuthCacheRaft")
            if d is not None:
                extra["cache_behaviours_raft"] = d.get("behaviours", 0)
                ctx.cov["traces_validated_against_impl"] += d.get("behaviours", 0)
                phase("raft replay: %s" % d.get("behaviours"))
        if http_tests:
            res = drive(HTTPD, HTTPD_FILES, http_tests, http_in, "httpd")
            d = res.get("TestVerifAuthHTTP")
            if d is not None:
                extra.update(http_requests=d.get("requests", 0), http_executed=d.get("executed", 0))
                ctx.cov["traces_validated_against_impl"] += d.get("requests", 0)
                phase("http matrix: %s" % {k: d.get(k) for k in ("requests", "executed", "status401", "status403")})
            d = res.get("TestVerifAuthListing")
            if d is not None:
                extra["listing_requests"] = d.get("requests", 0)
                ctx.cov["traces_validated_against_impl"] += d.get("requests", 0)
                phase("listing: %s" % {k: d.get(k) for k in ("requests", "listed")})
    if stages != {"mc", "authz", "http", "listing", "cache", "raft"}:
        extra["stages_run"] = sorted(stages)

    return ctx.finish("model_checking", extra, assumptions=[
        "the oracle table `needs` of Auth.tla (which database a statement form reads/writes, which statements are administrative) is written from the InfluxDB 1.8 authorization documentation and the InfluxQL reference; five entries the documentation leaves open were calibrated once against influxql.RequiredPrivileges and frozen (header of Auth.tla)",
        "bcrypt, crypto/sha256, jwt-go signature verification and hashicorp/raft are trusted",
        "'reached a node' = installed by Client.pollForUpdates; propagation delay before that is outside the property",
        "Prometheus remote read and Flux endpoints are not in the matrix (remote read authorization is an opt-in configuration)"])
