# C17 - retention removes only expired data, and removes all of it.
# spec: specs/retention (Retention, RetentionGen); harness: harness/retention/zz_verif_retention_test.go
import json, os
from vcheck import Infra, log

PKG = "services/retention"
FILES = ["retention/zz_verif_retention_test.go"]
TEST = "TestVerifRetention"

SAFETY_INV = ["TypeOK", "C17_DeleteOnlyIfAllowed", "C17_InfiniteNeverExpires", "C17_WriteDropIffTooOld"]
SAFETY_PROPS = "PROPERTIES C17_RemoveOnlyIfAllowed C17_MarkOnlyIfExpired C17_PruneOnlyOldDeleted"


def consts(**kw):
    c = {"RPs": {1, 2}, "Durs": {0, 2}, "Ends": {4, 6}, "NG": 2, "DelKinds": ['"no"', '"old"'], "Nodes": {1}, "Now0s": {7},
         "MaxNow": 9, "TickBy": 1, "MaxErr": 1, "MaxAlter": 1, "Unknown": 9, "FullLocal": True}
    c.update(kw)
    return c


def run(ctx):
    sd = ctx.spec_dir("retention")
    quick = ctx.quick()
    if not ctx.replay and not os.environ.get("VERIF_SKIP_MC"):
        # safety: every state of every behaviour (clock through the exact boundary, errors, duration changes)
        c = consts() if quick else consts(Durs={0, 2, 4}, Ends={2, 4, 6}, DelKinds=['"no"', '"recent"', '"old"'], Now0s={7, 8}, MaxNow=10, MaxErr=2)
        ctx.write_cfg(sd, "MCS.cfg", "Spec", c, SAFETY_INV, extra=SAFETY_PROPS)
        ctx.tlc_check(sd, "Retention", "MCS.cfg", workers=pick(ctx, 4, 8), timeout=3000, coverage=not quick)
        # liveness under weak fairness of the pass on every node, finitely many errors; no state constraint
        c = consts(RPs={1}, Nodes={1, 2}, TickBy=2) if quick else consts(Nodes={1, 2}, TickBy=2, MaxErr=2)
        ctx.write_cfg(sd, "MCL.cfg", "FairSpec", c, extra="PROPERTIES C17_EventuallyAllRemoved")
        ctx.tlc_check(sd, "Retention", "MCL.cfg", workers=pick(ctx, 4, 8), timeout=3000)
        # negative control: without fairness the same property must fail (the formula is not vacuous)
        c = consts(RPs={1}, Nodes={1}, TickBy=2, MaxErr=0, MaxAlter=0)
        ctx.write_cfg(sd, "NEG.cfg", "Spec", c, extra="PROPERTIES C17_EventuallyAllRemoved")
        try:
            r = ctx.tlc_check(sd, "Retention", "NEG.cfg", workers=2, timeout=600, expect_ok=False)
            violated = not r["ok"]
        except Infra as e:
            # this TLC words it "Temporal property X was violated", which lib/vcheck.py does not recognise as a violation
            violated = "Temporal property C17_EventuallyAllRemoved was violated" in str(e)
            if not violated:
                raise
        if not violated:
            raise Infra("negative control: C17_EventuallyAllRemoved holds without fairness")

    if ctx.replay:
        rp = json.load(open(ctx.replay))["replay"]
        behs = [rp["behaviour"]]
    else:
        # predicate scenarios: every initial metadata (now on and off the boundary), the pure predicates at every instant
        g = consts(Durs={0, 2, 4}, Ends=pick(ctx, {4, 6}, {2, 4, 6}), DelKinds=['"no"', '"recent"', '"old"'], Now0s={7, 8}, GenLen=1)
        ctx.write_cfg(sd, "GP.cfg", "GSpec", g, extra="INVARIANT Emit")
        behs = ctx.tlc_generate(sd, "RetentionGen", "GP.cfg", exhaustive=True, timeout=1500)
        # service scenarios: passes with scripted errors on two nodes, ticks of one hour, duration changes
        gl = 8
        g = consts(Durs={0, 2, 4}, Ends={2, 4, 6}, NG=pick(ctx, 2, 3), DelKinds=['"no"', '"recent"', '"old"'], Nodes={1, 2}, Now0s={7, 9},
                   MaxNow=13, TickBy=2, MaxErr=3, MaxAlter=2, GenLen=gl)
        ctx.write_cfg(sd, "GS.cfg", "GSpec", g, extra="INVARIANT Emit")
        n = pick(ctx, 400, 5000)
        # in simulation TLC evaluates Emit on every successor of the last state: ~8 behaviours per requested trace
        behs += ctx.tlc_generate(sd, "RetentionGen", "GS.cfg", num=n // 6, depth=gl + 1, timeout=1500)[:n]
        # half of the behaviours additionally truncate their groups; the choice is part of the behaviour (init record),
        # so that a behaviour replayed alone is built exactly as it was in the batch
        for i, b in enumerate(behs):
            b[0]["trunc"] = (i % 2 == 1)
        # some service behaviours run node 1 over a real tsdb.Store (alternating index types): what a pass deletes is
        # deleted there, what the model keeps must stay readable and listed (several policies share series keys)
        k = 0
        every = pick(ctx, 4, 10)
        for i, b in enumerate(behs):
            if len(b) > 1 and len(b[0].get("local", [])) > 0 and len(b[0]["local"][0]) > 1:
                if k % every == 0:
                    b[0]["real"] = ["inmem", "tsi1"][(k // every) % 2]
                k += 1
    inp = {"Unknown": 9}

    def run_h(behs, label):
        p = ctx.write_json("retention-%s.json" % label, dict(inp, behaviours=behs))
        return ctx.go_test(PKG, FILES, "^%s$" % TEST, env={"VERIF_IN": p}, timeout=2400, label=label)

    def confirm(rp):
        recs, out, rc = run_h([rp["behaviour"]], "confirm")
        return any(r.get("k") == "mismatch" for r in recs)

    recs, out, rc = run_h(behs, "replay")
    done = ctx.process(recs, out, rc, TEST, confirm)
    ctx.cov["traces_validated_against_impl"] += done.get("behaviours", 0)
    extra = {k: done.get(k, 0) for k in ("behaviours", "steps", "passes", "deleteshard_calls", "deleteshardgroup_calls", "prune_calls",
                                         "predicate_rows", "boundary_rows", "write_probes", "scripted_errors", "real_store_behaviours")}
    if not ctx.replay and not done.get("mismatches") and min(extra["passes"], extra["deleteshard_calls"], extra["deleteshardgroup_calls"], extra["boundary_rows"],
                              extra["scripted_errors"], extra["write_probes"], extra["real_store_behaviours"]) == 0:
        raise Infra("vacuous replay: %s" % extra)
    return ctx.finish("model_checking", extra, assumptions=[
        "expiry boundary as the code and the property's anchor state it: EndTime + Duration < now (strict), on EndTime not TruncatedAt",
        "the service is driven at least 30 minutes away from every boundary (it reads the wall clock); exact boundary instants go through the pure predicates with explicit t",
        "a clock tick is realised as a uniform translation of all group times; groups deleted more than 14 days ago are made by moving DeletedAt back",
        "liveness is proved on the model only (weak fairness of the pass, finitely many errors) and for groups still known to the metadata: "
        "a shard whose DeleteShard keeps failing until its group is pruned (14 days) becomes unknown to the metadata and is kept"])


def pick(ctx, q, t):
    return ctx.pick(q, t)
