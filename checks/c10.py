# C10 - deletes remove exactly the targeted data, permanently.
# spec: specs/tsmengine (TSMEngine delete actions, TSMEngineGen); harness: harness/tsm1/zz_verif_engine_test.go
import json
from vcheck import Infra, log
import tsmengine as te


def run(ctx):
    te.need_hooks(ctx)
    sd = ctx.spec_dir("tsmengine")
    if ctx.replay:
        rp = json.load(open(ctx.replay))["replay"]
        done = te.replay_and_judge(ctx, [rp["behaviour"]], "replay")
        return ctx.finish("model_checking", {"replayed_behaviours": done.get("behaviours", 0)})

    # 1. exhaustive: delete interleaved with writes, a snapshot, a compaction, a crash (snapshot and delete exclusive:
    #    the design the property needs; the implementation's overlap is the recorded deviation F14).
    #    With the overlap allowed (F14) the model must lose the property: vacuity guard + the lead that is
    #    confirmed on the real code below.
    big = not ctx.quick()
    w = 8 if big else 4
    te.run_parallel([
        lambda: te.mc(ctx, sd, "MCdelete", te.mc_consts(keys=("a1", "a2", "b1") if big else ("a1", "b1"), w=2, snap=1, dele=1, crash=1,
                                                        times=(0, 1, 2) if big else (0, 1)), te.INV_C10, workers=w),
        lambda: te.mc(ctx, sd, "MCdelcomp", te.mc_consts(keys=("a1", "b1"), w=2, snap=2, comp=1, dele=1, crash=1 if big else 0), te.INV_C10, workers=w),
        lambda: te.mc(ctx, sd, "MCdel2", te.mc_consts(keys=("a1", "a2"), w=2, snap=1, dele=2, crash=0), te.INV_C10, workers=w),
        lambda: te.negative_control(ctx, sd, "NCf14", te.mc_consts(keys=("a1", "b1"), w=2, snap=1, dele=1, crash=0, dev=("F14",)), "NoTaintedLoss"),
    ], max_workers=2 if big else 4)

    # 2. behaviours -> real store: deletes between / inside snapshots (gate), before / after compactions,
    #    crashes inside the delete; reads + listings after every later step
    n = ctx.pick(1, 5)
    fixed = te.known_behaviours(ctx)
    have_f14 = sum(1 for b in fixed if te.has_f14_window(b))
    have_sb = sum(1 for b in fixed if te.shared_bound_pairs(b) >= 1)
    gens = te.run_parallel([
        lambda: te.generate(ctx, sd, "GenDel", te.gen_consts(["write", "snapshot", "compact", "delete", "reopen", "crash"], dele=4, crash=2, crash_in=("delete", "idle", "compact", "restart")), num=10 * n),
        lambda: te.generate(ctx, sd, "GenGate", te.gen_consts(["write", "snapshot", "gate", "delete", "reopen", "crash"], dele=3, crash=2, comp=0), num=6 * n),
        lambda: te.generate_with(ctx, sd, "GenWindow", te.gen_consts(["write", "gate", "delete"], dele=3, crash=0, comp=0, genlen=8), 12 * n,
                                 te.has_f14_window, 2, "a delete inside the snapshot window", variants=1, have=have_f14)[0],
        lambda: te.generate(ctx, sd, "GenPartial", te.gen_consts(["write", "snapshot", "delete"], dele=3, crash=0, comp=0, w=5, genlen=8), num=24 * n, variants=1),
        # tombstones of one file whose ranges share exactly one bound (open-ended / same start or same end), then reopen
        lambda: te.generate_shared_bound(ctx, sd, "GenBounds", te.gen_consts(["write", "snapshot", "delete", "effdel", "reopen"], dele=4, crash=0, comp=0, w=3, snap=2, genlen=9),
                                         num=60 * n, keep=14 * n, need=6, have=have_sb),
        lambda: te.generate(ctx, sd, "GenDelComp", te.gen_consts(["write", "snapshot", "compact", "delete"], dele=3, crash=0, w=5, snap=4), num=8 * n),
    ], max_workers=6)
    behs = fixed + [b for g in gens for b in g]
    acts, f1, f14 = te.stats(behs)
    ndel = sum(v for k, v in acts.items() if k.startswith("delete"))
    log("  behaviours: %d; deletes: %d; behaviours with a delete inside the snapshot window: %d" % (len(behs), ndel, f14))
    if f14 == 0:
        raise Infra("no generated behaviour places a delete inside the snapshot window")
    done = te.replay_and_judge(ctx, behs, "replay")
    extra = {"replayed_behaviours": done.get("behaviours", 0), "replayed_steps": done.get("steps", 0),
             "crash_images": done.get("crash_images", 0), "crash_images_recovered": done.get("crash_images_recovered", 0),
             "tainted_model_drift": done.get("tainted_model_drift", 0),
             "delete_inside_snapshot_window_behaviours": f14, "deletes": ndel, "step_kinds": acts}
    return ctx.finish("model_checking", extra, assumptions=[
        "selections: one series (measurement or tag predicate), two measurements, whole database; ranges closed and open-ended, incl. single instants; 3 timestamps incl. epoch 0",
        "writes do not overlap a delete (Store delete guards are not exercised); inmem index; one shard",
        "a point targeted by a delete that has not completed (or was cut by a crash) is unspecified until the delete is repeated",
        "crash model as C01"])
