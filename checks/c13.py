# C13 - storage encodings round-trip exactly; torn logs replay their prefix.
# specs: specs/walframe/WalFrame.tla (framing state machine, model checked), specs/blockcodec/BlockCodec.tla
# (decision table of the block encoders); harness: harness/tsm1/zz_verif_codec_test.go
import json, random
from vcheck import Infra, log

PKG = "tsdb/engine/tsm1"
FILES = ["tsm1/zz_verif_codec_test.go"]
WAL_INV = ["TypeOK", "C13_TornReplayIsPrefix", "C13_NothingElse", "C13_TruncateHeals", "C13_ReaderTerminates"]
LENS = [1, 2, 3, 4, 5, 8, 9, 239, 240, 241, 242, 243, 999, 1000, 1001]


def wal_input(rp):
    same = {"data": rp.get("data"), "bounds": rp.get("bounds"), "ccut": rp.get("ccut")}
    if rp["test"] == "WALM":
        return dict(same, cases=[rp["case"]], seed=rp["seed"], segments=0)
    return dict(same, cases=[], seed=rp["seg"]["seed"], seg=rp["seg"], max_ent=rp["max_ent"], max_vals=rp["max_vals"], segments=0)


def blk_input(rp):
    return {"cases": [rp["case"]], "seed": rp["seed"], "reps": rp["rep"], "rep": rp["rep"]}


def run(ctx):
    def go(test, inp, label, timeout=1500):
        p = ctx.write_json("c13-%s.json" % label, inp)
        return ctx.go_test(PKG, FILES, "^%s$" % test, env={"VERIF_IN": p}, timeout=timeout, label=label)

    def confirm_wal(rp):
        recs, out, rc = go("TestVerifWalFrame", wal_input(rp), "wal-confirm", 600)
        return any(r.get("k") == "mismatch" for r in recs)

    def confirm_blk(rp):
        recs, out, rc = go("TestVerifBlockCodec", blk_input(rp), "blk-confirm", 600)
        return any(r.get("k") == "mismatch" and not r["sig"].startswith("note:") for r in recs)

    if ctx.replay:
        rp = json.load(open(ctx.replay))["replay"]
        if rp["test"] == "BLK":
            recs, out, rc = go("TestVerifBlockCodec", blk_input(rp), "replay")
            ctx.process(recs, out, rc, "TestVerifBlockCodec", None)
        else:
            recs, out, rc = go("TestVerifWalFrame", wal_input(rp), "replay")
            ctx.process(recs, out, rc, "TestVerifWalFrame", None)
        return ctx.finish("exploration", {"evaluations": 1, "distinct_nontrivial": 2, "rule": "replay of one recorded case", "samples": [str(rp)[:300]]})

    # ---- 1. WAL framing: the state machine is model checked; every terminal state is a case for the real reader
    sd = ctx.spec_dir("walframe")
    wc = ctx.pick({"MaxFrames": 2, "PayLens": {1, 3}, "BadKinds": ['"snappy"', '"entry"', '"type"']},
                  {"MaxFrames": 3, "PayLens": {1, 3}, "BadKinds": ['"snappy"', '"entry"']})
    ctx.write_cfg(sd, "Wal.cfg", "Spec", wc, WAL_INV, extra="INVARIANT Emit")
    st0, tr0 = ctx.cov["states"], ctx.cov["transitions"]
    wal_cases = ctx.tlc_generate(sd, "WalFrame", "Wal.cfg", exhaustive=True, workers=4, timeout=ctx.pick(600, 1700))
    wal_states, wal_trans = ctx.cov["states"] - st0, ctx.cov["transitions"] - tr0
    if not ctx.quick():
        # the third kind of undecodable frame (unknown entry type) with two frames
        ctx.write_cfg(sd, "Wal2.cfg", "Spec", {"MaxFrames": 2, "PayLens": {1, 3}, "BadKinds": ['"type"']}, WAL_INV, extra="INVARIANT Emit")
        wal_cases += ctx.tlc_generate(sd, "WalFrame", "Wal2.cfg", exhaustive=True, workers=4, timeout=600)
    # non-vacuity of the model: every kind of ending is among the cases
    kinds = set((c["status"], c["entries"] > 0, c["cut"] == 0) for c in wal_cases)
    for need in (("eof", True, False), ("error", True, False), ("error", False, False), ("eof", False, True)):
        if need not in kinds:
            raise Infra("vacuity: no WAL case with status/entries/cut0 = %s" % (need,))
    log("wal cases: %d (model: %d states)" % (len(wal_cases), wal_states))
    rnd = random.Random(ctx.seed)
    rnd.shuffle(wal_cases)
    for i, c in enumerate(wal_cases):
        c["idx"] = i + 1
    winp = {"cases": wal_cases, "seed": ctx.seed, "segments": ctx.pick(30, 150), "max_ent": ctx.pick(5, 10), "max_vals": ctx.pick(6, 40),
            "loader_mod": ctx.pick(7, 3)}
    recs, out, rc = go("TestVerifWalFrame", winp, "walframe")
    wd = ctx.process(recs, out, rc, "TestVerifWalFrame", confirm_wal)
    if not ctx.violations and wd.get("model_cases", 0) != len(wal_cases):
        raise Infra("WAL driver ran %s of %d model cases" % (wd.get("model_cases"), len(wal_cases)))
    ctx.cov["traces_validated_against_impl"] += wd.get("model_cases", 0)

    # ---- 2. block codecs: the decision table enumerates the cases; seeded instances through every encoder/decoder pair
    sd2 = ctx.spec_dir("blockcodec")
    ctx.write_cfg(sd2, "Blk.cfg", "Spec", {"Lens": set(LENS), "Cross": not ctx.quick()}, ["TypeOK", "C13_TableConsistent"], extra="INVARIANT Emit")
    blk_cases = ctx.tlc_generate(sd2, "BlockCodec", "Blk.cfg", exhaustive=True, workers=2, timeout=900)
    # every branch of the table is taken by some case
    have = set(c["tsScheme"] for c in blk_cases) | set("i" + c["valSchemeIt"] for c in blk_cases) | set("b" + c["valSchemeBa"] for c in blk_cases)
    for need in ("rle", "packed", "raw", "irle", "ipacked", "iraw", "brle", "bpacked", "braw"):
        if need not in have:
            raise Infra("vacuity: decision table branch %s is not taken by any case" % need)
    if not any(not c["ok"] for c in blk_cases):
        raise Infra("vacuity: no case that the encoder may refuse")
    log("block cases: %d" % len(blk_cases))
    rnd.shuffle(blk_cases)
    binp = {"cases": blk_cases, "seed": ctx.seed, "reps": ctx.pick(2, 3)}
    recs, out, rc = go("TestVerifBlockCodec", binp, "blockcodec")
    bd = ctx.process(recs, out, rc, "TestVerifBlockCodec", confirm_blk)
    if not ctx.violations and bd.get("sequences", 0) != len(blk_cases) * binp["reps"]:
        raise Infra("block driver ran %s sequences of %d" % (bd.get("sequences"), len(blk_cases) * binp["reps"]))
    got = bd.get("schemes", {})
    for need in ("ts:rle", "ts:packed", "ts:raw", "int:rle", "int:packed", "int:raw"):
        if not got.get(need):
            raise Infra("vacuity: the real encoders never produced scheme %s" % need)
    if ctx.cov.get("conformance_notes"):
        # the decision table no longer describes the encoders' choice: the round trips above still decide the
        # property, but the enumeration may have lost a branch - say so loudly
        log("note: %d scheme predictions of BlockCodec.tla differ from the encoders" % len(ctx.cov["conformance_notes"]))

    extra = {
        "evaluations": wd.get("replays", 0) + wd.get("loader_runs", 0) + bd.get("decodes", 0),
        "distinct_nontrivial": wd.get("distinct_classes", 0) + bd.get("distinct_classes", 0),
        "rule": "WAL: every terminal state of WalFrame.tla (segments of <=%d frames incl. undecodable ones x every abstract cut) "
                "built with the real WALSegmentWriter and replayed by WALSegmentReader + CacheLoader, plus every byte offset of "
                "seeded segments of arbitrary entry mixes.  Blocks: every reachable row of the decision table of BlockCodec.tla "
                "(type x length class x timestamp shape x value shape) instantiated with seeded sequences, 3 encoders x 3 decoders, "
                "compared bit for bit" % wc["MaxFrames"],
        "wal_model_states": wal_states, "wal_model_transitions": wal_trans,
        "wal_model_cases": wd.get("model_cases", 0), "wal_segments": wd.get("segments", 0), "wal_segment_bytes": wd.get("segment_bytes", 0),
        "wal_every_byte_cuts": wd.get("cuts", 0), "wal_replays": wd.get("replays", 0), "wal_cacheloader_runs": wd.get("loader_runs", 0),
        "wal_classes": wd.get("distinct_classes", 0),
        "block_cases": len(blk_cases), "block_sequences": bd.get("sequences", 0), "block_values": bd.get("values", 0),
        "block_encodes": bd.get("encodes", 0), "block_decodes": bd.get("decodes", 0), "block_refused_nan": bd.get("refused", 0),
        "block_schemes_seen": got, "block_classes": bd.get("distinct_classes", 0),
        "mismatch_signatures": dict(wd.get("signatures", {}), **bd.get("signatures", {})),
    }
    return ctx.finish("exploration", extra, assumptions=[
        "crash model of the property: a segment is cut at a byte offset (prefix survives); bit rot inside a complete frame is "
        "covered only where it makes the frame undecodable (snappy / entry body / entry type), since WAL frames carry no checksum",
        "series keys in WAL entries do not contain a newline (DeleteWALEntry separates keys by newline; line protocol cannot produce one)",
        "block round trips are bounded exploration of the scheme classes of BlockCodec.tla with seeded concrete values, not a proof for all sequences",
        "NaN floats are refused by the encoders (they are the end-of-stream marker); the line-protocol parser does not admit them"])
