# C04 - hinted-handoff queue loses nothing and keeps order.
# spec: specs/hhqueue (HHQueue, HHQueueGen, HHQueueTrace); harness: harness/hh
import os, json
from vcheck import Infra, log

PKG = "services/hh"
FILES = ["hh/zz_verif_hh_test.go"]

def consts_mc():
    return {"MaxSegW": 5, "MaxQW": 14, "Words": {1, 2}, "SegSizes": {3, 5}, "MaxBlocks": 3, "BufT": 2,
            "MaxTok": 2, "Apps": ["a1", "a2"], "Dev": ['"ackBeforeDurable"'], "MaxSegId": 3, "MaxSent": 0}

def run(ctx):
    sd = ctx.spec_dir("hhqueue")
    # 1. exhaustive: the design with the recorded deviation, queue on its own / under the processor / strict
    c = consts_mc()
    inv = ["TypeOK", "C04_NoLoss", "C04_Order", "C04_SegIdsIncrease", "C04_BufOnlyWhenOpen", "C04_DroppedReasons"]
    if not ctx.replay:
        if not ctx.quick():
            c["MaxBlocks"] = 4
            c["MaxSegId"] = 4
        ctx.write_cfg(sd, "MCQ.cfg", "SpecQ", c, inv, "Bounded")
        ctx.tlc_check(sd, "HHQueue", "MCQ.cfg", workers=8, timeout=1500, coverage=not ctx.quick())
        cp = dict(consts_mc(), Apps=["a1"], MaxSent=5)
        ctx.write_cfg(sd, "MCP.cfg", "SpecP", cp, inv + ["C04_SentInOrder"], "Bounded")
        ctx.tlc_check(sd, "HHQueue", "MCP.cfg", workers=8, timeout=900)
        cs = dict(consts_mc(), Dev=[], SegSizes={5})
        ctx.write_cfg(sd, "MCS.cfg", "SpecQ", cs, ["TypeOK", "C04_NoLossStrict", "C04_Order"], "Bounded")
        ctx.tlc_check(sd, "HHQueue", "MCS.cfg", workers=8, timeout=900)

    # 2. behaviours -> real queue
    gl = 14
    gc = {"MaxSegW": 5, "MaxQW": 14, "Words": {1, 2, 5}, "SegSizes": {3, 5}, "MaxBlocks": 8, "BufT": 2, "MaxTok": 2,
          "Apps": ["a1"], "Dev": ['"ackBeforeDurable"'], "MaxSegId": 99, "MaxSent": 99, "GenLen": gl}
    num = ctx.pick(300, 3000)
    if ctx.replay:
        rp = json.load(open(ctx.replay))["replay"]
        inp = {"consts": rp["consts"], "behaviours": [rp["behaviour"]]}
    else:
        ctx.write_cfg(sd, "GenQ.cfg", "GSpecQ", gc, extra="INVARIANT Emit")
        behs = ctx.tlc_generate(sd, "HHQueueGen", "GenQ.cfg", num=num, depth=gl + 1)[:num * 3]
        inp = {"consts": {k: v for k, v in gc.items() if isinstance(v, int)}, "behaviours": behs}
    def run_q(inp, label):
        p = ctx.write_json("behQ-%s.json" % label, inp)
        return ctx.go_test(PKG, FILES, "^TestVerifHHReplayQ$", env={"VERIF_IN": p}, timeout=1200, label=label)
    def confirm(rp):
        recs, out, rc = run_q({"consts": rp["consts"], "behaviours": [rp["behaviour"]]}, "confirm")
        return any(r.get("k") == "mismatch" for r in recs)
    recs, out, rc = run_q(inp, "replay")
    done = ctx.process(recs, out, rc, "TestVerifHHReplayQ", confirm)
    ctx.cov["traces_validated_against_impl"] += done.get("behaviours", 0)
    extra = {"replayed_behaviours": done.get("behaviours", 0), "replayed_steps": done.get("steps", 0),
             "crash_images_recovered": done.get("crash_images_recovered", 0)}
    return ctx.finish("model_checking", extra, assumptions=[
        "crash model: process death at a durable step (hooks in flush/advance/trim) plus any truncation of the un-synced bytes of the flush in progress",
        "hashicorp/raft, OS page cache and fsync semantics are trusted"])
