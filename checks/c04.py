# C04 - hinted-handoff queue loses nothing and keeps order.
# spec: specs/hhqueue (HHQueue, HHQueueGen, HHQueueTrace); harness: harness/hh
import os, json
from vcheck import Infra, log

PKG = "services/hh"
FILES = ["hh/zz_verif_hh_test.go", "hh/zz_verif_hhproc_test.go"]

def consts_mc():
    return {"MaxSegW": 5, "MaxQW": 14, "Words": {1, 2}, "SegSizes": {3, 5}, "MaxBlocks": 3, "BufT": 2,
            "MaxTok": 2, "Apps": ["a1", "a2"], "Dev": ['"ackBeforeDurable"'], "MaxSegId": 3, "MaxSent": 0}

PROPERTY_EVENTS = ("empty.ret", "current.ret", "drain", "append.ret", "close.ret", "open")

def validate_traces(ctx, sd, files, maxqw):
    """Concatenate recorded traces (each starts with a reset line) and validate them in one TLC run.
    On rejection, bisect to the rejected trace and classify by the first unmatched event."""
    consts = {"MaxSegW": 12, "MaxQW": maxqw, "Words": {1}, "SegSizes": {1}, "MaxBlocks": 1, "BufT": 10, "MaxTok": 1024,
              "Apps": ["a1"], "Dev": ['"ackBeforeDurable"'], "MaxSegId": 99, "MaxSent": 99}
    ctx.write_cfg(sd, "Trace.cfg", "TraceSpec", consts, ["C04_NoLoss", "C04_Order"], extra="POSTCONDITION TraceAccepted")
    def run(fs):
        cat = os.path.join(ctx.scratch, "cat-%d.ndjson" % len(os.listdir(ctx.scratch)))
        with open(cat, "w") as out:
            for f in fs:
                out.write(open(f).read())
        return ctx.tlc_trace(sd, "HHQueueTrace", cat, "Trace.cfg", timeout=600), cat
    res, cat = run(files)
    if res["accepted"]:
        return len(files), []
    bad = []
    for f in files:          # find the rejected ones individually (few and short)
        r, c = run([f])
        if not r["accepted"]:
            lines = open(f).read().splitlines()
            nxt = json.loads(lines[r["matched"]]) if 0 <= r["matched"] < len(lines) else {"e": "?"}
            bad.append((f, r, nxt))
    return len(files) - len(bad), bad

def concurrent(ctx, sd):
    if ctx.replay:
        rp = json.load(open(ctx.replay))["replay"]
        if rp.get("test") != "T":
            return {}
        p = ctx.write_json("replay-trace.ndjson", None)
        with open(p, "w") as fh:
            fh.write("\n".join(json.dumps(e) for e in rp["events"]) + "\n")
        ok, bad = validate_traces(ctx, sd, [p], rp["maxqw"])
        for f, r, nxt in bad:
            ctx.report_mismatch("trace:" + nxt.get("e", "?"), "trace rejected at line %d: %s (violated: %s)" % (r["matched"] + 1, nxt, r["violated"]), rp)
        return {}
    tdir = os.path.join(ctx.scratch, "traces")
    os.makedirs(tdir, exist_ok=True)
    maxqw = [100000, 120, 100000][ctx.seed % 3]
    rounds = ctx.pick(16, 200)
    recs, out, rc = ctx.go_test(PKG, FILES, "^TestVerifHHConcurrent$", env={"VERIF_TRACE_DIR": tdir, "VERIF_ROUNDS": rounds, "VERIF_MAXQW": maxqw},
                                timeout=900, label="concurrent")
    done = ctx.process(recs, out, rc, "TestVerifHHConcurrent")
    files = [r["file"] for r in recs if r.get("k") == "trace"]
    if not files:
        raise Infra("concurrent driver produced no traces")
    ok, bad = validate_traces(ctx, sd, files, maxqw)
    notes = []
    for f, r, nxt in bad:
        evs = [json.loads(x) for x in open(f).read().splitlines()]
        if r["violated"] or nxt.get("e") in PROPERTY_EVENTS:
            # a recorded real execution on which a C04 invariant fails / whose observable answer the model forbids
            ctx.report_mismatch("trace:" + (r["violated"][0].split()[1] if r["violated"] else nxt.get("e")),
                                "recorded execution rejected at line %d: %s (violated: %s)" % (r["matched"] + 1, nxt, r["violated"]),
                                {"test": "T", "maxqw": maxqw, "events": evs})
        else:
            notes.append("conformance: trace %s not matched at internal event %s (line %d)" % (os.path.basename(f), nxt, r["matched"] + 1))
    ctx.cov["traces_validated_against_impl"] += ok
    if not ctx.quick():
        # negative control: the binding must be able to reject -- drop the first append.locked line of a trace
        lines = open(files[0]).read().splitlines()
        idx = next((i for i, x in enumerate(lines) if '"append.locked"' in x), None)
        if idx is not None:
            neg = os.path.join(ctx.scratch, "negative.ndjson")
            open(neg, "w").write("\n".join(lines[:idx] + lines[idx + 1:]) + "\n")
            okn, badn = validate_traces(ctx, sd, [neg], maxqw)
            if not badn:
                raise Infra("negative control: a trace with a deleted linearization event was accepted")
    if files:
        ctx.add_sample({"trace_prefix": open(files[0]).read().splitlines()[:12]})
    return {"concurrent_traces": len(files), "concurrent_traces_accepted": ok, "concurrent_events": done.get("events", 0),
            "conformance_notes": notes}

def split(ctx, sd):
    import random
    if ctx.replay:
        rp = json.load(open(ctx.replay))["replay"]
        if rp.get("test") != "SPLIT":
            return
        cases = [rp["case"]]
    else:
        ctx.write_cfg(sd, "Split.cfg", "Spec", {"MaxPoints": ctx.pick(4, 5), "Sizes": {1, 3, 6, 11}, "Limit": 10, "Overhead": 0},
                      ["C04_SplitKeepsPoints", "EmitBeh"])
        behs = ctx.tlc_generate(sd, "HHSplit", "Split.cfg", exhaustive=True, workers=4, timeout=300)
        cases = [b[0] for b in behs]
        rnd = random.Random(ctx.seed)
        multi = [c for c in cases if len(c["blocks"]) >= 2 or c["res"] != "ok"]
        rnd.shuffle(multi)
        rnd.shuffle(cases)
        n = ctx.pick(24, 250)
        cases = multi[:n * 3 // 4] + cases[:n // 4]
    p = ctx.write_json("split.json", {"cases": cases})
    recs, out, rc = ctx.go_test(PKG, FILES, "^TestVerifHHSplit$", env={"VERIF_IN": p}, timeout=900, label="split")
    def confirm(rp):
        p2 = ctx.write_json("split-confirm.json", {"cases": [rp["case"]]})
        r2, o2, c2 = ctx.go_test(PKG, FILES, "^TestVerifHHSplit$", env={"VERIF_IN": p2}, timeout=300, label="split-confirm")
        return any(r.get("k") == "mismatch" for r in r2)
    d = ctx.process(recs, out, rc, "TestVerifHHSplit", confirm)
    ctx.cov["split_cases_on_real_code"] = d.get("cases", 0)
    ctx.cov["traces_validated_against_impl"] += d.get("cases", 0)

def run(ctx):
    sd = ctx.spec_dir("hhqueue")
    # 1. exhaustive: the design with the recorded deviation, queue on its own / under the processor / strict
    c = consts_mc()
    inv = ["TypeOK", "C04_NoLoss", "C04_Order", "C04_SegIdsIncrease", "C04_BufOnlyWhenOpen", "C04_DroppedReasons"]
    if not ctx.replay:
        if not ctx.quick():
            c["MaxBlocks"] = 4
            c["MaxSegId"] = 4
        ctx.write_cfg(sd, "MCQ.cfg", "SpecQ", c, inv, "Bounded")
        ctx.tlc_check(sd, "HHQueue", "MCQ.cfg", workers=8, timeout=1500, coverage=not ctx.quick())
        cp = dict(consts_mc(), Apps=["a1"], MaxSent=5)
        ctx.write_cfg(sd, "MCP.cfg", "SpecP", cp, inv + ["C04_SentInOrder"], "Bounded")
        ctx.tlc_check(sd, "HHQueue", "MCP.cfg", workers=8, timeout=900)
        cs = dict(consts_mc(), Dev=[], SegSizes={5})
        ctx.write_cfg(sd, "MCS.cfg", "SpecQ", cs, ["TypeOK", "C04_NoLossStrict", "C04_Order"], "Bounded")
        ctx.tlc_check(sd, "HHQueue", "MCS.cfg", workers=8, timeout=900)

    # 2. behaviours -> real queue
    gl = 14
    gc = {"MaxSegW": 5, "MaxQW": 14, "Words": {1, 2, 5}, "SegSizes": {3, 5}, "MaxBlocks": 8, "BufT": 2, "MaxTok": 2,
          "Apps": ["a1"], "Dev": ['"ackBeforeDurable"'], "MaxSegId": 99, "MaxSent": 99, "GenLen": gl}
    num = ctx.pick(120, 400)
    if ctx.replay:
        rp = json.load(open(ctx.replay))["replay"]
        inp = {"consts": rp.get("consts"), "behaviours": [rp.get("behaviour")]}
    else:
        ctx.write_cfg(sd, "GenQ.cfg", "GSpecQ", gc, extra="INVARIANT Emit")
        behs = ctx.tlc_generate(sd, "HHQueueGen", "GenQ.cfg", num=num, depth=gl + 1)[:num * ctx.pick(3, 1)]
        inp = {"consts": {k: v for k, v in gc.items() if isinstance(v, int)}, "behaviours": behs}
        # rollover-heavy behaviours: one block per segment, more than ten segments, close/reopen in between
        gr = dict(gc, MaxSegW=3, MaxQW=200, Words={1, 2}, SegSizes={3}, MaxBlocks=14, GenLen=22)
        ctx.write_cfg(sd, "GenR.cfg", "GSpecQ", gr, extra="INVARIANT Emit")
        nr = ctx.pick(25, 100)
        behs_r = ctx.tlc_generate(sd, "HHQueueGen", "GenR.cfg", num=nr, depth=23)[:nr]
        inp_r = {"consts": {k: v for k, v in gr.items() if isinstance(v, int)}, "behaviours": behs_r}
    def run_q(inp, label):
        p = ctx.write_json("behQ-%s.json" % label, inp)
        return ctx.go_test(PKG, FILES, "^TestVerifHHReplayQ$", env={"VERIF_IN": p}, timeout=ctx.pick(1200, 3600), label=label)
    def confirm(rp):
        recs, out, rc = run_q({"consts": rp["consts"], "behaviours": [rp["behaviour"]]}, "confirm")
        return any(r.get("k") == "mismatch" for r in recs)
    done = {}
    if not ctx.replay or json.load(open(ctx.replay))["replay"].get("test") == "Q":
        recs, out, rc = run_q(inp, "replay")
        done = ctx.process(recs, out, rc, "TestVerifHHReplayQ", confirm)
        if not ctx.replay:
            recs, out, rc = run_q(inp_r, "replay-rollover")
            done_r = ctx.process(recs, out, rc, "TestVerifHHReplayQ", confirm)
            for k in ("behaviours", "steps", "crash_images_recovered"):
                done[k] = done.get(k, 0) + done_r.get(k, 0)
    ctx.cov["traces_validated_against_impl"] += done.get("behaviours", 0)
    # 2b. processor level: behaviours of the queue under SendWrite, replayed on the real NodeProcessor; stress
    if not ctx.replay or json.load(open(ctx.replay))["replay"].get("test") == "P":
        gp = dict(gc, MaxSegW=4000, MaxQW=100000, Words={1}, SegSizes={4000})
        if ctx.replay:
            rp = json.load(open(ctx.replay))["replay"]
            inp_p = {"consts": rp["consts"], "behaviours": [rp["behaviour"]]}
        else:
            ctx.write_cfg(sd, "GenP.cfg", "GSpecP", gp, extra="INVARIANT Emit")
            nump = ctx.pick(100, 800)
            behs_p = ctx.tlc_generate(sd, "HHQueueGen", "GenP.cfg", num=nump, depth=gl + 1)[:nump * 2]
            inp_p = {"consts": {k: v for k, v in gp.items() if isinstance(v, int)}, "behaviours": behs_p}
        def run_p(inp, label):
            p = ctx.write_json("behP-%s.json" % label, inp)
            return ctx.go_test(PKG, FILES, "^TestVerifHHReplayP$", env={"VERIF_IN": p}, timeout=900, label=label)
        def confirm_p(rp):
            recs, out, rc = run_p({"consts": rp["consts"], "behaviours": [rp["behaviour"]]}, "confirmP")
            return any(r.get("k") == "mismatch" for r in recs)
        recs, out, rc = run_p(inp_p, "replayP")
        done_p = ctx.process(recs, out, rc, "TestVerifHHReplayP", confirm_p)
        ctx.cov["traces_validated_against_impl"] += done_p.get("behaviours", 0)
        if not ctx.replay:
            # the sender against the purge by age: every interleaving up to GenLen steps (BFS over hist), all replayed
            ga = dict(gp, GenLen=ctx.pick(6, 7))
            ctx.write_cfg(sd, "GenPA.cfg", "GSpecPA", ga, extra="INVARIANT Emit")
            behs_a = ctx.tlc_generate(sd, "HHQueueGen", "GenPA.cfg", exhaustive=True, workers=4, timeout=900)
            recs, out, rc = run_p({"consts": inp_p["consts"], "behaviours": behs_a}, "replayPA")
            done_a = ctx.process(recs, out, rc, "TestVerifHHReplayP", confirm_p)
            ctx.cov["sender_vs_purge_behaviours_exhaustive"] = done_a.get("behaviours", 0)
            ctx.cov["traces_validated_against_impl"] += done_a.get("behaviours", 0)
    if not ctx.replay:
        recs, out, rc = ctx.go_test(PKG, FILES, "^TestVerifHHProcStress$", env={"VERIF_ROUNDS": ctx.pick(20, 200)}, timeout=900, label="procstress")
        ctx.process(recs, out, rc, "TestVerifHHProcStress")
    # 2c. batch bisection in WriteShard (HHSplit): exhaustive on the model, sampled cases on the real code
    split(ctx, sd)
    # 2d. service level (HHService): lookup/append against the purge of idle processors
    if not ctx.replay:
        sc = {"Procs": ctx.pick({11, 21}, {11, 12, 21}), "Nodes": {1, 2}, "Writers": ["w1", "w2"], "MaxBlocks": 3, "WriteUnderLock": True}
        ctx.write_cfg(sd, "SvcMC.cfg", "Spec", sc, ["C04_ServiceNoLoss"])
        ctx.tlc_check(sd, "HHService", "SvcMC.cfg", workers=8, timeout=900)
        # negative control: the lock discipline found in the repository (append after the lock is released) loses a block
        ctx.write_cfg(sd, "SvcNeg.cfg", "Spec", dict(sc, WriteUnderLock=False), ["C04_ServiceNoLoss"])
        neg = ctx.tlc_check(sd, "HHService", "SvcNeg.cfg", workers=4, timeout=300, expect_ok=False)
        if neg["ok"]:
            raise Infra("negative control: HHService without write-under-lock does not violate C04_ServiceNoLoss")
        recs, out, rc = ctx.go_test(PKG, FILES, "^TestVerifHHServiceStress$", env={"VERIF_ROUNDS": ctx.pick(8, 40)}, timeout=3000, label="servicestress")
        ctx.process(recs, out, rc, "TestVerifHHServiceStress")
    # 3. real concurrent executions (buffered path, racing Close) -> HHQueueTrace
    tr = concurrent(ctx, sd)
    extra = {"replayed_behaviours": done.get("behaviours", 0), "replayed_steps": done.get("steps", 0),
             "crash_images_recovered": done.get("crash_images_recovered", 0)}
    extra.update(tr)
    return ctx.finish("model_checking", extra, assumptions=[
        "crash model: process death at a durable step (hooks in flush/advance/trim) plus any truncation of the un-synced bytes of the flush in progress",
        "hashicorp/raft, OS page cache and fsync semantics are trusted"])
