# C09 - snapshot and compaction never change what reads return.
# specs: specs/compaction (Compaction, CompactionGen); engine level: specs/tsmread (C09_ContentPreserved)
# harness: harness/tsm1/zz_verif_compact_test.go (+ zz_verif_read_test.go, zz_verif_read_values_test.go)
import json, os
from vcheck import Infra, log
import c02

PKG = "tsdb/engine/tsm1"
FILES = ["tsm1/zz_verif_compact_test.go", "tsm1/zz_verif_read_test.go", "tsm1/zz_verif_read_values_test.go"]
INV = ["TypeOK", "C09_ContentPreserved", "C09_BlocksSortedDisjointBounded", "C09_AbortLeavesInputs", "C09_InstallOnlyComplete"]


def mc(ctx, sd, name, **kw):
    c = {"NKeys": 1, "MaxT": 2, "Size": 2, "MaxFiles": 2, "TombFiles": {1}, "FromCache": False}
    c.update(kw)
    ctx.write_cfg(sd, name, "Spec", c, INV)
    return ctx.tlc_check(sd, "Compaction", name, workers=8, timeout=2400, coverage=(name == "M1.cfg" and not ctx.quick()))


def model_check(ctx, sd):
    """Exhaustive: EVERY layout of the bounded domain (all block partitions, all tombstone ranges) x every
    chunking the relation allows x every abort / error point."""
    r1 = mc(ctx, sd, "M1.cfg")                                        # 1 key, times 0..2, 2 files, tombstones in the older
    if r1.get("zero_coverage"):
        raise Infra("vacuity: actions never taken in Compaction/M1: %s" % r1["zero_coverage"])
    mc(ctx, sd, "M2.cfg", TombFiles={2})                              # ... in the newer file
    mc(ctx, sd, "M3.cfg", NKeys=2, MaxT=1, Size=1, TombFiles=set())   # 2 keys, 1-point blocks
    mc(ctx, sd, "M4.cfg", NKeys=2, MaxT=1, MaxFiles=3, FromCache=True)  # snapshot path: up to 3 writes
    if not ctx.quick():
        mc(ctx, sd, "M5.cfg", MaxT=3, TombFiles={1, 2})
        mc(ctx, sd, "M6.cfg", MaxFiles=3, TombFiles={2})
        mc(ctx, sd, "M7.cfg", NKeys=2, MaxT=1, TombFiles={1, 2})
        mc(ctx, sd, "M8.cfg", NKeys=2, MaxT=2, MaxFiles=4, FromCache=True)


REQUIRED = ["class:single", "class:disjoint", "class:interleaved", "class:nested", "class:identical", "class:cache",
            "tomb:none", "tomb:partial", "tomb:full", "fault:none", "fault:abort", "fault:readerror", "allfull",
            "dup-timestamps", "files:1", "files:2", "files:3", "files:4", "mode:fast", "mode:full", "mode:optimize", "mode:snapshot"]


def run(ctx):
    sd = ctx.spec_dir("compaction")
    if not ctx.replay and not os.environ.get("VERIF_SKIP_MC"):   # (VERIF_SKIP_MC: mutation self-tests only)
        model_check(ctx, sd)

    rp = json.load(open(ctx.replay))["replay"] if ctx.replay else None
    extra = {}

    # ---- layouts -> real Compactor
    if rp is None or rp.get("test") == "compact":
        if rp is None:
            num = ctx.pick(150, 1500)
            gc = {"NKeys": 2, "MaxT": 5, "Size": 2, "MaxFiles": 4, "TombFiles": {1, 2, 3, 4}, "FromCache": False}
            ctx.write_cfg(sd, "Gen.cfg", "GSpec", gc, extra="INVARIANT Emit")
            behs = ctx.tlc_generate(sd, "CompactionGen", "Gen.cfg", num=num, depth=14, timeout=1800)[:num]
            ctx.write_cfg(sd, "GenC.cfg", "GSpec", dict(gc, FromCache=True, MaxFiles=8), extra="INVARIANT Emit")
            behs += ctx.tlc_generate(sd, "CompactionGen", "GenC.cfg", num=num // 4, depth=14, seed=ctx.seed + 77, timeout=900)[:num // 4]
            inp = {"maxt": 5, "behaviours": behs, "variants": [], "scaled": ctx.pick(0, 36)}
        else:
            inp = {"maxt": rp["maxt"], "behaviours": [rp["behaviour"]], "variants": [rp["variant"]], "scaled": 0}

        def run_c(inp, label):
            p = ctx.write_json("behC-%s.json" % label, inp)
            return ctx.go_test(PKG, FILES, "^TestVerifCompactLayouts$", env={"VERIF_IN": p}, timeout=2400, label=label)

        def confirm_c(r):
            recs, out, rc = run_c({"maxt": r["maxt"], "behaviours": [r["behaviour"]], "variants": [r["variant"]], "scaled": 0}, "confirm")
            return any(x.get("k") == "mismatch" for x in recs)

        recs, out, rc = run_c(inp, "layouts")
        done = ctx.process(recs, out, rc, "TestVerifCompactLayouts", confirm_c)
        st = done.get("stats", {})
        ctx.cov["traces_validated_against_impl"] += done.get("behaviours", 0)
        if rp is None:
            missing = [k for k in REQUIRED if st.get(k, 0) == 0]
            if missing:
                raise Infra("vacuity: the generated layouts never contained %s" % missing)
        extra.update({"layout_scenarios": done.get("behaviours", 0), "layout_stats": st})

    # ---- engine level: C09_ContentPreserved of TSMRead on a real engine (reads after every physical action)
    if rp is None or rp.get("test") == "read":
        sdr = ctx.spec_dir("tsmread")
        if rp is None:
            num = ctx.pick(50, 600)
            gc = c02.gen_consts(16)
            ctx.write_cfg(sdr, "Gen.cfg", "GSpec", gc, extra="INVARIANT Emit")
            behs = ctx.tlc_generate(sdr, "TSMReadGen", "Gen.cfg", num=num, depth=17, seed=ctx.seed + 9000, timeout=900)[:num]
            inp = {"maxt": gc["MaxT"], "keys": ["k1", "k2"], "behaviours": behs, "variants": [], "scaled": ctx.pick(0, 12)}
        else:
            inp = {"maxt": rp["maxt"], "keys": rp["keys"], "behaviours": [rp["behaviour"]], "variants": [rp["variant"]], "scaled": 0}

        def run_r(inp, label):
            p = ctx.write_json("behR-%s.json" % label, inp)
            return ctx.go_test(PKG, FILES, "^TestVerifReadReplay$", env={"VERIF_IN": p}, timeout=2400, label=label)

        def confirm_r(r):
            recs, out, rc = run_r({"maxt": r["maxt"], "keys": r["keys"], "behaviours": [r["behaviour"]], "variants": [r["variant"]], "scaled": 0}, "confirm-r")
            return any(x.get("k") == "mismatch" for x in recs)

        recs, out, rc = run_r(inp, "engine")
        done = ctx.process(recs, out, rc, "TestVerifReadReplay", confirm_r)
        ctx.cov["traces_validated_against_impl"] += done.get("behaviours", 0)
        acts = done.get("actions", {})
        extra.update({"engine_behaviours": done.get("behaviours", 0), "engine_steps": done.get("steps", 0),
                      "engine_reads_compared": done.get("reads", 0),
                      "engine_physical_actions": {k: acts.get(k, 0) for k in ("snapbegin", "snapinstall", "snapfail", "compact", "compactabort", "reopen")}})

    return ctx.finish("model_checking", extra, assumptions=[
        "the merge is specified relationally (content, order, disjointness, block bound); the chunking chosen by the implementation is checked against the relation, not predicted",
        "abort points: before the call, while readers are collected (FileStore seam), at the k-th block of the merge (iterator wrapper through Compactor.writeNewFiles), at the flush of the finished file (RateLimit seam); reader errors = an undecodable block (checksums are not verified by the reader)",
        "the 2 GB file split (errMaxFileExceeded) is not exercised; the engine's quarantine of a corrupt input (rename to .bad) is outside the Compactor-level scenarios",
        "TLC, the Go runtime and the OS file semantics of the sandbox are trusted"])
