// X04d - the data node announcer (services/announcer/service.go) against fake meta servers (httptest).
// What the code guarantees, checked on every request received:
//   D1 the announcement is a pure function of the node's configuration: TCPAddr/HTTPAddr/HTTPScheme of the Server,
//      Version of the service, NodeType "data", Status "joined", zero Time, no Context; it carries NO node id
//      (nothing can go stale when the node is removed from the cluster: the meta side keys by TCPAddr);
//   D2 every gossip period the meta servers are tried in list order until the first one that ANSWERS (any HTTP
//      status); unreachable ones are skipped; later ones are not contacted in that round;
//   D3 it is periodic, not acknowledged-once: it keeps announcing, fails over when the answering server goes away,
//      sends nothing while the meta-server list is empty and starts when it becomes non-empty;
//   D4 no request after Close returned.
package announcer

import (
	"encoding/json"
	"fmt"
	"net"
	"net/http"
	"net/http/httptest"
	"os"
	"strings"
	"sync"
	"testing"
	"time"

	"github.com/influxdata/influxdb/pkg/verifx/vtrace"
	"github.com/influxdata/influxdb/services/meta"
	"github.com/influxdata/influxdb/toml"
)

type vqSrv struct{ tcp, http, scheme string }

func (s *vqSrv) HTTPAddr() string   { return s.http }
func (s *vqSrv) HTTPScheme() string { return s.scheme }
func (s *vqSrv) TCPAddr() string    { return s.tcp }

type vqMC struct {
	mu sync.Mutex
	a  []string
}

func (m *vqMC) MetaServers() []string { m.mu.Lock(); defer m.mu.Unlock(); return append([]string(nil), m.a...) }
func (m *vqMC) set(a ...string)       { m.mu.Lock(); m.a = a; m.mu.Unlock() }

type vqReq struct {
	srv  string
	path string
	ct   string
	body []byte
}

func vqMeta(name string, status int, ch chan vqReq) *httptest.Server {
	return httptest.NewServer(http.HandlerFunc(func(w http.ResponseWriter, r *http.Request) {
		var b []byte
		buf := make([]byte, 4096)
		for {
			n, err := r.Body.Read(buf)
			b = append(b, buf[:n]...)
			if err != nil {
				break
			}
		}
		ch <- vqReq{srv: name, path: r.Method + " " + r.URL.Path, ct: r.Header.Get("Content-Type"), body: b}
		w.WriteHeader(status)
	}))
}

func vqHost(s *httptest.Server) string { return strings.TrimPrefix(s.URL, "http://") }

func TestVerifAnnouncer(t *testing.T) {
	if os.Getenv("VERIF_OUT") == "" {
		t.Skip("no VERIF_OUT")
	}
	infra := func(f string, a ...interface{}) {
		msg := fmt.Sprintf(f, a...)
		vtrace.Out(map[string]interface{}{"k": "infra", "detail": msg})
		t.Fatal(msg)
	}
	failed := false
	fail := func(sig, detail string) {
		if !failed {
			vtrace.Mismatch(sig, detail, map[string]interface{}{"test": "TestVerifAnnouncer"})
		}
		failed = true
		t.Fail()
	}
	ch := make(chan vqReq, 1024)
	a, b, e5 := vqMeta("a", 200, ch), vqMeta("b", 204, ch), vqMeta("e500", 500, ch)
	defer b.Close()
	defer e5.Close()
	dl, _ := net.Listen("tcp", "127.0.0.1:0")
	dead := dl.Addr().String()
	dl.Close() // connection refused from now on

	cfg := meta.NewConfig()
	cfg.GossipFrequency = toml.Duration(3 * time.Millisecond)
	srv := &vqSrv{tcp: "10.0.0.7:8088", http: "10.0.0.7:8086", scheme: "https"}
	mc := &vqMC{}
	s := NewService(cfg)
	s.Version = "1.8.10-c1.2.3"
	s.Server = srv
	s.MetaClient = mc
	if err := s.Open(); err != nil {
		infra("%v", err)
	}
	if err := s.Open(); err != nil {
		infra("%v", err)
	}
	checked := 0
	check := func(r vqReq, want string) {
		checked++
		if r.srv != want {
			fail("x04d:wrong-server", fmt.Sprintf("request at %s, expected only %s", r.srv, want))
		}
		if r.path != "POST /announce" || r.ct != "application/json" {
			fail("x04d:request", r.path+" "+r.ct)
		}
		var raw map[string]interface{}
		var an meta.Announcement
		if err := json.Unmarshal(r.body, &an); err != nil {
			fail("x04d:body", err.Error())
			return
		}
		json.Unmarshal(r.body, &raw)
		if an.TCPAddr != srv.tcp || an.HTTPAddr != srv.http || an.HTTPScheme != srv.scheme || an.Version != s.Version ||
			an.NodeType != meta.NodeTypeData || an.Status != meta.NodeStatusJoined || !an.Time.IsZero() || an.Context != nil {
			fail("x04d:not-the-configuration", string(r.body))
		}
		for k := range raw {
			lk := strings.ToLower(k)
			if lk == "id" || lk == "nodeid" || lk == "node_id" {
				fail("x04d:carries-node-id", string(r.body))
			}
		}
	}
	next := func(d time.Duration) (vqReq, bool) {
		select {
		case r := <-ch:
			return r, true
		case <-time.After(d):
			return vqReq{}, false
		}
	}
	// D3: empty list -> nothing (bounded wait: 20 periods), then the list appears
	if r, ok := next(60 * time.Millisecond); ok {
		fail("x04d:announced-without-meta-servers", r.srv)
	}
	// D2: unreachable first, then a, then b: only a is contacted
	mc.set(dead, vqHost(a), vqHost(b))
	for i := 0; i < 5; i++ {
		r, ok := next(60 * time.Second)
		if !ok {
			infra("watchdog: no announcement")
		}
		check(r, "a")
	}
	// D3: a goes away -> b takes over (drain requests already received by a)
	a.Close()
	sawB := 0
	for i := 0; i < 2000 && sawB < 5; i++ {
		r, ok := next(60 * time.Second)
		if !ok {
			fail("x04d:no-failover", "no announcement after the answering meta server went away")
			break
		}
		if r.srv == "b" {
			sawB++
			check(r, "b")
		} else if sawB > 0 {
			check(r, "b")
		}
	}
	// D2 (as found): a server answering 500 counts as reached; b is not contacted any more
	mc.set(vqHost(e5), vqHost(b))
	saw5, lateB := 0, 0
	for i := 0; i < 2000 && saw5 < 5; i++ {
		r, ok := next(60 * time.Second)
		if !ok {
			infra("watchdog: no announcement to e500")
		}
		if r.srv == "e500" {
			saw5++
			check(r, "e500")
		} else if saw5 > 0 {
			lateB++
		}
	}
	// D4
	if err := s.Close(); err != nil {
		infra("%v", err)
	}
	for len(ch) > 0 {
		<-ch
	}
	if r, ok := next(60 * time.Millisecond); ok {
		fail("x04d:announce-after-close", r.srv)
	}
	vtrace.Done("TestVerifAnnouncer", map[string]interface{}{"announcements_checked": checked,
		"http_500_counts_as_delivered": lateB == 0, "requests_to_b_while_e500_listed_first": lateB})
}
