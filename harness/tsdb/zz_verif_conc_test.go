package tsdb_test

// C19 (shard/store part): concurrent writers, readers, cache snapshots, full compactions and deletes of
// other measurements on a real tsdb.Store shard.  Events are recorded for specs/visibility/VisibilityTrace.tla
// and a Go-side oracle checks the same clause at every read.  A second driver races writers of different
// types on a new field.

import (
	"context"
	"encoding/json"
	"fmt"
	"os"
	"path/filepath"
	"strings"
	"sync"
	"sync/atomic"
	"testing"
	"time"

	"github.com/influxdata/influxdb/models"
	"github.com/influxdata/influxdb/pkg/verifx/vtrace"
	"github.com/influxdata/influxdb/query"
	"github.com/influxdata/influxdb/tsdb"
	"github.com/influxdata/influxdb/tsdb/engine/tsm1"
	"github.com/influxdata/influxql"
)

type vcRec struct {
	mu  sync.Mutex
	evs []map[string]interface{}
}

func (r *vcRec) add(e map[string]interface{}) {
	r.mu.Lock()
	r.evs = append(r.evs, e)
	r.mu.Unlock()
}

// vcReadInts reads every point of measurement m, field v (integer), ascending.
func vcReadInts(sh *tsdb.Shard, m string) (times []int64, vals []int64, err error) {
	itr, err := sh.CreateIterator(context.Background(), &influxql.Measurement{Name: m}, query.IteratorOptions{
		Expr:      influxql.MustParseExpr(`v`),
		Ascending: true,
		StartTime: influxql.MinTime,
		EndTime:   influxql.MaxTime,
	})
	if err != nil || itr == nil {
		return nil, nil, err
	}
	defer itr.Close()
	iitr, ok := itr.(query.IntegerIterator)
	if !ok {
		return nil, nil, fmt.Errorf("iterator for %s.v is %T, not integer", m, itr)
	}
	for {
		p, err := iitr.Next()
		if err != nil {
			return times, vals, err
		}
		if p == nil {
			return times, vals, nil
		}
		times = append(times, p.Time)
		vals = append(vals, p.Value)
	}
}

func TestVerifConcVisibility(t *testing.T) {
	rounds := vtrace.EnvInt("VERIF_ROUNDS", 6)
	outDir := os.Getenv("VERIF_TRACE_DIR")
	var totalReads int64
	totalWrites := 0
	for r := 0; r < rounds; r++ {
		index := []string{"inmem", "tsi1"}[r%2]
		s := MustOpenStore(index)
		if err := s.CreateShard("db0", "rp0", 1, true); err != nil {
			t.Fatal(err)
		}
		sh := s.Shard(1)
		nW, perW, nR := 3, vtrace.EnvInt("VERIF_PERWRITER", 60), 2
		rec := &vcRec{}
		rec.add(map[string]interface{}{"e": "reset"})
		started := make([]int64, nW)
		acked := make([]int64, nW)
		var stop int32
		var wg, bg sync.WaitGroup
		var problem atomic.Value
		fail := func(sig, detail string) { problem.CompareAndSwap(nil, sig+"|"+detail) }

		// pre-populate "other" measurements that a deleter removes and re-creates during the run
		for k := 0; k < 3; k++ {
			s.MustWriteToShardString(1, fmt.Sprintf("other%d,host=a v=1i 1", k), fmt.Sprintf("other%d,host=b v=2i 2", k))
		}

		for w := 0; w < nW; w++ {
			wg.Add(1)
			go func(w int) {
				defer wg.Done()
				name := fmt.Sprintf("s%d", w+1)
				for k := int64(1); k <= int64(perW); k++ {
					atomic.StoreInt64(&started[w], k)
					rec.add(map[string]interface{}{"e": "write.start", "s": name, "k": k})
					pt := models.MustNewPoint(name, models.NewTags(map[string]string{"host": "h"}), models.Fields{"v": k}, time.Unix(0, k))
					if err := sh.WritePoints([]models.Point{pt}); err != nil {
						fail("conc:write:error", fmt.Sprintf("write %s/%d: %v", name, k, err))
						return
					}
					atomic.StoreInt64(&acked[w], k)
					rec.add(map[string]interface{}{"e": "write.ack", "s": name, "k": k})
				}
			}(w)
		}
		for rd := 0; rd < nR; rd++ {
			bg.Add(1)
			go func(rd int) {
				defer bg.Done()
				rname := fmt.Sprintf("r%d", rd+1)
				for i := 0; atomic.LoadInt32(&stop) == 0; i++ {
					w := (i + rd) % nW
					name := fmt.Sprintf("s%d", w+1)
					lo := atomic.LoadInt64(&acked[w])
					rec.add(map[string]interface{}{"e": "read.start", "r": rname, "s": name})
					times, vals, err := vcReadInts(sh, name)
					hi := atomic.LoadInt64(&started[w])
					contiguous := err == nil
					for j := range times {
						if times[j] != int64(j+1) || vals[j] != int64(j+1) {
							contiguous = false
						}
					}
					m := int64(len(times))
					rec.add(map[string]interface{}{"e": "read.end", "r": rname, "s": name, "m": m, "contiguous": contiguous})
					atomic.AddInt64(&totalReads, 1)
					if err != nil {
						fail("conc:read:error", fmt.Sprintf("read %s: %v", name, err))
					} else if !contiguous {
						fail("conc:read:gap", fmt.Sprintf("read of %s returned times %v values %v: not the points 1..m as written", name, times, vals))
					} else if m < lo {
						fail("conc:read:missing-acked", fmt.Sprintf("read of %s returned %d points but %d writes had been acknowledged before the read began", name, m, lo))
					} else if m > hi {
						fail("conc:read:phantom", fmt.Sprintf("read of %s returned %d points but only %d writes had started", name, m, hi))
					}
				}
			}(rd)
		}
		// physical activity: snapshots, full compactions, deletes of other measurements
		bg.Add(1)
		go func() {
			defer bg.Done()
			for i := 0; atomic.LoadInt32(&stop) == 0; i++ {
				e, err := sh.Engine()
				if err != nil {
					return
				}
				eng := e.(*tsm1.Engine)
				switch i % 4 {
				case 0, 2:
					eng.WriteSnapshot()
				case 1:
					eng.ScheduleFullCompaction()
				case 3:
					k := (i / 4) % 3
					if err := s.DeleteMeasurement("db0", fmt.Sprintf("other%d", k)); err != nil {
						fail("conc:delete:error", err.Error())
					}
					pt := models.MustNewPoint(fmt.Sprintf("other%d", k), models.NewTags(map[string]string{"host": "a"}), models.Fields{"v": int64(i)}, time.Unix(0, int64(i)))
					sh.WritePoints([]models.Point{pt})
				}
				time.Sleep(time.Millisecond) // pacing only; nothing depends on it
			}
		}()
		wg.Wait()
		atomic.StoreInt32(&stop, 1)
		bg.Wait()
		// after the load stops: everything acknowledged is there, also after a restart
		check := func(when string) {
			for w := 0; w < nW; w++ {
				name := fmt.Sprintf("s%d", w+1)
				times, _, err := vcReadInts(s.Shard(1), name)
				if err != nil || int64(len(times)) != atomic.LoadInt64(&acked[w]) {
					fail("conc:final:"+when, fmt.Sprintf("%s: %s has %d points (err=%v), %d writes were acknowledged", when, name, len(times), err, acked[w]))
				}
			}
		}
		check("after-load")
		if err := s.Reopen(); err != nil {
			fail("conc:reopen:error", err.Error())
		} else {
			check("after-reopen")
		}
		s.Close()
		totalWrites += nW * perW
		if p := problem.Load(); p != nil {
			parts := strings.SplitN(p.(string), "|", 2)
			vtrace.Mismatch(parts[0], parts[1], map[string]interface{}{"test": "CONC", "round": r, "index": index})
			continue
		}
		f, err := os.Create(filepath.Join(outDir, fmt.Sprintf("vis-%03d.ndjson", r)))
		if err != nil {
			t.Fatal(err)
		}
		for _, e := range rec.evs {
			b, _ := json.Marshal(e)
			f.Write(append(b, '\n'))
		}
		f.Close()
		vtrace.Out(map[string]interface{}{"k": "trace", "file": f.Name(), "events": len(rec.evs)})
	}
	vtrace.Done("TestVerifConcVisibility", map[string]interface{}{"rounds": rounds, "reads": totalReads, "writes": totalWrites})
}

func vcDrain(itr query.Iterator, n *int) {
	for {
		var done bool
		switch it := itr.(type) {
		case query.FloatIterator:
			p, _ := it.Next()
			done = p == nil
		case query.IntegerIterator:
			p, _ := it.Next()
			done = p == nil
		case query.StringIterator:
			p, _ := it.Next()
			done = p == nil
		case query.BooleanIterator:
			p, _ := it.Next()
			done = p == nil
		default:
			done = true
		}
		if done {
			return
		}
		*n++
	}
}

// Conflicting concurrent writes of different types to a NEW field: exactly one type wins, every
// acknowledged write of that type is readable, nothing of another type is stored.
func TestVerifConcFieldTypes(t *testing.T) {
	rounds := vtrace.EnvInt("VERIF_ROUNDS", 20)
	for r := 0; r < rounds; r++ {
		s := MustOpenStore([]string{"inmem", "tsi1"}[r%2])
		if err := s.CreateShard("db0", "rp0", 1, true); err != nil {
			t.Fatal(err)
		}
		sh := s.Shard(1)
		kinds := []string{"float", "integer", "string", "boolean"}
		val := func(kind string, k int) interface{} {
			switch kind {
			case "float":
				return float64(k) + 0.5
			case "integer":
				return int64(k)
			case "string":
				return fmt.Sprintf("s%d", k)
			}
			return k%2 == 0
		}
		okCount := make([]int64, len(kinds))
		start := make(chan struct{})
		var wg sync.WaitGroup
		for ki, kind := range kinds {
			wg.Add(1)
			go func(ki int, kind string) {
				defer wg.Done()
				<-start
				for k := 1; k <= 15; k++ {
					pt := models.MustNewPoint("m", models.NewTags(map[string]string{"host": "h"}), models.Fields{"f": val(kind, k)}, time.Unix(0, int64(ki*1000+k)))
					if err := sh.WritePoints([]models.Point{pt}); err == nil {
						atomic.AddInt64(&okCount[ki], 1)
					}
				}
			}(ki, kind)
		}
		close(start)
		wg.Wait()
		winners := []string{}
		for ki, kind := range kinds {
			if okCount[ki] > 0 {
				winners = append(winners, fmt.Sprintf("%s=%d", kind, okCount[ki]))
			}
		}
		rep := map[string]interface{}{"test": "FIELDTYPES", "round": r}
		if len(winners) != 1 {
			vtrace.Mismatch("conc:fieldtype:winners", fmt.Sprintf("round %d: writes of more than one type (or of none) were acknowledged for the new field: %v", r, winners), rep)
		} else {
			itr, err := sh.CreateIterator(context.Background(), &influxql.Measurement{Name: "m"}, query.IteratorOptions{
				Expr: influxql.MustParseExpr(`f`), Ascending: true, StartTime: influxql.MinTime, EndTime: influxql.MaxTime})
			n := 0
			if err == nil && itr != nil {
				func() {
					// a value of another type stored in the field makes the cursor panic
					defer func() {
						if rec := recover(); rec != nil {
							err = fmt.Errorf("panic while reading the field back: %v", rec)
						}
					}()
					vcDrain(itr, &n)
				}()
				itr.Close()
			}
			var want int64
			for _, c := range okCount {
				want += c
			}
			if err != nil || int64(n) != want {
				vtrace.Mismatch("conc:fieldtype:readback", fmt.Sprintf("round %d: %d points readable (err=%v) but %d writes were acknowledged (%v)", r, n, err, want, winners), rep)
			}
		}
		s.Close()
	}
	vtrace.Done("TestVerifConcFieldTypes", map[string]interface{}{"rounds": rounds})
}

// Concurrent creators of DIFFERENT new fields of one measurement (and of new measurements): every
// acknowledged write must be readable afterwards - the field registry is shared state that each writer
// updates by copy-on-write (C19: "every acknowledged write stays readable").
func TestVerifConcNewFields(t *testing.T) {
	rounds := vtrace.EnvInt("VERIF_ROUNDS", 60)
	writes := 0
	for r := 0; r < rounds; r++ {
		s := MustOpenStore([]string{"inmem", "tsi1"}[r%2])
		if err := s.CreateShard("db0", "rp0", 1, true); err != nil {
			t.Fatal(err)
		}
		sh := s.Shard(1)
		// the measurement exists with one field before the race
		s.MustWriteToShardString(1, "m,host=h base=1i 1")
		nW := 8
		ok := make([]int32, nW)
		var wg sync.WaitGroup
		start := make(chan struct{})
		for w := 0; w < nW; w++ {
			wg.Add(1)
			go func(w int) {
				defer wg.Done()
				<-start
				pt := models.MustNewPoint("m", models.NewTags(map[string]string{"host": "h"}), models.Fields{fmt.Sprintf("f%d", w): int64(w + 1)}, time.Unix(0, int64(100+w)))
				if err := sh.WritePoints([]models.Point{pt}); err == nil {
					atomic.StoreInt32(&ok[w], 1)
				}
			}(w)
		}
		close(start)
		wg.Wait()
		rep := map[string]interface{}{"test": "NEWFIELDS", "round": r}
		for w := 0; w < nW; w++ {
			if atomic.LoadInt32(&ok[w]) == 0 {
				continue
			}
			writes++
			itr, err := sh.CreateIterator(context.Background(), &influxql.Measurement{Name: "m"}, query.IteratorOptions{
				Expr: influxql.MustParseExpr(fmt.Sprintf("f%d", w)), Ascending: true, StartTime: influxql.MinTime, EndTime: influxql.MaxTime})
			n := 0
			if err == nil && itr != nil {
				func() {
					defer func() {
						if rec := recover(); rec != nil {
							err = fmt.Errorf("panic: %v", rec)
						}
					}()
					vcDrain(itr, &n)
				}()
				itr.Close()
			}
			if err != nil || n != 1 {
				vtrace.Mismatch("conc:newfields:acked-unreadable", fmt.Sprintf("round %d: the write of m.f%d was acknowledged but a read of that field returns %d points (err=%v) - %d concurrent writers each created a different new field of the measurement", r, w, n, err, nW), rep)
				break
			}
		}
		s.Close()
	}
	vtrace.Done("TestVerifConcNewFields", map[string]interface{}{"rounds": rounds, "writes": writes})
}

// A delete of ONE series of a measurement racing writers that create OTHER series of the same measurement
// ("deletes of other series"): when the deleted series was the measurement's only one, the engine decides that
// the measurement is empty and drops it from the index - that decision races the creation of the sibling series.
// Every acknowledged sibling write must stay readable (and listed), also after a reopen.
func TestVerifConcSiblingSeries(t *testing.T) {
	rounds := vtrace.EnvInt("VERIF_ROUNDS", 8)
	perRound := vtrace.EnvInt("VERIF_PERROUND", 40)
	writes := 0
	for r := 0; r < rounds; r++ {
		index := []string{"inmem", "tsi1"}[r%2]
		s := MustOpenStore(index)
		if err := s.CreateShard("db0", "rp0", 1, true); err != nil {
			t.Fatal(err)
		}
		const nW = 3
		type ack struct {
			m  string
			ok [nW]bool
		}
		var acks []ack
		rep := map[string]interface{}{"test": "SIBLING", "round": r, "index": index}
		bad := false
		verify := func(when string) {
			for _, a := range acks {
				times, _, err := vcReadInts(s.Shard(1), a.m)
				got := map[int64]bool{}
				for _, x := range times {
					got[x] = true
				}
				for w := 0; w < nW; w++ {
					if a.ok[w] && (err != nil || !got[int64(100+w)]) {
						vtrace.Mismatch("conc:sibling:acked-unreadable:"+when, fmt.Sprintf("round %d (%s) %s: the write of series %s,host=new%d was acknowledged while the measurement's only other series was being deleted, but a read of the measurement returns times %v (err=%v)", r, index, when, a.m, w, times, err), rep)
						bad = true
						return
					}
				}
			}
		}
		for i := 0; i < perRound && !bad; i++ {
			m := fmt.Sprintf("sib%d", i)
			s.MustWriteToShardString(1, fmt.Sprintf("%s,host=old v=1i 1", m))
			var wg sync.WaitGroup
			start := make(chan struct{})
			a := ack{m: m}
			var okw [nW]int32
			var delErr atomic.Value
			wg.Add(1)
			go func() {
				defer wg.Done()
				<-start
				if err := s.DeleteSeries("db0", []influxql.Source{&influxql.Measurement{Name: m}}, influxql.MustParseExpr(`host = 'old'`)); err != nil {
					delErr.Store(err.Error())
				}
			}()
			for w := 0; w < nW; w++ {
				wg.Add(1)
				go func(w int) {
					defer wg.Done()
					<-start
					for spin := 0; spin < w*50; spin++ { // stagger the writers a little: no correctness role
						_ = spin
					}
					pt := models.MustNewPoint(m, models.NewTags(map[string]string{"host": fmt.Sprintf("new%d", w)}), models.Fields{"v": int64(w + 1)}, time.Unix(0, int64(100+w)))
					if err := s.WriteToShard(1, []models.Point{pt}); err == nil {
						atomic.StoreInt32(&okw[w], 1)
					}
				}(w)
			}
			close(start)
			wg.Wait()
			if e := delErr.Load(); e != nil {
				vtrace.Mismatch("conc:sibling:delete-error", fmt.Sprintf("round %d (%s): DeleteSeries(%s, host='old') failed: %v", r, index, m, e), rep)
				bad = true
				break
			}
			for w := 0; w < nW; w++ {
				a.ok[w] = atomic.LoadInt32(&okw[w]) == 1
				if a.ok[w] {
					writes++
				}
			}
			acks = append(acks, a)
			if i%8 == 7 {
				verify("after-race")
			}
		}
		if !bad {
			verify("after-race")
		}
		if !bad {
			if err := s.Reopen(); err != nil {
				vtrace.Mismatch("conc:sibling:reopen-error", err.Error(), rep)
			} else {
				verify("after-reopen")
			}
		}
		s.Close()
	}
	vtrace.Done("TestVerifConcSiblingSeries", map[string]interface{}{"rounds": rounds, "writes": writes})
}
