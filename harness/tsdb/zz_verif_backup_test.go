package tsdb_test

// C18 - backup, restore and shard copy reproduce the shard exactly (store level).
//
// Replays the scenarios printed by specs/copyshard/CopyShardGen.tla on two real tsdb.Store instances:
// the source shard is driven through the modelled actions (writes, cache snapshots - also one left in
// flight -, DeleteSeriesRange leaving tombstones, full compaction); Store.BackupShard runs in a goroutine
// whose io.Writer stops in front of every tar entry, so that racing writes fall at the modelled points;
// the stream (complete, or truncated at the modelled cut) goes into Store.RestoreShard - the call the
// copy-shard path uses - or Store.ImportShard of a second store.  After every step the source is read
// through Shard.CreateIterator and compared with the model; after a restore that reports success the
// destination must equal one of the source states of the backup window (property, not the deviating
// prediction of the model); a restore that fails must leave the destination as it was.
//
// TestVerifBackupRace: the same oracle for backups taken while a writer runs freely (no gates): the copy
// must be the base content plus a prefix of the writer's acknowledged batches.

import (
	"bytes"
	"fmt"
	"os"
	"path/filepath"
	"sort"
	"sync"
	"sync/atomic"
	"testing"
	"time"

	"github.com/influxdata/influxdb/models"
	"github.com/influxdata/influxdb/pkg/verifx/c18kit"
	"github.com/influxdata/influxdb/pkg/verifx/vtrace"
)

type c18Input struct {
	Behaviours [][]c18kit.Step `json:"behaviours"`
	Indexes    []string        `json:"indexes"`
	Workers    int             `json:"workers"`
	MaxSigs    int             `json:"max_sigs"`
	DestPlan   bool            `json:"dest_default_planner"`
	RaceRounds int             `json:"race_rounds"`
}

type c18Counters struct {
	mu                                                          sync.Mutex
	behaviours, steps, restores, restoresOK, restoresFailed     int
	judged, notJudged, held, backups, raceWrites, cuts, reopens int
	srcReopens, snapFails, snapFailsProceeded                   int
	classes                                                     map[string]int
	sigs                                                        map[string]int
	infra                                                       []string
}

func (c *c18Counters) add(f func()) { c.mu.Lock(); f(); c.mu.Unlock() }

const c18Shard = uint64(1)

type c18Run struct {
	in    *c18Input
	c     *c18Counters
	b     []c18kit.Step
	bi    int
	index string

	src, dst  *c18kit.Node
	gate      *c18kit.TarGate
	bkDone    chan error
	stream    []byte
	cls       string
	cut       string
	tombShip  bool
	inflight  bool
	snapFail  string // the backup's cache snapshot was made to fail this way and the backup went on regardless
	layoutOff bool   // the real file layout differs from the model's (note): streams are not compared entry by entry
	failed    bool   // a mismatch was reported: the rest of the scenario is not judged
	stopped   bool
}

func (r *c18Run) replayObj(step int, sig string) map[string]interface{} {
	return map[string]interface{}{"test": "store", "behaviour": r.b, "index": r.index, "step": step, "sig": sig, "class": r.cls}
}

func (r *c18Run) mismatch(sig, detail string, step int) {
	r.failed = true
	r.c.add(func() { r.c.sigs[sig]++ })
	r.c.mu.Lock()
	n := r.c.sigs[sig]
	r.c.mu.Unlock()
	if n > r.in.MaxSigs {
		return
	}
	vtrace.Mismatch(sig, fmt.Sprintf("behaviour %d step %d (%s) index %s class %s: %s", r.bi, step, r.b[step].A, r.index, r.cls, detail), r.replayObj(step, sig))
}

func (r *c18Run) infra(step int, format string, a ...interface{}) {
	r.stopped = true
	msg := fmt.Sprintf("behaviour %d step %d (%s) index %s: ", r.bi, step, r.b[step].A, r.index) + fmt.Sprintf(format, a...)
	r.c.add(func() { r.c.infra = append(r.c.infra, msg) })
}

// waitGate waits until the backup goroutine stands in front of the next entry or has returned.
func (r *c18Run) waitGate(step int) (entries int, finished bool, bkErr error, wd error) {
	select {
	case n := <-r.gate.Arrived():
		return n, false, nil, nil
	case err := <-r.bkDone:
		r.bkDone = nil
		return 0, true, err, nil
	case <-time.After(120 * time.Second):
		return 0, false, nil, fmt.Errorf("watchdog: backup neither reached an entry boundary nor returned")
	}
}

func (r *c18Run) finishBackup(step int, standing bool) (error, bool) {
	if r.bkDone == nil {
		return nil, true
	}
	r.gate.Free(standing)
	select {
	case err := <-r.bkDone:
		r.bkDone = nil
		return err, true
	case <-time.After(120 * time.Second):
		return nil, false
	}
}

func c18UnitsOf(n *c18kit.Node, ents []c18kit.TarEntry) []string {
	var out []string
	for _, e := range ents {
		if u, ok := c18kit.UnitOf(e.Name); ok {
			g, s := n.ModelName(u.G, u.S)
			out = append(out, fmt.Sprintf("%s:%d-%d", u.K, g, s))
		} else {
			out = append(out, "other:"+e.Name)
		}
	}
	return out
}

func c18ModelUnits(us []c18kit.UnitSt) []string {
	var out []string
	for _, u := range us {
		out = append(out, fmt.Sprintf("%s:%d-%d", u.K, u.G, u.S))
	}
	return out
}

func c18Same(a, b []string) bool {
	if len(a) != len(b) {
		return false
	}
	for i := range a {
		if a[i] != b[i] {
			return false
		}
	}
	return true
}

// checkSource compares the source's reads (and, after steps that change files, its layout) with the model.
func (r *c18Run) checkSource(i int, layout bool) bool {
	st := &r.b[i].St
	if !st.HasShard {
		return true
	}
	got, err := r.src.Read(c18Shard)
	if err != nil {
		r.mismatch("source:"+r.b[i].A+":readerror", err.Error(), i)
		return false
	}
	want := c18kit.ModelContent(st.Src)
	if !got.Equal(want) {
		sig := "source:" + r.b[i].A + ":content"
		if st.Pc != "prep" {
			sig = "source-changed:" + r.b[i].A
		}
		r.mismatch(sig, fmt.Sprintf("source reads %s, model %s", got, want), i)
		return false
	}
	if layout {
		d, err := r.src.CheckLayout(c18Shard, st.Files)
		if fm, ok := err.(*c18kit.FileMissingError); ok {
			r.mismatch("source-changed:file-missing", fm.Error(), i)
			return false
		}
		if err != nil {
			r.infra(i, "layout: %v", err)
			return false
		}
		if d != "" && !r.layoutOff {
			// the file layout left the model's physical refinement: recorded; from here on only what the property speaks
			// about is judged (reads of source and copy), not which files a stream holds or where a cut falls
			r.layoutOff = true
			vtrace.Mismatch("note:layout:"+r.b[i].A, fmt.Sprintf("behaviour %d step %d: %s", r.bi, i, d), r.replayObj(i, "note:layout"))
		}
	}
	return true
}

func (r *c18Run) step(i int) {
	s := &r.b[i]
	st := &s.St
	var err error
	switch s.A {
	case "Write":
		racing := i > 0 && r.b[i-1].St.Pc == "stream"
		if err = r.src.Write(c18Shard, s.P, s.V); err != nil {
			r.infra(i, "write: %v", err)
			return
		}
		if racing {
			r.c.add(func() { r.c.raceWrites++ })
		}
		r.checkSource(i, false)
	case "Snapshot":
		if err = r.src.Snapshot(c18Shard); err != nil {
			r.infra(i, "snapshot: %v", err)
			return
		}
		r.checkSource(i, st.Pc == "prep")
	case "SnapBegin":
		if err = r.src.SnapBegin(c18Shard); err != nil {
			r.infra(i, "snapshot begin: %v", err)
			return
		}
		r.checkSource(i, false)
	case "SnapEnd":
		if err = r.src.SnapEnd(c18Shard); err != nil {
			r.infra(i, "snapshot end: %v", err)
			return
		}
		r.checkSource(i, st.Pc == "prep")
	case "Delete":
		if err = r.src.Delete(c18Shard, s.P); err != nil {
			r.infra(i, "delete: %v", err)
			return
		}
		r.checkSource(i, true)
	case "Compact":
		if err = r.src.Compact(c18Shard); err != nil {
			r.infra(i, "compact: %v", err)
			return
		}
		r.checkSource(i, true)
	case "RequestCopy":
		r.stream, r.cut, r.tombShip, r.inflight, r.snapFail = nil, "none", false, false, ""
		var prev *c18kit.State
		if i > 0 {
			prev = &r.b[i-1].St
		}
		r.cls = c18kit.Class(prev, !st.HasShard)
		r.c.add(func() { r.c.classes[r.cls]++ })
	case "BackupBegin":
		r.inflight = st.SnapOn
		for _, u := range st.Units {
			if u.K == "tomb" {
				r.tombShip = true
			}
		}
		since := time.Time{}
		if s.V > 0 {
			since = c18kit.ClockTime(s.V)
		}
		r.src.Wake(c18Shard)
		r.gate = c18kit.NewTarGate()
		done := make(chan error, 1)
		r.bkDone = done
		g := r.gate
		go func() { done <- r.src.Store.BackupShard(c18Shard, since, g) }()
		_, fin, berr, wd := r.waitGate(i)
		if wd != nil {
			r.infra(i, "%v", wd)
			return
		}
		if fin {
			if berr != nil && r.inflight {
				// a repaired engine may refuse to back up while a snapshot is in flight: no copy is produced
				r.stream = nil
				r.cut = "backup-refused"
				return
			}
			if berr != nil {
				r.mismatch("backup:error", fmt.Sprintf("BackupShard: %v", berr), i)
				return
			}
			r.infra(i, "backup returned nil without writing the end-of-archive marker through the gate")
			return
		}
		r.c.add(func() { r.c.backups++ })
		r.checkSource(i, !r.inflight)
	case "BackupBeginFail":
		// the backup's own cache snapshot fails (not: is in progress); the backup must fail as a whole or lose nothing
		r.cut = "snapfail-" + s.X
		heal, err := r.src.BreakSnapshot(c18Shard, s.X)
		if err != nil {
			r.infra(i, "%v", err)
			return
		}
		var buf bytes.Buffer
		berr := r.src.Store.BackupShard(c18Shard, time.Time{}, &buf)
		heal()
		r.c.add(func() { r.c.snapFails++ })
		r.stream = buf.Bytes()
		if berr == nil {
			r.snapFail = s.X
			r.c.add(func() { r.c.snapFailsProceeded++ })
		}
		r.checkSource(i, true)
	case "BackupStream":
		if r.cut == "backup-refused" || r.bkDone == nil {
			return // no stream, or the real stream already ended (fewer entries than the model's)
		}
		r.gate.Step()
		_, fin, berr, wd := r.waitGate(i)
		if wd != nil {
			r.infra(i, "%v", wd)
			return
		}
		if fin {
			if berr != nil {
				r.mismatch("backup:error", fmt.Sprintf("BackupShard: %v", berr), i)
				return
			}
			// the real stream has fewer entries than the model: judged at BackupEnd
			return
		}
		r.checkSource(i, false)
	case "BackupEnd", "ConnCut":
		if r.cut == "backup-refused" {
			return
		}
		berr, ok := r.finishBackup(i, true)
		if !ok {
			r.infra(i, "watchdog: backup did not return")
			return
		}
		if berr != nil {
			r.mismatch("backup:error", fmt.Sprintf("BackupShard: %v", berr), i)
			return
		}
		full := r.gate.Bytes()
		ents, trailer := c18kit.Layout(full)
		got, want := c18UnitsOf(r.src, ents), c18ModelUnits(st.Units)
		if !trailer {
			r.mismatch("backup:no-trailer", "BackupShard returned nil but the stream has no end-of-archive marker", i)
			return
		}
		entriesDiffer := !c18Same(got, want)
		if entriesDiffer && st.Since > 0 && !r.layoutOff {
			// which files a time-bounded backup contains is its documented meaning ("modified later than since")
			r.mismatch("backup:since:entries", fmt.Sprintf("stream holds %v, model %v (since=%d, files %+v)", got, want, st.Since, st.Files), i)
			return
		}
		if entriesDiffer {
			// a full backup with another file layout than the model's: not what the property speaks about; the copy's
			// content is judged after the restore (a modelled cut cannot be placed, though)
			vtrace.Mismatch("note:backup-entries", fmt.Sprintf("behaviour %d step %d: stream holds %v, model %v", r.bi, i, got, want), r.replayObj(i, "note:backup-entries"))
			if s.A == "ConnCut" {
				r.failed = true
				return
			}
		}
		if !r.checkSource(i, false) {
			return
		}
		if s.A == "ConnCut" {
			r.cut = s.X
			off, err := c18kit.CutOffset(full, s.X, st.Sent)
			if err != nil {
				r.infra(i, "%v", err)
				return
			}
			r.stream = full[:off]
			r.c.add(func() { r.c.cuts++ })
		} else {
			r.stream = full
		}
	case "SrcMissing":
		r.cut = "missing"
		var buf bytes.Buffer
		err := r.src.Store.BackupShard(c18Shard+1000, time.Time{}, &buf)
		if err == nil {
			r.infra(i, "BackupShard of a shard that does not exist returned nil")
			return
		}
		r.stream = buf.Bytes()
	case "DestCreateShard":
		if r.cut == "backup-refused" {
			return
		}
		if err := r.dst.Store.CreateShard(c18kit.DB, c18kit.RP, c18Shard, true); err != nil {
			r.infra(i, "CreateShard: %v", err)
		}
	case "DestRestore":
		if r.cut == "backup-refused" {
			r.c.add(func() { r.c.notJudged++ })
			return
		}
		r.restore(i)
	case "MetaAddOwner", "CopyFailed":
	default:
		r.infra(i, "unknown action")
	}
}

func (r *c18Run) restore(i int) {
	s := &r.b[i]
	st := &s.St
	mode := s.X
	before, err := r.dst.Read(c18Shard)
	if err != nil {
		r.infra(i, "reading the destination before the restore: %v", err)
		return
	}
	if mode == "import" {
		err = r.dst.Store.ImportShard(c18Shard, bytes.NewReader(r.stream))
	} else {
		err = r.dst.Store.RestoreShard(c18Shard, bytes.NewReader(r.stream))
	}
	after, rerr := r.dst.Read(c18Shard)
	r.c.add(func() { r.c.restores++ })
	tail := mode + ":" + r.cut
	clean := st.Wire == "trailer"
	if r.snapFail != "" {
		// BackupShard returned nil although its cache snapshot failed: whatever it streamed is offered as a complete
		// backup; a restore that accepts it must produce the source's content (cache included)
		if err != nil {
			r.c.add(func() { r.c.restoresFailed++; r.c.held++ })
			return
		}
		r.c.add(func() { r.c.restoresOK++; r.c.judged++ })
		if rerr != nil {
			r.mismatch("restore:"+tail+":unreadable", rerr.Error(), i)
			return
		}
		if in, near := c18kit.InWindow(after, st.Window); !in {
			_, missing, stale := after.Diff(near)
			r.mismatch("restore:"+tail+":cache-missing", fmt.Sprintf("the cache snapshot of the backup failed (%s) but BackupShard returned nil and streamed %d bytes; "+
				"the restored copy reads %s, the source %s (missing in the copy: %v, other value: %v)", r.snapFail, len(r.stream), after, near, missing, stale), i)
			return
		}
		r.c.add(func() { r.c.held++ })
		return
	}
	if err != nil {
		r.c.add(func() { r.c.restoresFailed++ })
		if clean {
			r.mismatch("restore:"+tail+":clean-failed", fmt.Sprintf("restore of a complete backup failed: %v", err), i)
			return
		}
		if rerr != nil {
			r.mismatch("restore:"+tail+":failed-unreadable", fmt.Sprintf("after the failed restore (%v) the destination cannot be read: %v", err, rerr), i)
			return
		}
		if !after.Equal(before) {
			r.mismatch("restore:"+tail+":failed-but-changed", fmt.Sprintf("restore failed (%v) but the destination changed from %s to %s", err, before, after), i)
			return
		}
		r.c.add(func() { r.c.held++ })
		return
	}
	r.c.add(func() { r.c.restoresOK++ })
	if rerr != nil {
		r.mismatch("restore:"+tail+":unreadable", fmt.Sprintf("restore succeeded but the destination cannot be read: %v", rerr), i)
		return
	}
	if !st.ChainOK {
		r.c.add(func() { r.c.notJudged++ })
		return
	}
	r.c.add(func() { r.c.judged++ })
	if in, _ := c18kit.InWindow(after, st.Window); !in {
		dc, detail := c18kit.DiffClass(after, st.Window, !clean, r.inflight, r.tombShip)
		r.mismatch("restore:"+tail+":"+dc, detail+fmt.Sprintf("; stream %d bytes, wire %s, sent %d of %v", len(r.stream), st.Wire, st.Sent, c18ModelUnits(st.Units)), i)
		return
	}
	// the restored content survives a restart of the destination
	if err := r.dst.Reopen(); err != nil {
		r.mismatch("restore:"+tail+":reopen-error", fmt.Sprintf("destination does not reopen: %v", err), i)
		return
	}
	r.c.add(func() { r.c.reopens++ })
	again, err := r.dst.Read(c18Shard)
	if err != nil || !again.Equal(after) {
		r.mismatch("restore:"+tail+":reopen-differs", fmt.Sprintf("destination reads %s after the restore and %s (err %v) after a restart", after, again, err), i)
		return
	}
	r.c.add(func() { r.c.held++ })
}

func (r *c18Run) run() {
	root, err := os.MkdirTemp(vtrace.Env("VERIF_SCRATCH", ""), "c18-")
	if err != nil {
		r.c.add(func() { r.c.infra = append(r.c.infra, err.Error()) })
		return
	}
	defer os.RemoveAll(root)
	if r.src, err = c18kit.OpenNode(filepath.Join(root, "src"), r.index, false); err != nil {
		r.c.add(func() { r.c.infra = append(r.c.infra, "open source: "+err.Error()) })
		return
	}
	defer r.src.Close()
	if r.dst, err = c18kit.OpenNode(filepath.Join(root, "dst"), r.index, r.in.DestPlan); err != nil {
		r.c.add(func() { r.c.infra = append(r.c.infra, "open destination: "+err.Error()) })
		return
	}
	defer r.dst.Close()
	defer func() {
		if r.bkDone != nil {
			r.finishBackup(0, false)
		}
	}()
	if len(r.b) > 0 && r.b[0].St.HasShard {
		if err := r.src.Store.CreateShard(c18kit.DB, c18kit.RP, c18Shard, true); err != nil {
			r.c.add(func() { r.c.infra = append(r.c.infra, "create source shard: "+err.Error()) })
			return
		}
	}
	r.cut = "none"
	for i := range r.b {
		r.step(i)
		r.c.add(func() { r.c.steps++ })
		if r.failed || r.stopped {
			break
		}
	}
	// never leave a backup goroutine standing in the gate
	if r.bkDone != nil {
		r.finishBackup(len(r.b)-1, true)
	}
	// "the source shard is unchanged by being backed up" also holds for what is on disk: restart the source
	if last := len(r.b) - 1; last >= 0 && !r.failed && !r.stopped && r.b[last].St.HasShard {
		if err := r.src.Reopen(); err != nil {
			r.mismatch("source-changed:reopen-error", fmt.Sprintf("the source does not reopen after the scenario: %v", err), last)
		} else if got, err := r.src.Read(c18Shard); err != nil {
			r.mismatch("source-changed:reopen-unreadable", err.Error(), last)
		} else if want := c18kit.ModelContent(r.b[last].St.Src); !got.Equal(want) {
			r.mismatch("source-changed:reopen", fmt.Sprintf("after a restart the source reads %s, model %s", got, want), last)
		} else {
			r.c.add(func() { r.c.srcReopens++ })
		}
	}
	r.c.add(func() { r.c.behaviours++ })
}

func TestVerifBackupReplay(t *testing.T) {
	var in c18Input
	if err := vtrace.LoadJSON(os.Getenv("VERIF_IN"), &in); err != nil {
		t.Fatalf("VERIF_IN: %v", err)
	}
	if in.Workers <= 0 {
		in.Workers = 4
	}
	if in.MaxSigs <= 0 {
		in.MaxSigs = 3
	}
	if len(in.Indexes) == 0 {
		in.Indexes = []string{"inmem"}
	}
	c := &c18Counters{classes: map[string]int{}, sigs: map[string]int{}}
	type job struct {
		bi    int
		index string
	}
	jobs := make(chan job)
	var wg sync.WaitGroup
	sampled := int32(0)
	for w := 0; w < in.Workers; w++ {
		wg.Add(1)
		go func() {
			defer wg.Done()
			for j := range jobs {
				r := &c18Run{in: &in, c: c, b: in.Behaviours[j.bi], bi: j.bi, index: j.index}
				r.run()
				if !r.failed && !r.stopped && atomic.AddInt32(&sampled, 1) <= 2 {
					var acts []string
					for _, s := range r.b {
						a := s.A
						if s.P > 0 {
							a += fmt.Sprintf("(%d,%d)", s.P, s.V)
						}
						if s.X != "" {
							a += "(" + s.X + ")"
						}
						acts = append(acts, a)
					}
					vtrace.Sample(map[string]interface{}{"scenario": acts, "index": j.index, "class": r.cls, "verdict": "held"})
				}
			}
		}()
	}
	for bi := range in.Behaviours {
		for _, ix := range in.Indexes {
			jobs <- job{bi, ix}
		}
	}
	close(jobs)
	wg.Wait()
	if len(c.infra) > 0 {
		sort.Strings(c.infra)
		n := len(c.infra)
		if n > 5 {
			c.infra = c.infra[:5]
		}
		t.Fatalf("harness could not drive %d scenario(s): %v", n, c.infra)
	}
	vtrace.Done("TestVerifBackupReplay", map[string]interface{}{
		"behaviours": c.behaviours, "steps": c.steps, "backups": c.backups, "restores": c.restores, "restores_ok": c.restoresOK,
		"restores_failed": c.restoresFailed, "judged": c.judged, "not_judged": c.notJudged, "held": c.held,
		"race_writes": c.raceWrites, "cuts": c.cuts, "reopens": c.reopens, "source_reopens": c.srcReopens, "snapshot_faults": c.snapFails, "snapshot_faults_backup_went_on": c.snapFailsProceeded, "classes": c.classes, "signatures": c.sigs,
	})
	if len(c.sigs) > 0 {
		t.Errorf("mismatches: %v", c.sigs)
	}
}

// ---------------------------------------------------------------------------------------------- free-running race

// One batch j of the racing writer: a new point (host a, time 1000+j) and an overwrite of a shared point
// (host b, time 500) with value j, both in one WriteToShard call.  A consistent copy holds exactly the new
// points 1..k and the shared point with value k for one k.
func c18RaceBatch(j int) []models.Point {
	p1, _ := models.NewPoint(c18kit.Measurement, models.NewTags(map[string]string{"host": "a"}),
		models.Fields{"f": float64(j), "i": int64(10 * j)}, time.Unix(0, int64(1000+j)))
	p2, _ := models.NewPoint(c18kit.Measurement, models.NewTags(map[string]string{"host": "b"}),
		models.Fields{"f": float64(j), "i": int64(10 * j)}, time.Unix(0, 500))
	return []models.Point{p1, p2}
}

func c18RaceExpect(base c18kit.Content, k int) c18kit.Content {
	out := c18kit.Content{}
	for key, v := range base {
		out[key] = v
	}
	for j := 1; j <= k; j++ {
		out[fmt.Sprintf("a@%d/f", 1000+j)] = fmt.Sprint(j)
		out[fmt.Sprintf("a@%d/i", 1000+j)] = fmt.Sprint(10 * j)
	}
	if k > 0 {
		out["b@500/f"] = fmt.Sprint(k)
		out["b@500/i"] = fmt.Sprint(10 * k)
	}
	return out
}

func TestVerifBackupRace(t *testing.T) {
	var in c18Input
	if err := vtrace.LoadJSON(os.Getenv("VERIF_IN"), &in); err != nil {
		t.Fatalf("VERIF_IN: %v", err)
	}
	rounds := in.RaceRounds
	if rounds <= 0 {
		rounds = 8
	}
	if len(in.Indexes) == 0 {
		in.Indexes = []string{"inmem"}
	}
	seed := vtrace.Seed()
	held, mism := 0, 0
	ks := map[int]int{}
	var replayRound = vtrace.EnvInt("VERIF_RACE_ROUND", -1)
	for round := 0; round < rounds; round++ {
		if replayRound >= 0 && round != replayRound {
			continue
		}
		index := in.Indexes[round%len(in.Indexes)]
		variant := (int(seed) + round) % 4 // what the source holds when the backup starts
		sig, detail, k, err := c18RaceRound(index, variant, 40+10*(round%5))
		if err != nil {
			t.Fatalf("round %d: %v", round, err)
		}
		if sig != "" {
			mism++
			vtrace.Mismatch(sig, fmt.Sprintf("round %d index %s variant %d: %s", round, index, variant, detail),
				map[string]interface{}{"test": "race", "round": round, "index": index, "variant": variant})
			continue
		}
		ks[k]++
		held++
	}
	distinct := len(ks)
	vtrace.Done("TestVerifBackupRace", map[string]interface{}{"rounds": rounds, "held": held, "mismatches": mism, "distinct_prefixes": distinct})
	if mism > 0 {
		t.Errorf("%d mismatching rounds", mism)
	}
}

func c18RaceRound(index string, variant, nWrites int) (sig, detail string, k int, err error) {
	root, err := os.MkdirTemp(vtrace.Env("VERIF_SCRATCH", ""), "c18race-")
	if err != nil {
		return "", "", 0, err
	}
	defer os.RemoveAll(root)
	src, err := c18kit.OpenNode(filepath.Join(root, "src"), index, false)
	if err != nil {
		return "", "", 0, err
	}
	defer src.Close()
	dst, err := c18kit.OpenNode(filepath.Join(root, "dst"), index, false)
	if err != nil {
		return "", "", 0, err
	}
	defer dst.Close()
	if err = src.Store.CreateShard(c18kit.DB, c18kit.RP, c18Shard, true); err != nil {
		return
	}
	// base content: variant 0 cache only, 1 one file, 2 file + tombstone + cache, 3 two files compacted
	steps := [][]int{{1, 1}, {2, 2}, {3, 1}}
	for _, s := range steps {
		if err = src.Write(c18Shard, s[0], s[1]); err != nil {
			return
		}
	}
	switch variant {
	case 1:
		err = src.Snapshot(c18Shard)
	case 2:
		if err = src.Snapshot(c18Shard); err == nil {
			if err = src.Delete(c18Shard, 3); err == nil {
				err = src.Write(c18Shard, 1, 2)
			}
		}
	case 3:
		if err = src.Snapshot(c18Shard); err == nil {
			if err = src.Write(c18Shard, 1, 2); err == nil {
				if err = src.Snapshot(c18Shard); err == nil {
					err = src.Compact(c18Shard)
				}
			}
		}
	}
	if err != nil {
		return
	}
	base, err := src.Read(c18Shard)
	if err != nil {
		return
	}
	var issued, acked int64
	stop := make(chan struct{})
	wdone := make(chan error, 1)
	started := make(chan struct{})
	go func() {
		close(started)
		for j := 1; j <= nWrites; j++ {
			select {
			case <-stop:
				wdone <- nil
				return
			default:
			}
			atomic.StoreInt64(&issued, int64(j))
			if e := src.Store.WriteToShard(c18Shard, c18RaceBatch(j)); e != nil {
				wdone <- e
				return
			}
			atomic.StoreInt64(&acked, int64(j))
		}
		wdone <- nil
	}()
	<-started
	src.Wake(c18Shard)
	lo := atomic.LoadInt64(&acked) // acknowledged before the backup started
	var buf bytes.Buffer
	berr := src.Store.BackupShard(c18Shard, time.Time{}, &buf)
	hi := atomic.LoadInt64(&issued) // started before the backup ended
	close(stop)
	if e := <-wdone; e != nil {
		return "", "", 0, fmt.Errorf("racing writer: %v", e)
	}
	if berr != nil {
		return "race:backup-error", fmt.Sprintf("BackupShard under load: %v", berr), 0, nil
	}
	if err = dst.Store.CreateShard(c18kit.DB, c18kit.RP, c18Shard, true); err != nil {
		return
	}
	if e := dst.Store.RestoreShard(c18Shard, bytes.NewReader(buf.Bytes())); e != nil {
		return "race:restore-error", fmt.Sprintf("RestoreShard of a complete backup: %v", e), 0, nil
	}
	got, err := dst.Read(c18Shard)
	if err != nil {
		return "race:unreadable", err.Error(), 0, nil
	}
	for k := lo; k <= hi; k++ {
		if got.Equal(c18RaceExpect(base, int(k))) {
			// the source still answers base + everything acknowledged
			final, err := src.Read(c18Shard)
			if err != nil {
				return "race:source-unreadable", err.Error(), 0, nil
			}
			if !final.Equal(c18RaceExpect(base, int(atomic.LoadInt64(&acked)))) {
				return "race:source-changed", fmt.Sprintf("source reads %s after the backup, expected base + %d batches", final, acked), 0, nil
			}
			return "", "", int(k), nil
		}
	}
	return "race:not-a-prefix", fmt.Sprintf("copy %s is not base %s plus a prefix of the writer's batches in [%d,%d]", got, base, lo, hi), 0, nil
}
