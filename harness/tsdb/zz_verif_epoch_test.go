package tsdb_test

// X03 (store-level part): the write/delete guard protocol seen through the exported Store API.
//
// TestVerifEpochStoreRace: batches (several series x several timestamps x two fields) written with
// Store.WriteToShard race Store.DeleteSeries calls whose selection covers part of each batch, on a real
// store (tsm1 engine, inmem or tsi1 index), under the race detector.  After the goroutines have returned the
// shard is read back and every (write, delete) pair is classified: the points of the write inside the
// selection of the delete are all gone or all there (X03a), both fields of a point share their fate, data
// written before the race is deleted exactly, a batch written after the deletes returned is complete (X03b),
// and the reads are the same after the store has been reopened (index and data agree).
//
// TestVerifGuardSelection: for the selections enumerated by specs/epoch/GuardMatch.tla, runs the REAL
// Store.DeleteSeries on a shard that holds exactly the points of the domain and records which points it removes;
// a point removed by the real delete that guard.Matches (results of TestVerifGuardMatch, $VERIF_MATCHES) does not
// match is an X03d false negative established without the TLA+ evaluator; a difference between the real delete
// and the evaluator is reported as a conformance note.

import (
	"context"
	"encoding/json"
	"fmt"
	"math/rand"
	"os"
	"runtime"
	"sort"
	"strings"
	"sync"
	"testing"
	"time"

	"github.com/influxdata/influxdb/models"
	"github.com/influxdata/influxdb/pkg/verifx/vtrace"
	"github.com/influxdata/influxdb/query"
	"github.com/influxdata/influxdb/tsdb"
	"github.com/influxdata/influxdb/tsdb/engine/tsm1"
	"github.com/influxdata/influxql"
)

// vgxReadInts returns the multiset of values of integer field f of measurement m (all series, all times).
func vgxReadInts(sh *tsdb.Shard, m, f string) (map[int64]int, error) {
	out := map[int64]int{}
	itr, err := sh.CreateIterator(context.Background(), &influxql.Measurement{Name: m}, query.IteratorOptions{
		Expr:      influxql.MustParseExpr(f),
		Ascending: true,
		StartTime: influxql.MinTime,
		EndTime:   influxql.MaxTime,
	})
	if err != nil || itr == nil {
		return out, err
	}
	defer itr.Close()
	iitr, ok := itr.(query.IntegerIterator)
	if !ok {
		return out, fmt.Errorf("iterator for %s.%s is %T, not integer", m, f, itr)
	}
	for {
		p, err := iitr.Next()
		if err != nil {
			return out, err
		}
		if p == nil {
			return out, nil
		}
		out[p.Value]++
	}
}

// ---------------------------------------------------------------- store-level race

type vgxDel struct {
	Lo   int    `json:"lo"`
	Hi   int    `json:"hi"`
	Pred string `json:"pred"` // "" | "s<N>": AND s = 's<N>' | "!x": AND x != 'q' (no point has a tag x: selects every series) | "*": Store.DeleteMeasurement (everything)
}

type vgxRound struct {
	Round int      `json:"round"`
	M     string   `json:"m"`
	S     int      `json:"series"`
	T     int      `json:"times"`
	Dels  []vgxDel `json:"dels"`
	Spin  []int    `json:"spin"`
}

func vgxID(w, s, t int) int64 { return int64((w*100+s)*100 + t) }

func vgxBatch(m string, w, S, T int) []models.Point {
	var pts []models.Point
	for s := 0; s < S; s++ {
		for t := 0; t < T; t++ {
			id := vgxID(w, s, t)
			pts = append(pts, models.MustNewPoint(m, models.NewTags(map[string]string{"w": fmt.Sprintf("w%d", w), "s": fmt.Sprintf("s%d", s)}),
				models.Fields{"v1": id, "v2": id}, time.Unix(0, int64(t)*1000)))
		}
	}
	return pts
}

func (d vgxDel) selects(s, t int) bool {
	if d.Pred == "*" {
		return true
	}
	return t >= d.Lo && t <= d.Hi && (d.Pred == "" || d.Pred == "!x" || d.Pred == fmt.Sprintf("s%d", s))
}

func (d vgxDel) cond() influxql.Expr {
	c := fmt.Sprintf("time >= %d AND time <= %d", d.Lo*1000, d.Hi*1000)
	if d.Pred == "!x" {
		c += " AND x != 'q'"
	} else if d.Pred != "" {
		c += fmt.Sprintf(" AND s = '%s'", d.Pred)
	}
	return influxql.MustParseExpr(c)
}

const (
	vgxBase = 0
	vgxLate = 9
	vgxND   = 3 // deletes per round
)

// vgxClassify checks one round's final content; returns (signature, detail) of the first violation.
func vgxClassify(rd vgxRound, nW int, v1, v2 map[int64]int) (string, string) {
	for id, n := range v1 {
		if n != 1 {
			return "x03a:duplicate-point", fmt.Sprintf("value %d read %d times", id, n)
		}
	}
	writersOf := []int{vgxBase}
	for w := 1; w <= nW; w++ {
		writersOf = append(writersOf, w)
	}
	writersOf = append(writersOf, vgxLate)
	for _, w := range writersOf {
		absent := map[int64]bool{}
		for s := 0; s < rd.S; s++ {
			for t := 0; t < rd.T; t++ {
				id := vgxID(w, s, t)
				if (v1[id] > 0) != (v2[id] > 0) {
					return "x03a:torn-point", fmt.Sprintf("point w%d s%d t%d: field v1 present=%v, field v2 present=%v", w, s, t, v1[id] > 0, v2[id] > 0)
				}
				if v1[id] == 0 {
					absent[id] = true
				}
			}
		}
		// which sets of deletes explain the absent points of this write?
		var masks []int
		switch w {
		case vgxBase:
			masks = []int{1<<len(rd.Dels) - 1} // written before: every delete applies
		case vgxLate:
			masks = []int{0} // written after every delete returned: none applies
		default:
			for m := 0; m < 1<<len(rd.Dels); m++ {
				masks = append(masks, m)
			}
		}
		explained := false
		for _, m := range masks {
			ok := true
			for s := 0; s < rd.S && ok; s++ {
				for t := 0; t < rd.T; t++ {
					exp := false
					for j, d := range rd.Dels {
						if m&(1<<j) != 0 && d.selects(s, t) {
							exp = true
						}
					}
					if exp != absent[vgxID(w, s, t)] {
						ok = false
						break
					}
				}
			}
			if ok {
				explained = true
				break
			}
		}
		if !explained {
			var ab []string
			for s := 0; s < rd.S; s++ {
				for t := 0; t < rd.T; t++ {
					if absent[vgxID(w, s, t)] {
						ab = append(ab, fmt.Sprintf("s%d/t%d", s, t))
					}
				}
			}
			switch w {
			case vgxBase:
				return "x03a:earlier-write-not-deleted-exactly", fmt.Sprintf("batch written before the deletes %v: absent points %v are not the union of the selections", rd.Dels, ab)
			case vgxLate:
				return "x03b:later-write-lost-points", fmt.Sprintf("batch written after the deletes %v had returned misses %v", rd.Dels, ab)
			default:
				return "x03a:partial-delete-of-a-batch", fmt.Sprintf("racing batch w%d (%d series x %d times) against deletes %v: absent points %v are not explained by any subset of the deletes applied as a whole", w, rd.S, rd.T, rd.Dels, ab)
			}
		}
	}
	return "", ""
}

func TestVerifEpochStoreRace(t *testing.T) {
	rounds := vtrace.EnvInt("VERIF_ROUNDS", 40)
	index := vtrace.Env("VERIF_INDEX", "inmem")
	nW := vtrace.EnvInt("VERIF_WRITERS", 3)
	rnd := rand.New(rand.NewSource(vtrace.Seed()*7919 + int64(len(index))))
	s := MustOpenStore(index)
	defer s.Close()
	if err := s.CreateShard("db0", "rp0", 1, true); err != nil {
		t.Fatal(err)
	}
	var fixed *vgxRound
	if p := os.Getenv("VERIF_IN_RACE"); p != "" {
		var in struct {
			Round *vgxRound `json:"round"`
		}
		if err := vtrace.LoadJSON(p, &in); err != nil {
			t.Fatal(err)
		}
		fixed = in.Round
	}
	var done []vgxRound
	mism, allGone, noneGone, pairs := 0, 0, 0, 0
	for r := 0; r < rounds && mism < 3; r++ {
		// batches large enough (hundreds of points, two fields each, tens of series) that the engine's phases of a
		// write (series creation in the index, cache, WAL) and of a delete are long compared with scheduling noise
		rd := vgxRound{Round: r, M: fmt.Sprintf("m%d", r), S: 8 + rnd.Intn(24), T: 6 + rnd.Intn(14)}
		for j := 0; j < vgxND; j++ {
			lo := rnd.Intn(rd.T)
			hi := lo + rnd.Intn(rd.T-lo)
			d := vgxDel{Lo: lo, Hi: hi}
			switch rnd.Intn(4) {
			case 0:
				d.Pred = fmt.Sprintf("s%d", rnd.Intn(rd.S))
			case 1:
				d.Pred = "!x"
			case 2:
				if rnd.Intn(3) == 0 {
					d.Pred = "*"
				}
			}
			if fp := os.Getenv("VERIF_FORCE_PRED"); fp != "" {
				d.Pred = fp
			}
			rd.Dels = append(rd.Dels, d)
		}
		for i := 0; i < nW+vgxND; i++ {
			rd.Spin = append(rd.Spin, rnd.Intn(150)) // start offset in percent of the duration of the base write
		}
		if fixed != nil {
			m := rd.M
			rd = *fixed
			rd.Round, rd.M = r, m
		}
		sh := s.Shard(1)
		sh.SetCompactionsEnabled(true)
		t0 := time.Now()
		if err := s.WriteToShard(1, vgxBatch(rd.M, vgxBase, rd.S, rd.T)); err != nil {
			t.Fatal(err)
		}
		unit := time.Since(t0) / 100
		// jitter only: spreads the start of the racing calls over the duration of a write; nothing depends on it
		jitter := func(pct int) {
			for end := time.Now().Add(time.Duration(pct) * unit); time.Now().Before(end); {
				runtime.Gosched()
			}
		}
		if r%3 == 1 {
			// some rounds delete from TSM files, not only from the cache
			if e, err := sh.Engine(); err == nil {
				if eng, ok := e.(*tsm1.Engine); ok {
					if err := eng.WriteSnapshot(); err != nil {
						t.Logf("snapshot: %v", err)
					}
				}
			}
		}
		start := make(chan struct{})
		var wg sync.WaitGroup
		errs := make(chan error, 8)
		for w := 1; w <= nW; w++ {
			w := w
			pts := vgxBatch(rd.M, w, rd.S, rd.T)
			wg.Add(1)
			go func() {
				defer wg.Done()
				<-start
				jitter(rd.Spin[w-1])
				if err := s.WriteToShard(1, pts); err != nil {
					errs <- fmt.Errorf("write w%d: %v", w, err)
				}
			}()
		}
		for j, d := range rd.Dels {
			j, d := j, d
			wg.Add(1)
			go func() {
				defer wg.Done()
				<-start
				jitter(rd.Spin[nW+j])
				var err error
				if d.Pred == "*" {
					err = s.DeleteMeasurement("db0", rd.M)
				} else {
					err = s.DeleteSeries("db0", []influxql.Source{&influxql.Measurement{Name: rd.M}}, d.cond())
				}
				if err != nil {
					errs <- fmt.Errorf("delete %d: %v", j, err)
				}
			}()
		}
		close(start)
		fin := make(chan struct{})
		go func() { wg.Wait(); close(fin) }()
		select {
		case <-fin:
		case <-time.After(120 * time.Second):
			// a deadlock between writers and deleters is what X03c forbids: report what the goroutines are doing
			buf := make([]byte, 1<<20)
			buf = buf[:runtime.Stack(buf, true)]
			waitG, waitE := strings.Count(string(buf), "tsdb.(*guard).Wait"), strings.Count(string(buf), "tsdb.(*epochDeleteState).Wait")
			if waitG+waitE > 0 {
				vtrace.Mismatch("x03c:store-deadlock", fmt.Sprintf("round %+v: writers/deleters did not return within 120 s; %d goroutines in guard.Wait, %d in epochWaiter.Wait", rd, waitG, waitE),
					map[string]interface{}{"test": "RACE", "index": index, "round": rd})
				vtrace.Done("TestVerifEpochStoreRace", map[string]interface{}{"rounds": r})
			}
			t.Fatalf("round %d did not finish", r)
		}
		close(errs)
		for err := range errs {
			t.Fatal(err) // an error return of a write / delete is outside X03: infrastructure
		}
		if err := s.WriteToShard(1, vgxBatch(rd.M, vgxLate, rd.S, rd.T)); err != nil {
			t.Fatal(err)
		}
		v1, err := vgxReadInts(sh, rd.M, "v1")
		if err != nil {
			t.Fatal(err)
		}
		v2, err := vgxReadInts(sh, rd.M, "v2")
		if err != nil {
			t.Fatal(err)
		}
		if sig, detail := vgxClassify(rd, nW, v1, v2); sig != "" {
			mism++
			vtrace.Mismatch(sig, fmt.Sprintf("index %s round %d: %s", index, r, detail), map[string]interface{}{"test": "RACE", "index": index, "round": rd})
		}
		for w := 1; w <= nW; w++ {
			for _, d := range rd.Dels {
				in, gone := 0, 0
				for sx := 0; sx < rd.S; sx++ {
					for tx := 0; tx < rd.T; tx++ {
						if d.selects(sx, tx) {
							in++
							if v1[vgxID(w, sx, tx)] == 0 {
								gone++
							}
						}
					}
				}
				pairs++
				if in > 0 && gone == in {
					allGone++
				} else if gone == 0 {
					noneGone++
				}
			}
		}
		done = append(done, rd)
		if r < 2 {
			vtrace.Sample(map[string]interface{}{"race_round": rd, "index": index, "points_read": len(v1)})
		}
	}
	// index and data agree: the same reads after a reopen (the index is rebuilt from / checked against the data)
	before := map[string]map[int64]int{}
	for _, rd := range done {
		v, err := vgxReadInts(s.Shard(1), rd.M, "v1")
		if err != nil {
			t.Fatal(err)
		}
		before[rd.M] = v
	}
	if err := s.Reopen(); err != nil {
		t.Fatal(err)
	}
	for _, rd := range done {
		v, err := vgxReadInts(s.Shard(1), rd.M, "v1")
		if err != nil {
			t.Fatal(err)
		}
		if len(v) != len(before[rd.M]) {
			var diff []int64
			for id := range v {
				if before[rd.M][id] == 0 {
					diff = append(diff, id)
				}
			}
			for id := range before[rd.M] {
				if v[id] == 0 {
					diff = append(diff, -id)
				}
			}
			sort.Slice(diff, func(i, j int) bool { return diff[i] < diff[j] })
			vtrace.Mismatch("x03a:reads-differ-after-reopen", fmt.Sprintf("index %s round %+v: %d points before, %d after the store was reopened (ids appearing / -disappearing: %v)", index, rd, len(before[rd.M]), len(v), diff),
				map[string]interface{}{"test": "RACE", "index": index, "round": rd})
			break
		}
	}
	vtrace.Done("TestVerifEpochStoreRace", map[string]interface{}{"rounds": len(done), "pairs": pairs, "pairs_all_removed": allGone, "pairs_none_removed": noneGone, "index": index})
}

// ---------------------------------------------------------------- X03d: the real delete's selection

type vgxExpr struct {
	T   string   `json:"t"`
	Op  string   `json:"op,omitempty"`
	Key string   `json:"key,omitempty"`
	Val string   `json:"val,omitempty"`
	L   *vgxExpr `json:"l,omitempty"`
	R   *vgxExpr `json:"r,omitempty"`
}

type vgxPt struct {
	Name   string `json:"name"`
	Host   string `json:"host"`
	Region string `json:"region"`
}

type vgxSelPt struct {
	P vgxPt `json:"p"`
	T int   `json:"t"`
}

type vgxCase struct {
	Sel struct {
		Lo    int      `json:"lo"`
		Hi    int      `json:"hi"`
		Names []string `json:"names"`
		Expr  vgxExpr  `json:"expr"`
	} `json:"sel"`
	Selected []vgxSelPt `json:"selected"`
	Family   string     `json:"family"`
	Real     bool       `json:"real"`
}

var vgxRegex = map[string]string{"ra": "^a$", "rany": ".*", "rempty": "^$", "rab": "[ab]", "rcpu": "^c"}

func (e *vgxExpr) String() string {
	switch e.T {
	case "true", "false":
		return e.T
	case "and":
		return "(" + e.L.String() + ") AND (" + e.R.String() + ")"
	case "or":
		return "(" + e.L.String() + ") OR (" + e.R.String() + ")"
	}
	if e.T == "cmpref" {
		return fmt.Sprintf("%s %s %s", e.Key, e.Op, e.Val)
	}
	if e.Op == "=~" || e.Op == "!~" {
		return fmt.Sprintf("%s %s /%s/", e.Key, e.Op, vgxRegex[e.Val])
	}
	return fmt.Sprintf("%s %s '%s'", e.Key, e.Op, e.Val)
}

func vgxTime(t int) int64 {
	switch t {
	case -1000:
		return influxql.MinTime
	case 1000:
		return influxql.MaxTime
	}
	return int64(t)
}

// vgxDomain must enumerate the points in the same order as vgDomain of the in-package harness.
func vgxDomain(family string) (pts []vgxSelPt) {
	times := []int{5}
	if family == "B" {
		times = []int{-1000, 2, 3, 5, 7, 8, 1000}
	}
	for _, n := range []string{"cpu", "mem"} {
		for _, h := range []string{"", "a", "b"} {
			for _, r := range []string{"", "x"} {
				for _, t := range times {
					pts = append(pts, vgxSelPt{P: vgxPt{Name: n, Host: h, Region: r}, T: t})
				}
			}
		}
	}
	return pts
}

func TestVerifGuardSelection(t *testing.T) {
	var in struct {
		Cases []vgxCase `json:"cases"`
	}
	if err := vtrace.LoadJSON(os.Getenv("VERIF_IN_MATCH"), &in); err != nil {
		t.Fatal(err)
	}
	var mres struct {
		Matches [][]bool          `json:"matches"`
		FnSig   map[string]string `json:"fnsig"`
	}
	if err := vtrace.LoadJSON(os.Getenv("VERIF_MATCHES"), &mres); err != nil {
		t.Fatalf("results of TestVerifGuardMatch missing: %v", err)
	}
	if len(mres.Matches) != len(in.Cases) {
		t.Fatalf("results of TestVerifGuardMatch are for %d cases, have %d", len(mres.Matches), len(in.Cases))
	}
	stores := []*Store{MustOpenStore("inmem"), MustOpenStore("tsi1")}
	for _, s := range stores {
		defer s.Close()
		if err := s.CreateShard("db0", "rp0", 1, true); err != nil {
			t.Fatal(err)
		}
	}
	srcAll := []influxql.Source{&influxql.Measurement{Name: "cpu"}, &influxql.Measurement{Name: "mem"}}
	cases, removedN, fnReal, oracleDiff, rejected := 0, 0, 0, 0, 0
	reported := map[string]bool{}
	notes := 0
	for ci := range in.Cases {
		c := &in.Cases[ci]
		if !c.Real {
			continue
		}
		s := stores[cases%2]
		cases++
		dom := vgxDomain(c.Family)
		var pts []models.Point
		for i, p := range dom {
			tags := map[string]string{}
			if p.P.Host != "" {
				tags["host"] = p.P.Host
			}
			if p.P.Region != "" {
				tags["region"] = p.P.Region
			}
			pts = append(pts, models.MustNewPoint(p.P.Name, models.NewTags(tags), models.Fields{"v": int64(i)}, time.Unix(0, vgxTime(p.T))))
		}
		if err := s.WriteToShard(1, pts); err != nil {
			t.Fatal(err)
		}
		var parts []string
		if c.Sel.Lo != -1000 {
			parts = append(parts, fmt.Sprintf("time >= %d", c.Sel.Lo))
		}
		if c.Sel.Hi != 1000 {
			parts = append(parts, fmt.Sprintf("time <= %d", c.Sel.Hi))
		}
		parts = append(parts, "("+c.Sel.Expr.String()+")")
		where := strings.Join(parts, " AND ")
		cond, err := influxql.ParseExpr(where)
		if err != nil {
			t.Fatalf("case %d: %q: %v", ci, where, err)
		}
		var srcs []influxql.Source
		for _, n := range c.Sel.Names {
			srcs = append(srcs, &influxql.Measurement{Name: n})
		}
		derr := s.DeleteSeries("db0", srcs, cond)
		remaining := map[int64]int{}
		for _, m := range []string{"cpu", "mem"} {
			v, err := vgxReadInts(s.Shard(1), m, "v")
			if err != nil {
				t.Fatal(err)
			}
			for k, n := range v {
				remaining[k] += n
			}
		}
		if derr != nil {
			// the delete was refused: it selects nothing; it must not have removed anything either
			rejected++
			if len(remaining) != len(dom) {
				vtrace.Mismatch("x03d:refused-delete-removed-points", fmt.Sprintf("DELETE WHERE %s returned %v but removed %d points", where, derr, len(dom)-len(remaining)), map[string]interface{}{"test": "MATCH", "case": c})
			}
		} else {
			sel := map[vgxSelPt]bool{}
			for _, sp := range c.Selected {
				sel[sp] = true
			}
			for pi, p := range dom {
				removed := remaining[int64(pi)] == 0
				if removed {
					removedN++
				}
				if removed != sel[p] {
					oracleDiff++
					if notes < 5 {
						notes++
						vtrace.Mismatch("note:x03d:real-delete-differs-from-evaluator", fmt.Sprintf("index %s DELETE FROM %v WHERE %s: point %+v removed=%v, GuardMatch.tla selected=%v", s.index, c.Sel.Names, where, p, removed, sel[p]), nil)
					}
				}
				if removed && !mres.Matches[ci][pi] {
					fnReal++
					sig := mres.FnSig[fmt.Sprintf("%d:%d", ci, pi)]
					if sig == "" {
						sig = "x03d:false-negative:real-delete-only"
					}
					if !reported[sig] && len(reported) < 6 {
						reported[sig] = true
						vtrace.Mismatch(sig, fmt.Sprintf("index %s: the real DELETE FROM %v WHERE %s removed the point %+v, but guard.Matches of the guard this delete installs is false for it: a concurrent write of this point is not held back", s.index, c.Sel.Names, where, p),
							map[string]interface{}{"test": "MATCH", "case": c})
					}
				}
			}
		}
		// clean the shard for the next case
		if err := s.DeleteSeries("db0", srcAll, nil); err != nil {
			t.Fatal(err)
		}
		for _, m := range []string{"cpu", "mem"} {
			if v, _ := vgxReadInts(s.Shard(1), m, "v"); len(v) != 0 {
				t.Fatalf("case %d: shard not empty after cleanup", ci)
			}
		}
	}
	b, _ := json.Marshal(map[string]int{"cases": cases})
	_ = b
	vtrace.Done("TestVerifGuardSelection", map[string]interface{}{"cases": cases, "points_removed_by_real_delete": removedN,
		"false_negatives_vs_real_delete": fnReal, "real_delete_differs_from_evaluator": oracleDiff, "deletes_refused": rejected})
}
