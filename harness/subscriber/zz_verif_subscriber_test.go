package subscriber

// X02 - subscriber service: replay of TLC-generated behaviours (specs/subscriber/SubscriberGen.tla) on the real
// subscriber.Service with a scripted MetaClient (every WaitForDataChanged()/Databases() call is a gate) and fake
// destination writers (every WritePoints call is a gate), plus a stress driver for the Close/update/points races.
//
// Nothing here sleeps to order events: the driver waits for gate arrivals, for a barrier batch to be picked up by
// the run loop (a models.Point whose Name() signals: called by removeBadPoints in the run goroutine) and for
// acknowledgements of the fakes.  A missing event is never a verdict by itself: the behaviour is wound down (all
// gates opened, Close) and the property predicates are evaluated on the complete real history; a goroutine dump
// classifies a run loop / Close that does not come back.

import (
	"bytes"
	"encoding/json"
	"fmt"
	"math/rand"
	"net/url"
	"os"
	"regexp"
	"runtime"
	"sort"
	"strconv"
	"strings"
	"sync"
	"sync/atomic"
	"testing"
	"time"

	"github.com/influxdata/influxdb/coordinator"
	"github.com/influxdata/influxdb/models"
	"github.com/influxdata/influxdb/pkg/verifx/vtrace"
	"github.com/influxdata/influxdb/services/meta"
)

// ---------------------------------------------------------------------------------------------- input

type vMeta struct {
	RP   string `json:"rp"`
	Name string `json:"name"`
	D    int    `json:"d"`
}
type vSub struct {
	RP   string `json:"rp"`
	Name string `json:"name"`
	Inc  int    `json:"inc"`
	Def  int    `json:"def"`
	Buf  []int  `json:"buf"`
}
type vCall struct {
	RP   string `json:"rp"`
	Name string `json:"name"`
	Inc  int    `json:"inc"`
	B    int    `json:"b"`
	J    int    `json:"j"`
}
type vAtt struct {
	J  int  `json:"j"`
	B  int  `json:"b"`
	Ok bool `json:"ok"`
}
type vCw struct {
	RP     string `json:"rp"`
	Name   string `json:"name"`
	Inc    int    `json:"inc"`
	St     string `json:"st"`
	Def    int    `json:"def"`
	Acc    []int  `json:"acc"`
	Drop   []int  `json:"drop"`
	Att    []vAtt `json:"att"`
	Exited bool   `json:"exited"`
}
type vProj struct {
	Wpc      string  `json:"wpc"`
	Rpc      string  `json:"rpc"`
	Gen      int     `json:"gen"`
	Wch      int     `json:"wch"`
	Closed   bool    `json:"closed"`
	CloseRet bool    `json:"closeRet"`
	Meta     []vMeta `json:"meta"`
	Subs     []vSub  `json:"subs"`
	Calls    []vCall `json:"calls"`
	Cws      []vCw   `json:"cws"`
	Written  int     `json:"written"`
	Fail     int     `json:"fail"`
	Cfail    int     `json:"cfail"`
}
type vStep struct {
	A    string `json:"a"`
	RP   string `json:"rp"`
	Name string `json:"name"`
	N    int    `json:"n"`
	B    int    `json:"b"`
	Ok   bool   `json:"ok"`
	Pre  vProj  `json:"pre"`
}
type vBeh struct {
	W     int      `json:"w"`
	Buf   int      `json:"buf"`
	Dev   []string `json:"dev"`
	Steps []vStep  `json:"steps"`
	Final vProj    `json:"final"`
	RPMap *int     `json:"rpmap,omitempty"`
}
type vInput struct {
	// behaviours per waiter variant of the code: "fixed" (channel fetched before Update / in Open) and "late"
	Variants map[string][]vBeh `json:"variants"`
	MaxSigs  int               `json:"max_sigs"`
}

// the Catalog of Subscriber.tla
type vDef struct {
	mode  string
	dests []int
}

var vCatalog = map[int]vDef{
	1: {"ALL", []int{1, 2}}, 2: {"ANY", []int{1, 2}}, 3: {"ALL", []int{2}}, 4: {"ANY", []int{2, 1}}, 5: {"BAD", []int{1}},
}

// model rp -> (database, retention policy); two mappings so that both components discriminate
var vRPMaps = []map[string][2]string{
	{"r1": {"db0", "rp0"}, "r2": {"db0", "rp1"}},
	{"r1": {"db0", "rp0"}, "r2": {"db1", "rp0"}},
}

func vWatchdog() time.Duration {
	return time.Duration(vtrace.EnvInt("VERIF_WD_MS", 15000)) * time.Millisecond
}

// ---------------------------------------------------------------------------------------------- fakes

type vKey struct{ rp, name string }

type vInst struct {
	key    vKey
	serial int
	ord    int // n-th chanWriter created for the key = incarnation of the model
	def    int
	mu     sync.Mutex
	att    []vAtt // completed destination calls in completion order
	ws     []*vWriter
}

type vDestCall struct {
	inst *vInst
	j    int // position of the destination in the subscription's list (1-based)
	b    int // batch id, -1 unknown
	rel  chan bool
	done chan struct{}
	late bool
}

type vWriter struct {
	d    *vDrv
	inst *vInst
	j    int
	dest int
}

type vGateCall struct {
	rel  chan struct{}
	done chan struct{}
}

type vMetaEnt struct {
	d      int
	serial int
}

type vDrv struct {
	t     *testing.T
	wd    time.Duration
	rpmap map[string][2]string
	svc   *Service
	gid   string // goroutine of the driver: its own calls into the fakes are not gated

	mu        sync.Mutex
	meta      map[vKey]vMetaEnt
	serial    int
	changed   chan struct{}
	open      bool // gates open: wind-down / stress mode
	insts     map[vKey][]*vInst
	bySerial  map[string]*vInst
	inflight  []*vDestCall
	unknownB  int
	afterDone int32
	closeDone chan struct{}
	closeRet  int32
	infra     []string
	syncGets  int

	wfdcArr chan *vGateCall
	dbArr   chan *vGateCall
	destArr chan *vDestCall
	dbSnap  chan []meta.DatabaseInfo
	sent    map[int]string // batch id -> model rp
}

func vGID() string {
	var buf [64]byte
	n := runtime.Stack(buf[:], false)
	f := strings.Fields(string(buf[:n]))
	if len(f) >= 2 {
		return f[1]
	}
	return "?"
}

func newVDrv(t *testing.T, rpmap map[string][2]string) *vDrv {
	return &vDrv{t: t, wd: vWatchdog(), rpmap: rpmap, gid: vGID(), meta: map[vKey]vMetaEnt{}, changed: make(chan struct{}),
		insts: map[vKey][]*vInst{}, bySerial: map[string]*vInst{}, closeDone: make(chan struct{}),
		wfdcArr: make(chan *vGateCall, 256), dbArr: make(chan *vGateCall, 256), destArr: make(chan *vDestCall, 4096),
		dbSnap: make(chan []meta.DatabaseInfo, 1), sent: map[int]string{}}
}

func (d *vDrv) infraf(f string, a ...interface{}) {
	d.mu.Lock()
	d.infra = append(d.infra, fmt.Sprintf(f, a...))
	d.mu.Unlock()
}

// MetaClient ------------------------------------------------------------------------------------

func (d *vDrv) WaitForDataChanged() chan struct{} {
	d.mu.Lock()
	if d.open || vGID() == d.gid {
		if !d.open {
			d.syncGets++
		}
		ch := d.changed
		d.mu.Unlock()
		return ch
	}
	d.mu.Unlock()
	c := &vGateCall{rel: make(chan struct{}), done: make(chan struct{})}
	d.wfdcArr <- c
	select {
	case <-c.rel:
	case <-time.After(8 * d.wd):
		d.infraf("gate watchdog: WaitForDataChanged not released")
	}
	d.mu.Lock()
	ch := d.changed
	d.mu.Unlock()
	close(c.done)
	return ch
}

func (d *vDrv) snapshot() []meta.DatabaseInfo {
	// caller holds d.mu
	dbs := map[string]map[string][]meta.SubscriptionInfo{}
	keys := make([]vKey, 0, len(d.meta))
	for k := range d.meta {
		keys = append(keys, k)
	}
	sort.Slice(keys, func(i, j int) bool {
		if keys[i].rp != keys[j].rp {
			return keys[i].rp < keys[j].rp
		}
		return keys[i].name < keys[j].name
	})
	// every (db, rp) of the mapping exists, with or without subscriptions
	for _, p := range d.rpmap {
		if dbs[p[0]] == nil {
			dbs[p[0]] = map[string][]meta.SubscriptionInfo{}
		}
		dbs[p[0]][p[1]] = nil
	}
	for _, k := range keys {
		e := d.meta[k]
		if e.d == 0 {
			continue
		}
		p := d.rpmap[k.rp]
		def := vCatalog[e.d]
		var dests []string
		for pos, dest := range def.dests {
			// the same definition always gives the same strings (a subscription dropped and created again
			// with the same definition is indistinguishable from one that was never touched)
			dests = append(dests, fmt.Sprintf("udp://h%d:9/%s/%s/%d/%d", dest, k.rp, k.name, e.d, pos+1))
		}
		dbs[p[0]][p[1]] = append(dbs[p[0]][p[1]], meta.SubscriptionInfo{Name: k.name, Mode: def.mode, Destinations: dests})
	}
	var out []meta.DatabaseInfo
	dbn := make([]string, 0)
	for n := range dbs {
		dbn = append(dbn, n)
	}
	sort.Strings(dbn)
	for _, n := range dbn {
		di := meta.DatabaseInfo{Name: n}
		rpn := make([]string, 0)
		for r := range dbs[n] {
			rpn = append(rpn, r)
		}
		sort.Strings(rpn)
		for _, r := range rpn {
			di.RetentionPolicies = append(di.RetentionPolicies, meta.RetentionPolicyInfo{Name: r, Subscriptions: dbs[n][r]})
		}
		out = append(out, di)
	}
	return out
}

func (d *vDrv) Databases() []meta.DatabaseInfo {
	d.mu.Lock()
	if d.open {
		s := d.snapshot()
		d.mu.Unlock()
		return s
	}
	d.mu.Unlock()
	c := &vGateCall{rel: make(chan struct{}), done: make(chan struct{})}
	d.dbArr <- c
	select {
	case <-c.rel:
	case <-time.After(8 * d.wd):
		d.infraf("gate watchdog: Databases not released")
	}
	d.mu.Lock()
	s := d.snapshot()
	d.mu.Unlock()
	close(c.done)
	return s
}

// destination writers ---------------------------------------------------------------------------

var vURLRe = regexp.MustCompile(`^/([^/]+)/([^/]+)/(\d+)/(\d+)$`)

func (d *vDrv) newPointsWriter(u url.URL) (PointsWriter, error) {
	m := vURLRe.FindStringSubmatch(u.Path)
	if m == nil {
		return nil, fmt.Errorf("verif: unexpected destination %s", u.String())
	}
	def, _ := strconv.Atoi(m[3])
	pos, _ := strconv.Atoi(m[4])
	dest, _ := strconv.Atoi(strings.TrimPrefix(u.Hostname(), "h"))
	k := vKey{m[1], m[2]}
	d.mu.Lock()
	defer d.mu.Unlock()
	sk := fmt.Sprintf("%s/%s", k.rp, k.name)
	in := d.bySerial[sk]
	if in == nil || pos == 1 {
		// a new chanWriter is being built (createSubscription walks the destinations in order, in one goroutine)
		in = &vInst{key: k, def: def, ord: len(d.insts[k]) + 1}
		d.insts[k] = append(d.insts[k], in)
		d.bySerial[sk] = in
	}
	w := &vWriter{d: d, inst: in, j: pos, dest: dest}
	in.ws = append(in.ws, w)
	return w, nil
}

func vBatchID(p *coordinator.WritePointsRequest) int {
	if p == nil || len(p.Points) == 0 {
		return -1
	}
	n := string(p.Points[0].Name())
	if !strings.HasPrefix(n, "b") {
		return -1
	}
	id, err := strconv.Atoi(n[1:])
	if err != nil {
		return -1
	}
	return id
}

func (w *vWriter) WritePoints(p *coordinator.WritePointsRequest) error {
	d := w.d
	c := &vDestCall{inst: w.inst, j: w.j, b: vBatchID(p), rel: make(chan bool, 1), done: make(chan struct{})}
	if atomic.LoadInt32(&d.closeRet) != 0 {
		c.late = true
		atomic.AddInt32(&d.afterDone, 1)
	}
	// what the destination sees must be the batch of its own (database, retention policy) with all its points
	if c.b > 0 {
		exp := d.rpmap[w.inst.key.rp]
		if p.Database != exp[0] || p.RetentionPolicy != exp[1] || len(p.Points) != c.b {
			c.b = -2
		}
	}
	d.mu.Lock()
	open := d.open
	if !open {
		d.inflight = append(d.inflight, c)
	}
	d.mu.Unlock()
	ok := true
	if !open {
		d.destArr <- c
		select {
		case ok = <-c.rel:
		case <-time.After(8 * d.wd):
			d.infraf("gate watchdog: destination call not released")
		}
	}
	w.inst.mu.Lock()
	w.inst.att = append(w.inst.att, vAtt{J: w.j, B: c.b, Ok: ok})
	w.inst.mu.Unlock()
	if !open {
		d.mu.Lock()
		for i, x := range d.inflight {
			if x == c {
				d.inflight = append(d.inflight[:i], d.inflight[i+1:]...)
				break
			}
		}
		d.mu.Unlock()
	}
	close(c.done)
	if !ok {
		return fmt.Errorf("verif: destination %d refuses batch %d", w.dest, c.b)
	}
	return nil
}

// barrier ------------------------------------------------------------------------------------------

type vBarrierPoint struct {
	models.Point
	ch chan struct{}
}

func (p *vBarrierPoint) Name() []byte {
	select {
	case p.ch <- struct{}{}:
	default:
	}
	return p.Point.Name()
}

var vErrTimeout = fmt.Errorf("timeout")

// barrier returns when the run loop has finished everything that was in s.points before the call.
func (d *vDrv) barrier() error {
	bp := &vBarrierPoint{Point: models.MustNewPoint("barrier", nil, models.Fields{"v": 1.0}, time.Unix(0, 0)), ch: make(chan struct{}, 1)}
	req := &coordinator.WritePointsRequest{Database: "__barrier__", RetentionPolicy: "__barrier__", Points: []models.Point{bp}}
	select {
	case d.svc.points <- req:
	case <-time.After(d.wd):
		return vErrTimeout
	}
	select {
	case <-bp.ch:
		return nil
	case <-time.After(d.wd):
		return vErrTimeout
	}
}

// goroutine dump helpers ---------------------------------------------------------------------------

func vDump() string {
	buf := make([]byte, 1<<20)
	for {
		n := runtime.Stack(buf, true)
		if n < len(buf) {
			return string(buf[:n])
		}
		buf = make([]byte, 2*len(buf))
	}
}

// vGoroutines returns "state" of every goroutine whose stack contains the frame substring.
func vGoroutines(dump, frame string) []string {
	var out []string
	for _, g := range strings.Split(dump, "\n\n") {
		if strings.Contains(g, frame) {
			hdr := strings.SplitN(g, "\n", 2)[0]
			if i := strings.Index(hdr, "["); i >= 0 {
				out = append(out, strings.TrimSuffix(hdr[i+1:], "]:"))
			}
		}
	}
	return out
}

func vSubscriberGoroutines(dump string) []string {
	var out []string
	for _, g := range strings.Split(dump, "\n\n") {
		if strings.Contains(g, "services/subscriber.(*Service).run") || strings.Contains(g, "services/subscriber.(*Service).waitForMetaUpdates") ||
			strings.Contains(g, "services/subscriber.chanWriter.Run") || strings.Contains(g, "services/subscriber.(*Service).Open.func") {
			lines := strings.Split(g, "\n")
			if len(lines) > 7 {
				lines = lines[:7]
			}
			out = append(out, strings.Join(lines, " | "))
		}
	}
	return out
}

// ---------------------------------------------------------------------------------------------- replay

type vMismatch struct {
	sig, detail string
}

func (m *vMismatch) Error() string { return m.sig + ": " + m.detail }

type vInfra struct{ detail string }

func (m *vInfra) Error() string { return "infra: " + m.detail }

type vDiverged struct{ what string }

func (m *vDiverged) Error() string { return "diverged: " + m.what }

func (d *vDrv) setMeta(k vKey, def int) {
	d.mu.Lock()
	d.serial++
	d.meta[k] = vMetaEnt{d: def, serial: d.serial}
	close(d.changed)
	d.changed = make(chan struct{})
	d.mu.Unlock()
}

func (d *vDrv) awaitGate(ch chan *vGateCall, pend **vGateCall, want bool, what string) error {
	if want {
		if *pend != nil {
			return nil
		}
		select {
		case c := <-ch:
			*pend = c
			return nil
		case <-time.After(d.wd):
			return &vDiverged{"expected call of " + what + " did not come"}
		}
	}
	if *pend != nil {
		return &vMismatch{"gate:" + what + ":unexpected", "the real code is inside " + what + " where the model is not"}
	}
	select {
	case c := <-ch:
		*pend = c
		return &vMismatch{"gate:" + what + ":unexpected", "the real code called " + what + " where the model does not"}
	default:
	}
	return nil
}

type vRun struct {
	d        *vDrv
	wfdcPend *vGateCall
	dbPend   *vGateCall
	calls    map[string]*vDestCall // in flight, by "rp/name/inc/b"

	closeWatched bool
}

func vCallKey(rp, name string, inc, b int) string { return fmt.Sprintf("%s/%s/%d/b%d", rp, name, inc, b) }

// drainArrivals moves arrived destination calls into r.calls; an arrival the model does not expect is a mismatch.
func (r *vRun) awaitCalls(exp []vCall) error {
	want := map[string]vCall{}
	for _, c := range exp {
		want[vCallKey(c.RP, c.Name, c.Inc, c.B)] = c
	}
	take := func(c *vDestCall) error {
		k := vCallKey(c.inst.key.rp, c.inst.key.name, c.inst.ord, c.b)
		w, ok := want[k]
		if !ok {
			return &vMismatch{fmt.Sprintf("call:unexpected:%s", vModeOf(c.inst.def)),
				fmt.Sprintf("destination #%d of subscription %s/%s (chanWriter %d, def %d) was called with batch %d where the model expects the calls %v",
					c.j, c.inst.key.rp, c.inst.key.name, c.inst.ord, c.inst.def, c.b, exp)}
		}
		if old := r.calls[k]; old != nil && old != c {
			return &vMismatch{fmt.Sprintf("call:twice-in-flight:%s", vModeOf(c.inst.def)), fmt.Sprintf("batch %d is in two concurrent destination calls of %s/%s#%d", c.b, c.inst.key.rp, c.inst.key.name, c.inst.ord)}
		}
		if w.J != c.j {
			return &vMismatch{fmt.Sprintf("call:wrong-destination:%s", vModeOf(c.inst.def)),
				fmt.Sprintf("batch %d of %s/%s#%d went to destination #%d, the model (round robin / list order) says #%d", c.b, c.inst.key.rp, c.inst.key.name, c.inst.ord, c.j, w.J)}
		}
		r.calls[k] = c
		return nil
	}
	for {
		missing := ""
		for k := range want {
			if r.calls[k] == nil {
				missing = k
				break
			}
		}
		if missing == "" {
			break
		}
		select {
		case c := <-r.d.destArr:
			if err := take(c); err != nil {
				return err
			}
		case <-time.After(r.d.wd):
			return &vDiverged{"expected destination call " + missing + " did not come"}
		}
	}
	// nothing else may be in flight
	for {
		select {
		case c := <-r.d.destArr:
			if err := take(c); err != nil {
				return err
			}
			continue
		default:
		}
		break
	}
	for k := range r.calls {
		if _, ok := want[k]; !ok {
			return &vInfra{"driver lost track of call " + k}
		}
	}
	return nil
}

func vModeOf(def int) string { return vCatalog[def].mode }

func (d *vDrv) stats() (written, fail, cfail int) {
	st := d.svc.stats
	return int(atomic.LoadInt64(&st.PointsWritten)), int(atomic.LoadInt64(&st.WriteFailures)), int(atomic.LoadInt64(&st.CreateFailures))
}

// checkCounters: the counters are monotone.  While the service runs only an overshoot is definitive (the increment
// in chanWriter.Run happens after the destination call returned and nothing signals it); after Close has returned
// every goroutine of the service is gone and the values are final.
func (d *vDrv) checkCounters(p *vProj, final bool) error {
	w, f, c := d.stats()
	if w > p.Written || f > p.Fail || c > p.Cfail {
		return &vMismatch{"stats:service:over", fmt.Sprintf("service statistics pointsWritten=%d writeFailures=%d createFailures=%d exceed the model's %d/%d/%d", w, f, c, p.Written, p.Fail, p.Cfail)}
	}
	if final && (w != p.Written || f != p.Fail || c != p.Cfail) {
		return &vMismatch{"stats:service:under", fmt.Sprintf("service statistics pointsWritten=%d writeFailures=%d createFailures=%d after Close, the model says %d/%d/%d", w, f, c, p.Written, p.Fail, p.Cfail)}
	}
	return nil
}

func (r *vRun) compareAtt(p *vProj) error {
	d := r.d
	if p.Closed {
		// After Close has begun no barrier batch can be sent: an updateSubs whose Databases() call was released
		// just before may still be building its chanWriters.  Wait for the ones the model has.
		deadline := time.Now().Add(d.wd)
		for {
			missing := false
			d.mu.Lock()
			for _, cw := range p.Cws {
				if cw.Inc > len(d.insts[vKey{cw.RP, cw.Name}]) {
					missing = true
				}
			}
			d.mu.Unlock()
			if !missing || time.Now().After(deadline) {
				break
			}
			runtime.Gosched()
			time.Sleep(200 * time.Microsecond)
		}
	}
	d.mu.Lock()
	defer d.mu.Unlock()
	seen := map[*vInst]bool{}
	for _, cw := range p.Cws {
		k := vKey{cw.RP, cw.Name}
		var in *vInst
		if cw.Inc <= len(d.insts[k]) {
			in = d.insts[k][cw.Inc-1]
		}
		if in == nil {
			return &vMismatch{"subs:not-created:" + vModeOf(cw.Def), fmt.Sprintf("the model has chanWriter #%d for %s/%s (def %d), the service built only %d", cw.Inc, cw.RP, cw.Name, cw.Def, len(d.insts[k]))}
		}
		seen[in] = true
		if in.def != cw.Def {
			return &vMismatch{"subs:definition:" + vModeOf(cw.Def), fmt.Sprintf("chanWriter #%d of %s/%s was built from definition %d, model %d", cw.Inc, cw.RP, cw.Name, in.def, cw.Def)}
		}
		in.mu.Lock()
		got := append([]vAtt(nil), in.att...)
		in.mu.Unlock()
		if len(got) != len(cw.Att) {
			return &vMismatch{"att:count:" + vModeOf(cw.Def), fmt.Sprintf("%s/%s#%d: completed destination calls %v, model %v", cw.RP, cw.Name, cw.Inc, got, cw.Att)}
		}
		for i := range got {
			if got[i] != cw.Att[i] {
				return &vMismatch{"att:sequence:" + vModeOf(cw.Def), fmt.Sprintf("%s/%s#%d: completed destination calls %v, model %v", cw.RP, cw.Name, cw.Inc, got, cw.Att)}
			}
		}
	}
	for k, l := range d.insts {
		for _, in := range l {
			if !seen[in] {
				return &vMismatch{"subs:extra:" + vModeOf(in.def), fmt.Sprintf("the service built chanWriter #%d for %s/%s (def %d) that the model does not have", in.ord, k.rp, k.name, in.def)}
			}
		}
	}
	return nil
}

// compareSubs looks at s.subs (only legal while the run loop is idle: updateSubs holds subMu across Databases()).
func (r *vRun) compareSubs(p *vProj) error {
	d := r.d
	type real struct {
		ord, def, buflen, bufcap, nw int
		mode                        BalanceMode
	}
	got := map[vKey]real{}
	bad := ""
	d.svc.subMu.RLock()
	for se, cw := range d.svc.subs {
		bw, ok := cw.pw.(*balancewriter)
		if !ok || len(bw.writers) == 0 {
			bad = "chanWriter without balancewriter/destinations"
			continue
		}
		fw, ok := bw.writers[0].(*vWriter)
		if !ok {
			bad = "destination writer is not the fake"
			continue
		}
		mrp := ""
		for m, p := range d.rpmap {
			if p[0] == se.db && p[1] == se.rp {
				mrp = m
			}
		}
		k := vKey{mrp, se.name}
		if fw.inst.key != k {
			bad = fmt.Sprintf("s.subs[%v] writes to the destinations of %v", se, fw.inst.key)
		}
		got[k] = real{ord: fw.inst.ord, def: fw.inst.def, buflen: len(cw.writeRequests), bufcap: cap(cw.writeRequests), nw: len(bw.writers), mode: bw.bm}
	}
	d.svc.subMu.RUnlock()
	if bad != "" {
		return &vMismatch{"subs:wiring", bad}
	}
	if len(got) != len(p.Subs) {
		return &vMismatch{"subs:set", fmt.Sprintf("running subscriptions %v, model %v (metadata %v)", got, p.Subs, p.Meta)}
	}
	for _, s := range p.Subs {
		g, ok := got[vKey{s.RP, s.Name}]
		if !ok {
			return &vMismatch{"subs:set", fmt.Sprintf("running subscriptions %v, model %v (metadata %v)", got, p.Subs, p.Meta)}
		}
		if g.def != s.Def || g.ord != s.Inc {
			return &vMismatch{"subs:stale-definition", fmt.Sprintf("subscription %s/%s runs chanWriter #%d built from definition %d (%v); the metadata observed by the last update holds definition %d (%v), model chanWriter #%d",
				s.RP, s.Name, g.ord, g.def, vCatalog[g.def], s.Def, vCatalog[s.Def], s.Inc)}
		}
		def := vCatalog[s.Def]
		if g.nw != len(def.dests) || (def.mode == "ALL") != (g.mode == ALL) {
			return &vMismatch{"subs:wiring", fmt.Sprintf("subscription %s/%s: %d writers mode %v for definition %v", s.RP, s.Name, g.nw, g.mode, def)}
		}
		if g.buflen != len(s.Buf) {
			return &vMismatch{"buffer:length", fmt.Sprintf("subscription %s/%s#%d holds %d buffered batches, model %v", s.RP, s.Name, s.Inc, g.buflen, s.Buf)}
		}
	}
	return nil
}

func (r *vRun) verify(p *vProj, final bool) error {
	d := r.d
	if err := d.awaitGate(d.wfdcArr, &r.wfdcPend, p.Wpc == "get0" || p.Wpc == "get1", "WaitForDataChanged"); err != nil {
		return err
	}
	if err := d.awaitGate(d.dbArr, &r.dbPend, p.Rpc == "init" || p.Rpc == "upd", "Databases"); err != nil {
		return err
	}
	idle := p.Rpc == "idle" && !p.Closed
	if idle {
		if err := d.barrier(); err != nil {
			dump := vDump()
			st := vGoroutines(dump, "services/subscriber.(*Service).run")
			for _, s := range st {
				if strings.HasPrefix(s, "chan send") {
					return &vMismatch{"x02c:run-loop-blocked", fmt.Sprintf("the run loop does not take the next batch from Points(): its goroutine is in state %q (waiting for a subscription's buffer) while destinations are slow", s)}
				}
			}
			return &vDiverged{fmt.Sprintf("barrier batch not processed, run goroutine states %v", st)}
		}
	}
	if err := r.awaitCalls(p.Calls); err != nil {
		return err
	}
	if idle {
		if err := r.compareSubs(p); err != nil {
			return err
		}
	}
	if err := r.compareAtt(p); err != nil {
		return err
	}
	if p.Closed && !p.CloseRet && len(p.Calls) > 0 {
		// X02e: Close cannot have returned while destination calls are in flight (a writer goroutine is inside one).
		// Seeing it return is definitive; the window is only an observation aid (once per behaviour), nothing is
		// ever concluded from NOT seeing it.
		win := time.Duration(0)
		if !r.closeWatched {
			r.closeWatched = true
			win = 50 * time.Millisecond
		}
		select {
		case <-d.closeDone:
			return &vMismatch{"x02e:close-returned-early", fmt.Sprintf("Close() has returned while %d destination call(s) are still in flight %v: writer goroutines outlive Close", len(p.Calls), p.Calls)}
		case <-time.After(win):
		}
	}
	if idle || final {
		if err := d.checkCounters(p, final); err != nil {
			return err
		}
	}
	// X02d on the real state: quiescent => the running subscriptions are those of the current metadata
	if idle && p.Wpc == "wait" && p.Wch == p.Gen {
		d.mu.Lock()
		var wantKeys []string
		for k, e := range d.meta {
			if e.d != 0 && vCatalog[e.d].mode != "BAD" {
				wantKeys = append(wantKeys, fmt.Sprintf("%s/%s=def%d", k.rp, k.name, e.d))
			}
		}
		d.mu.Unlock()
		var have []string
		d.svc.subMu.RLock()
		for _, cw := range d.svc.subs {
			if bw, ok := cw.pw.(*balancewriter); ok && len(bw.writers) > 0 {
				if fw, ok := bw.writers[0].(*vWriter); ok {
					have = append(have, fmt.Sprintf("%s/%s=def%d", fw.inst.key.rp, fw.inst.key.name, fw.inst.def))
				}
			}
		}
		d.svc.subMu.RUnlock()
		sort.Strings(wantKeys)
		sort.Strings(have)
		if strings.Join(wantKeys, ",") != strings.Join(have, ",") {
			return &vMismatch{"x02d:not-converged", fmt.Sprintf("service quiescent (waiter parked on the current changed channel, run loop idle) but it runs %v while the metadata holds %v", have, wantKeys)}
		}
	}
	return nil
}

func (r *vRun) step(s *vStep) error {
	d := r.d
	switch s.A {
	case "Meta":
		d.setMeta(vKey{s.RP, s.Name}, s.N)
	case "GetRel":
		if r.wfdcPend == nil {
			return &vInfra{"GetRel without a pending call"}
		}
		close(r.wfdcPend.rel)
		select {
		case <-r.wfdcPend.done:
		case <-time.After(d.wd):
			return &vInfra{"WaitForDataChanged gate did not return"}
		}
		r.wfdcPend = nil
	case "UpdRel":
		if r.dbPend == nil {
			return &vInfra{"UpdRel without a pending call"}
		}
		close(r.dbPend.rel)
		select {
		case <-r.dbPend.done:
		case <-time.After(d.wd):
			return &vInfra{"Databases gate did not return"}
		}
		r.dbPend = nil
	case "Arrive":
		p := d.rpmap[s.RP]
		req := &coordinator.WritePointsRequest{Database: p[0], RetentionPolicy: p[1]}
		for i := 0; i < s.B; i++ {
			req.Points = append(req.Points, models.MustNewPoint(fmt.Sprintf("b%d", s.B), models.NewTags(map[string]string{"i": strconv.Itoa(i)}), models.Fields{"v": float64(i)}, time.Unix(int64(s.B), int64(i))))
		}
		d.sent[s.B] = s.RP
		select {
		case d.svc.Points() <- req:
		case <-time.After(d.wd):
			return &vDiverged{"Points() does not accept a batch"}
		}
	case "DestRet":
		k := vCallKey(s.RP, s.Name, s.N, s.B)
		c := r.calls[k]
		if c == nil {
			return &vInfra{"DestRet without a call in flight: " + k}
		}
		delete(r.calls, k)
		c.rel <- s.Ok
		select {
		case <-c.done:
		case <-time.After(d.wd):
			return &vInfra{"destination gate did not return"}
		}
	case "Close":
		go func() {
			d.svc.Close()
			atomic.StoreInt32(&d.closeRet, 1)
			close(d.closeDone)
		}()
	default:
		return &vInfra{"unknown step " + s.A}
	}
	return nil
}

// windDown opens every gate, closes the service and waits for Close to return.
func (r *vRun) windDown(closeStarted bool) error {
	d := r.d
	d.mu.Lock()
	d.open = true
	infl := append([]*vDestCall(nil), d.inflight...)
	d.mu.Unlock()
	if r.wfdcPend != nil {
		close(r.wfdcPend.rel)
		r.wfdcPend = nil
	}
	if r.dbPend != nil {
		close(r.dbPend.rel)
		r.dbPend = nil
	}
	for _, c := range infl {
		select {
		case c.rel <- true:
		default:
		}
	}
	stop := make(chan struct{})
	go func() { // calls that were on their way into a gate when it was opened
		for {
			select {
			case c := <-d.wfdcArr:
				close(c.rel)
			case c := <-d.dbArr:
				close(c.rel)
			case c := <-d.destArr:
				select {
				case c.rel <- true:
				default:
				}
			case <-stop:
				return
			}
		}
	}()
	defer close(stop)
	if !closeStarted {
		go func() {
			d.svc.Close()
			atomic.StoreInt32(&d.closeRet, 1)
			close(d.closeDone)
		}()
	}
	select {
	case <-d.closeDone:
		return nil
	case <-time.After(2 * d.wd):
		dump := vDump()
		w := vGoroutines(dump, "services/subscriber.chanWriter.Run")
		run := vGoroutines(dump, "services/subscriber.(*Service).run")
		leak := 0
		for _, s := range w {
			if strings.HasPrefix(s, "chan receive") {
				leak++
			}
		}
		if leak > 0 {
			return &vMismatch{"x02e:close-hangs:writer-never-told", fmt.Sprintf("Close() does not return although every destination answers: %d chanWriter.Run goroutines wait on a buffer nobody closes (run loop: %v)", leak, run)}
		}
		for _, s := range run {
			if strings.HasPrefix(s, "chan send") {
				return &vMismatch{"x02c:run-loop-blocked", fmt.Sprintf("Close() does not return: the run loop is in state %q", s)}
			}
		}
		return &vInfra{fmt.Sprintf("Close() does not return; writers %v run %v", w, run)}
	}
}

// predicates evaluates the property on the complete real history after Close returned (X02a, X02b, X02e).
func (d *vDrv) predicates(w int, idOrder bool) error {
	d.mu.Lock()
	defer d.mu.Unlock()
	if n := atomic.LoadInt32(&d.afterDone); n != 0 {
		return &vMismatch{"x02e:call-after-close", fmt.Sprintf("%d destination calls started after Close() had returned", n)}
	}
	for k, l := range d.insts {
		for _, in := range l {
			def := vCatalog[in.def]
			n := len(def.dests)
			in.mu.Lock()
			att := append([]vAtt(nil), in.att...)
			in.mu.Unlock()
			per := map[int][]vAtt{}
			var order []int
			for t, a := range att {
				if a.B <= 0 {
					return &vMismatch{"x02a:foreign-batch", fmt.Sprintf("%s/%s#%d received a batch that is not one of its (database, retention policy): %v", k.rp, k.name, in.ord, a)}
				}
				if d.sent[a.B] != k.rp {
					return &vMismatch{"x02a:foreign-batch", fmt.Sprintf("%s/%s#%d received batch %d written to %s", k.rp, k.name, in.ord, a.B, d.sent[a.B])}
				}
				if per[a.B] == nil {
					order = append(order, a.B)
				}
				per[a.B] = append(per[a.B], a)
				if w == 1 && a.J != t%n+1 {
					return &vMismatch{"x02b:round-robin:" + def.mode, fmt.Sprintf("%s/%s#%d: destination calls %v do not walk the %d destinations cyclically", k.rp, k.name, in.ord, att, n)}
				}
			}
			if w == 1 && !idOrder {
				// stress: batch id = sender * 100000 + sequence number; a sender's batches enter Points() in order
				last := map[int]int{}
				for _, b := range order {
					if b%100000 < last[b/100000] {
						return &vMismatch{"x02c:reordered:" + def.mode, fmt.Sprintf("%s/%s#%d: batches of sender %d attempted in order %v", k.rp, k.name, in.ord, b/100000, order)}
					}
					last[b/100000] = b % 100000
				}
			}
			if w == 1 && idOrder && !sort.IntsAreSorted(order) {
				return &vMismatch{"x02c:reordered:" + def.mode, fmt.Sprintf("%s/%s#%d: batches attempted in order %v", k.rp, k.name, in.ord, order)}
			}
			for b, as := range per {
				js := map[int]int{}
				oks := 0
				for i, a := range as {
					js[a.J]++
					if a.Ok {
						oks++
						if def.mode == "ANY" && i != len(as)-1 {
							return &vMismatch{"x02b:any:continues-after-success", fmt.Sprintf("%s/%s#%d batch %d: %v", k.rp, k.name, in.ord, b, as)}
						}
					}
				}
				for j, c := range js {
					if c > 1 {
						return &vMismatch{"x02b:" + strings.ToLower(def.mode) + ":destination-twice", fmt.Sprintf("%s/%s#%d batch %d went %d times to destination #%d: %v", k.rp, k.name, in.ord, b, c, j, as)}
					}
				}
				if def.mode == "ALL" && len(js) != n {
					return &vMismatch{"x02b:all:destination-missed", fmt.Sprintf("%s/%s#%d batch %d reached %d of %d destinations: %v", k.rp, k.name, in.ord, b, len(js), n, as)}
				}
				if def.mode == "ANY" && oks == 0 && len(js) != n {
					return &vMismatch{"x02b:any:gave-up", fmt.Sprintf("%s/%s#%d batch %d failed without trying every destination: %v", k.rp, k.name, in.ord, b, as)}
				}
				if def.mode == "ANY" && oks > 1 {
					return &vMismatch{"x02b:any:delivered-twice", fmt.Sprintf("%s/%s#%d batch %d: %v", k.rp, k.name, in.ord, b, as)}
				}
			}
		}
	}
	return nil
}

func vSettle(base int, wd time.Duration) (int, bool) {
	deadline := time.Now().Add(wd)
	for {
		n := runtime.NumGoroutine()
		if n <= base {
			return n, true
		}
		if time.Now().After(deadline) {
			return n, false
		}
		runtime.Gosched()
		time.Sleep(500 * time.Microsecond)
	}
}

// replayOne runs one behaviour.  Returns nil, *vMismatch or *vInfra.
func vReplayOne(t *testing.T, b *vBeh, idx int) (err error, steps int) {
	base := runtime.NumGoroutine()
	if b.RPMap != nil {
		idx = *b.RPMap
	} else {
		m := idx % len(vRPMaps)
		b.RPMap = &m
	}
	d := newVDrv(t, vRPMaps[idx%len(vRPMaps)])
	if len(b.Steps) == 0 {
		return &vInfra{"empty behaviour"}, 0
	}
	for _, m := range b.Steps[0].Pre.Meta {
		d.serial++
		d.meta[vKey{m.RP, m.Name}] = vMetaEnt{d: m.D, serial: d.serial}
	}
	c := NewConfig()
	c.WriteConcurrency = b.W
	c.WriteBufferSize = b.Buf
	s := NewService(c)
	s.MetaClient = d
	s.NewPointsWriter = d.newPointsWriter
	d.svc = s
	if e := s.Open(); e != nil {
		return &vInfra{"Open: " + e.Error()}, 0
	}
	r := &vRun{d: d, calls: map[string]*vDestCall{}}
	closeStarted := false
	var first error
	for i := range b.Steps {
		st := &b.Steps[i]
		if first = r.verify(&st.Pre, false); first != nil {
			first = vAt(first, i, st, "before")
			break
		}
		if first = r.step(st); first != nil {
			first = vAt(first, i, st, "in")
			break
		}
		if st.A == "Close" {
			closeStarted = true
		}
		steps++
	}
	if first == nil {
		select {
		case <-d.closeDone:
			first = r.verify(&b.Final, true)
			if first != nil {
				first = vAt(first, len(b.Steps), nil, "after Close")
			}
		case <-time.After(d.wd):
			first = &vDiverged{"Close() has not returned where the model says it has"}
		}
	}
	if first != nil {
		// wind down whatever happened, then let the property predicates speak
		if e := r.windDown(closeStarted); e != nil {
			if _, ok := first.(*vMismatch); !ok {
				first = e
			}
		}
	}
	select {
	case <-d.closeDone:
		if e := d.predicates(b.W, true); e != nil {
			if _, ok := first.(*vMismatch); !ok {
				first = e
			}
		}
		if n, ok := vSettle(base, d.wd); !ok {
			dump := vDump()
			if sg := vSubscriberGoroutines(dump); len(sg) > 0 {
				if _, ok := first.(*vMismatch); !ok {
					first = &vMismatch{"x02e:goroutine-leak", fmt.Sprintf("%d goroutines before Open, %d after Close returned; still in the service: %v", base, n, sg)}
				}
			} else if first == nil {
				first = &vInfra{fmt.Sprintf("goroutine count %d -> %d after Close, none of them in the subscriber", base, n)}
			}
		}
	default:
	}
	d.mu.Lock()
	inf := append([]string(nil), d.infra...)
	d.mu.Unlock()
	if first == nil && len(inf) > 0 {
		first = &vInfra{strings.Join(inf, "; ")}
	}
	if dv, ok := first.(*vDiverged); ok {
		first = &vInfra{"real code left the script and no property predicate failed: " + dv.what}
	}
	return first, steps
}

func vAt(e error, i int, st *vStep, where string) error {
	loc := fmt.Sprintf(" [%s step %d", where, i)
	if st != nil {
		loc += fmt.Sprintf(" %s %s/%s n=%d b=%d ok=%v", st.A, st.RP, st.Name, st.N, st.B, st.Ok)
	}
	loc += "]"
	switch x := e.(type) {
	case *vMismatch:
		return &vMismatch{x.sig, x.detail + loc}
	case *vDiverged:
		return &vDiverged{x.what + loc}
	case *vInfra:
		return &vInfra{x.detail + loc}
	}
	return e
}

// vProbeVariant tells which waiter protocol the code under test follows.
func vProbeVariant(t *testing.T) string {
	d := newVDrv(t, vRPMaps[0])
	s := NewService(NewConfig())
	s.MetaClient = d
	s.NewPointsWriter = d.newPointsWriter
	d.svc = s
	if err := s.Open(); err != nil {
		t.Fatalf("probe: %v", err)
	}
	d.mu.Lock()
	nsync := d.syncGets
	d.mu.Unlock()
	r := &vRun{d: d, calls: map[string]*vDestCall{}}
	r.windDown(false)
	if nsync > 0 {
		return "fixed"
	}
	return "late"
}

// TestVerifSubscriberProbe reports the waiter protocol of the tree under test (the orchestrator generates the
// behaviours of the matching model variant).
func TestVerifSubscriberProbe(t *testing.T) {
	if os.Getenv("VERIF_OUT") == "" {
		t.Skip("harness only")
	}
	vtrace.Done("TestVerifSubscriberProbe", map[string]interface{}{"variant": vProbeVariant(t)})
}

func TestVerifSubscriberReplay(t *testing.T) {
	var in vInput
	if err := vtrace.LoadJSON(os.Getenv("VERIF_IN"), &in); err != nil {
		t.Skip("no VERIF_IN")
	}
	if in.MaxSigs == 0 {
		in.MaxSigs = 4
	}
	variant := vProbeVariant(t)
	behs := in.Variants[variant]
	sigs := map[string]int{}
	nb, ns, held := 0, 0, 0
	var infra []string
	for i := range behs {
		b := &behs[i]
		err, steps := vReplayOne(t, b, i)
		nb++
		ns += steps
		switch e := err.(type) {
		case nil:
			held++
			if held <= 2 {
				var acts []string
				for _, s := range b.Steps {
					acts = append(acts, fmt.Sprintf("%s(%s/%s,%d,%d,%v)", s.A, s.RP, s.Name, s.N, s.B, s.Ok))
				}
				vtrace.Sample(map[string]interface{}{"variant": variant, "w": b.W, "buf": b.Buf, "steps": acts, "final_written": b.Final.Written, "final_fail": b.Final.Fail})
			}
		case *vMismatch:
			sigs[e.sig]++
			if sigs[e.sig] == 1 {
				vtrace.Mismatch(e.sig, e.detail, map[string]interface{}{"test": "replay", "variant": variant, "behaviour": b})
			}
		case *vInfra:
			infra = append(infra, fmt.Sprintf("behaviour %d: %s", i, e.detail))
		}
		total := 0
		for _, n := range sigs {
			total += n
		}
		if len(sigs) >= in.MaxSigs || total >= 8 || len(infra) >= 3 {
			break // enough evidence; every further failing behaviour costs watchdog time
		}
	}
	if len(infra) > 0 && len(sigs) == 0 {
		t.Fatalf("replay broken (variant %s): %s", variant, strings.Join(infra, "\n"))
	}
	vtrace.Done("TestVerifSubscriberReplay", map[string]interface{}{"behaviours": nb, "steps": ns, "held": held, "variant": variant,
		"signatures": sigs, "infra_notes": infra})
	if len(sigs) > 0 {
		t.Fail()
	}
}

// ---------------------------------------------------------------------------------------------- stress

// TestVerifSubscriberStress: real scheduling.  Senders write through a real coordinator.PointsWriter
// (WritePointsPrivileged -> non-blocking send to Service.Points() under its RLock; PointsWriter.Close, then
// Service.Close: the order of cmd/influxd/run/server.go), a metadata goroutine creates/drops/redefines subscriptions with the semantics of
// meta.Client (close + replace the changed channel), destinations answer at once (ok / error / after a yield).
// Checked: no panic, no data race (-race), property predicates on the full history, statistics against the fakes'
// own counts, no destination call after Close returned, goroutine count back to the level before Open.
func TestVerifSubscriberStress(t *testing.T) {
	if os.Getenv("VERIF_OUT") == "" {
		t.Skip("harness only")
	}
	rounds := vtrace.EnvInt("VERIF_ROUNDS", 20)
	rnd := rand.New(rand.NewSource(vtrace.Seed()))
	sigs := map[string]int{}
	var infra []string
	calls := 0
	bad := 0
	for round := 0; round < rounds && bad < 3 && len(infra) < 3; round++ {
		seed := rnd.Int63()
		err, n := vStressRound(t, seed, round)
		calls += n
		switch e := err.(type) {
		case *vMismatch:
			bad++
			sigs[e.sig]++
			if sigs[e.sig] == 1 {
				vtrace.Mismatch(e.sig, e.detail, map[string]interface{}{"test": "stress", "seed": seed, "round": round})
			}
		case *vInfra:
			infra = append(infra, e.detail)
		}
	}
	if len(infra) > 0 && len(sigs) == 0 {
		t.Fatalf("stress broken: %s", strings.Join(infra, "\n"))
	}
	vtrace.Done("TestVerifSubscriberStress", map[string]interface{}{"rounds": rounds, "destination_calls": calls, "signatures": sigs})
	if len(sigs) > 0 {
		t.Fail()
	}
}

type vPWMeta struct{}

func (vPWMeta) NodeID() uint64 { return 1 }
func (vPWMeta) Database(name string) *meta.DatabaseInfo {
	return &meta.DatabaseInfo{Name: name, DefaultRetentionPolicy: "rp0"}
}
func (vPWMeta) RetentionPolicy(database, policy string) (*meta.RetentionPolicyInfo, error) {
	return &meta.RetentionPolicyInfo{Name: policy, ReplicaN: 1}, nil
}
func (vPWMeta) CreateShardGroup(database, policy string, timestamp time.Time) (*meta.ShardGroupInfo, error) {
	return &meta.ShardGroupInfo{ID: 1, StartTime: time.Unix(-1000, 0), EndTime: time.Unix(1<<40, 0),
		Shards: []meta.ShardInfo{{ID: 1, Owners: []meta.ShardOwner{{NodeID: 1}}}}}, nil
}

type vPWStore struct{}

func (vPWStore) CreateShard(database, retentionPolicy string, shardID uint64, enabled bool) error {
	return nil
}
func (vPWStore) WriteToShard(shardID uint64, points []models.Point) error { return nil }

type vStressDest struct {
	d     *vDrv
	inst  *vInst
	j     int
	fail  int32 // every n-th call fails (0 = never)
	n     int32
	okPts int64
	fails int64
}

func (w *vStressDest) WritePoints(p *coordinator.WritePointsRequest) error {
	d := w.d
	if atomic.LoadInt32(&d.closeRet) != 0 {
		atomic.AddInt32(&d.afterDone, 1)
	}
	b := vBatchID(p)
	c := atomic.AddInt32(&w.n, 1)
	if c%3 == 0 {
		runtime.Gosched()
	}
	ok := !(w.fail > 0 && c%w.fail == 0)
	w.inst.mu.Lock()
	w.inst.att = append(w.inst.att, vAtt{J: w.j, B: b, Ok: ok})
	w.inst.mu.Unlock()
	if !ok {
		atomic.AddInt64(&w.fails, 1)
		return fmt.Errorf("verif: refused")
	}
	atomic.AddInt64(&w.okPts, int64(len(p.Points)))
	return nil
}

func vStressRound(t *testing.T, seed int64, round int) (err error, ncalls int) {
	rnd := rand.New(rand.NewSource(seed))
	base := runtime.NumGoroutine()
	d := newVDrv(t, vRPMaps[round%2])
	d.open = true
	c := NewConfig()
	c.WriteConcurrency = 1 + rnd.Intn(4)
	c.WriteBufferSize = 1 + rnd.Intn(3)
	s := NewService(c)
	s.MetaClient = d
	var dests []*vStressDest
	var dmu sync.Mutex
	failEvery := int32(rnd.Intn(4)) // 0: destinations never fail
	s.NewPointsWriter = func(u url.URL) (PointsWriter, error) {
		pw, e := d.newPointsWriter(u)
		if e != nil {
			return nil, e
		}
		fw := pw.(*vWriter)
		sd := &vStressDest{d: d, inst: fw.inst, j: fw.j}
		if failEvery > 0 && fw.dest == 2 {
			sd.fail = failEvery + 1
		}
		dmu.Lock()
		dests = append(dests, sd)
		dmu.Unlock()
		return sd, nil
	}
	d.svc = s
	keys := []vKey{{"r1", "a"}, {"r2", "a"}, {"r1", "b"}}
	d.meta[keys[0]] = vMetaEnt{d: 1 + rnd.Intn(4), serial: 1}
	d.serial = 1
	var panicked atomic.Value
	guard := func(what string) {
		if r := recover(); r != nil {
			panicked.Store(fmt.Sprintf("%s: %v", what, r))
		}
	}
	if e := s.Open(); e != nil {
		return &vInfra{e.Error()}, 0
	}
	// the real coordinator.PointsWriter in front of the service (one local shard, a store that accepts everything)
	pw := coordinator.NewPointsWriter()
	pw.MetaClient = vPWMeta{}
	pw.TSDBStore = vPWStore{}
	pw.Open()
	pw.AddWriteSubscriber(s.Points())
	var sentMu sync.Mutex
	var wg sync.WaitGroup
	stopMeta := make(chan struct{})
	nsend := 2 + rnd.Intn(3)
	per := 20 + rnd.Intn(60)
	for g := 0; g < nsend; g++ {
		wg.Add(1)
		lr := rand.New(rand.NewSource(seed + int64(g) + 1))
		g := g
		go func() {
			defer wg.Done()
			defer guard("sender")
			for i := 0; i < per; i++ {
				b := (g+1)*100000 + i + 1
				rp := []string{"r1", "r2"}[lr.Intn(2)]
				p := d.rpmap[rp]
				req := &coordinator.WritePointsRequest{Database: p[0], RetentionPolicy: p[1],
					Points: []models.Point{models.MustNewPoint(fmt.Sprintf("b%d", b), nil, models.Fields{"v": 1.0}, time.Unix(int64(b), 0))}}
				sentMu.Lock()
				d.sent[b] = rp
				sentMu.Unlock()
				rpArg := p[1]
				if p[1] == "rp0" && lr.Intn(3) == 0 {
					rpArg = "" // the default retention policy is resolved by the PointsWriter
				}
				pw.WritePointsPrivileged(p[0], rpArg, models.ConsistencyLevelOne, req.Points)
				if lr.Intn(4) == 0 {
					runtime.Gosched()
				}
			}
		}()
	}
	wg.Add(1)
	go func() {
		defer wg.Done()
		defer guard("meta")
		lr := rand.New(rand.NewSource(seed + 99))
		for i := 0; i < 30; i++ {
			select {
			case <-stopMeta:
				return
			default:
			}
			d.setMeta(keys[lr.Intn(len(keys))], lr.Intn(6))
			for y := lr.Intn(20); y > 0; y-- {
				runtime.Gosched()
			}
		}
	}()
	// let Close race with the senders and the metadata goroutine in a part of the rounds
	early := rnd.Intn(3) == 0
	if !early {
		wg.Wait()
	}
	closeDone := make(chan struct{})
	go func() {
		defer close(closeDone)
		defer guard("close")
		pw.Close() // the order of cmd/influxd/run/server.go: PointsWriter first
		s.Close()
		atomic.StoreInt32(&d.closeRet, 1)
	}()
	select {
	case <-closeDone:
	case <-time.After(4 * d.wd):
		dump := vDump()
		return &vMismatch{"x02e:close-hangs:stress", fmt.Sprintf("Close() did not return within %s with destinations that answer at once: %v", 4*d.wd, vSubscriberGoroutines(dump))}, 0
	}
	close(stopMeta)
	wg.Wait()
	if p := panicked.Load(); p != nil {
		return &vMismatch{"x02e:panic", fmt.Sprintf("%v (seed %d)", p, seed)}, 0
	}
	if n, ok := vSettle(base, d.wd); !ok {
		dump := vDump()
		if sg := vSubscriberGoroutines(dump); len(sg) > 0 {
			return &vMismatch{"x02e:goroutine-leak", fmt.Sprintf("%d goroutines before Open, %d after Close: %v", base, n, sg)}, 0
		}
		return &vInfra{fmt.Sprintf("goroutine count %d -> %d, none in the subscriber", base, n)}, 0
	}
	if e := d.predicates(c.WriteConcurrency, false); e != nil {
		return e, 0
	}
	// service level statistics against the history the fakes recorded
	var okPts, fails int64
	dmu.Lock()
	for _, sd := range dests {
		okPts += atomic.LoadInt64(&sd.okPts)
		fails += atomic.LoadInt64(&sd.fails)
		ncalls += int(atomic.LoadInt32(&sd.n))
	}
	dmu.Unlock()
	w, _, _ := d.stats()
	// pointsWritten counts a batch once per chanWriter that delivered it without any error
	clean := 0
	d.mu.Lock()
	for _, l := range d.insts {
		for _, in := range l {
			per := map[int]bool{}
			for _, a := range in.att {
				if v, ok := per[a.B]; !ok {
					per[a.B] = a.Ok
				} else {
					per[a.B] = v && a.Ok
				}
			}
			for _, v := range per {
				if v {
					clean++
				}
			}
		}
	}
	d.mu.Unlock()
	if w != clean {
		return &vMismatch{"stats:service:stress", fmt.Sprintf("pointsWritten=%d, the destinations saw %d batches delivered without an error (seed %d)", w, clean, seed)}, ncalls
	}
	return nil, ncalls
}

var _ = bytes.NewBuffer
var _ = json.Marshal
