package meta

// X01 (extra check: lease protocol) - verification harness, injected with `go test -overlay`, never part
// of the repository.
//
//   TestVerifLeaseTable    behaviours of specs/lease/LeaseGen.tla (GenMode "table") replayed IN REAL TIME on a
//                          real meta.Leases: the lease duration is D ticks + half a tick, every call of model
//                          instant k is made inside the first half of real tick k (measured; a call that was
//                          late makes the rest of that behaviour inconclusive, never a mismatch), so that
//                          "time.Now().After(expiration)" is decided exactly as "now > exp" in the model.
//   TestVerifLeaseHTTP     the same behaviours through handler.serveLease and Client.AcquireLease of a real
//                          one-node meta service (as TestMetaService_AcquireLease builds it).
//   TestVerifLeaseCluster  behaviours of GenMode "cluster" on a real three-node raft meta cluster: leadership
//                          moves by raft leadership transfer to the node the model names, followers stop and start
//                          again (a client whose FIRST configured server is the stopped one must still be
//                          served: X04), requests enter through any node (redirect to the leader), a final quorum loss
//                          gives 503.  The lease tables of all three handlers are compared with the model's
//                          tables after every step.
//
// Independently of the model, X01 is evaluated on the real answers with measured instants: a node is granted a
// lease only if every lease given by the same table to another node had expired by the END of the call, and is
// refused only if the owner's lease was still unexpired at the START of the call.

import (
	"fmt"
	"io"
	"net"
	"net/http"
	"net/url"
	"os"
	"path/filepath"
	"runtime"
	"sort"
	"strings"
	"sync"
	"testing"
	"time"

	"github.com/hashicorp/raft"
	"github.com/influxdata/influxdb/pkg/verifx/vtrace"
	"github.com/influxdata/influxdb/tcp"
	"github.com/influxdata/influxdb/toml"
)

const vlWatchdog = 60 * time.Second

type vlEntry struct {
	Owner int `json:"owner"`
	Exp   int `json:"exp"`
}

type vlSt struct {
	Now  int                           `json:"now"`
	Lead map[string]string             `json:"lead"`
	Tbl  map[string]map[string]vlEntry `json:"tbl"`
	Inc  map[string]int                `json:"inc"`
}

type vlStep struct {
	A     string `json:"a"`
	N     int    `json:"n"`
	Name  string `json:"name"`
	Via   string `json:"via"`
	Code  string `json:"code"`
	Kind  string `json:"kind"`
	Owner int    `json:"owner"`
	Exp   int    `json:"exp"`
	By    string `json:"by"`
	Hops  int    `json:"hops"`
	M     string `json:"m"`
	L     string `json:"l"`
	D     int    `json:"d"`
	St    *vlSt  `json:"st"`
	// cluster mode: the stopped meta nodes, which the client has in front of `via` in its server list
	Skipped []string `json:"skipped"`
}

type vlInput struct {
	Behaviours [][]vlStep `json:"behaviours"`
	TickMs     int        `json:"tick_ms"`
	Parallel   int        `json:"parallel"`
	MaxSigs    int        `json:"max_sigs"`
	// real-time drivers: the run is void (exit 2) when fewer than this share of the behaviours kept their schedule
	MinOnSchedulePct int `json:"min_on_schedule_pct"`
}

type vlMismatch struct{ sig, detail string }

// what one real answer looked like
type vlAnswer struct {
	ok     bool
	owner  uint64
	exp    time.Time
	hasL   bool
	errStr string
	t0, t1 time.Time
}

// the harness's own record of a table entry, built from the answers only
type vlHeld struct {
	owner uint64
	exp   time.Time
}

// vlJudge evaluates X01 on one answer of table `tbl` (map name -> held), independent of the model.
func vlJudge(held map[string]vlHeld, name string, n uint64, a vlAnswer, d time.Duration, wall bool) *vlMismatch {
	cur, has := held[name]
	if a.ok {
		if a.owner != n {
			return &vlMismatch{"x01:grant-owner", fmt.Sprintf("lease %q granted to node %d names owner %d", name, n, a.owner)}
		}
		if has && cur.owner != n && !cur.exp.Before(a.t1) {
			return &vlMismatch{"x01:double-grant", fmt.Sprintf("lease %q granted to node %d at [%s,%s] while node %d holds it until %s", name, n, vlT(a.t0), vlT(a.t1), cur.owner, vlT(cur.exp))}
		}
		lo, hi := a.t0.Add(d), a.t1.Add(d)
		if wall { // the expiration crossed JSON: wall clock, no monotonic reading
			lo, hi = lo.Add(-2*time.Millisecond), hi.Add(2*time.Millisecond)
		}
		if a.exp.Before(lo) || a.exp.After(hi) {
			return &vlMismatch{"x01:grant-expiry", fmt.Sprintf("lease %q granted to node %d during [%s,%s] expires %s, want call time + %s", name, n, vlT(a.t0), vlT(a.t1), vlT(a.exp), d)}
		}
		held[name] = vlHeld{n, a.exp}
		return nil
	}
	if !has {
		return &vlMismatch{"x01:refused-free", fmt.Sprintf("lease %q refused to node %d although nobody ever held it (%s)", name, n, a.errStr)}
	}
	if cur.owner == n {
		return &vlMismatch{"x01:refused-owner", fmt.Sprintf("lease %q refused to its owner %d (renewal) (%s)", name, n, a.errStr)}
	}
	if cur.exp.Before(a.t0) {
		return &vlMismatch{"x01:refused-expired", fmt.Sprintf("lease %q refused to node %d at [%s,%s] although node %d's lease expired %s", name, n, vlT(a.t0), vlT(a.t1), cur.owner, vlT(cur.exp))}
	}
	if a.hasL && (a.owner != cur.owner || !a.exp.Equal(cur.exp)) {
		return &vlMismatch{"x01:refusal-content", fmt.Sprintf("refusal of %q names owner %d until %s, the holder is %d until %s", name, a.owner, vlT(a.exp), cur.owner, vlT(cur.exp))}
	}
	return nil
}

func vlT(t time.Time) string { return t.Format("15:04:05.000000") }

func vlSleepUntil(t time.Time) {
	if d := time.Until(t); d > 0 {
		time.Sleep(d)
	}
}

// ---------------------------------------------------------------------------------------------
// real-time replay of "table" behaviours; acquire(name, node) is the real call

type vlRT struct {
	tick  time.Duration
	d     time.Duration
	wall  bool
	stats map[string]int
	mu    sync.Mutex
}

func (r *vlRT) count(k string, n int) { r.mu.Lock(); r.stats[k] += n; r.mu.Unlock() }

// replay one behaviour; acquire performs the real call, peek reads the real table entry (ok=false: absent)
func (r *vlRT) replay(beh []vlStep, prefix string, acquire func(name string, n int) vlAnswer, nodeID func(n int) uint64,
	peek func(name string) (uint64, time.Time, bool)) *vlMismatch {
	held := map[string]vlHeld{}
	base := time.Now().Add(30 * time.Millisecond)
	k := 0
	var last vlAnswer
	var lastName string
	var lastN int
	onSchedule := true
	for si, st := range beh {
		switch st.A {
		case "init":
		case "tick":
			k++
		case "send":
			vlSleepUntil(base.Add(time.Duration(k)*r.tick + r.tick/16))
			lastName, lastN = prefix+st.Name, st.N
			last = acquire(lastName, st.N)
			r.count("calls", 1)
			lo, hi := base.Add(time.Duration(k)*r.tick), base.Add(time.Duration(k)*r.tick+r.tick/2)
			if last.t0.Before(lo) || !last.t1.Before(hi) {
				onSchedule = false
			}
			if mm := vlJudge(held, lastName, nodeID(st.N), last, r.d, r.wall); mm != nil {
				mm.detail = fmt.Sprintf("step %d: %s", si, mm.detail)
				return mm
			}
		case "hop":
		case "resp":
			if !onSchedule {
				// the call left its half tick: the model's answer is no longer implied; X01 was judged above
				r.count("behaviours_off_schedule", 1)
				return nil
			}
			wantOK := st.Code == "ok"
			if st.Code != "ok" && st.Code != "conflict" {
				return &vlMismatch{"harness:code", "unexpected model code " + st.Code}
			}
			if last.ok != wantOK {
				return &vlMismatch{"lease:" + st.Kind, fmt.Sprintf("step %d tick %d: node %d asks for %q: real ok=%v (%s), model %s/%s owner %d exp %d", si, k, lastN, lastName, last.ok, last.errStr, st.Code, st.Kind, st.Owner, st.Exp)}
			}
			if last.hasL && last.owner != nodeID(st.Owner) {
				return &vlMismatch{"lease:owner", fmt.Sprintf("step %d: answer names owner %d, model %d", si, last.owner, nodeID(st.Owner))}
			}
			r.count("kind_"+st.Kind, 1)
			// projection: the real table entry = what the answers said = the model's entry
			o, e, ok := peek(lastName)
			h := held[lastName]
			if !ok || o != h.owner || !e.Equal(h.exp) || o != nodeID(st.St.Tbl[st.By][st.Name].Owner) {
				return &vlMismatch{"lease:proj", fmt.Sprintf("step %d: table entry of %q: present=%v owner %d exp %s; answers say owner %d exp %s; model owner %d", si, lastName, ok, o, vlT(e), h.owner, vlT(h.exp), st.St.Tbl[st.By][st.Name].Owner)}
			}
			// the model's expiry tick: real exp lies in the second half of tick exp
			got := int((e.Sub(base) - r.tick/2) / r.tick)
			if got != st.St.Tbl[st.By][st.Name].Exp {
				return &vlMismatch{"lease:proj-exp", fmt.Sprintf("step %d tick %d: table entry of %q expires in tick %d, model %d", si, k, lastName, got, st.St.Tbl[st.By][st.Name].Exp)}
			}
		default:
			return &vlMismatch{"harness:step", "unknown step " + st.A}
		}
	}
	r.count("behaviours_on_schedule", 1)
	return nil
}

func vlRunAll(t *testing.T, test string, in *vlInput, r *vlRT, one func(i int, beh []vlStep) *vlMismatch) {
	if in.Parallel == 0 {
		in.Parallel = 48
	}
	if in.MaxSigs == 0 {
		in.MaxSigs = 3
	}
	var mu sync.Mutex
	sigs := map[string]bool{}
	steps := 0
	work := make(chan int)
	var wg sync.WaitGroup
	for w := 0; w < in.Parallel; w++ {
		wg.Add(1)
		go func() {
			defer wg.Done()
			for i := range work {
				mm := one(i, in.Behaviours[i])
				mu.Lock()
				steps += len(in.Behaviours[i])
				if mm != nil && !sigs[mm.sig] && len(sigs) < in.MaxSigs {
					sigs[mm.sig] = true
					vtrace.Mismatch(mm.sig, mm.detail, map[string]interface{}{"test": test, "behaviour": in.Behaviours[i], "tick_ms": in.TickMs})
				}
				mu.Unlock()
			}
		}()
	}
	for i := range in.Behaviours {
		work <- i
	}
	close(work)
	wg.Wait()
	out := map[string]interface{}{"behaviours": len(in.Behaviours), "steps": steps, "mismatches": len(sigs)}
	for k, v := range r.stats {
		out[k] = v
	}
	// the binding needs real time to behave: when most behaviours fell off their schedule the run says nothing
	if in.MinOnSchedulePct == 0 {
		in.MinOnSchedulePct = 50
	}
	if r.stats["behaviours_on_schedule"]*100 < in.MinOnSchedulePct*len(in.Behaviours) && len(sigs) == 0 {
		t.Fatalf("INFRA: only %d of %d behaviours stayed on their real-time schedule (machine too loaded for tick %s)", r.stats["behaviours_on_schedule"], len(in.Behaviours), r.tick)
	}
	vtrace.Done(test, out)
	if len(sigs) > 0 {
		t.Fail()
	}
}

// input file of a driver: $VERIF_IN_<KIND> (several drivers in one `go test` run) or $VERIF_IN
func vlLoad(t *testing.T, kind string) *vlInput {
	var in vlInput
	path := os.Getenv("VERIF_IN_" + kind)
	if path == "" {
		path = os.Getenv("VERIF_IN")
	}
	if err := vtrace.LoadJSON(path, &in); err != nil {
		t.Fatalf("input: %v", err)
	}
	if len(in.Behaviours) == 0 || in.Behaviours[0][0].A != "init" {
		t.Fatalf("input: no behaviours / no init record")
	}
	if in.TickMs == 0 {
		in.TickMs = 200
	}
	return &in
}

func TestVerifLeaseTable(t *testing.T) {
	in := vlLoad(t, "TABLE")
	tick := time.Duration(in.TickMs) * time.Millisecond
	d := time.Duration(in.Behaviours[0][0].D)*tick + tick/2
	r := &vlRT{tick: tick, d: d, stats: map[string]int{}}
	vlRunAll(t, "TestVerifLeaseTable", in, r, func(i int, beh []vlStep) *vlMismatch {
		leases := NewLeases(d)
		// an answer is a value: what a caller was told must not change under it when the table changes later
		// (serveLease marshals the answer after Acquire has released the table's lock)
		type given struct {
			p     *Lease
			owner uint64
			exp   time.Time
		}
		var answers []given
		changed := ""
		acquire := func(name string, n int) vlAnswer {
			var a vlAnswer
			a.t0 = time.Now()
			l, err := leases.Acquire(name, uint64(n))
			if l != nil {
				a.hasL, a.owner, a.exp = true, l.Owner, l.Expiration
			}
			a.t1 = time.Now()
			a.ok = err == nil
			if err != nil {
				a.errStr = err.Error()
			}
			for _, g := range answers {
				if changed == "" && (g.p.Owner != g.owner || !g.p.Expiration.Equal(g.exp)) {
					changed = fmt.Sprintf("an earlier answer (owner %d until %s) reads owner %d until %s after node %d asked for %q", g.owner, vlT(g.exp), g.p.Owner, vlT(g.p.Expiration), n, name)
				}
			}
			if l != nil {
				answers = append(answers, given{l, l.Owner, l.Expiration})
			}
			return a
		}
		peek := func(name string) (uint64, time.Time, bool) {
			leases.mu.Lock()
			defer leases.mu.Unlock()
			l := leases.m[name]
			if l == nil {
				return 0, time.Time{}, false
			}
			return l.Owner, l.Expiration, true
		}
		mm := r.replay(beh, "", acquire, func(n int) uint64 { return uint64(n) }, peek)
		if mm == nil && changed != "" {
			mm = &vlMismatch{"x01:answer-changed", changed}
		}
		return mm
	})
}

// ---------------------------------------------------------------------------------------------
// one-node service, real clients

type vlSvc struct {
	name string
	cfg  *Config
	svc  *Service
	ln   net.Listener
	done chan error
}

func vlFreeAddr() string {
	l, err := net.Listen("tcp", "127.0.0.1:0")
	if err != nil {
		panic(err)
	}
	defer l.Close()
	return l.Addr().String()
}

func vlStart(t *testing.T, n *vlSvc) {
	var ln net.Listener
	var err error
	for try := 0; try < 100; try++ {
		if ln, err = net.Listen("tcp", n.cfg.BindAddress); err == nil {
			break
		}
		time.Sleep(100 * time.Millisecond)
	}
	if err != nil {
		t.Fatalf("INFRA: listen %s: %v", n.cfg.BindAddress, err)
	}
	mux := tcp.NewMux()
	svc := NewService(n.cfg)
	svc.RaftListener = mux.Listen(MuxHeader)
	go mux.Serve(ln)
	n.svc, n.ln, n.done = svc, ln, make(chan error, 1)
	go func(done chan error) { done <- svc.Open() }(n.done)
}

// vlGuard runs a call into the real code that must come back; if it does not, the driver is void (exit 2) and
// says where the code is stuck.
func vlGuard(what string, d time.Duration, fn func()) {
	done := make(chan struct{})
	go func() { fn(); close(done) }()
	select {
	case <-done:
	case <-time.After(d):
		buf := make([]byte, 1<<22)
		buf = buf[:runtime.Stack(buf, true)]
		var keep []string
		for _, g := range strings.Split(string(buf), "\n\n") {
			if strings.Contains(g, "services/meta") || strings.Contains(g, "hashicorp/raft") {
				keep = append(keep, g)
			}
		}
		dump := strings.Join(keep, "\n\n")
		if dir := os.Getenv("VERIF_HANG_DIR"); dir != "" {
			os.WriteFile(filepath.Join(dir, fmt.Sprintf("x01-hang-%d.txt", os.Getpid())), buf, 0644)
		}
		if len(dump) > 6000 {
			dump = dump[:6000]
		}
		fmt.Printf("goroutines in services/meta and raft:\n%s\nINFRA: %s did not return within %s\n", dump, what, d)
		vtrace.Out(map[string]interface{}{"k": "infra", "what": what + " did not return"})
		os.Exit(3)
	}
}

func vlStop(n *vlSvc) {
	if n.svc != nil {
		svc := n.svc
		vlGuard("Service.Close of "+n.name, 2*vlWatchdog, func() { svc.Close() })
		n.ln.Close()
		n.svc = nil
	}
}

func vlWaitFor(t *testing.T, what string, d time.Duration, cond func() bool) {
	deadline := time.Now().Add(d)
	for !cond() {
		if time.Now().After(deadline) {
			t.Fatalf("INFRA: timeout (%s) waiting for %s", d, what)
		}
		time.Sleep(10 * time.Millisecond)
	}
}

var vlHTTP = &http.Client{Timeout: 10 * time.Second}

func vlWaitHTTP(t *testing.T, n *vlSvc) {
	vlWaitFor(t, "http of "+n.name, vlWatchdog, func() bool {
		resp, err := vlHTTP.Get("http://" + n.cfg.HTTPBindAddress + "/status")
		if err != nil {
			return false
		}
		resp.Body.Close()
		return resp.StatusCode == 200
	})
}

func vlOpenClient(t *testing.T, cfg *Config, servers []string, tcpAddr string) *Client {
	c := NewClient(cfg)
	c.SetMetaServers(servers)
	c.SetTCPAddr(tcpAddr)
	done := make(chan error, 1)
	go func() { done <- c.Open() }()
	select {
	case err := <-done:
		if err != nil {
			t.Fatalf("INFRA: client open: %v", err)
		}
	case <-time.After(vlWatchdog):
		t.Fatalf("INFRA: client could not open within %s", vlWatchdog)
	}
	return c
}

func vlAnswerOf(l *Lease, err error, t0, t1 time.Time) vlAnswer {
	a := vlAnswer{t0: t0, t1: t1, ok: err == nil}
	if l != nil {
		a.hasL, a.owner, a.exp = true, l.Owner, l.Expiration
	}
	if err != nil {
		a.errStr = err.Error()
	}
	return a
}

func TestVerifLeaseHTTP(t *testing.T) {
	in := vlLoad(t, "HTTP")
	tick := time.Duration(in.TickMs) * time.Millisecond
	d := time.Duration(in.Behaviours[0][0].D)*tick + tick/2
	root, err := os.MkdirTemp(os.Getenv("VERIF_SCRATCH"), "leasehttp")
	if err != nil {
		t.Fatal(err)
	}
	defer os.RemoveAll(root)
	cfg := NewConfig()
	cfg.Dir = filepath.Join(root, "m1")
	cfg.BindAddress = vlFreeAddr()
	cfg.HTTPBindAddress = vlFreeAddr()
	cfg.SingleServer = true
	cfg.LeaseDuration = toml.Duration(d)
	n := &vlSvc{name: "m1", cfg: cfg}
	vlStart(t, n)
	defer vlStop(n)
	select {
	case err := <-n.done:
		if err != nil {
			t.Fatalf("INFRA: open: %v", err)
		}
	case <-time.After(vlWatchdog):
		t.Fatalf("INFRA: single-node meta service did not open")
	}
	nn := 0
	for _, b := range in.Behaviours {
		for _, s := range b {
			if s.N > nn {
				nn = s.N
			}
		}
	}
	clients := make([]*Client, nn+1)
	for i := 1; i <= nn; i++ {
		ccfg := NewConfig()
		ccfg.Dir = filepath.Join(root, fmt.Sprintf("c%d", i))
		os.MkdirAll(ccfg.Dir, 0755)
		tcpa := fmt.Sprintf("data%d:8088", i)
		c := vlOpenClient(t, ccfg, []string{n.svc.HTTPAddr()}, tcpa)
		defer c.Close()
		if _, err := c.CreateDataNode(fmt.Sprintf("data%d:8086", i), tcpa); err != nil {
			t.Fatalf("INFRA: CreateDataNode: %v", err)
		}
		if c.NodeID() == 0 {
			t.Fatalf("INFRA: client %d has no node id", i)
		}
		clients[i] = c
	}
	leases := n.svc.handler.leases
	r := &vlRT{tick: tick, d: d, wall: true, stats: map[string]int{}}
	vlRunAll(t, "TestVerifLeaseHTTP", in, r, func(i int, beh []vlStep) *vlMismatch {
		acquire := func(name string, nd int) vlAnswer {
			t0 := time.Now()
			l, err := clients[nd].AcquireLease(name)
			t1 := time.Now()
			a := vlAnswerOf(l, err, t0, t1)
			if err != nil && err.Error() != "another node owns the lease" {
				a.errStr = "UNEXPECTED ERROR: " + err.Error()
			}
			return a
		}
		peek := func(name string) (uint64, time.Time, bool) {
			leases.mu.Lock()
			defer leases.mu.Unlock()
			l := leases.m[name]
			if l == nil {
				return 0, time.Time{}, false
			}
			return l.Owner, l.Expiration, true
		}
		nodeID := func(nd int) uint64 {
			if nd == 0 {
				return 0
			}
			return clients[nd].NodeID()
		}
		mm := r.replay(beh, fmt.Sprintf("b%d.", i), acquire, nodeID, peek)
		return mm
	})
}

// TestVerifLeaseClosing: the answers of the lease endpoint are 200 / 409 / 307 / 503 (/ 400 for a malformed
// request) in every state of the node - the model's codes ok / conflict / (redirect) / unavailable.  A node that
// is shutting down (Service.Close closed the store; connections accepted before are still served) knows no
// leader: 503, as for Restart in Lease.tla.  A handler crash (recovered: 500 "meta service internal error") is
// none of them.
func TestVerifLeaseClosing(t *testing.T) {
	root, err := os.MkdirTemp(os.Getenv("VERIF_SCRATCH"), "leaseclosing")
	if err != nil {
		t.Fatal(err)
	}
	defer os.RemoveAll(root)
	cfg := NewConfig()
	cfg.Dir = filepath.Join(root, "m1")
	cfg.BindAddress = vlFreeAddr()
	cfg.HTTPBindAddress = vlFreeAddr()
	cfg.SingleServer = true
	cfg.LeaseDuration = toml.Duration(time.Minute)
	n := &vlSvc{name: "m1", cfg: cfg}
	vlStart(t, n)
	select {
	case err := <-n.done:
		if err != nil {
			t.Fatalf("INFRA: open: %v", err)
		}
	case <-time.After(vlWatchdog):
		t.Fatalf("INFRA: single-node meta service did not open")
	}
	ccfg := NewConfig()
	ccfg.Dir = filepath.Join(root, "c")
	cl := NewClient(ccfg)
	cl.SetMetaServers([]string{cfg.HTTPBindAddress})
	cl.mu.Lock()
	cl.nodeID = 7
	cl.mu.Unlock()
	if l, err := cl.acquireLease("closing"); err != nil || l == nil || l.Owner != 7 {
		t.Fatalf("INFRA: first lease request failed: %v", err)
	}
	// the same kept-alive connection, after the service was closed
	vlStop(n)
	_, err = cl.acquireLease("closing")
	res := "nil"
	if err != nil {
		res = err.Error()
	}
	if err == nil || strings.Contains(res, "internal error") {
		vtrace.Mismatch("lease:closing", "a lease request served by a meta node that is shutting down: "+res+" (want 503 / a transport error)", map[string]interface{}{"test": "TestVerifLeaseClosing"})
		vtrace.Done("TestVerifLeaseClosing", map[string]interface{}{"mismatches": 1, "answer": res})
		t.FailNow()
	}
	vtrace.Done("TestVerifLeaseClosing", map[string]interface{}{"mismatches": 0, "answer": res})
}

// TestVerifLeaseAnswerStress (thorough tier, built with -race): several nodes ask one meta node for the same
// lease at the same time, the lease is short, so renewals, refusals and take-overs interleave inside the
// handler.  Every answer must be well formed; the race detector watches serveLease reading the answer while
// another request changes the table entry (the orchestrator looks for its report).
func TestVerifLeaseAnswerStress(t *testing.T) {
	root, err := os.MkdirTemp(os.Getenv("VERIF_SCRATCH"), "leasestress")
	if err != nil {
		t.Fatal(err)
	}
	defer os.RemoveAll(root)
	cfg := NewConfig()
	cfg.Dir = filepath.Join(root, "m1")
	cfg.BindAddress = vlFreeAddr()
	cfg.HTTPBindAddress = vlFreeAddr()
	cfg.SingleServer = true
	cfg.LeaseDuration = toml.Duration(3 * time.Millisecond)
	n := &vlSvc{name: "m1", cfg: cfg}
	vlStart(t, n)
	defer vlStop(n)
	select {
	case err := <-n.done:
		if err != nil {
			t.Fatalf("INFRA: open: %v", err)
		}
	case <-time.After(vlWatchdog):
		t.Fatalf("INFRA: single-node meta service did not open")
	}
	rounds := vtrace.EnvInt("VERIF_ROUNDS", 300)
	var wg sync.WaitGroup
	var mu sync.Mutex
	bad := ""
	counts := map[string]int{}
	for w := 1; w <= 4; w++ {
		wg.Add(1)
		go func(w int) {
			defer wg.Done()
			ccfg := NewConfig()
			ccfg.Dir = filepath.Join(root, fmt.Sprintf("c%d", w))
			cl := NewClient(ccfg)
			cl.SetMetaServers([]string{cfg.HTTPBindAddress})
			cl.mu.Lock()
			cl.nodeID = uint64(1 + w%2)
			cl.mu.Unlock()
			for i := 0; i < rounds; i++ {
				l, err := cl.acquireLease("stress")
				mu.Lock()
				switch {
				case err == nil && l != nil && l.Owner == uint64(1+w%2) && l.Name == "stress":
					counts["granted"]++
				case err != nil && err.Error() == "another node owns the lease" && l != nil && l.Owner != uint64(1+w%2) && l.Owner != 0:
					counts["refused"]++
				default:
					if bad == "" {
						bad = fmt.Sprintf("node %d got lease %+v err %v", 1+w%2, l, err)
					}
				}
				mu.Unlock()
			}
		}(w)
	}
	wg.Wait()
	if bad != "" {
		vtrace.Mismatch("x01:answer-malformed", bad, map[string]interface{}{"test": "TestVerifLeaseAnswerStress"})
	}
	vtrace.Done("TestVerifLeaseAnswerStress", map[string]interface{}{"granted": counts["granted"], "refused": counts["refused"]})
	if bad != "" {
		t.Fail()
	}
}

// ---------------------------------------------------------------------------------------------
// three-node cluster

type vlCluster struct {
	t     *testing.T
	nodes []*vlSvc
	root  string
}

func (c *vlCluster) leader() *vlSvc {
	for _, n := range c.nodes {
		if n.svc != nil && n.svc.store != nil && n.svc.store.isLeader() {
			return n
		}
	}
	return nil
}

func (c *vlCluster) byAddr(http string) *vlSvc {
	for _, n := range c.nodes {
		if n.cfg.HTTPBindAddress == http {
			return n
		}
	}
	return nil
}

// everyone who is up sees l as the leader
func (c *vlCluster) converged(l *vlSvc) bool {
	if l == nil || l.svc == nil || !l.svc.store.isLeader() {
		return false
	}
	for _, n := range c.nodes {
		if n.svc == nil || n.svc.store == nil {
			continue
		}
		if n.svc.store.leaderHTTP() != l.cfg.HTTPBindAddress {
			return false
		}
	}
	return true
}

func (c *vlCluster) transfer(to *vlSvc) {
	for try := 0; try < 20; try++ {
		cur := c.leader()
		if cur == to && c.converged(to) {
			return
		}
		if cur != nil && cur != to {
			rs := cur.svc.store.raftState
			vlGuard("raft leadership transfer", vlWatchdog, func() {
				f := rs.raft.LeadershipTransferToServer(raft.ServerID(to.svc.RaftAddr()), raft.ServerAddress(to.svc.RaftAddr()))
				f.Error() // a failed transfer is retried below
			})
		}
		deadline := time.Now().Add(5 * time.Second)
		for time.Now().Before(deadline) && !c.converged(to) {
			time.Sleep(10 * time.Millisecond)
		}
	}
	c.t.Fatalf("INFRA: could not move raft leadership to %s", to.name)
}

func (c *vlCluster) join() {
	for _, n := range c.nodes {
		for try := 1; ; try++ {
			resp, err := (&http.Client{Timeout: vlWatchdog}).PostForm("http://"+c.nodes[0].cfg.HTTPBindAddress+"/join", url.Values{"addr": {n.cfg.HTTPBindAddress}})
			if err != nil {
				c.t.Fatalf("INFRA: join %s: %v", n.name, err)
			}
			b, _ := io.ReadAll(resp.Body)
			resp.Body.Close()
			if resp.StatusCode == 200 {
				break
			}
			if try == 10 {
				c.t.Fatalf("INFRA: join %s: %s %s", n.name, resp.Status, b)
			}
			for deadline := time.Now().Add(5 * time.Second); c.leader() == nil && time.Now().Before(deadline); {
				time.Sleep(20 * time.Millisecond)
			}
		}
	}
}

func vlNewCluster(t *testing.T, leaseD time.Duration) *vlCluster {
	root, err := os.MkdirTemp(os.Getenv("VERIF_SCRATCH"), "leasecluster")
	if err != nil {
		t.Fatal(err)
	}
	c := &vlCluster{t: t, root: root}
	for i := 0; i < 3; i++ {
		cfg := NewConfig()
		cfg.Dir = filepath.Join(root, fmt.Sprintf("n%d", i+1))
		cfg.BindAddress = vlFreeAddr()
		cfg.HTTPBindAddress = vlFreeAddr()
		// generous timeouts: leadership must move only when the driver moves it
		cfg.ElectionTimeout = toml.Duration(3 * time.Second)
		cfg.HeartbeatTimeout = toml.Duration(3 * time.Second)
		cfg.LeaderLeaseTimeout = toml.Duration(1500 * time.Millisecond)
		cfg.LeaseDuration = toml.Duration(leaseD)
		c.nodes = append(c.nodes, &vlSvc{name: fmt.Sprintf("n%d", i+1), cfg: cfg})
	}
	for _, n := range c.nodes {
		vlStart(t, n)
	}
	for _, n := range c.nodes {
		vlWaitHTTP(t, n)
	}
	c.join()
	for _, n := range c.nodes {
		select {
		case err := <-n.done:
			if err != nil {
				t.Fatalf("INFRA: open %s: %v", n.name, err)
			}
		case <-time.After(vlWatchdog):
			t.Fatalf("INFRA: %s did not open", n.name)
		}
	}
	for _, n := range c.nodes {
		n := n
		vlWaitFor(t, n.name+" to see 3 meta nodes", vlWatchdog, func() bool { return len(n.svc.store.metaServersHTTP()) == 3 })
	}
	return c
}

func (c *vlCluster) close() {
	for _, n := range c.nodes {
		vlStop(n)
	}
	os.RemoveAll(c.root)
}

// restart a stopped or running node with its directory kept (raft state on disk, lease table gone)
func (c *vlCluster) restart(n *vlSvc) {
	vlStop(n)
	vlStart(c.t, n)
	vlWaitHTTP(c.t, n)
	select {
	case err := <-n.done:
		if err != nil {
			c.t.Fatalf("INFRA: reopen %s: %v", n.name, err)
		}
	case <-time.After(vlWatchdog):
		c.t.Fatalf("INFRA: %s did not reopen", n.name)
	}
}

func vlPeek(n *vlSvc, name string) (uint64, time.Time, bool) {
	ls := n.svc.handler.leases
	ls.mu.Lock()
	defer ls.mu.Unlock()
	l := ls.m[name]
	if l == nil {
		return 0, time.Time{}, false
	}
	return l.Owner, l.Expiration, true
}

type vlClusterCase struct {
	c      *vlCluster
	beh    []vlStep
	prefix string
	real   map[string]*vlSvc // model meta id -> real node
	held   map[string]map[string]vlHeld
	cl     map[string]*Client
	stats  map[string]int
	// what each data node believes it holds: name -> node -> (exp, granter)
	belief map[string]map[int]vlHeld
}

// client of data node n whose configured server list is: the stopped nodes, then via, then the others
func (cc *vlClusterCase) client(n int, via *vlSvc, skipped []*vlSvc) *Client {
	k := fmt.Sprintf("%d@%s", n, via.name)
	servers := []string{}
	for _, x := range skipped {
		k += "-" + x.name
		servers = append(servers, x.cfg.HTTPBindAddress)
	}
	if cl := cc.cl[k]; cl != nil {
		return cl
	}
	servers = append(servers, via.cfg.HTTPBindAddress)
	for _, x := range cc.c.nodes {
		listed := x == via
		for _, y := range skipped {
			listed = listed || x == y
		}
		if !listed {
			servers = append(servers, x.cfg.HTTPBindAddress)
		}
	}
	cfg := NewConfig()
	cfg.Dir = filepath.Join(cc.c.root, "cl-"+k)
	cl := NewClient(cfg) // never opened: no polling goroutine rewrites its server list
	cl.SetMetaServers(servers)
	cl.mu.Lock()
	cl.nodeID = uint64(n)
	cl.mu.Unlock()
	cc.cl[k] = cl
	return cl
}

// a stopped Service keeps serving the connections it already accepted (http.Serve has no shutdown here): in one
// process a kept-alive connection would reach the handler of the stopped incarnation.  A real client of a dead
// process gets a reset; do the same.
func (cc *vlClusterCase) dropConns() {
	for _, cl := range cc.cl {
		cl.client.CloseIdleConnections()
	}
}

func (cc *vlClusterCase) modelLeader(st *vlSt) string {
	for m, l := range st.Lead {
		if m == l {
			return m
		}
	}
	return ""
}

func (cc *vlClusterCase) run() (*vlMismatch, bool) {
	c := cc.c
	t := c.t
	init := cc.beh[0]
	// bring everything up, bind the model's meta ids: its initial leader = the real leader
	for _, n := range c.nodes {
		if n.svc == nil {
			c.restart(n)
		}
	}
	var l *vlSvc
	vlWaitFor(t, "a leader everybody knows", vlWatchdog, func() bool { l = c.leader(); return c.converged(l) })
	ml := cc.modelLeader(init.St)
	cc.real = map[string]*vlSvc{ml: l}
	var ids []string
	for m := range init.St.Lead {
		ids = append(ids, m)
	}
	sort.Strings(ids)
	rest := []*vlSvc{}
	for _, n := range c.nodes {
		if n != l {
			rest = append(rest, n)
		}
	}
	for _, m := range ids {
		if m != ml {
			cc.real[m] = rest[0]
			rest = rest[1:]
		}
	}
	cc.held = map[string]map[string]vlHeld{}
	for _, m := range ids {
		cc.held[m] = map[string]vlHeld{}
	}
	cc.belief = map[string]map[int]vlHeld{}
	d := time.Duration(c.nodes[0].cfg.LeaseDuration)
	var last vlAnswer
	var lastName string
	var lastN int
	quorumLost := false
	sawX02 := false
	for si, st := range cc.beh {
		switch st.A {
		case "init", "hop":
		case "send":
			if !quorumLost {
				// the real cluster must be where the model is (a spurious election under load is undone)
				want := cc.real[cc.modelLeader(cc.beh[si-1].St)]
				if !c.converged(want) {
					cc.stats["spurious_elections_undone"]++
					c.transfer(want)
				}
			}
			via := cc.real[st.Via]
			var skipped []*vlSvc
			for _, m := range st.Skipped {
				skipped = append(skipped, cc.real[m])
			}
			lastName, lastN = cc.prefix+st.Name, st.N
			t0 := time.Now()
			var lz *Lease
			var err error
			cl := cc.client(st.N, via, skipped)
			vlGuard(fmt.Sprintf("acquireLease via %s (step %d)", via.name, si), vlWatchdog, func() { lz, err = cl.acquireLease(lastName) })
			last = vlAnswerOf(lz, err, t0, time.Now())
			if err == ErrServiceUnavailable {
				last.errStr = "503"
			}
			cc.stats["calls"]++
			if len(skipped) > 0 {
				cc.stats["calls_first_server_down"]++
				if _, isNet := err.(*url.Error); isNet {
					// X04: a running meta node (via) is in the client's list, the cluster has a leader everybody
					// knows, and the call dies on the stopped first server
					return &vlMismatch{"x04:entry-server-down", fmt.Sprintf("step %d: node %d, meta servers [%s(stopped) %s ...], leader known to every running node: AcquireLease fails with %v", si, st.N, skipped[0].name, via.name, err)}, sawX02
				}
			}
		case "resp":
			cc.stats["code_"+st.Code]++
			switch st.Code {
			case "unavailable":
				if last.errStr != "503" {
					return &vlMismatch{"lease:noleader", fmt.Sprintf("step %d: request to a node without leader: ok=%v err=%q, model 503", si, last.ok, last.errStr)}, sawX02
				}
			case "ok", "conflict":
				if last.errStr == "503" || (!last.ok && last.errStr != "another node owns the lease") {
					// the cluster was not in the modelled state (leadership in motion): not an answer of the protocol
					t.Fatalf("INFRA: step %d: call failed outside the protocol: %s", si, last.errStr)
				}
				// X01 on the granting table, with measured instants
				if mm := vlJudge(cc.held[st.By], lastName, uint64(lastN), last, d, true); mm != nil {
					mm.detail = fmt.Sprintf("step %d (table of %s): %s", si, cc.real[st.By].name, mm.detail)
					return mm, sawX02
				}
				if last.ok != (st.Code == "ok") {
					if !last.ok && st.Kind == "new" {
						// stricter than the model across granters: somebody repaired X02; recorded, not a violation
						return &vlMismatch{"note:x02-stricter", fmt.Sprintf("step %d: refused where the model's fresh table grants", si)}, sawX02
					}
					return &vlMismatch{"lease:" + st.Kind, fmt.Sprintf("step %d: node %d asks %s for %q: real ok=%v (%s), model %s/%s by %s", si, lastN, cc.real[st.Via].name, lastName, last.ok, last.errStr, st.Code, st.Kind, st.By)}, sawX02
				}
				if last.hasL && last.owner != uint64(st.Owner) {
					return &vlMismatch{"lease:owner", fmt.Sprintf("step %d: answer names owner %d, model %d", si, last.owner, st.Owner)}, sawX02
				}
				if st.Hops > 0 {
					cc.stats["served_after_redirect"]++
				}
				// beliefs (X02): does another node hold an unexpired answer for the same name?
				if cc.belief[lastName] == nil {
					cc.belief[lastName] = map[int]vlHeld{}
				}
				if last.ok {
					for o, b := range cc.belief[lastName] {
						if o != lastN && b.exp.After(last.t1) {
							sawX02 = true
							cc.stats["x02_two_holders_observed"]++
						}
					}
					cc.belief[lastName][lastN] = vlHeld{uint64(lastN), last.exp}
				} else {
					delete(cc.belief[lastName], lastN)
				}
			default:
				return &vlMismatch{"harness:code", "unexpected model code " + st.Code}, sawX02
			}
		case "stepdown":
			later := false
			for _, x := range cc.beh[si+1:] {
				if x.A == "elect" {
					later = true
				}
			}
			if !later {
				// final: the leader loses its quorum and steps down without successor
				m := cc.real[st.M]
				for _, n := range c.nodes {
					if n != m {
						vlStop(n)
					}
				}
				cc.dropConns()
				vlWaitFor(t, m.name+" to notice it lost the quorum", vlWatchdog, func() bool { return m.svc.store.leaderHTTP() == "" })
				quorumLost = true
				cc.stats["quorum_losses"]++
			}
		case "elect":
			c.transfer(cc.real[st.M])
			cc.stats["leadership_transfers"]++
		case "learn":
			m, lead := cc.real[st.M], cc.real[st.L]
			vlWaitFor(t, m.name+" to learn the leader", vlWatchdog, func() bool {
				return m.svc != nil && m.svc.store != nil && m.svc.store.leaderHTTP() == lead.cfg.HTTPBindAddress
			})
		case "stop":
			vlStop(cc.real[st.M])
			cc.dropConns()
			cc.held[st.M] = map[string]vlHeld{}
			cc.stats["stops"]++
		case "start":
			c.restart(cc.real[st.M])
			cc.stats["starts"]++
		default:
			return &vlMismatch{"harness:step", "unknown step " + st.A}, sawX02
		}
		// projection: the three real tables against the model's tables (this behaviour's names)
		if st.St != nil && st.A != "send" && st.A != "hop" {
			for m, tbl := range st.St.Tbl {
				rn := cc.real[m]
				if rn.svc == nil || rn.svc.handler == nil {
					continue
				}
				for name, e := range tbl {
					o, exp, ok := vlPeek(rn, cc.prefix+name)
					h, has := cc.held[m][cc.prefix+name]
					if (e.Owner != 0) != ok || (ok && o != uint64(e.Owner)) || has != ok || (ok && !exp.Round(0).Equal(h.exp.Round(0))) {
						return &vlMismatch{"lease:proj", fmt.Sprintf("step %d (%s): table of %s(%s) entry %q: present=%v owner %d exp %s; model owner %d; answers said present=%v owner %d exp %s", si, st.A, m, rn.name, name, ok, o, vlT(exp), e.Owner, has, h.owner, vlT(h.exp))}, sawX02
					}
				}
			}
		}
	}
	return nil, sawX02
}

func TestVerifLeaseCluster(t *testing.T) {
	in := vlLoad(t, "CLUSTER")
	if in.MaxSigs == 0 {
		in.MaxSigs = 3
	}
	c := vlNewCluster(t, 30*time.Minute)
	defer c.close()
	total := map[string]int{}
	sigs := map[string]bool{}
	steps, withX02 := 0, 0
	for i, beh := range in.Behaviours {
		cc := &vlClusterCase{c: c, beh: beh, prefix: fmt.Sprintf("b%d.", i), cl: map[string]*Client{}, stats: map[string]int{}}
		mm, saw := cc.run()
		if saw {
			withX02++
		}
		steps += len(beh)
		for k, v := range cc.stats {
			total[k] += v
		}
		if mm != nil && !sigs[mm.sig] && len(sigs) < in.MaxSigs {
			sigs[mm.sig] = true
			vtrace.Mismatch(mm.sig, mm.detail, map[string]interface{}{"test": "TestVerifLeaseCluster", "behaviour": beh})
		}
		if i == 0 && mm == nil {
			var acts []string
			for _, s := range beh {
				if s.A != "hop" && s.A != "send" {
					acts = append(acts, strings.TrimSpace(s.A+" "+s.M+" "+s.Code+" "+s.By))
				}
			}
			vtrace.Sample(map[string]interface{}{"cluster_behaviour": acts, "stats": cc.stats})
		}
	}
	out := map[string]interface{}{"behaviours": len(in.Behaviours), "steps": steps, "behaviours_with_two_holders": withX02}
	real := 0
	for s := range sigs {
		if !strings.HasPrefix(s, "note:") {
			real++
		}
	}
	out["mismatches"] = real
	for k, v := range total {
		out[k] = v
	}
	vtrace.Done("TestVerifLeaseCluster", out)
	if real > 0 {
		t.Fail()
	}
}
