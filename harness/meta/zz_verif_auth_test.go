package meta

// C16 verification harness (injected with `go test -overlay`, never part of the repository).
//
//   TestVerifAuthMatrix    every case printed by specs/auth/AuthGen.tla through the real
//                          QueryAuthorizer.AuthorizeQuery / WriteAuthorizer.AuthorizeWrite on a real
//                          meta.Client whose metadata (real meta.Data built with CreateUser /
//                          SetPrivilege / SetAdminPrivilege) arrived through the client's own
//                          pollForUpdates path from a snapshot server.
//   TestVerifAuthCache     every behaviour printed by specs/auth/AuthCacheGen.tla replayed on the real
//                          Client.Authenticate, the calls held at the two hook gates inside
//                          Authenticate, changes installed through pollForUpdates.
//   TestVerifAuthCacheRaft a sample of the same behaviours against a real single-node meta service
//                          (commands through raft, the client's own retryUntilExec/waitForIndex).

import (
	"fmt"
	"net"
	"net/http"
	"os"
	"sort"
	"strconv"
	"strings"
	"sync"
	"testing"
	"time"

	"github.com/influxdata/influxdb/pkg/verifhook"
	"github.com/influxdata/influxdb/pkg/verifx/authx"
	"github.com/influxdata/influxdb/pkg/verifx/vtrace"
	"github.com/influxdata/influxdb/tcp"
	"github.com/influxdata/influxdb/toml"
	"github.com/influxdata/influxql"
	"golang.org/x/crypto/bcrypt"
)

const vaWatchdog = 20 * time.Second

// ---------------------------------------------------------------------------------------------
// snapshot server: serves meta.Data snapshots the way services/meta/handler.go serveSnapshot does
// (long poll on ?index=), so that the client under test receives metadata through pollForUpdates.

type vaSrv struct {
	mu     sync.Mutex
	data   *Data // published
	staged *Data // committed at "the meta servers", not yet delivered
	wake   chan struct{}
	ln     net.Listener
	hs     *http.Server
	done   chan struct{}
}

func vaNewSrv() (*vaSrv, error) {
	ln, err := net.Listen("tcp", "127.0.0.1:0")
	if err != nil {
		return nil, err
	}
	s := &vaSrv{wake: make(chan struct{}), ln: ln, done: make(chan struct{})}
	d := &Data{Index: 1, ClusterID: 1}
	d.MetaNodes = []NodeInfo{{ID: 1, Addr: ln.Addr().String(), TCPAddr: ln.Addr().String()}}
	d.MaxNodeID = 1
	s.data, s.staged = d, d.Clone()
	s.hs = &http.Server{Handler: http.HandlerFunc(s.serve)}
	go s.hs.Serve(ln)
	return s, nil
}

func (s *vaSrv) addr() string { return s.ln.Addr().String() }

func (s *vaSrv) serve(w http.ResponseWriter, r *http.Request) {
	idx, _ := strconv.ParseUint(r.URL.Query().Get("index"), 10, 64)
	for {
		s.mu.Lock()
		d, wake := s.data, s.wake
		s.mu.Unlock()
		if d.Index > idx {
			b, err := d.MarshalBinary()
			if err != nil {
				http.Error(w, err.Error(), 500)
				return
			}
			w.Header().Add("Content-Type", "application/octet-stream")
			w.Write(b)
			return
		}
		select {
		case <-wake:
		case <-r.Context().Done():
			return
		case <-s.done:
			http.Error(w, "closed", 500)
			return
		}
	}
}

// commit applies fn to the servers' data without delivering it.
func (s *vaSrv) commit(fn func(d *Data) error) error {
	s.mu.Lock()
	defer s.mu.Unlock()
	d := s.staged.Clone()
	if err := fn(d); err != nil {
		return err
	}
	d.Index++
	s.staged = d
	return nil
}

// publish makes the committed data visible to pollers; returns its index.
func (s *vaSrv) publish() uint64 {
	s.mu.Lock()
	defer s.mu.Unlock()
	if s.staged.Index != s.data.Index {
		s.data = s.staged.Clone()
		close(s.wake)
		s.wake = make(chan struct{})
	}
	return s.data.Index
}

func (s *vaSrv) close() {
	close(s.done)
	s.hs.Close()
}

// vaClient opens a real client against the snapshot server.
func vaClient(s *vaSrv, dir string) (*Client, error) {
	cfg := NewConfig()
	cfg.Dir = dir
	c := NewClient(cfg)
	c.SetMetaServers([]string{s.addr()})
	if err := c.Open(); err != nil {
		return nil, err
	}
	return c, nil
}

// vaArrived waits until the client has installed index idx (its own waitForIndex).
func vaArrived(c *Client, idx uint64) error {
	ch := make(chan struct{})
	go func() { c.waitForIndex(idx); close(ch) }()
	select {
	case <-ch:
		return nil
	case <-time.After(vaWatchdog):
		return fmt.Errorf("watchdog: index %d did not arrive at the client", idx)
	}
}

func vaHash(pw string) string {
	h, err := bcrypt.GenerateFromPassword([]byte(pw), bcrypt.MinCost)
	if err != nil {
		panic(err)
	}
	return string(h)
}

func vaInfra(t *testing.T, format string, a ...interface{}) {
	msg := fmt.Sprintf(format, a...)
	vtrace.Out(map[string]interface{}{"k": "infra", "detail": msg})
	t.Fatal(msg)
}

// ---------------------------------------------------------------------------------------------
// matrix

type vaWorld struct {
	srv *vaSrv
	c   *Client
	qa  *QueryAuthorizer
	wa  *WriteAuthorizer
}

func vaBuildWorld(world, dir string) (*vaWorld, error) {
	s, err := vaNewSrv()
	if err != nil {
		return nil, err
	}
	err = s.commit(func(d *Data) error {
		for _, db := range []string{"d1", "d2"} {
			if err := d.CreateDatabase(db); err != nil {
				return err
			}
		}
		if world == "noUsers" {
			return nil
		}
		for _, u := range authx.Users() {
			if u.Admin && world == "noAdmin" {
				continue
			}
			if err := d.CreateUser(u.Name(), vaHash(u.Password()), false); err != nil {
				return err
			}
			// grants exactly as GRANT does it: SetPrivilege per database; "none" = never granted
			if u.P1 != influxql.NoPrivileges {
				if err := d.SetPrivilege(u.Name(), "d1", u.P1); err != nil {
					return err
				}
			}
			if u.P2 != influxql.NoPrivileges {
				if err := d.SetPrivilege(u.Name(), "d2", u.P2); err != nil {
					return err
				}
			}
			if u.Admin {
				if err := d.SetAdminPrivilege(u.Name(), true); err != nil {
					return err
				}
			}
		}
		if world == "normal" {
			if err := d.CreateUser("root", vaHash("rootpw"), true); err != nil {
				return err
			}
		}
		return nil
	})
	if err != nil {
		return nil, err
	}
	idx := s.publish()
	c, err := vaClient(s, dir)
	if err != nil {
		return nil, err
	}
	if err := vaArrived(c, idx); err != nil {
		return nil, err
	}
	return &vaWorld{srv: s, c: c, qa: NewQueryAuthorizer(c), wa: NewWriteAuthorizer(c)}, nil
}

func TestVerifAuthMatrix(t *testing.T) {
	var in authx.Input
	if err := vtrace.LoadJSON(os.Getenv("VERIF_IN"), &in); err != nil {
		t.Skip("no VERIF_IN")
	}
	// guard: every Statement type of the influxql package is classified and has an instance
	if in.Only == nil {
		missing, stale := authx.Unclassified(in.StmtTypes, in.Classes)
		if len(missing) > 0 || len(stale) > 0 || len(in.StmtTypes) == 0 {
			vtrace.Out(map[string]interface{}{"k": "unclassified", "missing": missing, "stale": stale, "types": len(in.StmtTypes)})
			t.Fatalf("unclassified statement types: missing=%v stale=%v", missing, stale)
		}
	}
	base, err := os.MkdirTemp(os.Getenv("VERIF_SCRATCH"), "c16meta")
	if err != nil {
		t.Fatal(err)
	}
	defer os.RemoveAll(base)
	worlds := map[string]*vaWorld{}
	for _, w := range []string{"noUsers", "noAdmin", "normal"} {
		dir := base + "/" + w
		os.MkdirAll(dir, 0755)
		vw, err := vaBuildWorld(w, dir)
		if err != nil {
			vaInfra(t, "building world %s: %v", w, err)
		}
		defer vw.srv.close()
		defer vw.c.Close()
		worlds[w] = vw
	}
	if n := worlds["noUsers"].c.UserCount(); n != 0 {
		vaInfra(t, "world noUsers has %d users", n)
	}
	if worlds["noAdmin"].c.AdminUserExists() || worlds["noAdmin"].c.UserCount() != 16 {
		vaInfra(t, "world noAdmin is not as intended")
	}
	users := authx.Users()
	groups := in.Groups
	if in.Only != nil {
		groups = []authx.Group{in.Only.Group}
	}
	seenSig := map[string]bool{}
	var nCases, nGranted, nDenied, nSkipped, nDrift, nSamples int
	instances := map[string]bool{}
	for gi := range groups {
		g := &groups[gi]
		if g.Principal == "reject" {
			nSkipped++ // never reaches an authorizer; the httpd harness covers it
			continue
		}
		w := worlds[g.World]
		var q *influxql.Query
		if g.Kind == "query" {
			var err error
			if q, _, err = authx.Query(g.Stmts); err != nil {
				vaInfra(t, "%v", err)
			}
			for _, k := range g.Stmts {
				instances[k.String()+"/"+k.A+"/"+k.B] = true
			}
		}
		ddb := g.DDB
		if ddb == "-" {
			ddb = ""
		}
		for ui, code := range g.Codes {
			if code < 0 || (in.Only != nil && ui != in.Only.User) {
				continue
			}
			_, ex, allowed := authx.Decode(code)
			var granted bool
			var detail string
			switch {
			case g.Kind == "write" && g.Principal == "anon":
				continue // the handler refuses before calling the authorizer
			case g.Kind == "write":
				err := w.wa.AuthorizeWrite(users[ui].Name(), g.DB)
				granted, detail = err == nil, fmt.Sprint(err)
			default:
				var u User
				if g.Principal == "user" {
					// the object the handler passes on: what Authenticate returned
					var err error
					if u, err = w.c.Authenticate(users[ui].Name(), users[ui].Password()); err != nil {
						vaInfra(t, "canonical user %s cannot authenticate: %v", users[ui].Name(), err)
					}
				}
				_, err := w.qa.AuthorizeQuery(u, q, ddb)
				granted, detail = err == nil, fmt.Sprint(err)
			}
			nCases++
			if granted {
				nGranted++
			} else {
				nDenied++
			}
			rp := authx.Replay{Group: *g, User: ui}
			rp.Group.Codes = g.Codes
			if granted && !allowed {
				sig := authx.Sig(*g, ex > 0, "authz")
				if authx.Report(seenSig, sig) {
					vtrace.Mismatch(sig, fmt.Sprintf("authorizer granted %s to user %s (world %s, default db %q) although the property does not allow it",
						vaWhat(g), users[ui].Name(), g.World, ddb), rp)
				}
			} else if granted != (ex > 0) {
				nDrift++
				if nDrift <= 5 {
					vtrace.Out(map[string]interface{}{"k": "drift", "detail": fmt.Sprintf("authorizer granted=%v, model expects executed=%d allowed=%v: %s user %s world %s ddb %q (%s)",
						granted, ex, allowed, vaWhat(g), users[ui].Name(), g.World, ddb, detail), "replay": rp})
				}
			}
			if nSamples < 2 && granted && g.Kind == "query" && g.World == "normal" && !users[ui].Admin {
				nSamples++
				vtrace.Sample(map[string]interface{}{"level": "authorizer", "query": vaWhat(g), "user": users[ui].Name(), "ddb": ddb, "granted": granted, "allowed": allowed})
			}
		}
	}
	vtrace.Done("TestVerifAuthMatrix", map[string]interface{}{"groups": len(groups), "cases": nCases, "granted": nGranted,
		"denied": nDenied, "skipped_groups": nSkipped, "drift": nDrift, "instances": len(instances)})
}

func vaWhat(g *authx.Group) string {
	if g.Kind == "write" {
		return "write to " + g.DB
	}
	_, txt, _ := authx.Query(g.Stmts)
	if txt == "" {
		var ks []string
		for _, k := range g.Stmts {
			ks = append(ks, k.String())
		}
		txt = "<ast " + strings.Join(ks, ";") + ">"
	}
	return "`" + txt + "`"
}

// ---------------------------------------------------------------------------------------------
// credential cache interleavings

type vaProj struct {
	Exists bool `json:"exists"`
	Admin  bool `json:"admin"`
	Rd     bool `json:"rd"`
	Cached bool `json:"cached"`
	Fresh  bool `json:"fresh"`
}

type vaView struct {
	Admin bool `json:"admin"`
	Rd    bool `json:"rd"`
}

type vaStep struct {
	A       string   `json:"a"`
	Kind    string   `json:"kind"`
	Pw      string   `json:"pw"`
	Inst    bool     `json:"inst"`
	C       int      `json:"c"`
	Fin     bool     `json:"fin"`
	Res     string   `json:"res"`
	Admin   bool     `json:"admin"`
	Rd      bool     `json:"rd"`
	Legit   bool     `json:"legit"`
	OkViews []vaView `json:"okviews"`
	St      vaProj   `json:"st"`
}

type vaCacheInput struct {
	Behaviours     [][]vaStep `json:"behaviours"`
	RaftBehaviours [][]vaStep `json:"raft_behaviours"` // the sample for TestVerifAuthCacheRaft when both drivers share an input
	InitPw         string     `json:"init_pw"`
}

// backend = where changes are committed and how they reach the client under test
type vaBackend interface {
	change(user, kind, pw string, install bool) error
	install() error
	client() *Client
}

// snapshot-server backend
type vaFake struct {
	srv *vaSrv
	c   *Client
}

func (f *vaFake) client() *Client { return f.c }
func (f *vaFake) install() error  { return vaArrived(f.c, f.srv.publish()) }
func (f *vaFake) change(user, kind, pw string, install bool) error {
	err := f.srv.commit(func(d *Data) error {
		switch kind {
		case "setpw":
			return d.UpdateUser(user, vaHash(pw))
		case "drop":
			return d.DropUser(user)
		case "create":
			return d.CreateUser(user, vaHash(pw), false)
		case "revoke":
			return d.SetPrivilege(user, "d1", influxql.NoPrivileges)
		case "grant":
			return d.SetPrivilege(user, "d1", influxql.ReadPrivilege)
		case "admin":
			return d.SetAdminPrivilege(user, true)
		case "unadmin":
			return d.SetAdminPrivilege(user, false)
		}
		return fmt.Errorf("unknown change kind %q", kind)
	})
	if err != nil {
		return err
	}
	if install {
		return f.install()
	}
	return nil
}

// real meta service backend: the client's own commands; each returns after the change was installed
type vaRaft struct{ c *Client }

func (r *vaRaft) client() *Client { return r.c }
func (r *vaRaft) install() error  { return fmt.Errorf("raft backend installs atomically") }
func (r *vaRaft) change(user, kind, pw string, install bool) error {
	if !install {
		return fmt.Errorf("raft backend installs atomically")
	}
	switch kind {
	case "setpw":
		return r.c.UpdateUser(user, pw)
	case "drop":
		return r.c.DropUser(user)
	case "create":
		_, err := r.c.CreateUser(user, pw, false)
		return err
	case "revoke":
		return r.c.SetPrivilege(user, "d1", influxql.NoPrivileges)
	case "grant":
		return r.c.SetPrivilege(user, "d1", influxql.ReadPrivilege)
	case "admin":
		return r.c.SetAdminPrivilege(user, true)
	case "unadmin":
		return r.c.SetAdminPrivilege(user, false)
	}
	return fmt.Errorf("unknown change kind %q", kind)
}

// gates: a call of Authenticate is a goroutine that stops at the hooks "meta.auth.user" (after the
// user record was read) and "meta.auth.insert" (before the cache insert).  The driver advances one
// call at a time and waits until it is parked again or has returned, so arrivals are unambiguous.
type vaCall struct {
	arrived chan string
	release chan struct{}
	done    chan vaResult
}

type vaResult struct {
	u   User
	err error
}

type vaGates struct {
	mu  sync.Mutex
	cur map[string]*vaCall // user name -> call being advanced
}

var vaG = &vaGates{cur: map[string]*vaCall{}}

func (g *vaGates) handler(ev string, args ...interface{}) {
	if ev != "meta.auth.user" && ev != "meta.auth.insert" {
		return
	}
	name, _ := args[0].(string)
	g.mu.Lock()
	c := g.cur[name]
	g.mu.Unlock()
	if c == nil {
		return // an Authenticate that is not driven step by step
	}
	c.arrived <- ev
	select {
	case <-c.release:
	case <-time.After(vaWatchdog):
		vtrace.Out(map[string]interface{}{"k": "infra", "detail": "gate watchdog: call parked at " + ev + " was never released"})
	}
}

func (g *vaGates) set(name string, c *vaCall) {
	g.mu.Lock()
	g.cur[name] = c
	g.mu.Unlock()
}

// advance waits until the call is parked at a gate or has returned.
func vaAdvance(c *vaCall) (parked string, res *vaResult, err error) {
	select {
	case ev := <-c.arrived:
		return ev, nil, nil
	case r := <-c.done:
		return "", &r, nil
	case <-time.After(vaWatchdog):
		return "", nil, fmt.Errorf("watchdog: call neither parked nor returned")
	}
}

func vaResString(r *vaResult) string {
	switch {
	case r.err == nil && r.u != nil:
		return "ok"
	case r.err == ErrUserNotFound:
		return "notfound"
	case r.err == ErrAuthenticate:
		return "fail"
	}
	return fmt.Sprintf("error(%v)", r.err)
}

func vaProject(c *Client, user string) vaProj {
	var p vaProj
	c.mu.RLock()
	defer c.mu.RUnlock()
	u := c.cacheData.user(user)
	if u != nil {
		p.Exists, p.Admin = true, u.Admin
		p.Rd = u.Privileges["d1"] == influxql.ReadPrivilege || u.Privileges["d1"] == influxql.AllPrivileges
	}
	if au, ok := c.authCache[user]; ok {
		p.Cached = true
		p.Fresh = u != nil && au.bhash == u.Hash
	}
	return p
}

// vaKindClass names the class of a change history for signatures: which kinds of change that
// replace the stored hash / the record occurred.
func vaKindClass(kinds []string) string {
	m := map[string]bool{}
	for _, k := range kinds {
		switch k {
		case "setpw", "drop", "create":
			m[k] = true
		default:
			m["grants"] = true
		}
	}
	var ks []string
	for k := range m {
		ks = append(ks, k)
	}
	sort.Strings(ks)
	if len(ks) == 0 {
		return "nochange"
	}
	return strings.Join(ks, "+")
}

type vaOutcome struct {
	sig, detail string // property mismatch
	drift       string // model and code disagree without a property violation
	infra       string
	steps       int
}

var vaSelect = func() *influxql.Query {
	q, err := influxql.ParseQuery(`SELECT v FROM m`)
	if err != nil {
		panic(err)
	}
	return q
}()

// vaReplay runs one behaviour for user `name` (which exists with password initPw, READ on d1).
func vaReplay(be vaBackend, name string, beh []vaStep) (out vaOutcome) {
	c := be.client()
	qa := NewQueryAuthorizer(c)
	calls := map[int]*vaCall{}
	pws := map[int]string{}
	var kinds []string
	defer func() {
		// never leave a goroutine parked
		vaG.set(name, nil)
		for _, cl := range calls {
			select {
			case cl.release <- struct{}{}:
			default:
			}
		}
	}()
	for i, st := range beh {
		out.steps++
		var res *vaResult
		var parked string
		var err error
		switch st.A {
		case "change":
			kinds = append(kinds, st.Kind)
			if err = be.change(name, st.Kind, st.Pw, st.Inst); err != nil {
				out.infra = fmt.Sprintf("step %d change %s: %v", i, st.Kind, err)
				return
			}
		case "install":
			if err = be.install(); err != nil {
				out.infra = fmt.Sprintf("step %d install: %v", i, err)
				return
			}
		case "start":
			cl := &vaCall{arrived: make(chan string, 1), release: make(chan struct{}, 1), done: make(chan vaResult, 1)}
			calls[st.C], pws[st.C] = cl, st.Pw
			vaG.set(name, cl)
			go func(pw string) {
				u, err := c.Authenticate(name, pw)
				cl.done <- vaResult{u, err}
			}(st.Pw)
			parked, res, err = vaAdvance(cl)
			vaG.set(name, nil)
			if err == nil && res == nil && parked != "meta.auth.user" {
				err = fmt.Errorf("parked at %q, expected meta.auth.user", parked)
			}
		case "check", "insert":
			cl := calls[st.C]
			if cl == nil {
				out.infra = fmt.Sprintf("step %d: call %d was never started", i, st.C)
				return
			}
			vaG.set(name, cl)
			cl.release <- struct{}{}
			parked, res, err = vaAdvance(cl)
			vaG.set(name, nil)
			if err == nil && res == nil && !(st.A == "check" && parked == "meta.auth.insert") {
				err = fmt.Errorf("parked at %q after %s", parked, st.A)
			}
		default:
			out.infra = "unknown step " + st.A
			return
		}
		if err != nil {
			out.infra = fmt.Sprintf("step %d %s: %v", i, st.A, err)
			return
		}
		where := fmt.Sprintf("step %d (%s call %d pw %s) after changes %v", i, st.A, st.C, pws[st.C], kinds)
		if st.A == "start" || st.A == "check" || st.A == "insert" {
			if res != nil {
				got := vaResString(res)
				if got == "ok" {
					ui, _ := res.u.(*UserInfo)
					if ui == nil {
						out.infra = where + ": Authenticate returned a non-UserInfo user"
						return
					}
					view := vaView{Admin: ui.Admin, Rd: ui.Privileges["d1"] == influxql.ReadPrivilege || ui.Privileges["d1"] == influxql.AllPrivileges}
					if !st.Fin || st.Res != "ok" {
						// the model says this call does not succeed here
						if !st.Legit {
							out.sig = "cache:old-credential-accepted:" + vaKindClass(kinds)
							out.detail = where + ": Authenticate succeeded with a password that was not the user's password at this node at any time during the call"
							return
						}
						out.drift = where + ": Authenticate succeeded, model expects " + st.Res
						return
					}
					if !st.Legit {
						out.infra = where + ": model inconsistency (ok but not legit)"
						return
					}
					okv := false
					for _, v := range st.OkViews {
						if v == view {
							okv = true
						}
					}
					if !okv {
						out.sig = "cache:old-privilege-returned:" + vaKindClass(kinds)
						out.detail = fmt.Sprintf("%s: Authenticate returned a user record %+v that the node did not hold during the call (held %+v)", where, view, st.OkViews)
						return
					}
					if view.Admin != st.Admin || view.Rd != st.Rd {
						out.drift = fmt.Sprintf("%s: returned view %+v, model {admin:%v rd:%v}", where, view, st.Admin, st.Rd)
						return
					}
					// the authorizer works on the returned record
					_, aerr := qa.AuthorizeQuery(res.u, vaSelect, "d1")
					if (aerr == nil) != (view.Admin || view.Rd) {
						out.sig = "cache:authorize-returned-user"
						out.detail = fmt.Sprintf("%s: AuthorizeQuery(SELECT on d1) = %v for returned record %+v", where, aerr, view)
						return
					}
				} else {
					if !st.Fin {
						out.drift = where + ": call returned " + got + ", model expects it to continue"
						return
					}
					if got != st.Res {
						out.drift = where + ": call returned " + got + ", model expects " + st.Res
						return
					}
				}
			} else if st.Fin {
				out.drift = where + ": call is parked at " + parked + ", model expects it to return " + st.Res
				return
			}
		}
		if p := vaProject(c, name); p != st.St {
			out.drift = fmt.Sprintf("%s: node state %+v, model %+v", where, p, st.St)
			return
		}
	}
	return
}

// vaHookProbe checks that the two gates are compiled in.
func vaHookProbe(t *testing.T, be vaBackend, name, pw string) {
	var mu sync.Mutex
	seen := map[string]bool{}
	verifhook.Set(func(ev string, args ...interface{}) {
		mu.Lock()
		seen[ev] = true
		mu.Unlock()
	})
	_, err := be.client().Authenticate(name, pw)
	verifhook.Set(nil)
	if err != nil {
		vaInfra(t, "probe user cannot authenticate: %v", err)
	}
	if !verifhook.Enabled || !seen["meta.auth.user"] || !seen["meta.auth.insert"] {
		vtrace.Out(map[string]interface{}{"k": "nohook", "detail": "hooks meta.auth.user / meta.auth.insert are not compiled in: apply patches/C16/01-hook-meta-authenticate.diff"})
		t.Fatal("hooks missing")
	}
}

func vaReport(t *testing.T, test string, o vaOutcome, beh []vaStep, initPw string, seen map[string]bool, mu *sync.Mutex) (stop bool) {
	mu.Lock()
	defer mu.Unlock()
	rp := map[string]interface{}{"behaviour": beh, "init_pw": initPw, "test": test}
	switch {
	case o.infra != "":
		vtrace.Out(map[string]interface{}{"k": "infra", "detail": o.infra, "replay": rp})
		t.Error(o.infra)
		return true
	case o.sig != "":
		if authx.Report(seen, o.sig) {
			vtrace.Mismatch(o.sig, o.detail, rp)
		}
	case o.drift != "":
		if !seen["drift"] {
			seen["drift"] = true
			vtrace.Out(map[string]interface{}{"k": "drift", "detail": o.drift, "replay": rp})
		}
	}
	return false
}

func TestVerifAuthCache(t *testing.T) {
	var in vaCacheInput
	if err := vtrace.LoadJSON(os.Getenv("VERIF_IN"), &in); err != nil {
		t.Skip("no VERIF_IN")
	}
	base, err := os.MkdirTemp(os.Getenv("VERIF_SCRATCH"), "c16cache")
	if err != nil {
		t.Fatal(err)
	}
	defer os.RemoveAll(base)
	workers := vtrace.EnvInt("VERIF_WORKERS", 6)
	if len(in.Behaviours) < workers {
		workers = 1
	}
	// one snapshot server + client per worker; a fresh user per behaviour
	bes := make([]*vaFake, workers)
	for w := range bes {
		s, err := vaNewSrv()
		if err != nil {
			vaInfra(t, "%v", err)
		}
		// "keeper" keeps the user count above zero (AuthorizeQuery has a special case for an empty user list)
		if err := s.commit(func(d *Data) error {
			if err := d.CreateDatabase("d1"); err != nil {
				return err
			}
			return d.CreateUser("keeper", vaHash("keeper"), true)
		}); err != nil {
			vaInfra(t, "%v", err)
		}
		idx := s.publish()
		dir := fmt.Sprintf("%s/w%d", base, w)
		os.MkdirAll(dir, 0755)
		c, err := vaClient(s, dir)
		if err != nil {
			vaInfra(t, "%v", err)
		}
		if err := vaArrived(c, idx); err != nil {
			vaInfra(t, "%v", err)
		}
		bes[w] = &vaFake{srv: s, c: c}
		defer s.close()
		defer c.Close()
	}
	// probe
	if err := bes[0].change("probe", "create", "x", true); err != nil {
		vaInfra(t, "%v", err)
	}
	vaHookProbe(t, bes[0], "probe", "x")
	verifhook.Set(vaG.handler)
	defer verifhook.Set(nil)

	var mu sync.Mutex
	seen := map[string]bool{}
	var steps, replayed, accepts int
	stop := false
	jobs := make(chan int)
	var wg sync.WaitGroup
	for w := 0; w < workers; w++ {
		wg.Add(1)
		go func(w int) {
			defer wg.Done()
			be := bes[w]
			for bi := range jobs {
				mu.Lock()
				s := stop
				mu.Unlock()
				if s {
					continue
				}
				name := fmt.Sprintf("u%d_%d", w, bi)
				// initial state of the model: the user exists with InitPw and READ on d1, installed
				if err := vaSetupUser(be, name, in.InitPw); err != nil {
					vaReport(t, "TestVerifAuthCache", vaOutcome{infra: err.Error()}, in.Behaviours[bi], in.InitPw, seen, &mu)
					mu.Lock()
					stop = true
					mu.Unlock()
					continue
				}
				o := vaReplay(be, name, in.Behaviours[bi])
				st := vaReport(t, "TestVerifAuthCache", o, in.Behaviours[bi], in.InitPw, seen, &mu)
				// drop the user again so that the metadata stays small
				be.srv.commit(func(d *Data) error { d.DropUser(name); return nil })
				mu.Lock()
				steps += o.steps
				replayed++
				for _, s := range in.Behaviours[bi] {
					if s.Fin && s.Res == "ok" {
						accepts++
					}
				}
				if st {
					stop = true
				}
				mu.Unlock()
			}
		}(w)
	}
	for bi := range in.Behaviours {
		jobs <- bi
	}
	close(jobs)
	wg.Wait()
	if len(in.Behaviours) > 0 {
		vtrace.Sample(map[string]interface{}{"level": "cache", "behaviour": vaBrief(in.Behaviours[len(in.Behaviours)/2])})
	}
	if !t.Failed() {
		vtrace.Done("TestVerifAuthCache", map[string]interface{}{"behaviours": replayed, "steps": steps, "accepting_calls": accepts, "workers": workers})
	}
}

func vaSetupUser(be *vaFake, name, pw string) error {
	err := be.srv.commit(func(d *Data) error {
		if err := d.CreateUser(name, vaHash(pw), false); err != nil {
			return err
		}
		return d.SetPrivilege(name, "d1", influxql.ReadPrivilege)
	})
	if err != nil {
		return err
	}
	return be.install()
}

func vaBrief(beh []vaStep) []string {
	var out []string
	for _, s := range beh {
		switch s.A {
		case "change":
			out = append(out, "change:"+s.Kind+":"+s.Pw)
		case "install":
			out = append(out, "install")
		default:
			x := fmt.Sprintf("%s:c%d", s.A, s.C)
			if s.A == "start" {
				x += ":" + s.Pw
			}
			if s.Fin {
				x += "=" + s.Res
			}
			out = append(out, x)
		}
	}
	return out
}

// ---------------------------------------------------------------------------------------------
// the same behaviours against a real single-node meta service

func vaFreePort() string {
	l, _ := net.Listen("tcp", "127.0.0.1:0")
	defer l.Close()
	return l.Addr().String()
}

func TestVerifAuthCacheRaft(t *testing.T) {
	var in vaCacheInput
	if err := vtrace.LoadJSON(os.Getenv("VERIF_IN"), &in); err != nil {
		t.Skip("no VERIF_IN")
	}
	dir, err := os.MkdirTemp(os.Getenv("VERIF_SCRATCH"), "c16raft")
	if err != nil {
		t.Fatal(err)
	}
	defer os.RemoveAll(dir)
	cfg := NewConfig()
	cfg.BindAddress = vaFreePort()
	cfg.HTTPBindAddress = vaFreePort()
	cfg.Dir = dir
	cfg.LeaseDuration = toml.Duration(time.Second)
	cfg.SingleServer = true
	ln, err := net.Listen("tcp", cfg.BindAddress)
	if err != nil {
		vaInfra(t, "%v", err)
	}
	defer ln.Close()
	mux := tcp.NewMux()
	s := NewService(cfg)
	s.RaftListener = mux.Listen(MuxHeader)
	go mux.Serve(ln)
	if err := s.Open(); err != nil {
		vaInfra(t, "meta service: %v", err)
	}
	defer s.Close()
	c := NewClient(cfg)
	c.SetMetaServers([]string{cfg.HTTPBindAddress})
	if err := c.Open(); err != nil {
		vaInfra(t, "meta client: %v", err)
	}
	defer c.Close()
	if _, err := c.CreateDatabase("d1"); err != nil {
		vaInfra(t, "%v", err)
	}
	if in.RaftBehaviours != nil {
		in.Behaviours = in.RaftBehaviours
	}
	be := &vaRaft{c: c}
	if _, err := c.CreateUser("probe", "x", false); err != nil {
		vaInfra(t, "%v", err)
	}
	vaHookProbe(t, be, "probe", "x")
	verifhook.Set(vaG.handler)
	defer verifhook.Set(nil)
	var mu sync.Mutex
	seen := map[string]bool{}
	var steps, replayed int
	for bi, beh := range in.Behaviours {
		name := fmt.Sprintf("r%d", bi)
		if _, err := c.CreateUser(name, in.InitPw, false); err != nil {
			vaInfra(t, "%v", err)
		}
		if err := c.SetPrivilege(name, "d1", influxql.ReadPrivilege); err != nil {
			vaInfra(t, "%v", err)
		}
		o := vaReplay(be, name, beh)
		steps += o.steps
		replayed++
		if vaReport(t, "TestVerifAuthCacheRaft", o, beh, in.InitPw, seen, &mu) {
			break
		}
		c.DropUser(name)
	}
	if !t.Failed() {
		vtrace.Done("TestVerifAuthCacheRaft", map[string]interface{}{"behaviours": replayed, "steps": steps})
	}
}

var _ = sort.Strings
