package meta_test

// C18 - copy-shard end to end: POST /copy-shard on a real one-node meta service (handler.serveCopyShard)
// -> real coordinator.Client.CopyShard -> real coordinator.Service of the destination
// (processCopyShardRequest: backupRemoteShard, Store.CreateShard, Store.RestoreShard) -> real
// coordinator.Service of the source (processBackupShardRequest: Store.BackupShard) over loopback, every
// node with a real tsdb.Store; then the handler's owner-add step (store.copyShard through raft).
//
// Replays the copy scenarios of specs/copyshard/CopyShardGen.tla: the source shard is driven into the
// modelled content class, the connection that carries the backup is cut by a net.Conn wrapper at the
// modelled point (before the first tar entry, inside an entry, at an entry boundary, in front of the
// end-of-archive marker) or the source does not hold the shard at all.  Oracle = the property: when
// the metadata lists the destination as an owner afterwards, the destination's shard must read exactly
// like one of the source states of the backup window; a copy without fault must succeed; the source
// reads the same before and after.

import (
	"fmt"
	"io"
	"net"
	"net/http"
	"net/url"
	"os"
	"path/filepath"
	"strings"
	"testing"
	"time"

	"github.com/influxdata/influxdb/coordinator"
	"github.com/influxdata/influxdb/pkg/verifx/c18kit"
	"github.com/influxdata/influxdb/pkg/verifx/vtrace"
	"github.com/influxdata/influxdb/services/meta"
	"github.com/influxdata/influxdb/tcp"
	"github.com/influxdata/influxdb/toml"
)

type csInput struct {
	Behaviours [][]c18kit.Step `json:"behaviours"`
	Index      string          `json:"index"`
	MaxSigs    int             `json:"max_sigs"`
	RST        bool            `json:"rst"`
}

type csSvcMeta struct{ id uint64 }

func (m *csSvcMeta) NodeID() uint64                                     { return m.id }
func (m *csSvcMeta) MetaServers() []string                              { return nil }
func (m *csSvcMeta) SetMetaServers(a []string)                          {}
func (m *csSvcMeta) DataNode(id uint64) (*meta.NodeInfo, error)         { return &meta.NodeInfo{ID: id}, nil }
func (m *csSvcMeta) CreateDataNode(a, b string) (*meta.NodeInfo, error) { return nil, nil }
func (m *csSvcMeta) DataNodeByTCPAddr(a string) (*meta.NodeInfo, error) { return nil, nil }
func (m *csSvcMeta) Status() (*meta.MetaNodeStatus, error)              { return nil, nil }
func (m *csSvcMeta) Save() error                                        { return nil }

type csServer struct{ addr string }

func (s *csServer) Reset() error       { return nil }
func (s *csServer) HTTPAddr() string   { return s.addr }
func (s *csServer) HTTPScheme() string { return "http" }
func (s *csServer) TCPAddr() string    { return s.addr }

type csNode struct {
	id   uint64
	addr string
	raw  net.Listener
	cut  *c18kit.CutListener
	svc  *coordinator.Service
	node *c18kit.Node
}

type csCluster struct {
	root    string
	metaLn  net.Listener
	metaSvc *meta.Service
	cli     *meta.Client
	cliCfg  *meta.Config
	nodes   []*csNode
	nextSG  int
}

func csNewCluster(index string) (cl *csCluster, err error) {
	cl = &csCluster{}
	if cl.root, err = os.MkdirTemp(vtrace.Env("VERIF_SCRATCH", ""), "c18net-"); err != nil {
		return nil, err
	}
	defer func() {
		if err != nil {
			cl.close()
		}
	}()
	// one-node meta service, the way cmd/influxd-meta wires it (rpc client = coordinator.Client)
	cfg := meta.NewConfig()
	cfg.Dir = filepath.Join(cl.root, "meta")
	cfg.SingleServer = true
	cfg.LeaseDuration = toml.Duration(time.Second)
	if cl.metaLn, err = net.Listen("tcp", "127.0.0.1:0"); err != nil {
		return
	}
	cfg.BindAddress = cl.metaLn.Addr().String()
	cfg.HTTPBindAddress = "127.0.0.1:0"
	mux := tcp.NewMux()
	mux.Logger.SetOutput(io.Discard)
	s := meta.NewService(cfg)
	s.RaftListener = mux.Listen(meta.MuxHeader)
	s.RPCClient = coordinator.NewClient(nil, 10*time.Second)
	go mux.Serve(cl.metaLn)
	if err = s.Open(); err != nil {
		return
	}
	cl.metaSvc = s
	cl.cliCfg = meta.NewConfig()
	cl.cliCfg.Dir = filepath.Join(cl.root, "metaclient")
	if err = os.MkdirAll(cl.cliCfg.Dir, 0755); err != nil {
		return
	}
	cl.cli = meta.NewClient(cl.cliCfg)
	cl.cli.SetMetaServers([]string{s.HTTPAddr()})
	if err = cl.cli.Open(); err != nil {
		return
	}
	// two data nodes: real store, real coordinator service behind a real mux; the raw listener is wrapped
	for i := 0; i < 2; i++ {
		nd := &csNode{}
		if nd.node, err = c18kit.OpenNode(filepath.Join(cl.root, fmt.Sprintf("node%d", i)), index, false); err != nil {
			return
		}
		if nd.raw, err = net.Listen("tcp", "127.0.0.1:0"); err != nil {
			return
		}
		nd.addr = nd.raw.Addr().String()
		nd.cut = &c18kit.CutListener{Listener: nd.raw}
		m := tcp.NewMux()
		m.Logger.SetOutput(io.Discard)
		muxln := m.Listen(coordinator.MuxHeader)
		defln := m.DefaultListener()
		go m.Serve(nd.cut)
		svc := coordinator.NewService(coordinator.NewConfig())
		svc.Listener = muxln
		svc.DefaultListener = defln
		svc.Server = &csServer{addr: nd.addr}
		svc.TSDBStore = nd.node.Store
		var ni *meta.NodeInfo
		if ni, err = cl.cli.CreateDataNode(fmt.Sprintf("127.0.0.1:%d", 18000+i), nd.addr); err != nil {
			return
		}
		nd.id = ni.ID
		svc.MetaClient = &csSvcMeta{id: nd.id}
		if err = svc.Open(); err != nil {
			return
		}
		nd.svc = svc
		cl.nodes = append(cl.nodes, nd)
	}
	if _, err = cl.cli.CreateDatabase(c18kit.DB); err != nil {
		return
	}
	one := 1
	var inf time.Duration
	if _, err = cl.cli.CreateRetentionPolicy(c18kit.DB, &meta.RetentionPolicySpec{Name: c18kit.RP, ReplicaN: &one, Duration: &inf, ShardGroupDuration: time.Hour}, true); err != nil {
		return
	}
	return cl, nil
}

func (cl *csCluster) close() {
	for _, nd := range cl.nodes {
		if nd.svc != nil {
			nd.svc.Close()
		}
		if nd.raw != nil {
			nd.raw.Close()
		}
		if nd.node != nil {
			nd.node.Close()
		}
	}
	if cl.cli != nil {
		cl.cli.Close()
	}
	if cl.metaSvc != nil {
		cl.metaSvc.Close()
	}
	if cl.metaLn != nil {
		cl.metaLn.Close()
	}
	os.RemoveAll(cl.root)
}

// newShard creates a shard group in the metadata and returns one of its shards with its single owner.
func (cl *csCluster) newShard() (id uint64, src, dst *csNode, err error) {
	cl.nextSG++
	sg, err := cl.cli.CreateShardGroup(c18kit.DB, c18kit.RP, time.Unix(0, 0).Add(time.Duration(cl.nextSG)*time.Hour))
	if err != nil {
		return 0, nil, nil, err
	}
	if len(sg.Shards) == 0 || len(sg.Shards[0].Owners) != 1 {
		return 0, nil, nil, fmt.Errorf("unexpected shard group %+v", sg)
	}
	sh := sg.Shards[0]
	for _, nd := range cl.nodes {
		if nd.id == sh.Owners[0].NodeID {
			src = nd
		} else {
			dst = nd
		}
	}
	if src == nil || dst == nil {
		return 0, nil, nil, fmt.Errorf("owner %d is not one of the nodes", sh.Owners[0].NodeID)
	}
	return sh.ID, src, dst, nil
}

// owners reads the shard's owner list from a fresh snapshot of the metadata.
func (cl *csCluster) owners(id uint64) (map[uint64]bool, error) {
	cfg := meta.NewConfig()
	cfg.Dir = filepath.Join(cl.root, fmt.Sprintf("mc-%d-%d", id, time.Now().UnixNano()))
	if err := os.MkdirAll(cfg.Dir, 0755); err != nil {
		return nil, err
	}
	defer os.RemoveAll(cfg.Dir)
	c := meta.NewClient(cfg)
	c.SetMetaServers([]string{cl.metaSvc.HTTPAddr()})
	if err := c.Open(); err != nil {
		return nil, err
	}
	defer c.Close()
	d := c.Data()
	for _, db := range d.Databases {
		for _, rp := range db.RetentionPolicies {
			for _, sg := range rp.ShardGroups {
				for _, sh := range sg.Shards {
					if sh.ID == id {
						out := map[uint64]bool{}
						for _, o := range sh.Owners {
							out[o.NodeID] = true
						}
						return out, nil
					}
				}
			}
		}
	}
	return nil, fmt.Errorf("shard %d not in the metadata", id)
}

func (cl *csCluster) copyShard(src, dst *csNode, id uint64) (int, string, error) {
	c := &http.Client{Timeout: 120 * time.Second}
	resp, err := c.PostForm("http://"+cl.metaSvc.HTTPAddr()+"/copy-shard",
		url.Values{"src": {src.addr}, "dest": {dst.addr}, "shard": {fmt.Sprint(id)}})
	if err != nil {
		return 0, "", err
	}
	defer resp.Body.Close()
	b, _ := io.ReadAll(io.LimitReader(resp.Body, 4096))
	return resp.StatusCode, strings.TrimSpace(string(b)), nil
}

type csCounters struct {
	scenarios, copies, ok, failed, advertised, held, cutsDone, leftovers, notCut, snapFails int
	classes, cuts                                                                           map[string]int
	sigs                                                                                    map[string]int
}

func csRun(cl *csCluster, in *csInput, bi int, c *csCounters) (infra error) {
	b := in.Behaviours[bi]
	id, src, dst, err := cl.newShard()
	if err != nil {
		return err
	}
	mismatch := func(sig, detail string, step int) {
		c.sigs[sig]++
		if c.sigs[sig] <= in.MaxSigs {
			vtrace.Mismatch(sig, fmt.Sprintf("behaviour %d step %d (%s) shard %d: %s", bi, step, b[step].A, id, detail),
				map[string]interface{}{"test": "net", "behaviour": b, "index": in.Index, "rst": in.RST, "sig": sig})
		}
	}
	hasShard := len(b) > 0 && b[0].St.HasShard
	defer func() {
		// a scenario that is not judged to its end must not leave a snapshot in flight on the shared node
		if hasShard && src.node.SnapInFlight(id) {
			src.node.SnapEnd(id)
		}
	}()
	if hasShard {
		if err := src.node.Store.CreateShard(c18kit.DB, c18kit.RP, id, true); err != nil {
			return err
		}
	}
	checkSrc := func(i int, sig string) bool {
		if !hasShard {
			return true
		}
		got, err := src.node.Read(id)
		if err != nil {
			mismatch(sig+":readerror", err.Error(), i)
			return false
		}
		if want := c18kit.ModelContent(b[i].St.Src); !got.Equal(want) {
			mismatch(sig, fmt.Sprintf("source reads %s, model %s", got, want), i)
			return false
		}
		return true
	}
	for i := 0; i < len(b); i++ {
		s := &b[i]
		switch s.A {
		case "Write":
			err = src.node.Write(id, s.P, s.V)
		case "Snapshot":
			err = src.node.Snapshot(id)
		case "SnapBegin":
			err = src.node.SnapBegin(id)
		case "SnapEnd":
			err = src.node.SnapEnd(id)
		case "Delete":
			err = src.node.Delete(id, s.P)
		case "Compact":
			err = src.node.Compact(id)
		case "RequestCopy":
			// the whole round is one call of the real handler
			var prev *c18kit.State
			if i > 0 {
				prev = &b[i-1].St
			}
			cls := c18kit.Class(prev, !hasShard)
			c.classes[cls]++
			cut, sent := "none", 0
			inflight, tombShip := false, false
			snapFail := ""
			end := i
			snapEndAt := -1
			for j := i + 1; j < len(b); j++ {
				switch b[j].A {
				case "ConnCut":
					cut, sent = b[j].X, b[j].St.Sent
				case "SrcMissing":
					cut = "missing"
				case "BackupBeginFail":
					cut, snapFail = "snapfail-"+b[j].X, b[j].X
				case "BackupBegin":
					inflight = b[j].St.SnapOn
					for _, u := range b[j].St.Units {
						if u.K == "tomb" {
							tombShip = true
						}
					}
				case "SnapEnd":
					snapEndAt = j
				case "Write", "Snapshot", "Delete", "Compact", "SnapBegin":
					return fmt.Errorf("behaviour %d: source action %s inside a copy round is not supported by the network replay", bi, b[j].A)
				}
				if b[j].A == "MetaAddOwner" || b[j].A == "CopyFailed" {
					end = j
					break
				}
			}
			if end == i {
				return fmt.Errorf("behaviour %d: copy round without an end", bi)
			}
			c.cuts[cut]++
			planned := cut != "none" && cut != "missing" && snapFail == ""
			if planned {
				src.cut.Arm(&c18kit.CutPlan{At: cut, Sent: sent, RST: in.RST})
			} else {
				src.cut.Arm(nil)
			}
			cutsBefore := src.cut.Cuts
			heal := func() {}
			if snapFail != "" {
				// the source's own cache snapshot will fail (not: is in progress)
				if heal, err = src.node.BreakSnapshot(id, snapFail); err != nil {
					return err
				}
				c.snapFails++
			} else {
				src.node.Wake(id)
			}
			status, body, err := cl.copyShard(src, dst, id)
			heal()
			src.cut.Arm(nil)
			if err != nil {
				return fmt.Errorf("POST /copy-shard: %v", err)
			}
			c.copies++
			if planned && src.cut.Cuts == cutsBefore {
				// the real stream has fewer entries than the model's: the copy ran to its end and is judged as one without
				// fault (the layout of the stream is not what the property speaks about, the copy's content is)
				vtrace.Mismatch("note:stream-differs:"+cut, fmt.Sprintf("behaviour %d shard %d: the modelled cut %s after %d entries did not happen", bi, id, cut, sent),
					map[string]interface{}{"test": "net", "behaviour": b, "index": in.Index, "rst": in.RST, "sig": "note:stream-differs"})
				c.notCut++
				cut = "none"
			}
			if src.cut.Cuts > cutsBefore {
				c.cutsDone++
			}
			if snapEndAt >= 0 {
				if err := src.node.SnapEnd(id); err != nil {
					return err
				}
			}
			own, err := cl.owners(id)
			if err != nil {
				return err
			}
			adv := own[dst.id]
			okStatus := status == http.StatusNoContent
			if okStatus {
				c.ok++
			} else {
				c.failed++
			}
			if adv {
				c.advertised++
			}
			st := &b[end].St
			tail := cut + ":"
			judged := true
			switch {
			case okStatus != adv:
				mismatch("copy:"+tail+"status-owner-disagree", fmt.Sprintf("class "+cls+": HTTP status %d (%s) but destination advertised = %v", status, body, adv), end)
				judged = false
			case adv:
				sh := dst.node.Store.Shard(id)
				if sh == nil {
					mismatch("copy:"+tail+"advertised-no-shard", "class "+cls+": the destination is listed as an owner but holds no such shard", end)
					judged = false
					break
				}
				got, err := c18kit.ReadShard(sh)
				if err != nil {
					mismatch("copy:"+tail+"advertised-unreadable", "class "+cls+": "+err.Error(), end)
					judged = false
					break
				}
				if in, _ := c18kit.InWindow(got, st.Window); !in && snapFail != "" {
					_, near := c18kit.InWindow(got, st.Window)
					_, missing, stale := got.Diff(near)
					mismatch("copy:"+tail+"cache-missing", fmt.Sprintf("class %s: the source's cache snapshot failed (%s) yet the copy answered success and the destination is advertised as owner; "+
						"it reads %s, the source %s (missing in the copy: %v, other value: %v)", cls, snapFail, got, near, missing, stale), end)
					judged = false
				} else if !in {
					dc, detail := c18kit.DiffClass(got, st.Window, cut != "none", inflight, tombShip)
					mismatch("copy:"+tail+dc, "class "+cls+": destination advertised as owner; "+detail, end)
					judged = false
				}
			case cut == "none" && !inflight:
				mismatch("copy:"+tail+"clean-failed", fmt.Sprintf("class "+cls+": a copy without fault failed: HTTP %d %s", status, body), end)
				judged = false
			}
			if !own[src.id] {
				mismatch("copy:"+tail+"source-owner-lost", "class "+cls+": the source is no longer listed as an owner", end)
				judged = false
			}
			if !checkSrc(end, "source-changed:copy") {
				judged = false
			}
			if hasShard {
				if sh := src.node.Store.Shard(id); sh != nil {
					if m, _ := filepath.Glob(filepath.Join(sh.Path(), "*.tmp")); len(m) > 0 {
						c.leftovers++
					}
				}
			}
			if judged {
				c.held++
			} else {
				return nil
			}
			i = end
			continue
		default:
			return fmt.Errorf("behaviour %d: unexpected action %s outside a copy round", bi, s.A)
		}
		if err != nil {
			return fmt.Errorf("behaviour %d step %d (%s): %v", bi, i, s.A, err)
		}
		if !checkSrc(i, "source:"+s.A+":content") {
			return nil
		}
	}
	c.scenarios++
	return nil
}

func TestVerifCopyShardNet(t *testing.T) {
	var in csInput
	if err := vtrace.LoadJSON(os.Getenv("VERIF_IN"), &in); err != nil {
		t.Fatalf("VERIF_IN: %v", err)
	}
	if in.Index == "" {
		in.Index = "inmem"
	}
	if in.MaxSigs <= 0 {
		in.MaxSigs = 2
	}
	cl, err := csNewCluster(in.Index)
	if err != nil {
		t.Fatalf("cluster: %v", err)
	}
	defer cl.close()
	c := &csCounters{classes: map[string]int{}, cuts: map[string]int{}, sigs: map[string]int{}}
	for bi := range in.Behaviours {
		if err := csRun(cl, &in, bi, c); err != nil {
			t.Fatalf("harness: %v", err)
		}
	}
	vtrace.Sample(map[string]interface{}{"net_copies": c.copies, "http_ok": c.ok, "http_failed": c.failed, "advertised": c.advertised, "cuts": c.cuts})
	vtrace.Done("TestVerifCopyShardNet", map[string]interface{}{
		"behaviours": len(in.Behaviours), "completed": c.scenarios, "copies": c.copies, "http_ok": c.ok, "http_failed": c.failed,
		"advertised": c.advertised, "held": c.held, "cuts_done": c.cutsDone, "classes": c.classes, "cuts": c.cuts,
		"source_tmp_leftovers": c.leftovers, "cuts_not_reached": c.notCut, "snapshot_faults": c.snapFails, "signatures": c.sigs,
	})
	if len(c.sigs) > 0 {
		t.Errorf("mismatches: %v", c.sigs)
	}
}
