// X04 - shard-group pre-creation (specs/precreate/Precreate.tla).
//
// TestVerifPrecreateReplay replays TLC-generated behaviours on a real single-node meta.Service + real
// meta.Client (PrecreateShardGroups / CreateShardGroup / TruncateShardGroups / UpdateRetentionPolicy /
// DeleteShardGroup), comparing after EVERY step
//   - the policy's ShardGroups slice (order, ranges, truncation / deletion marks, ids up to naming) with the model,
//   - the same slice with the TWIN: a plain real meta.Data driven by the same history in which every Precreate is
//     replaced by "a point arrives at the first instant after the newest group" (lazy creation) [X04a],
//   - the group serving each probe instant with the model and the twin [X04a],
//   - property predicates evaluated on the real before/after lists only (no model): no overlap of live serving
//     ranges, nothing resurrected, at most one group per call, creation iff now < end(newest) < cutoff,
//     no command issued by a call that creates nothing, never a group for a policy without groups [X04b, X04c].
//
// TestVerifPrecreateService runs the real precreator.Service against the real Client (event-driven waits).
package meta

import (
	"encoding/json"
	"fmt"
	"net"
	"os"
	"sort"
	"testing"
	"time"

	"github.com/influxdata/influxdb/pkg/verifx/vtrace"
	"github.com/influxdata/influxdb/services/precreator"
	"github.com/influxdata/influxdb/tcp"
	"github.com/influxdata/influxdb/toml"
)

type vqGroup struct {
	ID  int  `json:"id"`
	S   int  `json:"s"`
	E   int  `json:"e"`
	Tr  int  `json:"tr"`
	Del bool `json:"del"`
}

type vqProbe struct {
	T int    `json:"t"`
	R [2]int `json:"r"`
}

type vqStep struct {
	A       string    `json:"a"`
	X       int       `json:"x"`
	Gs      []vqGroup `json:"gs"`
	D       int       `json:"d"`
	Now     int       `json:"now"`
	Cut     int       `json:"cut"`
	Created bool      `json:"created"`
	Probes  []vqProbe `json:"probes"`
}

type vqInput struct {
	D0         int        `json:"d0"`
	Behaviours [][]vqStep `json:"behaviours"`
}

// hour 0 of the model: midnight UTC is a multiple of 24h counted from Go's zero time (origin of Truncate)
var vqBase = time.Date(2001, 1, 1, 0, 0, 0, 0, time.UTC)

// vqReal: k = 4q+r ->  r=0: q h, r=1: +1ns, r=2: +2ns, r=3: (q+1) h - 1ns
func vqReal(k int) time.Time {
	q, r := k/4, k%4
	if r == 3 {
		return vqBase.Add(time.Duration(q+1)*time.Hour - time.Nanosecond)
	}
	return vqBase.Add(time.Duration(q)*time.Hour + time.Duration(r))
}

const vqOff = 1 << 28 // marks an instant the model cannot express (value = vqOff + hour)

func vqModel(t time.Time) int {
	dn := t.Sub(vqBase)
	q := int(dn / time.Hour)
	rem := dn - time.Duration(q)*time.Hour
	switch {
	case dn < 0:
		return -vqOff
	case rem <= 2:
		return 4*q + int(rem)
	case rem == time.Hour-1:
		return 4*q + 3
	}
	return vqOff + q
}

func vqDur(d int) time.Duration { return time.Duration(d/4) * time.Hour }

type vqShape struct {
	Shards int
	Owners []int
}

// vqProject: the policy's ShardGroups slice in slice order; ids renamed by order of first appearance.
func vqProject(d *Data, db string, ids map[uint64]int) ([]vqGroup, []vqShape, []ShardGroupInfo) {
	rpi, _ := d.RetentionPolicy(db, "p")
	if rpi == nil {
		return nil, nil, nil
	}
	var fresh []uint64
	for _, g := range rpi.ShardGroups {
		if _, ok := ids[g.ID]; !ok {
			fresh = append(fresh, g.ID)
		}
	}
	sort.Slice(fresh, func(i, j int) bool { return fresh[i] < fresh[j] })
	for _, id := range fresh {
		ids[id] = len(ids) + 1
	}
	out := []vqGroup{}
	shapes := []vqShape{}
	for _, g := range rpi.ShardGroups {
		x := vqGroup{ID: ids[g.ID], S: vqModel(g.StartTime), E: vqModel(g.EndTime), Tr: -1, Del: g.Deleted()}
		if g.Truncated() {
			x.Tr = vqModel(g.TruncatedAt)
		}
		out = append(out, x)
		sh := vqShape{Shards: len(g.Shards)}
		for _, s := range g.Shards {
			sh.Owners = append(sh.Owners, len(s.Owners))
		}
		shapes = append(shapes, sh)
	}
	return out, shapes, rpi.ShardGroups
}

func vqRealID(ids map[uint64]int, model int) uint64 {
	for k, v := range ids {
		if v == model {
			return k
		}
	}
	return 1 << 40 // no such group
}

func vqJ(v interface{}) string { b, _ := json.Marshal(v); return string(b) }

func vqServe(d *Data, db string, k int) [2]int {
	g, _ := d.ShardGroupByTimestamp(db, "p", vqReal(k))
	if g == nil {
		return [2]int{-1, -1}
	}
	return [2]int{vqModel(g.StartTime), vqModel(g.EndTime)}
}

func vqEffEnd(g *ShardGroupInfo) time.Time {
	if g.Truncated() {
		return g.TruncatedAt
	}
	return g.EndTime
}

// vqPredicates: X04b / X04c evaluated on the real lists before and after one PrecreateShardGroups call.
func vqPredicates(before, after []ShardGroupInfo, now, cut time.Time, served0, served1 bool) (string, string) {
	old := map[uint64]ShardGroupInfo{}
	for _, g := range before {
		old[g.ID] = g
	}
	var created []ShardGroupInfo
	seen := map[uint64]bool{}
	for _, g := range after {
		seen[g.ID] = true
		o, ok := old[g.ID]
		if !ok {
			created = append(created, g)
			continue
		}
		if o.Deleted() && !g.Deleted() {
			return "x04b:resurrected", fmt.Sprintf("group %d was deleted before the call and is live after it", g.ID)
		}
		if !o.StartTime.Equal(g.StartTime) || !o.EndTime.Equal(g.EndTime) || !o.TruncatedAt.Equal(g.TruncatedAt) || o.Deleted() != g.Deleted() {
			return "x04b:touched-existing", fmt.Sprintf("group %d changed by a pre-creation call", g.ID)
		}
	}
	for id := range old {
		if !seen[id] {
			return "x04b:touched-existing", fmt.Sprintf("group %d disappeared", id)
		}
	}
	if len(created) > 1 {
		return "x04b:more-than-one", fmt.Sprintf("%d groups created by one call for one policy", len(created))
	}
	for i := range after {
		for j := i + 1; j < len(after); j++ {
			a, b := &after[i], &after[j]
			if a.Deleted() || b.Deleted() {
				continue
			}
			lo, hi := a.StartTime, vqEffEnd(a)
			if b.StartTime.After(lo) {
				lo = b.StartTime
			}
			if vqEffEnd(b).Before(hi) {
				hi = vqEffEnd(b)
			}
			if lo.Before(hi) {
				return "x04b:overlap", fmt.Sprintf("live groups %d and %d serve a common range", a.ID, b.ID)
			}
		}
	}
	if len(before) == 0 {
		if len(created) > 0 {
			return "x04b:created-for-empty-policy", "a policy without groups got one"
		}
		return "", ""
	}
	last := before[len(before)-1]
	in := last.EndTime.After(now) && last.EndTime.Before(cut)
	if len(created) == 1 {
		if last.Deleted() {
			return "x04b:successor-of-deleted", "the newest group is deleted"
		}
		if !in {
			return "x04c:outside-window", fmt.Sprintf("created although end=%s now=%s cutoff=%s", last.EndTime, now, cut)
		}
		if !created[0].Contains(last.EndTime) {
			return "x04a:not-the-successor", fmt.Sprintf("created [%s,%s) does not serve end(newest)=%s", created[0].StartTime, created[0].EndTime, last.EndTime)
		}
	} else if !last.Deleted() && in && !served0 && !served1 {
		return "x04c:missed", fmt.Sprintf("nothing created although now=%s < end=%s < cutoff=%s and the successor range is unserved", now, last.EndTime, cut)
	}
	return "", ""
}

func vqFreePort() string {
	l, _ := net.Listen("tcp", "127.0.0.1:0")
	defer l.Close()
	return l.Addr().String()
}

func vqInfra(t *testing.T, format string, a ...interface{}) {
	msg := fmt.Sprintf(format, a...)
	vtrace.Out(map[string]interface{}{"k": "infra", "detail": msg})
	t.Fatal(msg)
}

func vqStart(t *testing.T) (*Client, *Service, func()) {
	dir, err := os.MkdirTemp(os.Getenv("VERIF_SCRATCH"), "x04meta")
	if err != nil {
		t.Fatal(err)
	}
	cfg := NewConfig()
	cfg.BindAddress = vqFreePort()
	cfg.HTTPBindAddress = vqFreePort()
	cfg.Dir = dir
	cfg.LoggingEnabled = false
	cfg.LeaseDuration = toml.Duration(time.Second)
	cfg.SingleServer = true
	ln, err := net.Listen("tcp", cfg.BindAddress)
	if err != nil {
		vqInfra(t, "%v", err)
	}
	mux := tcp.NewMux()
	s := NewService(cfg)
	s.RaftListener = mux.Listen(MuxHeader)
	go mux.Serve(ln)
	if err := s.Open(); err != nil {
		vqInfra(t, "meta service: %v", err)
	}
	c := NewClient(cfg)
	c.SetMetaServers([]string{cfg.HTTPBindAddress})
	if err := c.Open(); err != nil {
		vqInfra(t, "meta client: %v", err)
	}
	for _, a := range []string{"h1", "h2"} {
		if _, err := c.CreateDataNode(a+":8086", a+":8088"); err != nil {
			vqInfra(t, "%v", err)
		}
	}
	return c, s, func() { c.Close(); s.Close(); ln.Close(); os.RemoveAll(dir) }
}

func vqSpec(d0 int) *RetentionPolicySpec {
	one, dur, sgd := 1, time.Duration(0), vqDur(d0)
	return &RetentionPolicySpec{Name: "p", ReplicaN: &one, Duration: &dur, ShardGroupDuration: sgd}
}

func vqStoreIndex(svc *Service) uint64 {
	svc.store.mu.RLock()
	defer svc.store.mu.RUnlock()
	return svc.store.data.Index
}

func vqAge(d *Data) {
	for i := range d.Databases {
		for j := range d.Databases[i].RetentionPolicies {
			gs := d.Databases[i].RetentionPolicies[j].ShardGroups
			for k := range gs {
				if gs[k].Deleted() {
					gs[k].DeletedAt = gs[k].DeletedAt.Add(-15 * 24 * time.Hour)
				}
			}
		}
	}
}

type vqOutcome struct {
	sig, detail     string
	step            int
	steps, creating int
	cover           map[string]int
}

// vqTwinPre: the oracle for X04a/X04c on a real Data: inside the window a point arrives at end(newest).
func vqTwinPre(tw *Data, db string, now, cut time.Time) {
	rpi, _ := tw.RetentionPolicy(db, "p")
	if rpi == nil || len(rpi.ShardGroups) == 0 {
		return
	}
	g := rpi.ShardGroups[len(rpi.ShardGroups)-1]
	if g.Deleted() || !g.EndTime.After(now) || !g.EndTime.Before(cut) {
		return
	}
	tw.CreateShardGroup(db, "p", g.EndTime)
}

func vqReplayOne(c *Client, svc *Service, db string, d0 int, beh []vqStep) (o vqOutcome) {
	o.cover = map[string]int{}
	fail := func(i int, sig, detail string) vqOutcome { o.sig, o.detail, o.step = sig, detail, i; return o }
	if _, err := c.CreateDatabaseWithRetentionPolicy(db, vqSpec(d0)); err != nil {
		return fail(-1, "infra:create-db", err.Error())
	}
	defer c.DropDatabase(db)
	tw := &Data{}
	tw.CreateDataNode("h1:8086", "h1:8088")
	tw.CreateDataNode("h2:8086", "h2:8088")
	tw.CreateDatabase(db)
	rpi := vqSpec(d0).NewRetentionPolicyInfo()
	if err := tw.CreateRetentionPolicy(db, rpi, true); err != nil {
		return fail(-1, "infra:twin", err.Error())
	}
	ids, twids := map[uint64]int{}, map[uint64]int{}
	now := 0
	for i, st := range beh {
		o.steps++
		d := c.Data()
		_, _, before := vqProject(&d, db, ids)
		before = append([]ShardGroupInfo(nil), before...)
		idx0 := vqStoreIndex(svc)
		var err error
		var rnow, rcut time.Time
		switch st.A {
		case "Write":
			var sg *ShardGroupInfo
			sg, err = c.CreateShardGroup(db, "p", vqReal(st.X))
			if err == nil && (sg == nil || !sg.Contains(vqReal(st.X)) || sg.Deleted()) {
				return fail(i, "write:no-serving-group", fmt.Sprintf("CreateShardGroup(%d) returned %v", st.X, sg))
			}
			tw.CreateShardGroup(db, "p", vqReal(st.X))
		case "Precreate":
			rnow, rcut = vqReal(now), vqReal(now+st.X)
			if now+st.X != st.Cut {
				return fail(i, "infra:cut", "harness clock differs from the model's")
			}
			err = c.PrecreateShardGroups(rnow, rcut)
			vqTwinPre(tw, db, rnow, rcut)
		case "Truncate":
			err = c.TruncateShardGroups(vqReal(st.X))
			tw.TruncateShardGroups(vqReal(st.X))
		case "Alter":
			dd := vqDur(st.X)
			err = c.UpdateRetentionPolicy(db, "p", &RetentionPolicyUpdate{ShardGroupDuration: &dd}, false)
			dd2 := vqDur(st.X)
			if e2 := tw.UpdateRetentionPolicy(db, "p", &RetentionPolicyUpdate{ShardGroupDuration: &dd2}, false); e2 != nil {
				return fail(i, "infra:twin-alter", e2.Error())
			}
		case "Delete":
			err = c.DeleteShardGroup(db, "p", vqRealID(ids, st.X))
			tw.DeleteShardGroup(db, "p", vqRealID(twids, st.X))
			present := false
			for _, g := range before {
				present = present || ids[g.ID] == st.X
			}
			if !present { // pruned earlier: the command is rejected, nothing changes
				if err == nil || err.Error() != ErrShardGroupNotFound.Error() {
					return fail(i, "api:delete-of-pruned-group", fmt.Sprintf("%v", err))
				}
				err = nil
			}
		case "Prune":
			// two weeks pass: the deletion stamps (wall-clock values) are moved back in the store's value and in the twin,
			// then the real command runs
			svc.store.mu.Lock()
			aged := svc.store.data.Clone()
			vqAge(aged)
			svc.store.data = aged
			svc.store.mu.Unlock()
			vqAge(tw)
			err = c.PruneShardGroups()
			tw.PruneShardGroups()
		case "Tick":
			now = st.X
		default:
			return fail(i, "infra:step", st.A)
		}
		if err != nil {
			return fail(i, "api:error:"+st.A, err.Error())
		}
		if now != st.Now {
			return fail(i, "infra:now", "harness clock differs from the model's")
		}
		d = c.Data()
		got, shapes, after := vqProject(&d, db, ids)
		twgot, twshapes, _ := vqProject(tw, db, twids)
		created := len(after) > len(before)
		if created {
			o.creating++
		}
		o.cover[fmt.Sprintf("%s:%v", st.A, created)]++
		// property predicates on the real lists (no model)
		if st.A == "Precreate" {
			served0, served1 := false, false
			if len(before) > 0 {
				e := before[len(before)-1].EndTime
				for k := range before {
					g := &before[k]
					for n, ts := range []time.Time{e, e.Add(1)} {
						if g.Contains(ts) && !g.Deleted() && (!g.Truncated() || ts.Before(g.TruncatedAt)) {
							if n == 0 {
								served0 = true
							} else {
								served1 = true
							}
						}
					}
				}
			}
			if sig, det := vqPredicates(before, after, rnow, rcut, served0, served1); sig != "" {
				return fail(i, sig, det)
			}
			// the store's index (every applied log entry, also a rejected command, moves it before the call returns); the
			// client's cached index may lag behind after a rejected command and is not used here
			if idx1 := vqStoreIndex(svc); !created && idx1 != idx0 {
				return fail(i, "x04b:noop-call-issued-command", fmt.Sprintf("store index %d -> %d although nothing was created", idx0, idx1))
			}
			if z, _ := d.RetentionPolicy("zempty", "p"); z == nil || len(z.ShardGroups) != 0 {
				return fail(i, "x04b:created-for-empty-policy", "the policy that never received a point has a group")
			}
		} else if st.A != "Write" && created {
			return fail(i, "proj:unexpected-creation", st.A)
		}
		// model
		if vqJ(got) != vqJ(st.Gs) {
			return fail(i, "proj:"+st.A, fmt.Sprintf("step %d %s(%d): real %s model %s", i, st.A, st.X, vqJ(got), vqJ(st.Gs)))
		}
		if created != st.Created {
			return fail(i, "created:"+st.A, fmt.Sprintf("real %v model %v", created, st.Created))
		}
		// twin (X04a)
		if vqJ(got) != vqJ(twgot) {
			return fail(i, "x04a:twin:"+st.A, fmt.Sprintf("step %d: with pre-creation %s, with the lazy write instead %s", i, vqJ(got), vqJ(twgot)))
		}
		if vqJ(shapes) != vqJ(twshapes) {
			return fail(i, "x04a:twin-shards:"+st.A, fmt.Sprintf("step %d: shards/owners %s vs %s", i, vqJ(shapes), vqJ(twshapes)))
		}
		for _, sh := range shapes {
			if sh.Shards != 2 || vqJ(sh.Owners) != "[1,1]" {
				return fail(i, "x04a:shape", fmt.Sprintf("2 nodes, replication 1: expected 2 shards with one owner each, got %s", vqJ(sh)))
			}
		}
		for _, p := range st.Probes {
			r, rt := vqServe(&d, db, p.T), vqServe(tw, db, p.T)
			if r != p.R {
				return fail(i, "probe:model", fmt.Sprintf("step %d instant %d served by %v, model %v", i, p.T, r, p.R))
			}
			if r != rt {
				return fail(i, "x04a:probe:twin", fmt.Sprintf("step %d instant %d served by %v, twin %v", i, p.T, r, rt))
			}
		}
	}
	return o
}

func TestVerifPrecreateReplay(t *testing.T) {
	var in vqInput
	if err := vtrace.LoadJSON(os.Getenv("VERIF_IN"), &in); err != nil {
		t.Skip("no VERIF_IN")
	}
	c, svc, stop := vqStart(t)
	defer stop()
	if _, err := c.CreateDatabaseWithRetentionPolicy("zempty", vqSpec(8)); err != nil {
		vqInfra(t, "%v", err)
	}
	cover := map[string]int{}
	seen := map[string]bool{}
	steps, creating, bad := 0, 0, 0
	for bi, beh := range in.Behaviours {
		o := vqReplayOne(c, svc, fmt.Sprintf("b%d", bi), in.D0, beh)
		steps += o.steps
		creating += o.creating
		for k, v := range o.cover {
			cover[k] += v
		}
		if o.sig != "" {
			if len(o.sig) > 6 && o.sig[:6] == "infra:" {
				vqInfra(t, "%s: %s", o.sig, o.detail)
			}
			bad++
			if !seen[o.sig] && len(seen) < 4 {
				seen[o.sig] = true
				vtrace.Mismatch(o.sig, fmt.Sprintf("behaviour %d step %d: %s", bi, o.step, o.detail),
					map[string]interface{}{"d0": in.D0, "behaviour": beh, "step": o.step})
			}
		} else if bi < 2 {
			vtrace.Sample(map[string]interface{}{"behaviour": bi, "steps": len(beh), "last": beh[len(beh)-1].Gs})
		}
	}
	vtrace.Done("TestVerifPrecreateReplay", map[string]interface{}{"behaviours": len(in.Behaviours), "steps": steps,
		"groups_created": creating, "mismatching_behaviours": bad, "cover": cover})
	if bad > 0 {
		t.Fail()
	}
}

// ---------------------------------------------------------------------------------------------
// the real precreator.Service on the real client: the successor of the group holding "now" appears without any
// write, within the advance window only, and Close stops the calls.

func vqWaitGroups(c *Client, db string, n int, d time.Duration) (int, bool) {
	dead := time.After(d)
	for {
		ch := c.WaitForDataChanged()
		gs, _ := c.ShardGroupsByTimeRange(db, "p", time.Unix(0, 0), time.Now().Add(1000*time.Hour))
		if len(gs) >= n {
			return len(gs), true
		}
		select {
		case <-ch:
		case <-dead:
			return len(gs), false
		}
	}
}

func TestVerifPrecreateService(t *testing.T) {
	if os.Getenv("VERIF_OUT") == "" {
		t.Skip("no VERIF_OUT")
	}
	c, _, stop := vqStart(t)
	defer stop()
	for _, db := range []string{"near", "far", "zempty"} {
		if _, err := c.CreateDatabaseWithRetentionPolicy(db, vqSpec(4)); err != nil { // 1h groups
			vqInfra(t, "%v", err)
		}
	}
	start := time.Now().UTC()
	if _, err := c.CreateShardGroup("near", "p", start); err != nil {
		vqInfra(t, "%v", err)
	}
	// "far": newest group ends 5h+ from now: beyond a 2h horizon
	if _, err := c.CreateShardGroup("far", "p", start.Add(5*time.Hour)); err != nil {
		vqInfra(t, "%v", err)
	}
	pc := precreator.NewConfig()
	pc.CheckInterval = toml.Duration(5 * time.Millisecond)
	pc.AdvancePeriod = toml.Duration(2 * time.Hour) // end(newest) of "near" is at most 1h away: inside
	svc := precreator.NewService(pc)
	svc.MetaClient = c
	if err := svc.Open(); err != nil {
		vqInfra(t, "%v", err)
	}
	if err := svc.Open(); err != nil { // second Open: no-op
		vqInfra(t, "%v", err)
	}
	// window 2h, groups 1h: the calls converge to: newest group of "near" ends at/after now+2h => 3 groups (or 4 when the
	// clock crosses an hour boundary during the test)
	n, ok := vqWaitGroups(c, "near", 3, 60*time.Second)
	if !ok {
		svc.Close()
		vtrace.Out(map[string]interface{}{"k": "infra", "detail": fmt.Sprintf("watchdog: %d groups", n)})
		t.Fatalf("watchdog: precreation service created %d groups", n)
	}
	if err := svc.Close(); err != nil {
		vqInfra(t, "%v", err)
	}
	end := time.Now().UTC()
	d := c.Data()
	idx := d.Index
	fail := func(sig, detail string) {
		vtrace.Mismatch(sig, detail, map[string]interface{}{"test": "TestVerifPrecreateService"})
		t.Fail()
	}
	near, _ := d.ShardGroups("near", "p")
	for i := 1; i < len(near); i++ {
		if !near[i].StartTime.Equal(near[i-1].EndTime) {
			fail("svc:not-contiguous", fmt.Sprintf("%s then %s", near[i-1].EndTime, near[i].StartTime))
		}
	}
	newest := near[len(near)-1]
	// fixpoint reached and never beyond: the newest group ends at/after (some now)+2h, its predecessor ended before (end)+2h
	if newest.EndTime.Before(start.Add(2 * time.Hour)) {
		fail("svc:window-not-filled", fmt.Sprintf("newest ends %s, start+advance %s", newest.EndTime, start.Add(2*time.Hour)))
	}
	if len(near) >= 2 && !near[len(near)-2].EndTime.Before(end.Add(2*time.Hour)) {
		fail("svc:beyond-window", fmt.Sprintf("a successor was created for a group ending %s >= cutoff %s", near[len(near)-2].EndTime, end.Add(2*time.Hour)))
	}
	if far, _ := d.ShardGroups("far", "p"); len(far) != 1 {
		fail("svc:beyond-window", fmt.Sprintf("policy whose newest group ends beyond the horizon has %d groups", len(far)))
	}
	if z, _ := d.ShardGroups("zempty", "p"); len(z) != 0 {
		fail("svc:created-for-empty-policy", fmt.Sprintf("%d groups", len(z)))
	}
	// after Close no further call: the client sees no new command (Close waits for the loop goroutine)
	if d2 := c.Data(); d2.Index != idx {
		fail("svc:call-after-close", fmt.Sprintf("index %d -> %d after Close", idx, d2.Index))
	}
	vtrace.Done("TestVerifPrecreateService", map[string]interface{}{"groups_near": len(near)})
}
