package coordinator

// C15 - the same live coordinator.Service, but in front of a REAL tsdb.Store (tsm1 engine, temp dir): the few frame
// classes whose effect depends on what the storage layer does with the decoded request.  Confirms with the real
// collaborator what the stub run shows (a nil point handed to the store = nil dereference in tsdb.Shard; a cast to
// unsigned makes the engine create an unsigned iterator).

import (
	"bytes"
	"context"
	"fmt"
	"io"
	"log"
	"net"
	"os"
	"path/filepath"
	"strings"
	"testing"
	"time"

	"github.com/influxdata/influxdb/models"
	"github.com/influxdata/influxdb/pkg/verifx/vtrace"
	"github.com/influxdata/influxdb/query"
	"github.com/influxdata/influxdb/tsdb"
	_ "github.com/influxdata/influxdb/tsdb/engine"
	_ "github.com/influxdata/influxdb/tsdb/index"
	"github.com/influxdata/influxql"
)

type vwRealCase struct {
	name    string
	frame   func() []byte
	allowed []string
	check   func(react, canon string, rest []byte) string // "" = fine
}

func vwRealPoints() []models.Point {
	var out []models.Point
	for i := 0; i < 3; i++ {
		p, err := models.NewPoint("cpu", models.NewTags(map[string]string{"host": "a"}),
			map[string]interface{}{"value": float64(i) + 0.5, "n": int64(i + 1)}, time.Unix(0, int64(i+1)*1000))
		if err != nil {
			panic(err)
		}
		out = append(out, p)
	}
	return out
}

func vwRealIterFrame(field string, typ influxql.DataType) []byte {
	req := CreateIteratorRequest{ShardIDs: []uint64{1},
		Measurement: influxql.Measurement{Database: "db0", RetentionPolicy: "rp0", Name: "cpu"},
		Opt: query.IteratorOptions{Expr: &influxql.VarRef{Val: field, Type: typ}, StartTime: influxql.MinTime, EndTime: influxql.MaxTime,
			Ascending: true, Ordered: true, Dimensions: []string{"host"}}}
	return vwFrameBytes(createIteratorRequestMessage, vwMust(req.MarshalBinary()))
}

func vwRealStream(want []string) func(react, canon string, rest []byte) string {
	return func(react, canon string, rest []byte) string {
		if react != "ok" {
			return ""
		}
		var resp CreateIteratorResponse
		if i := strings.Index(canon, "type="); i < 0 {
			return "no type in " + canon
		}
		for name, t := range vwTypes {
			if strings.Contains(canon, "type="+name+" ") {
				resp.Type = t
			}
		}
		got, err := vwDrain(query.NewReaderIterator(context.Background(), bytes.NewReader(rest), resp.Type, query.IteratorStats{}))
		if err != nil {
			return "stream: " + err.Error()
		}
		var vals []string
		for _, g := range got {
			i := strings.Index(g, " val=")
			j := strings.Index(g, " aux=")
			vals = append(vals, g[i+5:j])
		}
		if strings.Join(vals, ",") != strings.Join(want, ",") {
			return fmt.Sprintf("streamed values %v, stored %v (%s)", vals, want, canon)
		}
		return ""
	}
}

func TestVerifWireRealStore(t *testing.T) {
	log.SetOutput(io.Discard)
	only := os.Getenv("VERIF_ONLY")
	skip := map[string]bool{}
	for _, s := range strings.Split(os.Getenv("VERIF_SKIP"), ",") {
		skip[s] = true
	}
	dir, err := os.MkdirTemp(os.Getenv("VERIF_SCRATCH"), "vwreal-")
	if err != nil {
		t.Fatal(err)
	}
	defer os.RemoveAll(dir)
	store := tsdb.NewStore(filepath.Join(dir, "data"))
	store.EngineOptions.Config.WALDir = filepath.Join(dir, "wal")
	store.EngineOptions.Config.Dir = filepath.Join(dir, "data")
	if err := store.Open(); err != nil {
		t.Fatal(err)
	}
	defer store.Close()
	if err := store.CreateShard("db0", "rp0", 1, true); err != nil {
		t.Fatal(err)
	}
	n, err := vwNewNode()
	if err != nil {
		t.Fatal(err)
	}
	n.svc.TSDBStore = ClusterTSDBStore{Store: store}

	good := vwMust(vwRealPoints()[0].MarshalBinary())
	cases := []vwRealCase{
		{name: "write-valid", allowed: []string{"ok"}, frame: func() []byte {
			var req WriteShardRequest
			req.SetShardID(1)
			req.SetDatabase("db0")
			req.SetRetentionPolicy("rp0")
			req.AddPoints(vwRealPoints())
			return vwFrameBytes(writeShardRequestMessage, vwMust(req.MarshalBinary()))
		}},
		{name: "iterator-float", allowed: []string{"ok"}, frame: func() []byte { return vwRealIterFrame("value", influxql.Float) },
			check: vwRealStream([]string{"float64(0.5)", "float64(1.5)", "float64(2.5)"})},
		{name: "iterator-integer", allowed: []string{"ok"}, frame: func() []byte { return vwRealIterFrame("n", influxql.Integer) },
			check: vwRealStream([]string{"int64(1)", "int64(2)", "int64(3)"})},
		{name: "iterator-cast-unsigned", allowed: []string{"ok"}, frame: func() []byte { return vwRealIterFrame("n", influxql.Unsigned) },
			check: vwRealStream([]string{"uint64(1)", "uint64(2)", "uint64(3)"})},
		{name: "write-undecodable-point", allowed: []string{"err", "close"}, frame: func() []byte {
			var req WriteShardRequest
			req.SetShardID(1)
			req.SetDatabase("db0")
			req.SetRetentionPolicy("rp0")
			req.SetBinaryPoints([][]byte{good, []byte("garbage"), good})
			return vwFrameBytes(writeShardRequestMessage, vwMust(req.MarshalBinary()))
		}},
		{name: "iterator-unknown-shard", allowed: []string{"ok", "err", "close"}, frame: func() []byte {
			req := CreateIteratorRequest{ShardIDs: []uint64{99}, Measurement: influxql.Measurement{Name: "cpu"},
				Opt: query.IteratorOptions{Expr: &influxql.VarRef{Val: "value", Type: influxql.Float}}}
			return vwFrameBytes(createIteratorRequestMessage, vwMust(req.MarshalBinary()))
		}},
		{name: "write-unknown-shard", allowed: []string{"ok", "err", "close"}, frame: func() []byte {
			var req WriteShardRequest
			req.SetShardID(77)
			req.AddPoints(vwRealPoints())
			return vwFrameBytes(writeShardRequestMessage, vwMust(req.MarshalBinary()))
		}},
	}
	ran, sigs := 0, map[string]int{}
	for _, c := range cases {
		if (only != "" && c.name != only && c.name != "write-valid") || skip[c.name] {
			continue
		}
		vtrace.Out(map[string]interface{}{"k": "inflight", "id": c.name})
		conn, err := n.dialHeader(MuxHeader)
		if err != nil {
			t.Fatal(err)
		}
		sc, err := n.takeAccepted()
		if err != nil {
			t.Fatal(err)
		}
		fb := c.frame()
		conn.Write(fb)
		conn.(*net.TCPConn).CloseWrite()
		replies, err := vwReadAll(conn)
		if err != nil {
			t.Fatal(err)
		}
		conn.Close()
		if err := vwWaitClosed(sc); err != nil {
			t.Fatal(err)
		}
		ran++
		react, canon, used := "close", "", 0
		if len(replies) > 0 {
			react, canon, used = vwDecodeReply(fb[0], replies)
		}
		msg := ""
		if !vwIn(react, c.allowed) {
			msg = fmt.Sprintf("reaction %s (%s), allowed %v", react, canon, c.allowed)
		} else if c.check != nil {
			msg = c.check(react, canon, replies[used:])
		}
		if msg != "" {
			sig := "realstore:" + c.name
			sigs[sig]++
			vtrace.Mismatch(sig, msg, map[string]interface{}{"test": "realstore", "case": c.name})
		}
	}
	n.close()
	vtrace.Done("TestVerifWireRealStore", map[string]interface{}{"cases": ran, "signatures": sigs})
	if len(sigs) > 0 {
		t.Errorf("mismatches: %v", sigs)
	}
}
