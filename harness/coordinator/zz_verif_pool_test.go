package coordinator

// Verification harness for the inter-node connection pool (specs/pool): sequential replay of PoolGen
// behaviours on the real boundedPool with a scripted factory, and a stress driver with Go-side
// invariants (C19: bound on live connections, nothing left open after Close).

import (
	"errors"
	"fmt"
	"math/rand"
	"net"
	"os"
	"sort"
	"sync"
	"sync/atomic"
	"testing"
	"time"

	"github.com/influxdata/influxdb/pkg/verifx/vtrace"
	"github.com/influxdata/influxdb/services/meta"
)

type vpoolConn struct {
	id     int
	closed int32
	reg    *vpoolReg
}

func (c *vpoolConn) Read(b []byte) (int, error)         { return 0, errors.New("fake") }
func (c *vpoolConn) Write(b []byte) (int, error)        { return len(b), nil }
func (c *vpoolConn) Close() error                       { atomic.AddInt32(&c.closed, 1); return nil }
func (c *vpoolConn) LocalAddr() net.Addr                { return nil }
func (c *vpoolConn) RemoteAddr() net.Addr               { return nil }
func (c *vpoolConn) SetDeadline(t time.Time) error      { return nil }
func (c *vpoolConn) SetReadDeadline(t time.Time) error  { return nil }
func (c *vpoolConn) SetWriteDeadline(t time.Time) error { return nil }

type vpoolReg struct {
	mu    sync.Mutex
	conns []*vpoolConn
	fail  bool
}

func (r *vpoolReg) factory() (net.Conn, error) {
	r.mu.Lock()
	defer r.mu.Unlock()
	if r.fail {
		return nil, errors.New("dial refused")
	}
	c := &vpoolConn{id: len(r.conns) + 1, reg: r}
	r.conns = append(r.conns, c)
	return c, nil
}

func (r *vpoolReg) live() []int {
	r.mu.Lock()
	defer r.mu.Unlock()
	out := []int{}
	for _, c := range r.conns {
		if atomic.LoadInt32(&c.closed) == 0 {
			out = append(out, c.id)
		}
	}
	return out
}

func (r *vpoolReg) doubleClosed() []int {
	r.mu.Lock()
	defer r.mu.Unlock()
	out := []int{}
	for _, c := range r.conns {
		if atomic.LoadInt32(&c.closed) > 1 {
			out = append(out, c.id)
		}
	}
	return out
}

type vpoolStep struct {
	A      string      `json:"a"`
	C      string      `json:"c"`
	DialOK bool        `json:"dialok"`
	Res    interface{} `json:"res"`
	St     struct {
		Idle   []int `json:"idle"`
		Tokens int   `json:"tokens"`
		Open   bool  `json:"open"`
		Live   []int `json:"live"`
	} `json:"st"`
}

func vpoolEq(a, b []int) bool {
	if len(a) != len(b) {
		return false
	}
	for i := range a {
		if a[i] != b[i] {
			return false
		}
	}
	return true
}

func TestVerifPoolReplay(t *testing.T) {
	var in struct {
		Consts     map[string]int `json:"consts"`
		Behaviours [][]vpoolStep  `json:"behaviours"`
	}
	if err := vtrace.LoadJSON(os.Getenv("VERIF_IN"), &in); err != nil {
		t.Fatal(err)
	}
	oldWait := PoolWaitTimeout
	PoolWaitTimeout = 30 * time.Millisecond
	defer func() { PoolWaitTimeout = oldWait }()
	steps := 0
	for bi, beh := range in.Behaviours {
		reg := &vpoolReg{}
		p, err := NewBoundedPool(0, in.Consts["Max"], 0, reg.factory)
		if err != nil {
			t.Fatal(err)
		}
		hands := map[string]net.Conn{}
		mis := func(sig, detail string, i int) {
			vtrace.Mismatch(sig, detail, map[string]interface{}{"test": "POOL", "consts": in.Consts, "behaviour": beh, "step": i})
		}
	steps:
		for i, st := range beh {
			steps++
			switch st.A {
			case "get":
				reg.mu.Lock()
				reg.fail = !st.DialOK
				reg.mu.Unlock()
				conn, err := p.Get()
				got := ""
				switch {
				case err == nil:
					got = fmt.Sprint(conn.(*pooledConn).Conn.(*vpoolConn).id)
					hands[st.C] = conn
				case err == ErrClosed:
					got = "closed"
				case err.Error() == "dial refused":
					got = "dialerr"
				default:
					got = "timeout"
				}
				if got != fmt.Sprint(st.Res) {
					mis("pool:get:result", fmt.Sprintf("step %d Get by %s: %s, model %v", i, st.C, got, st.Res), i)
					break steps
				}
			case "release":
				hands[st.C].Close()
				delete(hands, st.C)
			case "mark":
				MarkUnusable(hands[st.C])
			case "close":
				p.Close()
			}
			live := reg.live()
			sort.Ints(live)
			want := append([]int{}, st.St.Live...)
			sort.Ints(want)
			if !vpoolEq(live, want) {
				mis("pool:"+st.A+":live", fmt.Sprintf("step %d after %s: connections still open %v, model %v", i, st.A, live, want), i)
				break
			}
			if st.St.Open {
				if p.Len() != len(st.St.Idle) || p.Size() != st.St.Tokens {
					mis("pool:"+st.A+":counts", fmt.Sprintf("step %d after %s: Len=%d Size=%d, model idle=%d tokens=%d", i, st.A, p.Len(), p.Size(), len(st.St.Idle), st.St.Tokens), i)
					break
				}
				if p.Size() > in.Consts["Max"] || len(live) > in.Consts["Max"] {
					mis("pool:bound", fmt.Sprintf("step %d: more than Max connections", i), i)
					break
				}
			}
		}
		p.Close()
		for _, c := range hands {
			c.Close()
		}
		if bi < 2 {
			vtrace.Sample(map[string]interface{}{"pool_behaviour": beh})
		}
	}
	vtrace.Done("TestVerifPoolReplay", map[string]interface{}{"behaviours": len(in.Behaviours), "steps": steps})
}

// Stress: users Get / use / MarkUnusable / Close concurrently, the pruner runs, the pool is closed while in use.
func TestVerifPoolStress(t *testing.T) {
	rounds := vtrace.EnvInt("VERIF_ROUNDS", 40)
	oldWait := PoolWaitTimeout
	PoolWaitTimeout = 20 * time.Millisecond
	defer func() { PoolWaitTimeout = oldWait }()
	gets := int64(0)
	for r := 0; r < rounds; r++ {
		rng := rand.New(rand.NewSource(vtrace.Seed()*1000 + int64(r)))
		max := 1 + rng.Intn(4)
		reg := &vpoolReg{}
		idle := time.Duration(0)
		if r%2 == 1 {
			idle = 2 * time.Millisecond
		}
		p, err := NewBoundedPool(rng.Intn(max+1), max, idle, reg.factory)
		if err != nil {
			t.Fatal(err)
		}
		var wg sync.WaitGroup
		var maxLive int32 // worst excess over the bound (<= 0 when the bound held)
		var closeStarted, closeFinished int64
		var stop int32
		for g := 0; g < 8; g++ {
			wg.Add(1)
			go func(g int) {
				defer wg.Done()
				lr := rand.New(rand.NewSource(int64(r*100 + g)))
				for k := 0; k < 60 && atomic.LoadInt32(&stop) == 0; k++ {
					c, err := p.Get()
					if err != nil {
						continue
					}
					atomic.AddInt64(&gets, 1)
					// The code frees the token before it closes the socket, so a connection that is being
					// closed may coexist with its replacement.  Sound bound at the instant the registry is
					// read: max + (closes started by then - closes finished before).
					fb := atomic.LoadInt64(&closeFinished)
					n := int32(len(reg.live()))
					sa := atomic.LoadInt64(&closeStarted)
					if over := n - int32(max) - int32(sa-fb); over > atomic.LoadInt32(&maxLive) {
						atomic.StoreInt32(&maxLive, over)
					}
					if lr.Intn(5) == 0 {
						MarkUnusable(c)
					}
					atomic.AddInt64(&closeStarted, 1)
					c.Close()
					atomic.AddInt64(&closeFinished, 1)
				}
			}(g)
		}
		if r%3 != 0 {
			time.Sleep(time.Duration(rng.Intn(3)) * time.Millisecond) // where Close falls is not relied upon
		}
		closeEarly := r%3 != 0
		if closeEarly {
			p.Close()
		}
		wg.Wait()
		if !closeEarly {
			p.Close()
		}
		atomic.StoreInt32(&stop, 1)
		rep := map[string]interface{}{"test": "POOLSTRESS", "round": r, "max": max}
		if maxLive > 0 {
			vtrace.Mismatch("poolstress:bound", fmt.Sprintf("round %d: %d more connections open at once than max %d plus the connections being closed", r, maxLive, max), rep)
		}
		if dc := reg.doubleClosed(); len(dc) > 0 {
			vtrace.Mismatch("poolstress:double-close", fmt.Sprintf("round %d: connections closed twice %v", r, dc), rep)
		}
		// after Close and after every user gave its connection back nothing may stay open
		deadline := time.Now().Add(2 * time.Second)
		var live []int
		for {
			live = reg.live()
			if len(live) == 0 || time.Now().After(deadline) {
				break
			}
			time.Sleep(5 * time.Millisecond)
		}
		if len(live) > 0 {
			sig := "poolstress:leak"
			if idle > 0 {
				sig = "poolstress:leak:pruner" // the pruner can hold connections when Close runs (Pool.tla: C19_PrunerNeverStuck)
			}
			vtrace.Mismatch(sig, fmt.Sprintf("round %d: connections %v still open after pool Close and all users returned", r, live), rep)
		}
	}
	vtrace.Done("TestVerifPoolStress", map[string]interface{}{"rounds": rounds, "gets": gets})
}

// ---- check-then-create of a node's pool (client_pool.go, ShardWriter.dial / MetaExecutor.dial) -------------
// Pool.tla's companion for the per-node pool map: concurrent first dials to one node must end with ONE pool;
// every connection ever opened must be closed once the writer is closed and all users returned theirs.

type vpoolMeta struct{ addr string }

func (m vpoolMeta) DataNode(id uint64) (*meta.NodeInfo, error) {
	return &meta.NodeInfo{ID: id, TCPAddr: m.addr}, nil
}

func (m vpoolMeta) ShardOwner(shardID uint64) (string, string, *meta.ShardGroupInfo) {
	return "", "", nil
}

func TestVerifClientPoolRace(t *testing.T) {
	rounds := vtrace.EnvInt("VERIF_ROUNDS", 30)
	for r := 0; r < rounds; r++ {
		ln, err := net.Listen("tcp", "127.0.0.1:0")
		if err != nil {
			t.Fatal(err)
		}
		var mu sync.Mutex
		open := map[net.Conn]bool{}
		accepted := 0
		go func() {
			for {
				c, err := ln.Accept()
				if err != nil {
					return
				}
				mu.Lock()
				open[c] = true
				accepted++
				mu.Unlock()
				go func(c net.Conn) { // server side: the connection counts as open until the client closes it
					buf := make([]byte, 64)
					for {
						if _, err := c.Read(buf); err != nil {
							mu.Lock()
							delete(open, c)
							mu.Unlock()
							c.Close()
							return
						}
					}
				}(c)
			}
		}()
		w := NewShardWriter(time.Second, time.Second, 0, 4)
		w.MetaClient = vpoolMeta{addr: ln.Addr().String()}
		start := make(chan struct{})
		var wg sync.WaitGroup
		for g := 0; g < 12; g++ {
			wg.Add(1)
			go func() {
				defer wg.Done()
				<-start
				c, err := w.dial(7)
				if err == nil {
					c.Close() // back to the pool
				}
			}()
		}
		close(start)
		wg.Wait()
		w.Close()
		deadline := time.Now().Add(2 * time.Second)
		left := 0
		for {
			mu.Lock()
			left = len(open)
			mu.Unlock()
			if left == 0 || time.Now().After(deadline) {
				break
			}
			time.Sleep(5 * time.Millisecond)
		}
		ln.Close()
		if left > 0 {
			vtrace.Mismatch("clientpool:leak", fmt.Sprintf("round %d: %d of %d connections to node 7 are still open after ShardWriter.Close and all users returned theirs (a second pool was created for the node by a concurrent first dial and lost)", r, left, accepted),
				map[string]interface{}{"test": "CLIENTPOOL", "round": r})
			break
		}
	}
	vtrace.Done("TestVerifClientPoolRace", map[string]interface{}{"rounds": rounds})
}
