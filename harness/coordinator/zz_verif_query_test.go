package coordinator

// Verification harness for C11 (injected with `go test -overlay`, never part of the repository).
//
// Behaviours (writes with keys overwritten later, snapshot / compact steps, statements with the model's
// Eval result) come from specs/query/QueryGen.tla.  Every behaviour is loaded into several physical LAYOUTS
// of the real storage engine / cluster, the statement TEXT goes through the real query.Executor ->
// coordinator.StatementExecutor -> ClusterShardMapper -> tsdb.Store (-> coordinator.Service on remote
// nodes), the rows are normalised and compared
//   (a) between all layouts (needs no calibration), and
//   (b) with Eval (conventions calibrated once on the single-shard in-cache layout, frozen in the spec).
// The repository of this fork has no tests/ package (LocalServer); the in-process setup here is: per node a
// real tsdb.Store in a temp dir, a real coordinator.Service behind a real tcp.Mux on 127.0.0.1:0, a real
// MetaExecutor, ClusterShardMapper, StatementExecutor and query.Executor; one shared meta client over a
// real meta.Data (shard groups, owners and shard selection are the repository's code).

import (
	"encoding/json"
	"fmt"
	"math"
	"net"
	"os"
	"path/filepath"
	"sort"
	"strconv"
	"strings"
	"sync"
	"testing"
	"time"

	"github.com/influxdata/influxdb/models"
	"github.com/influxdata/influxdb/pkg/verifx/vtrace"
	"github.com/influxdata/influxdb/query"
	"github.com/influxdata/influxdb/services/meta"
	"github.com/influxdata/influxdb/tcp"
	"github.com/influxdata/influxdb/tsdb"
	_ "github.com/influxdata/influxdb/tsdb/engine"
	"github.com/influxdata/influxdb/tsdb/engine/tsm1"
	_ "github.com/influxdata/influxdb/tsdb/index"
	"github.com/influxdata/influxql"
)

// ---------------------------------------------------------------------------------------------- input

type vqPoint struct {
	S int    `json:"s"`
	F string `json:"f"`
	T int    `json:"t"`
	X int    `json:"x"`
}

type vqPred struct {
	K  string `json:"k"`
	Op string `json:"op"`
	V  string `json:"v"`
}

type vqStmt struct {
	Fn       string   `json:"fn"`
	Field    string   `json:"field"`
	Lo       int      `json:"lo"`
	Hi       int      `json:"hi"`
	Pred     vqPred   `json:"pred"`
	Interval int      `json:"interval"`
	Offset   int      `json:"offset"`
	Group    []string `json:"group"`
	Fill     string   `json:"fill"`
	Desc     bool     `json:"desc"`
	Limit    int      `json:"limit"`
	Offrows  int      `json:"offrows"`
	Slimit   int      `json:"slimit"`
	Soffset  int      `json:"soffset"`
}

type vqRow struct {
	T int     `json:"t"`
	V []int64 `json:"v"`
	W []int64 `json:"w,omitempty"`
}

type vqSeries struct {
	Tags []string `json:"tags"`
	Rows []vqRow  `json:"rows"`
}

type vqStep struct {
	A    string     `json:"a"`
	Pts  []vqPoint  `json:"pts,omitempty"`
	St   *vqStmt    `json:"st,omitempty"`
	Res  []vqSeries `json:"res,omitempty"`
	Dev3 []vqSeries `json:"dev3,omitempty"` // SLIMIT statements: what "SLIMIT applied per shard" gives with 1 h shards
	// first("s"): the model's answers when s is a boolean field (BooleanFirstReduce breaks ties towards false)
	Resb  []vqSeries `json:"resb,omitempty"`
	Dev3b []vqSeries `json:"dev3b,omitempty"`
	Nsel int        `json:"nsel,omitempty"`
}

type vqSeriesDef struct {
	M  string `json:"m"`
	T1 string `json:"t1"`
	T2 string `json:"t2"`
}

type vqBeh struct {
	ID     int           `json:"id"`
	FType  string        `json:"ftype"` // "float" | "int": type of field v
	SType  string        `json:"stype"` // "string" | "bool": type of field s
	Base   int64         `json:"base"`  // ns of model time 0
	Series []vqSeriesDef `json:"series"`
	Steps  []vqStep      `json:"steps"`
}

type vqLayout struct {
	Name     string `json:"name"`
	Nodes    int    `json:"nodes"`
	RF       int    `json:"rf"`
	ShardDur string `json:"shard_dur"` // Go duration
	Index    string `json:"index"`     // inmem | tsi1
	// cache: ignore the snapshot/compact steps; steps: do them where the model does; snapq: snapshot before
	// every query; compacted: snapshot after every write, full compaction before every query;
	// reopen: like steps, and every store is closed and reopened before every query
	Mode string `json:"mode"`
	// shard-group duration in model time units (0: everything in one shard)
	ShardUnits int `json:"shard_units"`
}

type vqInput struct {
	Behaviours []vqBeh    `json:"behaviours"`
	Layouts    []vqLayout `json:"layouts"`
	UnitNs     int64      `json:"unit_ns"`
	MaxSigs    int        `json:"max_sigs"`
	OnlyStep   int        `json:"only_step"` // replay: judge only this step (0-based), -1 = all
	Workers    int        `json:"workers"`   // cluster instances per layout working in parallel
}

const (
	vqDBPrefix = "db"
	vqRP       = "rp0"
	vqEpoch    = -1000
	vqNoBound  = -1
	vqFillNum  = 77
)

// ---------------------------------------------------------------------------------------------- meta client

type vqMeta struct {
	mu   *sync.Mutex
	data *meta.Data
	id   uint64
}

func (m *vqMeta) NodeID() uint64 { return m.id }
func (m *vqMeta) DataNode(id uint64) (*meta.NodeInfo, error) {
	m.mu.Lock()
	defer m.mu.Unlock()
	if n := m.data.DataNode(id); n != nil {
		c := *n
		return &c, nil
	}
	return nil, meta.ErrNodeNotFound
}
func (m *vqMeta) DataNodes() []meta.NodeInfo {
	m.mu.Lock()
	defer m.mu.Unlock()
	return append([]meta.NodeInfo(nil), m.data.DataNodes...)
}
func (m *vqMeta) DataNodeByTCPAddr(a string) (*meta.NodeInfo, error) {
	m.mu.Lock()
	defer m.mu.Unlock()
	for _, n := range m.data.DataNodes {
		if n.TCPAddr == a {
			c := n
			return &c, nil
		}
	}
	return nil, meta.ErrNodeNotFound
}
func (m *vqMeta) ShardGroupsByTimeRange(database, policy string, min, max time.Time) ([]meta.ShardGroupInfo, error) {
	m.mu.Lock()
	defer m.mu.Unlock()
	return m.data.ShardGroupsByTimeRange(database, policy, min, max)
}
func (m *vqMeta) Database(name string) *meta.DatabaseInfo {
	m.mu.Lock()
	defer m.mu.Unlock()
	return m.data.Database(name)
}
func (m *vqMeta) Databases() []meta.DatabaseInfo {
	m.mu.Lock()
	defer m.mu.Unlock()
	return append([]meta.DatabaseInfo(nil), m.data.Databases...)
}
func (m *vqMeta) RetentionPolicy(database, name string) (*meta.RetentionPolicyInfo, error) {
	m.mu.Lock()
	defer m.mu.Unlock()
	return m.data.RetentionPolicy(database, name)
}

var errVqUnused = fmt.Errorf("verif: meta client method not used by the C11 harness")

func (m *vqMeta) CreateContinuousQuery(database, name, query string) error { return errVqUnused }
func (m *vqMeta) CreateDatabase(name string) (*meta.DatabaseInfo, error)   { return nil, errVqUnused }
func (m *vqMeta) CreateDatabaseWithRetentionPolicy(name string, spec *meta.RetentionPolicySpec) (*meta.DatabaseInfo, error) {
	return nil, errVqUnused
}
func (m *vqMeta) CreateRetentionPolicy(database string, spec *meta.RetentionPolicySpec, makeDefault bool) (*meta.RetentionPolicyInfo, error) {
	return nil, errVqUnused
}
func (m *vqMeta) CreateSubscription(database, rp, name, mode string, destinations []string) error {
	return errVqUnused
}
func (m *vqMeta) CreateUser(name, password string, admin bool) (meta.User, error) {
	return nil, errVqUnused
}
func (m *vqMeta) DeleteDataNode(id uint64) error                    { return errVqUnused }
func (m *vqMeta) DeleteMetaNode(id uint64) error                    { return errVqUnused }
func (m *vqMeta) DropShard(id uint64) error                         { return errVqUnused }
func (m *vqMeta) DropContinuousQuery(database, name string) error   { return errVqUnused }
func (m *vqMeta) DropDatabase(name string) error                    { return errVqUnused }
func (m *vqMeta) DropRetentionPolicy(database, name string) error   { return errVqUnused }
func (m *vqMeta) DropSubscription(database, rp, name string) error  { return errVqUnused }
func (m *vqMeta) DropUser(name string) error                        { return errVqUnused }
func (m *vqMeta) MetaNodes() []meta.NodeInfo                        { return nil }
func (m *vqMeta) SetAdminPrivilege(username string, admin bool) error { return errVqUnused }
func (m *vqMeta) SetPrivilege(username, database string, p influxql.Privilege) error {
	return errVqUnused
}
func (m *vqMeta) TruncateShardGroups(t time.Time) error { return errVqUnused }
func (m *vqMeta) UpdateRetentionPolicy(database, name string, rpu *meta.RetentionPolicyUpdate, makeDefault bool) error {
	return errVqUnused
}
func (m *vqMeta) UpdateUser(name, password string) error { return errVqUnused }
func (m *vqMeta) UserPrivilege(username, database string) (*influxql.Privilege, error) {
	return nil, errVqUnused
}
func (m *vqMeta) UserPrivileges(username string) (map[string]influxql.Privilege, error) {
	return nil, errVqUnused
}
func (m *vqMeta) Users() []meta.UserInfo { return nil }

// the part coordinator.Service wants
func (m *vqMeta) MetaServers() []string     { return nil }
func (m *vqMeta) SetMetaServers(a []string) {}
func (m *vqMeta) CreateDataNode(a, b string) (*meta.NodeInfo, error) {
	return nil, errVqUnused
}
func (m *vqMeta) Status() (*meta.MetaNodeStatus, error) { return nil, nil }
func (m *vqMeta) Save() error                           { return nil }

type vqServer struct{}

func (s *vqServer) Reset() error       { return nil }
func (s *vqServer) HTTPAddr() string   { return "127.0.0.1:0" }
func (s *vqServer) HTTPScheme() string { return "http" }
func (s *vqServer) TCPAddr() string    { return "127.0.0.1:0" }

// ---------------------------------------------------------------------------------------------- cluster

// vqStoreRef lets the store of a node be swapped (close + reopen) under the services that hold it.
type vqStoreRef struct{ *tsdb.Store }

type vqNode struct {
	id    uint64
	dir   string
	store *vqStoreRef
	ln    net.Listener
	svc   *Service
	mx    *MetaExecutor
	mc    *vqMeta
	exec  *query.Executor
}

type vqCluster struct {
	lay   vqLayout
	dir   string
	mu    sync.Mutex
	data  *meta.Data
	nodes []*vqNode
}

func vqOpenStore(dir, index string) (*tsdb.Store, error) {
	s := tsdb.NewStore(filepath.Join(dir, "data"))
	s.EngineOptions.IndexVersion = index
	s.EngineOptions.Config.WALDir = filepath.Join(dir, "wal")
	// the layout is driven by the harness: no background snapshot / compaction after a reopen
	s.EngineOptions.CompactionDisabled = true
	if err := s.Open(); err != nil {
		return nil, err
	}
	return s, nil
}

func vqNewCluster(lay vqLayout, scratch string) (*vqCluster, error) {
	dir, err := os.MkdirTemp(scratch, "vq-"+lay.Name+"-")
	if err != nil {
		return nil, err
	}
	cl := &vqCluster{lay: lay, dir: dir, data: &meta.Data{}}
	for i := 1; i <= lay.Nodes; i++ {
		nd := &vqNode{dir: filepath.Join(dir, fmt.Sprintf("n%d", i))}
		ln, err := net.Listen("tcp", "127.0.0.1:0")
		if err != nil {
			return nil, err
		}
		nd.ln = ln
		if err := cl.data.CreateDataNode("127.0.0.1:0", ln.Addr().String()); err != nil {
			return nil, err
		}
		n, _ := (&vqMeta{mu: &cl.mu, data: cl.data}).DataNodeByTCPAddr(ln.Addr().String())
		nd.id = n.ID
		nd.mc = &vqMeta{mu: &cl.mu, data: cl.data, id: nd.id}
		st, err := vqOpenStore(nd.dir, lay.Index)
		if err != nil {
			return nil, err
		}
		nd.store = &vqStoreRef{Store: st}

		mux := tcp.NewMux()
		muxln := mux.Listen(MuxHeader)
		defln := mux.DefaultListener()
		go mux.Serve(ln)
		svc := NewService(Config{})
		svc.Listener = muxln
		svc.DefaultListener = defln
		svc.Server = &vqServer{}
		svc.MetaClient = nd.mc
		svc.TSDBStore = nd.store
		if err := svc.Open(); err != nil {
			return nil, err
		}
		nd.svc = svc

		// generous timeouts, no idle pruning: transport faults (and what the fan-out makes of them) are C05's
		// subject; a deadline that expires on an oversubscribed machine must not look like a wrong answer here
		nd.mx = NewMetaExecutor(15*time.Minute, 2*time.Minute, 0, 10)
		nd.mx.MetaClient = nd.mc
		nd.exec = query.NewExecutor()
		nd.exec.StatementExecutor = &StatementExecutor{
			MetaClient:  nd.mc,
			TaskManager: nd.exec.TaskManager,
			TSDBStore:   nd.store,
			ShardMapper: &ClusterShardMapper{MetaClient: nd.mc, TSDBStore: nd.store, MetaExecutor: nd.mx},
		}
		cl.nodes = append(cl.nodes, nd)
	}
	return cl, nil
}

func (cl *vqCluster) close() {
	for _, nd := range cl.nodes {
		nd.exec.Close()
		nd.mx.Close()
		nd.ln.Close()
		nd.svc.Close()
		nd.store.Close()
	}
	os.RemoveAll(cl.dir)
}

func (cl *vqCluster) node(id uint64) *vqNode {
	for _, nd := range cl.nodes {
		if nd.id == id {
			return nd
		}
	}
	return nil
}

func (cl *vqCluster) createDB(db string) error {
	d, err := time.ParseDuration(cl.lay.ShardDur)
	if err != nil {
		return err
	}
	cl.mu.Lock()
	defer cl.mu.Unlock()
	if err := cl.data.CreateDatabase(db); err != nil {
		return err
	}
	rpi := meta.NewRetentionPolicyInfo(vqRP)
	rpi.ReplicaN = cl.lay.RF
	rpi.Duration = 0
	rpi.ShardGroupDuration = d
	return cl.data.CreateRetentionPolicy(db, rpi, true)
}

func (cl *vqCluster) dropDB(db string) error {
	for _, nd := range cl.nodes {
		if err := nd.store.DeleteDatabase(db); err != nil {
			return err
		}
	}
	cl.mu.Lock()
	defer cl.mu.Unlock()
	return cl.data.DropDatabase(db)
}

// engines of every local shard of the database on every node
func (cl *vqCluster) engines(db string) ([]*tsm1.Engine, error) {
	var out []*tsm1.Engine
	for _, nd := range cl.nodes {
		for _, id := range nd.store.ShardIDs() {
			sh := nd.store.Shard(id)
			if sh == nil || sh.Database() != db {
				continue
			}
			e, err := sh.Engine()
			if err != nil {
				return nil, err
			}
			te, ok := e.(*tsm1.Engine)
			if !ok {
				return nil, fmt.Errorf("shard %d: engine is %T", id, e)
			}
			out = append(out, te)
		}
	}
	return out, nil
}

func (cl *vqCluster) snapshot(db string) error {
	es, err := cl.engines(db)
	if err != nil {
		return err
	}
	for _, e := range es {
		e.Compactor.EnableSnapshots()
		if err := e.WriteSnapshot(); err != nil {
			return fmt.Errorf("WriteSnapshot: %v", err)
		}
	}
	return nil
}

// full compaction of every shard that has at least two files, the way compactionStrategy.compactGroup does it
func (cl *vqCluster) compact(db string) (int, error) {
	es, err := cl.engines(db)
	if err != nil {
		return 0, err
	}
	n := 0
	for _, e := range es {
		var names []string
		for _, f := range e.FileStore.Files() {
			names = append(names, f.Path())
		}
		if len(names) < 2 {
			continue
		}
		e.Compactor.EnableCompactions()
		out, err := e.Compactor.CompactFull(names)
		if err != nil {
			return n, fmt.Errorf("CompactFull: %v", err)
		}
		if err := e.FileStore.ReplaceWithCallback(names, out, nil); err != nil {
			return n, fmt.Errorf("Replace: %v", err)
		}
		n++
	}
	return n, nil
}

func (cl *vqCluster) reopen() error {
	for _, nd := range cl.nodes {
		if err := nd.store.Store.Close(); err != nil {
			return err
		}
		st, err := vqOpenStore(nd.dir, cl.lay.Index)
		if err != nil {
			return err
		}
		nd.store.Store = st
	}
	return nil
}

func vqValue(b *vqBeh, f string, x int) interface{} {
	if f == "v" {
		if b.FType == "int" {
			return int64(x)
		}
		return float64(x)
	}
	if b.SType == "bool" {
		return x >= 2 // monotone: the tie-break "larger value" is preserved
	}
	return fmt.Sprintf("s%d", x)
}

func (cl *vqCluster) write(db string, b *vqBeh, unit int64, pts []vqPoint) error {
	type key struct {
		node  uint64
		shard uint64
	}
	batches := map[key][]models.Point{}
	var order []key
	for _, p := range pts {
		sd := b.Series[p.S-1]
		tags := map[string]string{}
		if sd.T1 != "" {
			tags["t1"] = sd.T1
		}
		if sd.T2 != "" {
			tags["t2"] = sd.T2
		}
		ts := time.Unix(0, b.Base+int64(p.T)*unit).UTC()
		pt, err := models.NewPoint(sd.M, models.NewTags(tags), map[string]interface{}{p.F: vqValue(b, p.F, p.X)}, ts)
		if err != nil {
			return err
		}
		cl.mu.Lock()
		rpi, err := cl.data.RetentionPolicy(db, vqRP)
		if err == nil && rpi.ShardGroupByTimestamp(ts) == nil {
			if err = cl.data.CreateShardGroup(db, vqRP, ts); err == nil {
				rpi, err = cl.data.RetentionPolicy(db, vqRP)
			}
		}
		var si meta.ShardInfo
		if err == nil {
			sg := rpi.ShardGroupByTimestamp(ts)
			if sg == nil {
				err = fmt.Errorf("no shard group for %s", ts)
			} else {
				si = sg.ShardFor(pt)
			}
		}
		cl.mu.Unlock()
		if err != nil {
			return err
		}
		for _, o := range si.Owners {
			k := key{o.NodeID, si.ID}
			if _, ok := batches[k]; !ok {
				order = append(order, k)
			}
			batches[k] = append(batches[k], pt)
		}
	}
	for _, k := range order {
		nd := cl.node(k.node)
		if nd == nil {
			return fmt.Errorf("owner %d is not a node", k.node)
		}
		sh := nd.store.Shard(k.shard)
		if sh == nil {
			if err := nd.store.CreateShard(db, vqRP, k.shard, true); err != nil {
				return err
			}
			sh = nd.store.Shard(k.shard)
			// the harness drives snapshots and compactions itself
			sh.SetCompactionsEnabled(false)
		}
		if err := sh.WritePoints(batches[k]); err != nil {
			return err
		}
	}
	return nil
}

// ---------------------------------------------------------------------------------------------- statements

func vqTimeLit(b *vqBeh, unit int64, t int) string {
	return strconv.FormatInt(b.Base+int64(t)*unit, 10)
}

func vqDur(units int, unit int64) string {
	return fmt.Sprintf("%dm", int64(units)*unit/int64(time.Minute))
}

func vqText(b *vqBeh, unit int64, db string, st *vqStmt) string {
	var sb strings.Builder
	sb.WriteString("SELECT ")
	switch {
	case st.Fn == "raw" && st.Field == "both":
		sb.WriteString(`"v", "s"`)
	case st.Fn == "raw":
		fmt.Fprintf(&sb, `"%s"`, st.Field)
	default:
		fmt.Fprintf(&sb, `%s("%s")`, st.Fn, st.Field)
	}
	fmt.Fprintf(&sb, ` FROM "%s"."%s"."m1"`, db, vqRP)
	var conds []string
	if st.Lo != vqNoBound {
		conds = append(conds, "time >= "+vqTimeLit(b, unit, st.Lo))
	}
	if st.Hi != vqNoBound {
		conds = append(conds, "time <= "+vqTimeLit(b, unit, st.Hi))
	}
	if st.Pred.K != "" {
		conds = append(conds, fmt.Sprintf(`"%s" %s '%s'`, st.Pred.K, st.Pred.Op, st.Pred.V))
	}
	if len(conds) > 0 {
		sb.WriteString(" WHERE " + strings.Join(conds, " AND "))
	}
	var dims []string
	if st.Interval > 0 {
		if st.Offset != 0 {
			dims = append(dims, fmt.Sprintf("time(%s, %s)", vqDur(st.Interval, unit), vqDur(st.Offset, unit)))
		} else {
			dims = append(dims, fmt.Sprintf("time(%s)", vqDur(st.Interval, unit)))
		}
	}
	for _, g := range st.Group {
		dims = append(dims, `"`+g+`"`)
	}
	if len(dims) > 0 {
		sb.WriteString(" GROUP BY " + strings.Join(dims, ", "))
	}
	if st.Interval > 0 {
		switch st.Fill {
		case "number":
			fmt.Fprintf(&sb, " fill(%d)", vqFillNum)
		default:
			fmt.Fprintf(&sb, " fill(%s)", st.Fill)
		}
	}
	if st.Desc {
		sb.WriteString(" ORDER BY time DESC")
	}
	if st.Limit > 0 {
		fmt.Fprintf(&sb, " LIMIT %d", st.Limit)
	}
	if st.Offrows > 0 {
		fmt.Fprintf(&sb, " OFFSET %d", st.Offrows)
	}
	if st.Slimit > 0 {
		fmt.Fprintf(&sb, " SLIMIT %d", st.Slimit)
	}
	if st.Soffset > 0 {
		fmt.Fprintf(&sb, " SOFFSET %d", st.Soffset)
	}
	return sb.String()
}

// normalised result: what the property compares
type vqNRow struct {
	T    int64    `json:"t"` // ns
	Vals []string `json:"vals"`
	nums []float64
	kind []byte // 'n' number, 'z' null, 's' other
}

type vqNSeries struct {
	Tags []string `json:"tags"`
	Rows []vqNRow `json:"rows"`
}

type vqResult struct {
	Err    string      `json:"err,omitempty"`
	Series []vqNSeries `json:"series"`
}

func vqCanonNum(x float64) string {
	r := math.Round(x*1e9) / 1e9
	if r == 0 {
		r = 0
	}
	return strconv.FormatFloat(r, 'g', -1, 64)
}

func vqNormVal(v interface{}) (string, float64, byte, error) {
	switch x := v.(type) {
	case nil:
		return "null", 0, 'z', nil
	case float64:
		return vqCanonNum(x), x, 'n', nil
	case int64:
		return vqCanonNum(float64(x)), float64(x), 'n', nil
	case uint64:
		return vqCanonNum(float64(x)), float64(x), 'n', nil
	case int:
		return vqCanonNum(float64(x)), float64(x), 'n', nil
	case string:
		return strconv.Quote(x), 0, 's', nil
	case bool:
		return strconv.FormatBool(x), 0, 's', nil
	case json.Number:
		f, err := x.Float64()
		return vqCanonNum(f), f, 'n', err
	}
	return "", 0, 0, fmt.Errorf("unexpected value type %T", v)
}

func (nd *vqNode) query(db, text string, st *vqStmt) vqResult {
	q, err := influxql.ParseQuery(text)
	if err != nil {
		return vqResult{Err: "parse: " + err.Error()}
	}
	closing := make(chan struct{})
	defer close(closing)
	ch := nd.exec.ExecuteQuery(q, query.ExecutionOptions{Database: db, ReadOnly: true,
		Authorizer: query.OpenAuthorizer, CoarseAuthorizer: query.OpenCoarseAuthorizer}, closing)
	var res vqResult
	watchdog := time.After(120 * time.Second)
	for {
		var r *query.Result
		var ok bool
		select {
		case r, ok = <-ch:
		case <-watchdog:
			return vqResult{Err: "watchdog: query did not finish in 120s"}
		}
		if !ok {
			break
		}
		if r.Err != nil {
			res.Err = r.Err.Error()
			continue
		}
		for _, row := range r.Series {
			if len(row.Columns) == 0 || row.Columns[0] != "time" {
				res.Err = fmt.Sprintf("unexpected columns %v", row.Columns)
				continue
			}
			tags := make([]string, len(st.Group))
			for i, g := range st.Group {
				v, has := row.Tags[g]
				if !has {
					res.Err = fmt.Sprintf("series without tag %q: %v", g, row.Tags)
				}
				tags[i] = v
			}
			if len(row.Tags) != len(st.Group) || row.Name != "m1" {
				res.Err = fmt.Sprintf("unexpected series %q %v", row.Name, row.Tags)
			}
			var ns *vqNSeries
			if n := len(res.Series); n > 0 && strings.Join(res.Series[n-1].Tags, "\x00") == strings.Join(tags, "\x00") {
				ns = &res.Series[n-1] // a chunk continuing the previous series
			} else {
				res.Series = append(res.Series, vqNSeries{Tags: tags})
				ns = &res.Series[len(res.Series)-1]
			}
			for _, vals := range row.Values {
				tm, ok := vals[0].(time.Time)
				if !ok {
					res.Err = fmt.Sprintf("time column is %T", vals[0])
					continue
				}
				nr := vqNRow{T: tm.UnixNano()}
				for _, v := range vals[1:] {
					s, f, k, err := vqNormVal(v)
					if err != nil {
						res.Err = err.Error()
					}
					nr.Vals = append(nr.Vals, s)
					nr.nums = append(nr.nums, f)
					nr.kind = append(nr.kind, k)
				}
				ns.Rows = append(ns.Rows, nr)
			}
		}
	}
	if st.Fn == "raw" {
		// rows of different series with the same time have no defined order: compare runs as multisets
		for i := range res.Series {
			rows := res.Series[i].Rows
			sort.SliceStable(rows, func(a, b int) bool {
				if rows[a].T != rows[b].T {
					return false // keep the order of times as delivered
				}
				return strings.Join(rows[a].Vals, "\x00") < strings.Join(rows[b].Vals, "\x00")
			})
		}
	}
	return res
}

func (r vqResult) canon() string {
	b, _ := json.Marshal(r)
	return string(b)
}

// ---------------------------------------------------------------------------------------------- Eval -> expected

func vqIntResult(b *vqBeh, st *vqStmt) bool {
	switch st.Fn {
	case "count":
		return true
	case "sum", "min", "max", "first", "last", "spread":
		return st.Field == "v" && b.FType == "int"
	}
	return false
}

// compares one value with the model's rational; returns "" when equal
func vqCmpVal(b *vqBeh, st *vqStmt, field string, exp []int64, row *vqNRow, col int) string {
	if col >= len(row.Vals) {
		return "missing column"
	}
	got := row.Vals[col]
	if len(exp) != 2 {
		return "bad model value"
	}
	if exp[1] == 0 {
		if row.kind[col] != 'z' {
			return fmt.Sprintf("expected null, got %s", got)
		}
		return ""
	}
	numeric := field == "v" || st.Fn == "count"
	if !numeric {
		want, _, _, _ := vqNormVal(vqValue(b, "s", int(exp[0])))
		if got != want {
			return fmt.Sprintf("expected %s, got %s", want, got)
		}
		return ""
	}
	if row.kind[col] != 'n' {
		return fmt.Sprintf("expected %d/%d, got %s", exp[0], exp[1], got)
	}
	want := float64(exp[0]) / float64(exp[1])
	if st.Fill == "linear" && vqIntResult(b, st) && exp[1] != 1 {
		// integer results: fill(linear) truncates toward zero; the code computes in float64, so an exact
		// integer may come out one lower
		tr := math.Trunc(want)
		if exp[0]%exp[1] == 0 {
			if row.nums[col] == tr || row.nums[col] == tr-1 {
				return ""
			}
		} else if row.nums[col] == tr {
			return ""
		}
		return fmt.Sprintf("expected trunc(%d/%d), got %s", exp[0], exp[1], got)
	}
	if math.Abs(row.nums[col]-want) > 1e-9 {
		return fmt.Sprintf("expected %d/%d, got %s", exp[0], exp[1], got)
	}
	return ""
}

// compare the real answer with Eval; returns "" or the first difference
func vqCmpEval(b *vqBeh, unit int64, step *vqStep, got vqResult) string {
	st := step.St
	if got.Err != "" {
		return "error: " + got.Err
	}
	if len(got.Series) != len(step.Res) {
		return fmt.Sprintf("expected %d series, got %d", len(step.Res), len(got.Series))
	}
	for i, es := range step.Res {
		gs := got.Series[i]
		if strings.Join(es.Tags, "\x00") != strings.Join(gs.Tags, "\x00") {
			return fmt.Sprintf("series %d: expected tags %q, got %q", i, es.Tags, gs.Tags)
		}
		if len(es.Rows) != len(gs.Rows) {
			return fmt.Sprintf("series %d %q: expected %d rows, got %d", i, es.Tags, len(es.Rows), len(gs.Rows))
		}
		// expected rows in the same canonical order as the normalised answer (runs of equal time of a raw
		// select are compared as multisets)
		type erow struct {
			t    int64
			r    vqRow
			sort string
		}
		er := make([]erow, len(es.Rows))
		for j, r := range es.Rows {
			t := b.Base + int64(r.T)*unit
			if r.T == vqEpoch {
				t = 0
			}
			er[j] = erow{t: t, r: r}
			if st.Fn == "raw" {
				var parts []string
				f1 := st.Field
				if f1 == "both" {
					f1 = "v"
				}
				for k, pair := range [][]int64{r.V, r.W} {
					if pair == nil {
						continue
					}
					f := f1
					if k == 1 {
						f = "s"
					}
					if pair[1] == 0 {
						parts = append(parts, "null")
					} else {
						s, _, _, _ := vqNormVal(vqValue(b, f, int(pair[0])))
						parts = append(parts, s)
					}
				}
				er[j].sort = strings.Join(parts, "\x00")
			}
		}
		if st.Fn == "raw" {
			sort.SliceStable(er, func(a, c int) bool {
				if er[a].t != er[c].t {
					return false
				}
				return er[a].sort < er[c].sort
			})
		}
		for j := range er {
			g := &gs.Rows[j]
			if g.T != er[j].t {
				return fmt.Sprintf("series %d %q row %d: expected time %d (unit %d), got %d", i, es.Tags, j, er[j].t, er[j].r.T, g.T)
			}
			f1 := st.Field
			if f1 == "both" {
				f1 = "v"
			}
			if d := vqCmpVal(b, st, f1, er[j].r.V, g, 0); d != "" {
				return fmt.Sprintf("series %d %q row %d (t=%d): %s", i, es.Tags, j, er[j].r.T, d)
			}
			if st.Field == "both" {
				if d := vqCmpVal(b, st, "s", er[j].r.W, g, 1); d != "" {
					return fmt.Sprintf("series %d %q row %d (t=%d) column s: %s", i, es.Tags, j, er[j].r.T, d)
				}
			} else if len(g.Vals) != 1 {
				return fmt.Sprintf("series %d row %d: %d value columns", i, j, len(g.Vals))
			}
		}
	}
	return ""
}

// ---------------------------------------------------------------------------------------------- driver

// features of a statement for the mismatch signature (identifies the class of input)
func vqFeatures(st *vqStmt) string {
	var f []string
	f = append(f, st.Fn)
	if st.Field != "v" {
		f = append(f, "field="+st.Field)
	}
	if st.Interval > 0 {
		f = append(f, "time", "fill="+st.Fill)
	}
	if len(st.Group) > 0 {
		f = append(f, "tags")
	}
	if st.Desc {
		f = append(f, "desc")
	}
	if st.Limit > 0 || st.Offrows > 0 {
		f = append(f, "limit")
	}
	if st.Slimit > 0 || st.Soffset > 0 {
		f = append(f, "slimit")
	}
	return strings.Join(f, ",")
}

type vqAnswer struct {
	node int
	res  vqResult
}

// run one behaviour in one layout: answers[step index] = one answer per node
func (cl *vqCluster) runBeh(b *vqBeh, unit int64) (map[int][]vqAnswer, map[int]string, error) {
	db := fmt.Sprintf("%s%d", vqDBPrefix, b.ID)
	if err := cl.createDB(db); err != nil {
		return nil, nil, err
	}
	defer cl.dropDB(db)
	answers := map[int][]vqAnswer{}
	texts := map[int]string{}
	mode := cl.lay.Mode
	for i := range b.Steps {
		step := &b.Steps[i]
		switch step.A {
		case "write":
			if err := cl.write(db, b, unit, step.Pts); err != nil {
				return nil, nil, fmt.Errorf("step %d write: %v", i, err)
			}
			if mode == "compacted" {
				if err := cl.snapshot(db); err != nil {
					return nil, nil, fmt.Errorf("step %d: %v", i, err)
				}
			}
		case "snapshot":
			if mode == "steps" || mode == "reopen" {
				if err := cl.snapshot(db); err != nil {
					return nil, nil, fmt.Errorf("step %d: %v", i, err)
				}
			}
		case "compact":
			if mode == "steps" || mode == "reopen" {
				if _, err := cl.compact(db); err != nil {
					return nil, nil, fmt.Errorf("step %d: %v", i, err)
				}
			}
		case "query":
			switch mode {
			case "snapq":
				if err := cl.snapshot(db); err != nil {
					return nil, nil, fmt.Errorf("step %d: %v", i, err)
				}
			case "compacted":
				if _, err := cl.compact(db); err != nil {
					return nil, nil, fmt.Errorf("step %d: %v", i, err)
				}
			case "reopen":
				if err := cl.reopen(); err != nil {
					return nil, nil, fmt.Errorf("step %d reopen: %v", i, err)
				}
			}
			text := vqText(b, unit, db, step.St)
			texts[i] = text
			for ni, nd := range cl.nodes {
				answers[i] = append(answers[i], vqAnswer{node: ni + 1, res: nd.query(db, text, step.St)})
			}
		default:
			return nil, nil, fmt.Errorf("step %d: unknown action %q", i, step.A)
		}
	}
	return answers, texts, nil
}

func TestVerifQueryReplay(t *testing.T) {
	var in vqInput
	if err := vtrace.LoadJSON(os.Getenv("VERIF_IN"), &in); err != nil {
		t.Fatalf("input: %v", err)
	}
	if in.UnitNs == 0 {
		in.UnitNs = int64(20 * time.Minute)
	}
	if in.MaxSigs == 0 {
		in.MaxSigs = 4
	}
	scratch := vtrace.Env("VERIF_SCRATCH", os.TempDir())
	for bi := range in.Behaviours {
		b := &in.Behaviours[bi]
		for i := range b.Steps {
			st := &b.Steps[i]
			if st.A == "query" && b.SType == "bool" && st.St.Fn == "first" && st.St.Field == "s" {
				st.Res, st.Dev3 = st.Resb, st.Dev3b
			}
		}
	}

	type layoutRun struct {
		answers []map[int][]vqAnswer
		texts   []map[int]string
		err     error
		secs    float64
	}
	if in.Workers <= 0 {
		in.Workers = 1
	}
	runs := make([]layoutRun, len(in.Layouts))
	var wg sync.WaitGroup
	var rmu sync.Mutex
	for li := range in.Layouts {
		runs[li].answers = make([]map[int][]vqAnswer, len(in.Behaviours))
		runs[li].texts = make([]map[int]string, len(in.Behaviours))
		for w := 0; w < in.Workers && w < len(in.Behaviours); w++ {
			li, w := li, w
			wg.Add(1)
			go func() {
				defer wg.Done()
				r := &runs[li]
				t0 := time.Now()
				fail := func(err error) {
					rmu.Lock()
					if r.err == nil {
						r.err = err
					}
					rmu.Unlock()
				}
				cl, err := vqNewCluster(in.Layouts[li], scratch)
				if err != nil {
					fail(err)
					return
				}
				defer cl.close()
				for bi := w; bi < len(in.Behaviours); bi += in.Workers {
					a, tx, err := cl.runBeh(&in.Behaviours[bi], in.UnitNs)
					if err != nil {
						fail(fmt.Errorf("behaviour %d: %v", in.Behaviours[bi].ID, err))
						return
					}
					r.answers[bi] = a
					r.texts[bi] = tx
				}
				rmu.Lock()
				if d := time.Since(t0).Seconds(); d > r.secs {
					r.secs = d
				}
				rmu.Unlock()
			}()
		}
	}
	wg.Wait()
	for li, r := range runs {
		if r.err != nil {
			t.Fatalf("layout %s: %v", in.Layouts[li].Name, r.err)
		}
	}

	// a query that did not finish within its watchdog is an infrastructure failure, never a verdict
	for li := range runs {
		for _, m := range runs[li].answers {
			for _, as := range m {
				for _, a := range as {
					if strings.HasPrefix(a.res.Err, "watchdog:") {
						t.Fatalf("layout %s node %d: %s", in.Layouts[li].Name, a.node, a.res.Err)
					}
				}
			}
		}
	}

	sigs := map[string]int{}
	counters := map[string]int{}
	distinct := map[string]struct{}{}
	report := func(sig, detail string, b *vqBeh, step int, text string) {
		sigs[sig]++
		if sigs[sig] > 1 || len(sigs) > in.MaxSigs {
			return
		}
		vtrace.Mismatch(sig, detail, map[string]interface{}{"behaviour": b, "step": step, "statement": text})
	}
	samples := 0
	for bi := range in.Behaviours {
		b := &in.Behaviours[bi]
		counters["behaviours"]++
		for i := range b.Steps {
			step := &b.Steps[i]
			counters["steps"]++
			if step.A != "query" || (in.OnlyStep >= 0 && in.OnlyStep != i) {
				continue
			}
			counters["queries"]++
			text := runs[0].texts[bi][i]
			ref := runs[0].answers[bi][i][0].res
			refDiff := vqCmpEval(b, in.UnitNs, step, ref)
			feat := vqFeatures(step.St)
			if len(ref.Series) > 0 {
				counters["queries_nonempty"]++
			}
			distinct[ref.canon()] = struct{}{}
			if refDiff != "" {
				report("eval:"+in.Layouts[0].Name+":"+feat,
					fmt.Sprintf("%s | layout %s differs from Eval: %s | answer %s", text, in.Layouts[0].Name, refDiff, ref.canon()), b, i, text)
			} else {
				counters["eval_equal"]++
			}
			for li := range in.Layouts {
				for _, a := range runs[li].answers[bi][i] {
					counters["evaluations"]++
					if li == 0 && a.node == 1 {
						continue
					}
					if a.res.canon() == ref.canon() {
						counters["layout_equal"]++
						continue
					}
					d := vqCmpEval(b, in.UnitNs, step, a.res)
					if d == "" {
						// the other layout agrees with Eval and the reference layout does not: already reported above
						continue
					}
					lay := in.Layouts[li]
					if (step.St.Slimit > 0 || step.St.Soffset > 0) && lay.ShardUnits > 0 {
						// Recorded deviation: SLIMIT / SOFFSET are applied by every shard to its own tag sets.
						// On one node with 1 h shards the model predicts the answer (dev3); on several nodes the
						// series of a group are hashed over shards and the outcome is not predicted.
						counters["slimit_per_shard_deviations"]++
						if lay.Nodes == 1 && lay.ShardUnits == 3 {
							devStep := *step
							devStep.Res = step.Dev3
							if dd := vqCmpEval(b, in.UnitNs, &devStep, a.res); dd == "" {
								report("dev:slimit-per-shard:"+lay.Name,
									fmt.Sprintf("%s | layout %s: SLIMIT/SOFFSET applied per shard (answer equals the model of the deviation) | answer %s | reference answer %s",
										text, lay.Name, a.res.canon(), ref.canon()), b, i, text)
								continue
							} else {
								d += " | against the model of the recorded per-shard SLIMIT deviation: " + dd
							}
						} else {
							report("dev:slimit-per-shard:"+lay.Name+":unpredicted",
								fmt.Sprintf("%s | layout %s (node %d): SLIMIT/SOFFSET applied per shard | answer %s | reference answer %s",
									text, lay.Name, a.node, a.res.canon(), ref.canon()), b, i, text)
							continue
						}
					}
					report("layout:"+lay.Name+":"+feat,
						fmt.Sprintf("%s | layout %s (node %d) differs from layout %s; against Eval: %s | answer %s | reference answer %s",
							text, lay.Name, a.node, in.Layouts[0].Name, d, a.res.canon(), ref.canon()), b, i, text)
				}
			}
			if samples < 3 && len(ref.Series) > 0 && refDiff == "" {
				samples++
				vtrace.Sample(map[string]interface{}{"statement": text, "behaviour": b.ID, "answer_all_layouts": ref, "layouts": len(in.Layouts)})
			}
		}
	}
	counters["distinct_answers"] = len(distinct)
	done := map[string]interface{}{"signatures": sigs}
	lsecs := map[string]float64{}
	for li := range in.Layouts {
		lsecs[in.Layouts[li].Name] = math.Round(runs[li].secs*10) / 10
	}
	done["layout_seconds"] = lsecs
	for k, v := range counters {
		done[k] = v
	}
	vtrace.Done("TestVerifQueryReplay", done)
	if len(sigs) > 0 {
		t.Errorf("%d mismatch signatures", len(sigs))
	}
}
