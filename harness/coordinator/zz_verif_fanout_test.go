package coordinator

// Verification harness for C05 (injected with `go test -overlay`, never part of the repository).
//
// Scenarios (shard-ownership layout, coordinator, one fault class per node, statement kind) come from
// specs/queryfanout/QueryFanoutGen.tla.  Each scenario runs on a loopback mini cluster:
//   coordinator: real ClusterShardMapper + MetaExecutor (+ ClusterTSDBStore for the all-nodes fan-out),
//   every node:  real coordinator.Service behind a real tcp.Mux on 127.0.0.1:0 with a stub TSDBStore that
//                serves one marker per shard it owns, so "read exactly once" is visible in the result,
//   faults:      a net.Listener/net.Conn wrapper per node (close before the reply, hold until the caller's
//                deadline, cut the reply stream after k frames / k bytes) and the stub store (error reply,
//                stream that stalls),
//   metadata:    a real meta.Data (owners installed with CopyShardOwner) behind a small MetaClient.
// The requests that reach each node, the dirty sets after every operation and the result are recorded and
// validated against specs/queryfanout/QueryFanoutTrace.tla by the orchestrator; the property's own oracles
// (every marker exactly once on success, an error when a shard has no live owner) are evaluated here.

import (
	"bytes"
	"context"
	"encoding/binary"
	"encoding/json"
	"errors"
	"fmt"
	"io"
	"net"
	"os"
	"path/filepath"
	"regexp"
	"sort"
	"strings"
	"sync"
	"sync/atomic"
	"testing"
	"time"

	"github.com/influxdata/influxdb/models"
	"github.com/influxdata/influxdb/pkg/estimator"
	"github.com/influxdata/influxdb/pkg/estimator/hll"
	"github.com/influxdata/influxdb/pkg/verifx/vtrace"
	"github.com/influxdata/influxdb/query"
	"github.com/influxdata/influxdb/services/meta"
	"github.com/influxdata/influxdb/storage/reads"
	"github.com/influxdata/influxdb/storage/reads/datatypes"
	"github.com/influxdata/influxdb/tcp"
	"github.com/influxdata/influxdb/tsdb"
	_ "github.com/influxdata/influxdb/tsdb/engine"
	_ "github.com/influxdata/influxdb/tsdb/index"
	"github.com/influxdata/influxql"
)

// ---------------------------------------------------------------------------------------------- input

type vfAllowed struct {
	Outcome string   `json:"outcome"`
	Reads   []int    `json:"reads"`
	Taint   []string `json:"taint"`
}

type vfScen struct {
	ID      int               `json:"id"`
	Nodes   []string          `json:"nodes"`
	Owners  [][]string        `json:"owners"` // per shard 1..n
	Coord   string            `json:"coord"`
	Fault   map[string]string `json:"fault"`
	Kind    string            `json:"kind"`
	NSrc    int               `json:"nsrc"`            // measurement sources of the statement (all of the one db/rp)
	Allowed []vfAllowed       `json:"allowed"`         // terminal states of the model for this scenario
	Variant int               `json:"variant"`         // selects the concrete representative of the fault classes
	Trace   bool              `json:"trace"`           // record events for trace validation
	Limit   int               `json:"limit,omitempty"` // kind "query" only: LIMIT / OFFSET of the statement (TestVerifFanoutLimitOffset)
	Offset  int               `json:"offset,omitempty"`
}

type vfInput struct {
	Scenarios []vfScen `json:"scenarios"`
	Reps      int      `json:"reps"`
	Workers   int      `json:"workers"`
	TimeoutMs int      `json:"timeout_ms"`
	TraceOut  string   `json:"trace_out"`
	Confirm   bool     `json:"confirm"` // replay of one scenario: repeat until the random owner choice hits
}

func vfNodeID(name string) uint64 {
	var id uint64
	fmt.Sscanf(strings.TrimPrefix(name, "n"), "%d", &id)
	return id
}
func vfNodeName(id uint64) string { return fmt.Sprintf("n%d", id) }

// vfSourceName is the measurement name of the k-th (0-based) source of a statement.
func vfSourceName(k int) string {
	if k == 0 {
		return vfMeasurement
	}
	return fmt.Sprintf("%s%d", vfMeasurement, k+1)
}

const (
	vfDB          = "db0"
	vfRP          = "rp0"
	vfMeasurement = "m"
	vfDecoyShard  = 9
	vfFuseCalls   = 40 // no scenario of the model needs more than 3 ops x 3 rounds x 3 nodes requests
)

var vfT0 = time.Unix(1600000000, 0).UTC().Truncate(time.Hour)

// ---------------------------------------------------------------------------------------------- one run

// vfRun is one execution of one scenario.
type vfRun struct {
	sc      *vfScen
	rid     int
	fault   map[uint64]string
	owners  map[uint64]map[uint64]bool // shard -> owners
	nshards int
	variant int
	timeout time.Duration
	release chan struct{}

	mu     sync.Mutex
	events []map[string]interface{}
	calls  int
	fuse   int32
	slow   int32 // a node that is not supposed to stall took a large part of the caller's deadline to answer
}

func (r *vfRun) faultOf(node uint64) string {
	if atomic.LoadInt32(&r.fuse) != 0 {
		return "up"
	}
	return r.fault[node]
}

func (r *vfRun) event(e map[string]interface{}) {
	r.mu.Lock()
	e["rid"] = r.rid
	r.events = append(r.events, e)
	r.mu.Unlock()
}

func (r *vfRun) owned(node uint64, ids []uint64) []uint64 {
	var out []uint64
	for _, id := range ids {
		if r.owners[id][node] {
			out = append(out, id)
		}
	}
	sort.Slice(out, func(i, j int) bool { return out[i] < out[j] })
	return out
}

func (r *vfRun) call(node uint64, op string, shards []uint64) {
	sh := make([]int, 0, len(shards))
	for _, s := range shards {
		sh = append(sh, int(s))
	}
	sort.Ints(sh)
	r.mu.Lock()
	r.calls++
	n := r.calls
	r.mu.Unlock()
	r.event(map[string]interface{}{"e": "call", "node": vfNodeName(node), "op": op, "shards": sh})
	if n > vfFuseCalls {
		// retry storm: stop injecting faults so that the statement under test terminates
		atomic.StoreInt32(&r.fuse, 1)
	}
}

// ---------------------------------------------------------------------------------------------- cluster

type vfNode struct {
	id   uint64
	cl   *vfCluster
	ln   net.Listener
	svc  *Service
	addr string
	st   *vfStore
}

type vfCluster struct {
	nodes  map[uint64]*vfNode
	run    atomic.Value // *vfRun
	active int64        // server-side connections currently open
	cmu    sync.Mutex
	conns  map[*vfConn]struct{}
	leaked int64 // connections the coordinator left open after MetaExecutor.Close (closed by the harness)
}

func (cl *vfCluster) cur() *vfRun {
	r, _ := cl.run.Load().(*vfRun)
	return r
}

type vfSvcMeta struct{ id uint64 }

func (m *vfSvcMeta) NodeID() uint64                                     { return m.id }
func (m *vfSvcMeta) MetaServers() []string                              { return nil }
func (m *vfSvcMeta) SetMetaServers(a []string)                          {}
func (m *vfSvcMeta) DataNode(id uint64) (*meta.NodeInfo, error)         { return &meta.NodeInfo{ID: id}, nil }
func (m *vfSvcMeta) CreateDataNode(a, b string) (*meta.NodeInfo, error) { return nil, nil }
func (m *vfSvcMeta) DataNodeByTCPAddr(a string) (*meta.NodeInfo, error) { return nil, nil }
func (m *vfSvcMeta) Status() (*meta.MetaNodeStatus, error)              { return nil, nil }
func (m *vfSvcMeta) Save() error                                        { return nil }

type vfServer struct{}

func (s *vfServer) Reset() error       { return nil }
func (s *vfServer) HTTPAddr() string   { return "127.0.0.1:0" }
func (s *vfServer) HTTPScheme() string { return "http" }
func (s *vfServer) TCPAddr() string    { return "127.0.0.1:0" }

func vfNewCluster(n int) (*vfCluster, error) {
	cl := &vfCluster{nodes: map[uint64]*vfNode{}, conns: map[*vfConn]struct{}{}}
	for i := 1; i <= n; i++ {
		nd := &vfNode{id: uint64(i), cl: cl}
		ln, err := net.Listen("tcp", "127.0.0.1:0")
		if err != nil {
			return nil, err
		}
		nd.ln = ln
		nd.addr = ln.Addr().String()
		mux := tcp.NewMux()
		muxln := mux.Listen(MuxHeader)
		defln := mux.DefaultListener()
		go mux.Serve(ln)
		svc := NewService(Config{})
		svc.Listener = &vfListener{Listener: muxln, node: nd}
		svc.DefaultListener = defln
		svc.Server = &vfServer{}
		svc.MetaClient = &vfSvcMeta{id: nd.id}
		nd.st = vfNewStore(nd)
		svc.TSDBStore = nd.st
		svc.Store = &vfStorageStore{node: nd}
		if err := svc.Open(); err != nil {
			return nil, err
		}
		nd.svc = svc
		cl.nodes[nd.id] = nd
	}
	return cl, nil
}

func (cl *vfCluster) close() {
	for _, nd := range cl.nodes {
		nd.ln.Close()
		nd.svc.Close()
	}
}

// quiesce waits until no server-side connection of an earlier run is open (deterministic barrier,
// watchdog only).
func (cl *vfCluster) quiesce() error {
	t0 := time.Now()
	forced := false
	for atomic.LoadInt64(&cl.active) != 0 {
		if !forced && time.Since(t0) > 250*time.Millisecond {
			// A connection that the coordinator never closes (MetaExecutor.dial can create two pools for one
			// node when two requests race; the overwritten pool keeps its initial connection).  Not C05's
			// subject: close it from the server side and count it.
			forced = true
			cl.cmu.Lock()
			for c := range cl.conns {
				atomic.AddInt64(&cl.leaked, 1)
				c.Conn.Close()
			}
			cl.cmu.Unlock()
		}
		if time.Since(t0) > 30*time.Second {
			return fmt.Errorf("watchdog: %d server connections still open", atomic.LoadInt64(&cl.active))
		}
		time.Sleep(200 * time.Microsecond)
	}
	return nil
}

// ---------------------------------------------------------------------------------------------- listener / conn wrapper

type vfListener struct {
	net.Listener
	node *vfNode
}

func (l *vfListener) Accept() (net.Conn, error) {
	c, err := l.Listener.Accept()
	if err != nil {
		return nil, err
	}
	atomic.AddInt64(&l.node.cl.active, 1)
	vc := &vfConn{Conn: c, node: l.node, run: l.node.cl.cur(), cutUnits: -1}
	l.node.cl.cmu.Lock()
	l.node.cl.conns[vc] = struct{}{}
	l.node.cl.cmu.Unlock()
	return vc, nil
}

// vfConn parses the request stream (to record which request reached the node) and the reply stream (to cut
// it at a chosen frame / byte), and injects the connection-level faults of the node.
type vfConn struct {
	net.Conn
	node *vfNode
	run  *vfRun

	closeOnce sync.Once
	rmu       sync.Mutex
	in        []byte
	lastOp    string
	lastN     int   // markers the node will stream for the last request
	lastReq   int64 // unix nano of the last complete request, 0 once the reply has begun

	wmu      sync.Mutex
	ophase   int // 0 type, 1 length, 2 body (TLV); 3 length, 4 body (frame)
	oneed    int
	olen     []byte
	otyp     byte
	ounits   int // complete units written (unit 0 = the reply TLV)
	ointo    int // bytes of the current unit already written
	stream   bool
	cutUnits int // -1: no cut
	cutBytes int
	cutDone  bool
}

func (c *vfConn) Close() error {
	c.closeOnce.Do(func() {
		c.node.cl.cmu.Lock()
		delete(c.node.cl.conns, c)
		c.node.cl.cmu.Unlock()
		atomic.AddInt64(&c.node.cl.active, -1)
	})
	return c.Conn.Close()
}

// kill closes the connection from the node's side; nothing is written any more.
func (c *vfConn) kill() {
	atomic.StoreInt64(&c.lastReq, 0)
	c.wmu.Lock()
	c.cutDone = true
	c.wmu.Unlock()
	c.Conn.Close()
}

var vfOpNames = map[byte]string{
	createIteratorRequestMessage:       "CI",
	fieldDimensionsRequestMessage:      "FD",
	mapTypeRequestMessage:              "MT",
	iteratorCostRequestMessage:         "IC",
	tagKeysRequestMessage:              "MQ",
	tagValuesRequestMessage:            "MQ",
	measurementNamesRequestMessage:     "MQ",
	seriesSketchesRequestMessage:       "MQ",
	measurementsSketchesRequestMessage: "MQ",
	storeReadFilterRequestMessage:      "RF",
	storeReadGroupRequestMessage:       "RG",
}

func vfDecodeRequest(typ byte, body []byte) (string, []uint64) {
	op := vfOpNames[typ]
	switch typ {
	case createIteratorRequestMessage:
		var r CreateIteratorRequest
		if r.UnmarshalBinary(body) == nil {
			return op, r.ShardIDs
		}
	case fieldDimensionsRequestMessage:
		var r FieldDimensionsRequest
		if r.UnmarshalBinary(body) == nil {
			return op, r.ShardIDs
		}
	case mapTypeRequestMessage:
		var r MapTypeRequest
		if r.UnmarshalBinary(body) == nil {
			return op, r.ShardIDs
		}
	case iteratorCostRequestMessage:
		var r IteratorCostRequest
		if r.UnmarshalBinary(body) == nil {
			return op, r.ShardIDs
		}
	case tagKeysRequestMessage:
		var r TagKeysRequest
		if r.UnmarshalBinary(body) == nil {
			return op, r.ShardIDs
		}
	case tagValuesRequestMessage:
		var r TagValuesRequest
		if r.UnmarshalBinary(body) == nil {
			return op, r.ShardIDs
		}
	case storeReadFilterRequestMessage:
		var r StoreReadFilterRequest
		if r.UnmarshalBinary(body) == nil {
			return op, r.ShardIDs
		}
	case storeReadGroupRequestMessage:
		var r StoreReadGroupRequest
		if r.UnmarshalBinary(body) == nil {
			return op, r.ShardIDs
		}
	}
	return op, nil
}

func (c *vfConn) Read(p []byte) (int, error) {
	n, err := c.Conn.Read(p)
	if n == 0 || c.run == nil {
		return n, err
	}
	c.rmu.Lock()
	defer c.rmu.Unlock()
	c.in = append(c.in, p[:n]...)
	for len(c.in) >= 9 {
		sz := int(binary.BigEndian.Uint64(c.in[1:9]))
		if sz < 0 || len(c.in) < 9+sz {
			break
		}
		typ, body := c.in[0], c.in[9:9+sz]
		op, shards := vfDecodeRequest(typ, body)
		c.in = c.in[9+sz:]
		if op == "" {
			continue
		}
		c.lastOp = op
		c.lastN = len(c.run.owned(c.node.id, shards))
		atomic.StoreInt64(&c.lastReq, time.Now().UnixNano())
		c.run.call(c.node.id, op, shards)
		switch c.run.faultOf(c.node.id) {
		case "dialFail":
			// the node dies before it replies
			c.kill()
			return 0, io.ErrClosedPipe
		case "stall":
			// the node never replies: the caller's deadline decides.  Released when the run ends.
			<-c.run.release
			c.kill()
			return 0, io.ErrClosedPipe
		}
	}
	return n, err
}

// planCut decides where the reply stream of a streaming request is cut, once the reply header is complete.
func (c *vfConn) planCut() {
	c.cutUnits = -1
	if c.run == nil {
		return
	}
	v := c.run.variant
	np := c.lastN
	switch c.run.faultOf(c.node.id) {
	case "cutFrame":
		// frames: stats, one frame per marker, stats, trace.  Deliver k < np markers, end at a boundary.
		k := 0
		if np > 0 {
			k = v % np
		}
		c.cutUnits, c.cutBytes = 2+k, 0
		switch (v / 8) % 3 {
		case 1:
			c.cutBytes = 4 // the length prefix of the next frame and nothing of its body
		case 2:
			if k == 0 {
				c.cutUnits = 1 // nothing after the reply header
			}
		}
	case "cutMid":
		k := v % (np + 1)
		c.cutUnits = 2 + k
		c.cutBytes = []int{1, 2, 3, 6}[(v/8)%4]
	}
}

func (c *vfConn) Write(p []byte) (int, error) {
	c.wmu.Lock()
	defer c.wmu.Unlock()
	if c.cutDone {
		return 0, io.ErrClosedPipe
	}
	if t := atomic.SwapInt64(&c.lastReq, 0); t != 0 && c.run != nil {
		if time.Duration(time.Now().UnixNano()-t) > c.run.timeout/2 {
			atomic.StoreInt32(&c.run.slow, 1) // timing noise: this run cannot be judged
			if os.Getenv("VERIF_DEBUG") != "" {
				fmt.Fprintf(os.Stderr, "slow: node %d op %s fault %s took %s\n", c.node.id, c.lastOp, c.run.faultOf(c.node.id), time.Duration(time.Now().UnixNano()-t))
			}
		}
	}
	written := 0
	for written < len(p) {
		if c.oneed == 0 {
			// start of the next field of the current unit
			switch c.ophase {
			case 0:
				c.oneed = 1
			case 1:
				c.oneed, c.olen = 8, nil
			case 3:
				c.oneed, c.olen = 4, nil
			}
		}
		chunk := len(p) - written
		if chunk > c.oneed {
			chunk = c.oneed
		}
		// cut inside this chunk?
		if c.stream && c.cutUnits >= 0 && c.ounits == c.cutUnits && c.ointo+chunk >= c.cutBytes {
			allowed := c.cutBytes - c.ointo
			if allowed > 0 {
				c.Conn.Write(p[written : written+allowed])
				written += allowed
			}
			c.cutDone = true
			c.Conn.Close()
			return written, io.ErrClosedPipe
		}
		if _, err := c.Conn.Write(p[written : written+chunk]); err != nil {
			return written, err
		}
		seg := p[written : written+chunk]
		written += chunk
		c.oneed -= chunk
		c.ointo += chunk
		switch c.ophase {
		case 0:
			c.otyp = seg[0]
			c.ophase = 1
		case 1, 3:
			c.olen = append(c.olen, seg...)
			if c.oneed == 0 {
				var n int
				if c.ophase == 1 {
					n = int(binary.BigEndian.Uint64(c.olen))
				} else {
					n = int(binary.BigEndian.Uint32(c.olen))
				}
				c.ophase++
				c.oneed = n
				if n == 0 {
					c.unitDone()
				}
			}
		case 2, 4:
			if c.oneed == 0 {
				c.unitDone()
			}
		}
		if c.cutDone {
			return written, io.ErrClosedPipe
		}
	}
	return written, nil
}

// unitDone is called when a reply TLV or a stream frame has been written completely.
func (c *vfConn) unitDone() {
	wasTLV := c.ophase == 2
	c.ounits++
	c.ointo = 0
	c.oneed = 0
	if wasTLV {
		if c.otyp == createIteratorResponseMessage {
			// point frames follow
			c.stream = true
			c.ophase = 3
			c.planCut()
		} else if c.otyp == storeReadFilterResponseMessage || c.otyp == storeReadGroupResponseMessage {
			// TLV frames follow
			c.stream = true
			c.ophase = 0
			c.planCut()
		} else {
			c.ophase = 0
			c.ounits = 0
		}
	} else {
		c.ophase = 3
	}
	if c.stream && c.cutUnits >= 0 && c.ounits == c.cutUnits && c.cutBytes == 0 {
		c.cutDone = true
		c.Conn.Close()
	}
}

// ---------------------------------------------------------------------------------------------- stub store

type vfStore struct {
	node                   *vfNode
	ShardGroupFn           func(ids []uint64) tsdb.ShardGroup
	TagKeysFn              func(auth query.FineAuthorizer, ids []uint64, cond influxql.Expr) ([]tsdb.TagKeys, error)
	TagValuesFn            func(auth query.FineAuthorizer, ids []uint64, cond influxql.Expr) ([]tsdb.TagValues, error)
	MeasurementNamesFn     func(auth query.FineAuthorizer, db, rp string, cond influxql.Expr) ([][]byte, error)
	SeriesSketchesFn       func(ctx context.Context, db string) (estimator.Sketch, estimator.Sketch, error)
	MeasurementsSketchesFn func(ctx context.Context, db string) (estimator.Sketch, estimator.Sketch, error)
}

var errVfUnused = errors.New("verif: not used by the harness")

func (s *vfStore) ShardIDs() []uint64                                    { return nil }
func (s *vfStore) Shard(id uint64) *tsdb.Shard                           { return nil }
func (s *vfStore) ShardGroup(ids []uint64) tsdb.ShardGroup               { return s.ShardGroupFn(ids) }
func (s *vfStore) CreateShard(db, rp string, id uint64, en bool) error   { return errVfUnused }
func (s *vfStore) WriteToShard(id uint64, pts []models.Point) error      { return errVfUnused }
func (s *vfStore) RestoreShard(id uint64, r io.Reader) error             { return errVfUnused }
func (s *vfStore) BackupShard(id uint64, t time.Time, w io.Writer) error { return errVfUnused }
func (s *vfStore) DeleteDatabase(name string) error                      { return errVfUnused }
func (s *vfStore) DeleteMeasurement(db, name string) error               { return errVfUnused }
func (s *vfStore) DeleteRetentionPolicy(db, name string) error           { return errVfUnused }
func (s *vfStore) DeleteSeries(db string, src []influxql.Source, c influxql.Expr) error {
	return errVfUnused
}
func (s *vfStore) DeleteShard(id uint64) error { return errVfUnused }
func (s *vfStore) MeasurementNames(ctx context.Context, auth query.FineAuthorizer, db, rp string, cond influxql.Expr) ([][]byte, error) {
	return s.MeasurementNamesFn(auth, db, rp, cond)
}
func (s *vfStore) TagKeys(ctx context.Context, auth query.FineAuthorizer, ids []uint64, cond influxql.Expr) ([]tsdb.TagKeys, error) {
	return s.TagKeysFn(auth, ids, cond)
}
func (s *vfStore) TagValues(ctx context.Context, auth query.FineAuthorizer, ids []uint64, cond influxql.Expr) ([]tsdb.TagValues, error) {
	return s.TagValuesFn(auth, ids, cond)
}
func (s *vfStore) SeriesCardinality(ctx context.Context, db string) (int64, error) {
	return 0, errVfUnused
}
func (s *vfStore) MeasurementsCardinality(ctx context.Context, db string) (int64, error) {
	return 0, errVfUnused
}
func (s *vfStore) SeriesSketches(ctx context.Context, db string) (estimator.Sketch, estimator.Sketch, error) {
	return s.SeriesSketchesFn(ctx, db)
}
func (s *vfStore) MeasurementsSketches(ctx context.Context, db string) (estimator.Sketch, estimator.Sketch, error) {
	return s.MeasurementsSketchesFn(ctx, db)
}

var errVfStore = errors.New("verif: shard engine reports an error")

func vfNewStore(nd *vfNode) *vfStore {
	s := &vfStore{node: nd}
	s.ShardGroupFn = func(ids []uint64) tsdb.ShardGroup {
		return &vfShardGroup{node: nd, run: nd.cl.cur(), ids: ids}
	}
	s.TagKeysFn = func(auth query.FineAuthorizer, ids []uint64, cond influxql.Expr) ([]tsdb.TagKeys, error) {
		run := nd.cl.cur()
		if run.faultOf(nd.id) == "errReply" {
			return nil, errVfStore
		}
		tk := tsdb.TagKeys{Measurement: vfMeasurement}
		for _, id := range run.owned(nd.id, ids) {
			tk.Keys = append(tk.Keys, fmt.Sprintf("k%d", id))
		}
		if len(tk.Keys) == 0 {
			return nil, nil
		}
		return []tsdb.TagKeys{tk}, nil
	}
	s.TagValuesFn = func(auth query.FineAuthorizer, ids []uint64, cond influxql.Expr) ([]tsdb.TagValues, error) {
		run := nd.cl.cur()
		if run.faultOf(nd.id) == "errReply" {
			return nil, errVfStore
		}
		tv := tsdb.TagValues{Measurement: vfMeasurement}
		for _, id := range run.owned(nd.id, ids) {
			tv.Values = append(tv.Values, tsdb.KeyValue{Key: "shard", Value: fmt.Sprintf("k%d", id)})
		}
		if len(tv.Values) == 0 {
			return nil, nil
		}
		return []tsdb.TagValues{tv}, nil
	}
	s.MeasurementNamesFn = func(auth query.FineAuthorizer, db, rp string, cond influxql.Expr) ([][]byte, error) {
		run := nd.cl.cur()
		if run.faultOf(nd.id) == "errReply" {
			return nil, errVfStore
		}
		var names [][]byte
		for id := uint64(1); id <= uint64(run.nshards); id++ {
			if run.owners[id][nd.id] {
				names = append(names, []byte(fmt.Sprintf("k%d", id)))
			}
		}
		return names, nil
	}
	s.SeriesSketchesFn = func(ctx context.Context, db string) (estimator.Sketch, estimator.Sketch, error) {
		if nd.cl.cur().faultOf(nd.id) == "errReply" {
			return nil, nil, errVfStore
		}
		return hll.NewDefaultPlus(), hll.NewDefaultPlus(), nil
	}
	s.MeasurementsSketchesFn = s.SeriesSketchesFn
	return s
}

type vfShardGroup struct {
	node *vfNode
	run  *vfRun
	ids  []uint64
}

func (g *vfShardGroup) fails() bool { return g.run.faultOf(g.node.id) == "errReply" }

func (g *vfShardGroup) MeasurementsByRegex(re *regexp.Regexp) []string {
	return []string{vfMeasurement}
}

func (g *vfShardGroup) FieldKeysByMeasurement(name []byte) []string { return []string{"value"} }

func (g *vfShardGroup) FieldDimensions(ms []string) (map[string]influxql.DataType, map[string]struct{}, error) {
	if g.fails() {
		return nil, nil, errVfStore
	}
	f := map[string]influxql.DataType{}
	d := map[string]struct{}{}
	for _, id := range g.run.owned(g.node.id, g.ids) {
		f["value"] = influxql.Float
		f[fmt.Sprintf("f%d", id)] = influxql.Float
		d[fmt.Sprintf("k%d", id)] = struct{}{}
	}
	return f, d, nil
}

func (g *vfShardGroup) MapType(measurement, field string) influxql.DataType {
	if field == "value" && len(g.run.owned(g.node.id, g.ids)) > 0 {
		return influxql.Float
	}
	return influxql.Unknown
}

func (g *vfShardGroup) CreateIterator(ctx context.Context, m *influxql.Measurement, opt query.IteratorOptions) (query.Iterator, error) {
	if g.fails() {
		return nil, errVfStore
	}
	it := &vfIter{run: g.run, name: m.Name, ids: g.run.owned(g.node.id, g.ids), naux: len(opt.Aux), stallAt: -1}
	if g.run.faultOf(g.node.id) == "stallMid" && len(it.ids) > 0 {
		it.stallAt = g.run.variant % len(it.ids)
	}
	return it, nil
}

func (g *vfShardGroup) IteratorCost(measurement string, opt query.IteratorOptions) (query.IteratorCost, error) {
	if g.fails() {
		return query.IteratorCost{}, errVfStore
	}
	var c query.IteratorCost
	for _, id := range g.run.owned(g.node.id, g.ids) {
		c.NumShards++
		w := int64(1)
		for i := uint64(1); i < id; i++ {
			w *= 100
		}
		c.CachedValues += w // base-100 digit per shard: the sum shows how often every shard was counted
	}
	return c, nil
}

func (g *vfShardGroup) ExpandSources(sources influxql.Sources) (influxql.Sources, error) {
	return sources, nil
}

// vfIter yields one marker point per shard (time = value = shard id).
type vfIter struct {
	run     *vfRun
	name    string
	ids     []uint64
	pos     int
	naux    int
	stallAt int
}

func (it *vfIter) Stats() query.IteratorStats { return query.IteratorStats{} }
func (it *vfIter) Close() error               { return nil }
func (it *vfIter) Next() (*query.FloatPoint, error) {
	if it.pos == it.stallAt {
		<-it.run.release // the stream stalls; the reader's deadline decides
		return nil, errors.New("verif: stalled stream released")
	}
	if it.pos >= len(it.ids) {
		return nil, nil
	}
	id := it.ids[it.pos]
	it.pos++
	p := &query.FloatPoint{Name: it.name, Time: vfT0.UnixNano() + int64(id), Value: float64(id)}
	if it.naux > 0 {
		p.Aux = make([]interface{}, it.naux)
		for i := range p.Aux {
			p.Aux[i] = float64(id)
		}
	}
	return p, nil
}

// ---------------------------------------------------------------------------------------------- coordinator-side metadata

// vfMetaBase supplies the parts of coordinator.MetaClient that a query fan-out never touches.
type vfMetaBase struct{}

func (vfMetaBase) CreateContinuousQuery(database, name, query string) error { return errVfUnused }
func (vfMetaBase) CreateDatabase(name string) (*meta.DatabaseInfo, error)   { return nil, errVfUnused }
func (vfMetaBase) CreateDatabaseWithRetentionPolicy(name string, spec *meta.RetentionPolicySpec) (*meta.DatabaseInfo, error) {
	return nil, errVfUnused
}
func (vfMetaBase) CreateRetentionPolicy(database string, spec *meta.RetentionPolicySpec, makeDefault bool) (*meta.RetentionPolicyInfo, error) {
	return nil, errVfUnused
}
func (vfMetaBase) CreateSubscription(database, rp, name, mode string, destinations []string) error {
	return errVfUnused
}
func (vfMetaBase) CreateUser(name, password string, admin bool) (meta.User, error) {
	return nil, errVfUnused
}
func (vfMetaBase) Database(name string) *meta.DatabaseInfo          { return nil }
func (vfMetaBase) Databases() []meta.DatabaseInfo                   { return nil }
func (vfMetaBase) DeleteDataNode(id uint64) error                   { return errVfUnused }
func (vfMetaBase) DeleteMetaNode(id uint64) error                   { return errVfUnused }
func (vfMetaBase) DropShard(id uint64) error                        { return errVfUnused }
func (vfMetaBase) DropContinuousQuery(database, name string) error  { return errVfUnused }
func (vfMetaBase) DropDatabase(name string) error                   { return errVfUnused }
func (vfMetaBase) DropRetentionPolicy(database, name string) error  { return errVfUnused }
func (vfMetaBase) DropSubscription(database, rp, name string) error { return errVfUnused }
func (vfMetaBase) DropUser(name string) error                       { return errVfUnused }
func (vfMetaBase) MetaNodes() []meta.NodeInfo                       { return nil }
func (vfMetaBase) RetentionPolicy(database, name string) (*meta.RetentionPolicyInfo, error) {
	return nil, errVfUnused
}
func (vfMetaBase) SetAdminPrivilege(username string, admin bool) error { return errVfUnused }
func (vfMetaBase) SetPrivilege(username, database string, p influxql.Privilege) error {
	return errVfUnused
}
func (vfMetaBase) TruncateShardGroups(t time.Time) error { return errVfUnused }
func (vfMetaBase) UpdateRetentionPolicy(database, name string, rpu *meta.RetentionPolicyUpdate, makeDefault bool) error {
	return errVfUnused
}
func (vfMetaBase) UpdateUser(name, password string) error { return errVfUnused }
func (vfMetaBase) UserPrivilege(username, database string) (*influxql.Privilege, error) {
	return nil, errVfUnused
}
func (vfMetaBase) UserPrivileges(username string) (map[string]influxql.Privilege, error) {
	return nil, errVfUnused
}
func (vfMetaBase) Users() []meta.UserInfo { return nil }

type vfMeta struct {
	vfMetaBase
	local uint64
	data  *meta.Data
	addrs map[uint64]string
}

func (m *vfMeta) NodeID() uint64 { return m.local }
func (m *vfMeta) DataNode(id uint64) (*meta.NodeInfo, error) {
	ni := m.data.DataNode(id)
	if ni == nil {
		return nil, fmt.Errorf("node %d not found", id)
	}
	c := *ni
	return &c, nil
}
func (m *vfMeta) DataNodes() []meta.NodeInfo {
	return append([]meta.NodeInfo(nil), m.data.DataNodes...)
}
func (m *vfMeta) DataNodeByTCPAddr(a string) (*meta.NodeInfo, error) {
	for i := range m.data.DataNodes {
		if m.data.DataNodes[i].TCPAddr == a {
			return &m.data.DataNodes[i], nil
		}
	}
	return nil, nil
}
func (m *vfMeta) ShardGroupsByTimeRange(db, rp string, min, max time.Time) ([]meta.ShardGroupInfo, error) {
	return m.data.ShardGroupsByTimeRange(db, rp, min, max)
}

// vfBuildMeta builds a real meta.Data for the scenario: data nodes n1..nN at the cluster's addresses (a node
// whose representative of dialFail is "refused" gets an address nobody listens on), the shards in one or in
// several shard groups inside the query's time range, a decoy shard outside of it, owners installed through
// CopyShardOwner in an order chosen by the variant.
func vfBuildMeta(cl *vfCluster, run *vfRun, refuse bool) (*vfMeta, error) {
	sc := run.sc
	d := &meta.Data{}
	addrs := map[uint64]string{}
	for i := 1; i <= len(sc.Nodes); i++ {
		id := uint64(i)
		addr := cl.nodes[id].addr
		if refuse && run.fault[id] == "dialFail" {
			addr = fmt.Sprintf("127.0.0.1:%d", i) // privileged port nobody listens on: connection refused
		}
		if err := d.CreateDataNode(fmt.Sprintf("127.0.0.1:%d", 18000+i), addr); err != nil {
			return nil, err
		}
		if d.DataNodes[len(d.DataNodes)-1].ID != id {
			return nil, fmt.Errorf("unexpected node id")
		}
		addrs[id] = addr
	}
	if err := d.CreateDatabase(vfDB); err != nil {
		return nil, err
	}
	rpi := &meta.RetentionPolicyInfo{Name: vfRP, ReplicaN: 1, ShardGroupDuration: time.Hour}
	if err := d.CreateRetentionPolicy(vfDB, rpi, true); err != nil {
		return nil, err
	}
	r, _ := d.RetentionPolicy(vfDB, vfRP)
	n := run.nshards
	first := func(s int) uint64 { // first owner installed; the others are copied in
		o := sc.Owners[s-1]
		return vfNodeID(o[(run.variant/3)%len(o)])
	}
	mk := func(s int) meta.ShardInfo {
		return meta.ShardInfo{ID: uint64(s), Owners: []meta.ShardOwner{{NodeID: first(s)}}}
	}
	// decoy group before the queried range
	r.ShardGroups = append(r.ShardGroups, meta.ShardGroupInfo{ID: 90, StartTime: vfT0.Add(-48 * time.Hour), EndTime: vfT0.Add(-47 * time.Hour),
		Shards: []meta.ShardInfo{{ID: vfDecoyShard, Owners: []meta.ShardOwner{{NodeID: 1}}}}})
	if run.variant%2 == 0 {
		g := meta.ShardGroupInfo{ID: 1, StartTime: vfT0, EndTime: vfT0.Add(time.Hour)}
		for s := 1; s <= n; s++ {
			g.Shards = append(g.Shards, mk(s))
		}
		r.ShardGroups = append(r.ShardGroups, g)
	} else {
		for s := 1; s <= n; s++ {
			r.ShardGroups = append(r.ShardGroups, meta.ShardGroupInfo{ID: uint64(s), StartTime: vfT0.Add(time.Duration(s-1) * time.Hour),
				EndTime: vfT0.Add(time.Duration(s) * time.Hour), Shards: []meta.ShardInfo{mk(s)}})
		}
	}
	d.MaxShardGroupID, d.MaxShardID = 100, 100
	for s := 1; s <= n; s++ {
		for _, o := range sc.Owners[s-1] {
			d.CopyShardOwner(uint64(s), vfNodeID(o))
		}
	}
	for i := 2; i <= len(sc.Nodes); i++ {
		d.CopyShardOwner(vfDecoyShard, uint64(i))
	}
	// read back: the layout the code will see must be the scenario's
	for _, g := range r.ShardGroups {
		for _, sh := range g.Shards {
			if sh.ID == vfDecoyShard {
				continue
			}
			got := map[uint64]bool{}
			for _, o := range sh.Owners {
				got[o.NodeID] = true
			}
			if len(got) != len(run.owners[sh.ID]) {
				return nil, fmt.Errorf("meta layout differs for shard %d: %v", sh.ID, sh.Owners)
			}
			for o := range run.owners[sh.ID] {
				if !got[o] {
					return nil, fmt.Errorf("meta layout differs for shard %d: %v", sh.ID, sh.Owners)
				}
			}
		}
	}
	return &vfMeta{local: vfNodeID(sc.Coord), data: d, addrs: addrs}, nil
}

// ---------------------------------------------------------------------------------------------- storage-read stub (error replies only)

type vfStorageStore struct{ node *vfNode }

func (s *vfStorageStore) ReadFilter(ctx context.Context, req *datatypes.ReadFilterRequest) (reads.ResultSet, error) {
	if s.node.cl.cur().faultOf(s.node.id) == "errReply" {
		return nil, errVfStore
	}
	return nil, nil
}

func (s *vfStorageStore) ReadGroup(ctx context.Context, req *datatypes.ReadGroupRequest) (reads.GroupResultSet, error) {
	if s.node.cl.cur().faultOf(s.node.id) == "errReply" {
		return nil, errVfStore
	}
	return nil, nil
}

func vfJSONLine(v interface{}) string {
	b, err := json.Marshal(v)
	if err != nil {
		panic(err)
	}
	return string(b)
}

// ---------------------------------------------------------------------------------------------- running a scenario

type vfResult struct {
	Outcome string  // "success" | "error"
	Reads   []int   // per shard, summed over the sources
	Per     [][]int // per source, per shard
	Err     string
	Assign  []string
	Events  []map[string]interface{}
	Notes   []string
	Rows    [][]int // kind "query": the marker ids of the rows in result order, per source
	Storm   bool
	Slow    bool
}

func vfSortedDirty(g *remoteShardGroup) []string {
	var d []string
	g.dirty.Range(func(k, v interface{}) bool {
		d = append(d, vfNodeName(k.(uint64)))
		return true
	})
	sort.Strings(d)
	if d == nil {
		d = []string{}
	}
	return d
}

func vfDirtyProj(csm *ClusterShardMapping, src Source) []map[string]interface{} {
	out := []map[string]interface{}{}
	for _, g := range csm.RemoteShardMapping[src] {
		out = append(out, map[string]interface{}{"g": vfNodeName(g.nodeID), "d": vfSortedDirty(g)})
	}
	sort.Slice(out, func(i, j int) bool { return out[i]["g"].(string) < out[j]["g"].(string) })
	return out
}

func vfIsTimeout(err error) bool {
	return err != nil && (strings.Contains(err.Error(), "i/o timeout") || strings.Contains(err.Error(), "timed out"))
}

// vfLocalStores caches real tsdb.Stores (one per set of local shards) for the all-nodes fan-out.
var vfLocalStores = struct {
	sync.Mutex
	m map[string]*tsdb.Store
}{m: map[string]*tsdb.Store{}}

func vfLocalStore(shards []uint64) (*tsdb.Store, error) {
	key := fmt.Sprint(shards)
	vfLocalStores.Lock()
	defer vfLocalStores.Unlock()
	if s, ok := vfLocalStores.m[key]; ok {
		return s, nil
	}
	base := os.Getenv("VERIF_SCRATCH")
	dir, err := os.MkdirTemp(base, "c05-store-")
	if err != nil {
		return nil, err
	}
	s := tsdb.NewStore(dir)
	s.EngineOptions.IndexVersion = "inmem"
	s.EngineOptions.Config.WALDir = filepath.Join(dir, "wal")
	if err := s.Open(); err != nil {
		return nil, err
	}
	for _, id := range shards {
		if err := s.CreateShard(vfDB, vfRP, id, true); err != nil {
			return nil, err
		}
		pt, err := models.NewPoint("k"+fmt.Sprint(id), models.NewTags(map[string]string{fmt.Sprintf("k%d", id): "v", "shard": fmt.Sprintf("k%d", id)}),
			map[string]interface{}{"value": float64(id)}, vfT0.Add(time.Duration(id)))
		if err != nil {
			return nil, err
		}
		pm, _ := models.NewPoint(vfMeasurement, models.NewTags(map[string]string{fmt.Sprintf("k%d", id): "v", "shard": fmt.Sprintf("k%d", id)}),
			map[string]interface{}{"value": float64(id)}, vfT0.Add(time.Duration(id)))
		if err := s.WriteToShard(id, []models.Point{pt, pm}); err != nil {
			return nil, err
		}
	}
	vfLocalStores.m[key] = s
	return s, nil
}

func vfCloseLocalStores() {
	vfLocalStores.Lock()
	defer vfLocalStores.Unlock()
	for k, s := range vfLocalStores.m {
		dir := s.Path()
		s.Close()
		os.RemoveAll(dir)
		delete(vfLocalStores.m, k)
	}
}

// vfExec runs one scenario once on cluster cl.
func vfExec(cl *vfCluster, sc *vfScen, rid int, timeout time.Duration) (res *vfResult, err error) {
	if err := cl.quiesce(); err != nil {
		return nil, err
	}
	run := &vfRun{sc: sc, rid: rid, fault: map[uint64]string{}, owners: map[uint64]map[uint64]bool{}, nshards: len(sc.Owners),
		variant: sc.Variant, timeout: timeout, release: make(chan struct{})}
	for _, n := range sc.Nodes {
		f := sc.Fault[n]
		if f == "" {
			f = "up"
		}
		run.fault[vfNodeID(n)] = f
	}
	for s, ow := range sc.Owners {
		run.owners[uint64(s+1)] = map[uint64]bool{}
		for _, o := range ow {
			run.owners[uint64(s+1)][vfNodeID(o)] = true
		}
	}
	run.owners[vfDecoyShard] = map[uint64]bool{}
	for _, n := range sc.Nodes {
		run.owners[vfDecoyShard][vfNodeID(n)] = true
	}
	cl.run.Store(run)
	// representative of dialFail: the node accepts and dies before replying (observable, used with traces)
	// or refuses the connection.
	refuse := !sc.Trace && (sc.Variant/5)%2 == 1
	mc, err := vfBuildMeta(cl, run, refuse)
	if err != nil {
		return nil, err
	}
	me := NewMetaExecutor(timeout, 2*time.Second, time.Minute, 64)
	me.MetaClient = mc
	res = &vfResult{}
	defer func() {
		close(run.release)
		me.Close()
		if qerr := cl.quiesce(); qerr != nil && err == nil {
			err = qerr
		}
		run.mu.Lock()
		res.Events = run.events
		run.mu.Unlock()
		res.Storm = atomic.LoadInt32(&run.fuse) != 0
		res.Slow = atomic.LoadInt32(&run.slow) != 0
	}()

	ownersEv := make([][]string, len(sc.Owners))
	for i, o := range sc.Owners {
		ownersEv[i] = append([]string{}, o...)
		sort.Strings(ownersEv[i])
	}
	faultEv := map[string]string{}
	for _, n := range sc.Nodes {
		faultEv[n] = run.fault[vfNodeID(n)]
	}
	nsrc := sc.NSrc
	if nsrc < 1 {
		nsrc = 1
	}
	run.event(map[string]interface{}{"e": "scenario", "sid": sc.ID, "owners": ownersEv, "coord": sc.Coord, "fault": faultEv, "kind": sc.Kind, "nsrc": nsrc})

	coord := cl.nodes[vfNodeID(sc.Coord)]
	n := run.nshards
	finish := func(outcome string, reads []int, e error) {
		res.Outcome, res.Reads = outcome, reads
		if e != nil {
			res.Err = e.Error()
		}
		if reads == nil {
			reads = make([]int, n)
		}
		run.event(map[string]interface{}{"e": "end", "outcome": outcome, "reads": reads})
	}

	switch sc.Kind {
	case "select", "query", "cost":
		mapper := &ClusterShardMapper{MetaClient: mc, TSDBStore: coord.st, MetaExecutor: me}
		// the measurement sources of the statement, all of the one db/rp
		ms := make([]*influxql.Measurement, nsrc)
		for k := range ms {
			ms[k] = &influxql.Measurement{Database: vfDB, RetentionPolicy: vfRP, Name: vfSourceName(k)}
		}
		m := ms[0]
		tr := influxql.TimeRange{Min: vfT0.Add(time.Minute), Max: vfT0.Add(time.Duration(n)*time.Hour - time.Minute)}
		if sc.Variant%2 == 0 {
			tr.Max = vfT0.Add(30 * time.Minute)
		}
		// the sources as the statement names them: plain measurements or subqueries (mapShards recurses)
		var sources influxql.Sources
		for k, mm := range ms {
			if nsrc > 1 && (sc.Variant/11+k)%3 == 0 {
				sources = append(sources, &influxql.SubQuery{Statement: &influxql.SelectStatement{Sources: influxql.Sources{mm}}})
			} else {
				sources = append(sources, mm)
			}
		}
		sg, err := mapper.MapShards(sources, tr, query.SelectOptions{})
		if err != nil {
			return res, fmt.Errorf("MapShards: %v", err)
		}
		defer sg.Close()
		csm := sg.(*ClusterShardMapping)
		src := Source{Database: vfDB, RetentionPolicy: vfRP}
		// projection of the mapping (the local group is a vfShardGroup made by the coordinator's stub store)
		assign := make([]string, n)
		cnt := make([]int, n+1)
		put := func(id uint64, node uint64) {
			if id >= 1 && int(id) <= n {
				assign[id-1] = vfNodeName(node)
				cnt[id]++
			} else {
				res.Notes = append(res.Notes, fmt.Sprintf("map:out-of-range-shard:%d", id))
			}
		}
		if l, ok := csm.LocalShardMapping.ShardMap[src].(*vfShardGroup); ok && l != nil {
			for _, id := range l.ids {
				put(id, coord.id)
			}
		}
		for _, g := range csm.RemoteShardMapping[src] {
			for _, si := range g.shards {
				put(si.ID, g.nodeID)
			}
		}
		for s := 1; s <= n; s++ {
			if cnt[s] == 0 {
				res.Notes = append(res.Notes, "map:none")
				assign[s-1] = sc.Coord
			} else if cnt[s] > 1 {
				res.Notes = append(res.Notes, "map:twice")
			}
		}
		res.Assign = assign
		run.event(map[string]interface{}{"e": "map", "assign": assign})

		opt := query.IteratorOptions{Expr: &influxql.VarRef{Val: "value", Type: influxql.Float}, StartTime: influxql.MinTime, EndTime: influxql.MaxTime,
			Ascending: true, Ordered: (sc.Variant/2)%2 == 0}
		opEnd := func(op string, e error) {
			r := "ok"
			if e != nil {
				r = "err"
			}
			run.event(map[string]interface{}{"e": "opEnd", "op": op, "res": r, "dirty": vfDirtyProj(csm, src)})
		}
		per := make([][]int, nsrc) // per source: reads of every shard
		for k := range per {
			per[k] = make([]int, n)
		}
		total := func() []int {
			t := make([]int, n)
			for _, p := range per {
				for i, v := range p {
					t[i] += v
				}
			}
			return t
		}
		if sc.Kind == "cost" {
			for k, mm := range ms {
				run.event(map[string]interface{}{"e": "opStart", "op": "IC"})
				cost, err := csm.IteratorCost(mm, opt)
				opEnd("IC", err)
				if err != nil {
					finish("error", nil, err)
					return res, nil
				}
				v := cost.CachedValues
				for s := 0; s < n; s++ {
					per[k][s] = int(v % 100)
					v /= 100
				}
				if v != 0 {
					res.Notes = append(res.Notes, "read:out-of-range-shard")
				}
			}
			res.Per = per
			finish("success", total(), nil)
			return res, nil
		}
		if sc.Kind == "query" {
			// the whole statement through the query engine (compile, map, field mapping, cursor)
			sg.Close()
			res.Rows = make([][]int, nsrc)
			qerr, e := vfEngineSelect(mapper, tr, n, nsrc, sc.Variant, per, &res.Notes, sc.Limit, sc.Offset, res.Rows)
			if e != nil {
				return res, e
			}
			if qerr != nil {
				finish("error", nil, qerr)
			} else {
				res.Per = per
				finish("success", total(), nil)
			}
			return res, nil
		}
		// select = per measurement FieldDimensions, MapType, CreateIterator; then drain every iterator
		var itrs []query.Iterator
		closeAll := func() {
			for _, it := range itrs {
				if it != nil {
					it.Close()
				}
			}
		}
		for _, mm := range ms {
			run.event(map[string]interface{}{"e": "opStart", "op": "FD"})
			fields, _, err := csm.FieldDimensions(mm)
			opEnd("FD", err)
			if err != nil {
				closeAll()
				finish("error", nil, err)
				return res, nil
			}
			for s := 1; s <= n; s++ {
				if _, ok := fields[fmt.Sprintf("f%d", s)]; !ok {
					res.Notes = append(res.Notes, "fd:partial")
				}
			}
			run.event(map[string]interface{}{"e": "opStart", "op": "MT"})
			csm.MapType(mm, "value")
			opEnd("MT", nil)
			run.event(map[string]interface{}{"e": "opStart", "op": "CI"})
			itr, err := csm.CreateIterator(context.Background(), mm, opt)
			opEnd("CI", err)
			if err != nil {
				closeAll()
				finish("error", nil, err)
				return res, nil
			}
			itrs = append(itrs, itr)
		}
		var derr error
		for k, itr := range itrs {
			if itr == nil {
				continue
			}
			fitr, ok := itr.(query.FloatIterator)
			if !ok {
				closeAll()
				return res, fmt.Errorf("unexpected iterator type %T", itr)
			}
			for derr == nil {
				p, err := fitr.Next()
				if err != nil {
					derr = err
					break
				}
				if p == nil {
					break
				}
				id := int(p.Value)
				if id >= 1 && id <= n && p.Time == vfT0.UnixNano()+int64(id) && p.Name == vfSourceName(k) {
					per[k][id-1]++
				} else {
					res.Notes = append(res.Notes, "read:out-of-range-shard")
				}
			}
		}
		closeAll()
		_ = m
		if derr != nil {
			finish("error", nil, derr)
		} else {
			res.Per = per
			finish("success", total(), nil)
		}
	case "meta":
		var local []uint64
		for s := 1; s <= n; s++ {
			if run.owners[uint64(s)][coord.id] {
				local = append(local, uint64(s))
			}
		}
		var reads []int
		ids := make([]uint64, 0, n)
		for s := 1; s <= n; s++ {
			ids = append(ids, uint64(s))
		}
		mark := func(keys []string) {
			reads = make([]int, n)
			for _, k := range keys {
				var id int
				if _, e := fmt.Sscanf(k, "k%d", &id); e == nil && id >= 1 && id <= n {
					reads[id-1]++
				} else {
					res.Notes = append(res.Notes, "read:out-of-range-shard")
				}
			}
		}
		var qerr error
		if run.fault[coord.id] == "errReply" {
			// the coordinator's own store fails: use the stub as local store through ExecuteQuery, as
			// ClusterTSDBStore does (a real tsdb.Store cannot be made to fail on demand)
			fn := func() (interface{}, error) { return coord.st.TagKeys(context.Background(), nil, ids, nil) }
			rfn := func(nodeID uint64) (interface{}, error) { return me.TagKeys(nodeID, ids, nil) }
			results, _ := me.ExecuteQuery(fn, rfn)
			var keys []string
			seen := map[string]bool{}
			for _, r := range results {
				if tks, ok := r.([]tsdb.TagKeys); ok {
					for _, tk := range tks {
						for _, k := range tk.Keys {
							if !seen[k] {
								seen[k] = true
								keys = append(keys, k)
							}
						}
					}
				}
			}
			mark(keys)
		} else {
			ls, err := vfLocalStore(local)
			if err != nil {
				return res, err
			}
			cs := ClusterTSDBStore{Store: ls, MetaExecutor: me}
			switch (sc.Variant / 2) % 3 {
			case 0:
				tks, err := cs.TagKeys(context.Background(), nil, ids, nil)
				qerr = err
				var keys []string
				for _, tk := range tks {
					if tk.Measurement != vfMeasurement {
						continue
					}
					for _, k := range tk.Keys {
						if k != "shard" {
							keys = append(keys, k)
						}
					}
				}
				mark(keys)
			case 1:
				tvs, err := cs.TagValues(context.Background(), nil, ids, &influxql.BinaryExpr{Op: influxql.EQ,
					LHS: &influxql.VarRef{Val: "_tagKey"}, RHS: &influxql.StringLiteral{Val: "shard"}})
				qerr = err
				var keys []string
				for _, tv := range tvs {
					if tv.Measurement != vfMeasurement {
						continue
					}
					for _, kv := range tv.Values {
						if kv.Key == "shard" {
							keys = append(keys, kv.Value)
						}
					}
				}
				mark(keys)
			default:
				// no retention policy filter: the inmem index of the local store does not support one
				names, err := cs.MeasurementNames(context.Background(), nil, vfDB, "", nil)
				qerr = err
				var keys []string
				for _, nm := range names {
					if string(nm) != vfMeasurement {
						keys = append(keys, string(nm))
					}
				}
				mark(keys)
			}
		}
		if qerr != nil {
			finish("error", nil, qerr)
		} else {
			finish("success", reads, nil)
		}
	default:
		return res, fmt.Errorf("unknown kind %q", sc.Kind)
	}
	return res, nil
}

// vfEngineSelect runs "SELECT value FROM db0.rp0.m WHERE <range>" through query.Select with the cluster shard
// mapper and counts the markers in the rows.
func vfEngineSelect(mapper *ClusterShardMapper, tr influxql.TimeRange, n, nsrc, variant int, per [][]int, notes *[]string, limit, offset int, rows [][]int) (qerr error, err error) {
	var from []string
	for k := 0; k < nsrc; k++ {
		name := fmt.Sprintf("%s.%s.%s", vfDB, vfRP, vfSourceName(k))
		if nsrc > 1 && (variant/11+k)%3 == 0 {
			name = fmt.Sprintf("(SELECT value FROM %s)", name)
		}
		from = append(from, name)
	}
	q := fmt.Sprintf("SELECT value FROM %s WHERE time >= %d AND time <= %d", strings.Join(from, ", "), tr.Min.UnixNano(), tr.Max.UnixNano())
	if limit > 0 {
		q += fmt.Sprintf(" LIMIT %d", limit)
	}
	if offset > 0 {
		q += fmt.Sprintf(" OFFSET %d", offset)
	}
	st, err := influxql.ParseStatement(q)
	if err != nil {
		return nil, err
	}
	cur, qerr := query.Select(context.Background(), st.(*influxql.SelectStatement), mapper, query.SelectOptions{})
	if qerr != nil {
		return qerr, nil
	}
	if cur == nil {
		return nil, nil
	}
	defer cur.Close()
	var row query.Row
	for cur.Scan(&row) {
		id := 0
		for _, v := range row.Values {
			if f, ok := v.(float64); ok {
				id = int(f)
			}
		}
		k := -1
		for i := 0; i < nsrc; i++ {
			if row.Series.Name == vfSourceName(i) {
				k = i
			}
		}
		if k >= 0 && id >= 1 && id <= n && row.Time == vfT0.UnixNano()+int64(id) {
			per[k][id-1]++
			rows[k] = append(rows[k], id)
		} else {
			*notes = append(*notes, "read:out-of-range-shard")
		}
	}
	if e := cur.Err(); e != nil {
		return e, nil
	}
	return nil, nil
}

// ---------------------------------------------------------------------------------------------- oracle

// vfFaultSig names the fault classes that explain a wrong read of the given shards: the class of the node
// that was asked last for the shard by the operation that produces the result (CreateIterator, IteratorCost),
// for the all-nodes fan-out the classes of the shard's owners; with no shards: all classes of the scenario.
func vfFaultSig(sc *vfScen, res *vfResult, shards []int) string {
	set := map[string]bool{}
	resultOp := map[string]string{"select": "CI", "query": "CI", "cost": "IC"}[sc.Kind]
	for _, s := range shards {
		asked := ""
		if res != nil && resultOp != "" {
			for _, e := range res.Events {
				if e["e"] != "call" || e["op"] != resultOp {
					continue
				}
				for _, x := range e["shards"].([]int) {
					if x == s {
						asked = e["node"].(string)
					}
				}
			}
		}
		if asked != "" {
			f := sc.Fault[asked]
			if f == "" {
				f = "up"
			}
			set[f] = true
			continue
		}
		if resultOp != "" {
			set["not-requested"] = true
			continue
		}
		for _, o := range sc.Owners[s-1] {
			if f := sc.Fault[o]; f != "" && f != "up" {
				set[f] = true
			}
		}
	}
	if len(shards) == 0 {
		for _, f := range sc.Fault {
			if f != "up" {
				set[f] = true
			}
		}
	}
	var l []string
	for f := range set {
		l = append(l, f)
	}
	sort.Strings(l)
	if len(l) == 0 {
		return "none"
	}
	return strings.Join(l, "+")
}

func vfEqualInts(a, b []int) bool {
	if len(a) != len(b) {
		return false
	}
	for i := range a {
		if a[i] != b[i] {
			return false
		}
	}
	return true
}

// vfJudge returns the mismatch signatures of one run ("" = none) and whether timing noise could explain them.
func vfJudge(sc *vfScen, res *vfResult) (sigs []string, detail string) {
	n := len(sc.Owners)
	kind := sc.Kind
	add := func(s string) {
		for _, x := range sigs {
			if x == s {
				return
			}
		}
		sigs = append(sigs, s)
	}
	for _, nt := range res.Notes {
		add(nt + ":" + kind)
	}
	if res.Storm {
		add("retry-storm:" + kind + ":" + vfFaultSig(sc, res, nil))
	}
	live := func(s int) bool {
		for _, o := range sc.Owners[s-1] {
			if f := sc.Fault[o]; f == "" || f == "up" {
				return true
			}
		}
		return false
	}
	var unserv []int
	for s := 1; s <= n; s++ {
		if !live(s) {
			unserv = append(unserv, s)
		}
	}
	if res.Outcome == "success" {
		var missing, twice []int
		per := res.Per
		if per == nil {
			per = [][]int{res.Reads}
		}
		for s := 1; s <= n; s++ {
			// every shard exactly once per measurement source
			lo, hi := false, false
			for _, p := range per {
				if p[s-1] == 0 {
					lo = true
				} else if p[s-1] > 1 {
					hi = true
				}
			}
			if lo {
				missing = append(missing, s)
			}
			if hi {
				twice = append(twice, s)
			}
		}
		// the property: success means every shard exactly once
		ciCalls := 0
		for _, e := range res.Events {
			if e["e"] == "call" && e["op"] == "CI" {
				ciCalls++
			}
		}
		if len(missing) == n && kind == "query" && ciCalls == 0 && len(res.Notes) == 0 {
			// the engine built no iterator at all: every MapType failed and the failure was dropped
			set := map[string]bool{}
			for _, s := range missing {
				for _, o := range sc.Owners[s-1] {
					// only a node that cannot be reached at request time makes MapType fail
					if f := sc.Fault[o]; f == "dialFail" || f == "stall" {
						set[f] = true
					}
				}
			}
			var l []string
			for f := range set {
				l = append(l, f)
			}
			sort.Strings(l)
			add("maptype-lost:" + kind + ":" + strings.Join(l, "+"))
		} else if len(missing) > 0 {
			add("partial:" + kind + ":" + vfFaultSig(sc, res, missing))
		}
		if len(twice) > 0 {
			add("twice:" + kind + ":" + vfFaultSig(sc, res, twice))
		}
		if len(unserv) > 0 && len(missing) == 0 {
			add("unservable-success:" + kind + ":" + vfFaultSig(sc, res, unserv))
		}
	}
	// the model: the observed terminal state must be one the model reaches for this scenario
	if len(sc.Allowed) > 0 {
		ok := false
		for _, a := range sc.Allowed {
			if a.Outcome != res.Outcome {
				continue
			}
			if res.Outcome == "error" || vfEqualInts(a.Reads, res.Reads) {
				ok = true
			}
		}
		if !ok && len(sigs) == 0 {
			add("model:" + kind + ":" + res.Outcome + ":" + vfFaultSig(sc, res, nil))
		}
	}
	detail = fmt.Sprintf("scenario %d kind=%s sources=%d coord=%s owners=%v fault=%v variant=%d: outcome=%s reads=%v per-source=%v err=%q assign=%v notes=%v allowed=%v",
		sc.ID, kind, sc.NSrc, sc.Coord, sc.Owners, sc.Fault, sc.Variant, res.Outcome, res.Reads, res.Per, res.Err, res.Assign, res.Notes, sc.Allowed)
	return sigs, detail
}

// ---------------------------------------------------------------------------------------------- driver

func vfExecWatchdog(cl *vfCluster, sc *vfScen, rid int, timeout time.Duration) (*vfResult, error) {
	type out struct {
		r *vfResult
		e error
	}
	ch := make(chan out, 1)
	go func() {
		r, e := vfExec(cl, sc, rid, timeout)
		ch <- out{r, e}
	}()
	select {
	case o := <-ch:
		return o.r, o.e
	case <-time.After(90 * time.Second):
		return nil, fmt.Errorf("watchdog: scenario %d did not finish", sc.ID)
	}
}

func TestVerifFanout(t *testing.T) {
	var in vfInput
	if err := vtrace.LoadJSON(os.Getenv("VERIF_IN"), &in); err != nil {
		t.Fatalf("input: %v", err)
	}
	if in.Reps <= 0 {
		in.Reps = 1
	}
	if in.Workers <= 0 {
		in.Workers = 8
	}
	timeout := time.Duration(in.TimeoutMs) * time.Millisecond
	if timeout <= 0 {
		timeout = 400 * time.Millisecond
	}
	maxNodes := 0
	for i := range in.Scenarios {
		if len(in.Scenarios[i].Nodes) > maxNodes {
			maxNodes = len(in.Scenarios[i].Nodes)
		}
	}
	defer vfCloseLocalStores()

	var traceMu sync.Mutex
	var traceF *os.File
	if in.TraceOut != "" {
		f, err := os.Create(in.TraceOut)
		if err != nil {
			t.Fatal(err)
		}
		traceF = f
		defer f.Close()
	}
	var ridCtr, runs, reruns, noise, mism, traced, leaked, slow int64
	var fatalMu sync.Mutex
	var fatal error
	kinds := map[string]int{}
	var kmu sync.Mutex
	jobs := make(chan *vfScen)
	var wg sync.WaitGroup
	for w := 0; w < in.Workers; w++ {
		wg.Add(1)
		go func() {
			defer wg.Done()
			cl, err := vfNewCluster(maxNodes)
			if err != nil {
				fatalMu.Lock()
				fatal = err
				fatalMu.Unlock()
				for range jobs {
				}
				return
			}
			defer cl.close()
			defer func() { atomic.AddInt64(&leaked, atomic.LoadInt64(&cl.leaked)) }()
			for sc := range jobs {
				fatalMu.Lock()
				dead := fatal != nil
				fatalMu.Unlock()
				if dead {
					continue
				}
				reps := in.Reps
				if in.Confirm {
					reps = 24
				}
				for rep := 0; rep < reps; rep++ {
					rid := int(atomic.AddInt64(&ridCtr, 1))
					res, err := vfExecWatchdog(cl, sc, rid, timeout)
					for k := 0; err == nil && res.Slow && k < 5; k++ {
						// a healthy node answered too slowly for the deadline in use: timing noise, run again
						atomic.AddInt64(&slow, 1)
						res, err = vfExecWatchdog(cl, sc, int(atomic.AddInt64(&ridCtr, 1)), timeout)
					}
					if err == nil && res.Slow {
						err = fmt.Errorf("machine too slow for the configured deadline (%s)", timeout)
					}
					atomic.AddInt64(&runs, 1)
					if err != nil {
						fatalMu.Lock()
						fatal = fmt.Errorf("scenario %d: %v", sc.ID, err)
						fatalMu.Unlock()
						break
					}
					sigs, detail := vfJudge(sc, res)
					if len(sigs) > 0 && in.Confirm {
						// replay / confirmation of one scenario: the first reproduction is enough
						atomic.AddInt64(&mism, 1)
						for _, s := range sigs {
							vtrace.Mismatch(s, detail, map[string]interface{}{"scenario": sc})
						}
						break
					}
					if len(sigs) > 0 {
						// confirm: the same class must show again (timing noise does not repeat; the code's random
						// owner choice may need a few attempts)
						again := false
						for k := 0; k < 12 && !again; k++ {
							rid2 := int(atomic.AddInt64(&ridCtr, 1))
							res2, err2 := vfExecWatchdog(cl, sc, rid2, timeout)
							atomic.AddInt64(&reruns, 1)
							if err2 != nil {
								break
							}
							if res2.Slow {
								continue
							}
							sigs2, _ := vfJudge(sc, res2)
							for _, a := range sigs {
								for _, b := range sigs2 {
									if a == b {
										again = true
									}
								}
							}
						}
						if !again {
							atomic.AddInt64(&noise, 1)
							vtrace.Out(map[string]interface{}{"k": "noise", "sigs": sigs, "detail": detail})
							continue
						}
						atomic.AddInt64(&mism, 1)
						for _, s := range sigs {
							vtrace.Mismatch(s, detail, map[string]interface{}{"scenario": sc})
						}
						if in.Confirm {
							break
						}
						continue
					}
					if sc.Trace && traceF != nil {
						traceMu.Lock()
						for _, e := range res.Events {
							e["sid"] = sc.ID
							e["ns"] = len(sc.Owners)
							e["nn"] = len(sc.Nodes)
							fmt.Fprintln(traceF, vfJSONLine(e))
						}
						traceMu.Unlock()
						atomic.AddInt64(&traced, 1)
					}
					if rid%400 == 1 {
						vtrace.Sample(map[string]interface{}{"scenario": sc.ID, "kind": sc.Kind, "coord": sc.Coord, "owners": sc.Owners, "fault": sc.Fault,
							"assign": res.Assign, "outcome": res.Outcome, "reads": res.Reads, "requests": len(res.Events)})
					}
				}
				kmu.Lock()
				kinds[sc.Kind]++
				kmu.Unlock()
			}
		}()
	}
	for i := range in.Scenarios {
		jobs <- &in.Scenarios[i]
	}
	close(jobs)
	wg.Wait()
	if fatal != nil {
		t.Fatalf("harness failure: %v", fatal)
	}
	vtrace.Done("TestVerifFanout", map[string]interface{}{"scenarios": len(in.Scenarios), "runs": runs, "reruns": reruns, "noise": noise,
		"mismatching_scenarios": mism, "traced_runs": traced, "kinds": kinds, "leaked_conns": leaked, "slow_reruns": slow})
}

// TestVerifFanoutRPC: every remote procedure of the fan-out against a node whose store reports an error.
// The reply carries Err; MetaExecutor must hand it to its caller (C05_ErrorReplySurfaces at the level of one
// call).  MapType is absent: processMapTypeRequest has no error path once the request is decoded.
func TestVerifFanoutRPC(t *testing.T) {
	cl, err := vfNewCluster(2)
	if err != nil {
		t.Fatal(err)
	}
	defer cl.close()
	m := &influxql.Measurement{Database: vfDB, RetentionPolicy: vfRP, Name: vfMeasurement}
	opt := query.IteratorOptions{Expr: &influxql.VarRef{Val: "value", Type: influxql.Float}, StartTime: influxql.MinTime, EndTime: influxql.MaxTime, Ascending: true}
	ids := []uint64{1}
	type rpc struct {
		name string
		call func(me *MetaExecutor) error
	}
	rpcs := []rpc{
		{"CreateIterator", func(me *MetaExecutor) error {
			itr, err := me.CreateIterator(2, ids, context.Background(), m, opt)
			if itr != nil {
				itr.Close()
			}
			return err
		}},
		{"FieldDimensions", func(me *MetaExecutor) error { _, _, err := me.FieldDimensions(2, ids, m); return err }},
		{"IteratorCost", func(me *MetaExecutor) error { _, err := me.IteratorCost(2, ids, m, opt); return err }},
		{"TagKeys", func(me *MetaExecutor) error { _, err := me.TagKeys(2, ids, nil); return err }},
		{"TagValues", func(me *MetaExecutor) error { _, err := me.TagValues(2, ids, nil); return err }},
		{"MeasurementNames", func(me *MetaExecutor) error { _, err := me.MeasurementNames(2, vfDB, "", nil); return err }},
		{"SeriesSketches", func(me *MetaExecutor) error { _, _, err := me.SeriesSketches(2, vfDB); return err }},
		{"MeasurementsSketches", func(me *MetaExecutor) error { _, _, err := me.MeasurementsSketches(2, vfDB); return err }},
		{"ReadFilter", func(me *MetaExecutor) error {
			rs, err := me.ReadFilter(2, ids, context.Background(), &datatypes.ReadFilterRequest{})
			if rs != nil {
				rs.Close()
			}
			return err
		}},
		{"ReadGroup", func(me *MetaExecutor) error {
			rs, err := me.ReadGroup(2, ids, context.Background(), &datatypes.ReadGroupRequest{})
			if rs != nil {
				rs.Close()
			}
			return err
		}},
	}
	checked := 0
	for _, fault := range []string{"up", "errReply"} {
		for _, r := range rpcs {
			sc := &vfScen{ID: 1, Nodes: []string{"n1", "n2"}, Owners: [][]string{{"n2"}}, Coord: "n1", Fault: map[string]string{"n1": "up", "n2": fault}, Kind: "rpc"}
			if err := cl.quiesce(); err != nil {
				t.Fatal(err)
			}
			run := &vfRun{sc: sc, fault: map[uint64]string{1: "up", 2: fault}, owners: map[uint64]map[uint64]bool{1: {2: true}, vfDecoyShard: {}}, nshards: 1,
				timeout: 5 * time.Second, release: make(chan struct{})}
			cl.run.Store(run)
			mc, err := vfBuildMeta(cl, run, false)
			if err != nil {
				t.Fatal(err)
			}
			me := NewMetaExecutor(5*time.Second, 2*time.Second, time.Minute, 8)
			me.MetaClient = mc
			cerr := r.call(me)
			close(run.release)
			me.Close()
			checked++
			if fault == "up" && cerr != nil {
				t.Fatalf("%s on a healthy node: %v", r.name, cerr)
			}
			if fault == "errReply" && cerr == nil {
				vtrace.Mismatch("errswallowed:"+r.name, fmt.Sprintf("MetaExecutor.%s returned a nil error although node 2 replied with Err=%q", r.name, errVfStore),
					map[string]interface{}{"rpc": r.name})
			}
		}
	}
	if err := cl.quiesce(); err != nil {
		t.Fatal(err)
	}
	vtrace.Done("TestVerifFanoutRPC", map[string]interface{}{"calls": checked})
}

// TestVerifFanoutLimitOffset: "the result equals the result of the same query over the union of the cluster's data"
// for raw statements with LIMIT / OFFSET: on a healthy cluster, for every placement of the shards on local and
// remote nodes and every coordinator, the rows of SELECT ... LIMIT l OFFSET o are exactly rows [o, o+l) of the
// rows of the same statement without them (which the main oracle compares with the union).
func TestVerifFanoutLimitOffset(t *testing.T) {
	cl, err := vfNewCluster(3)
	if err != nil {
		t.Fatal(err)
	}
	defer cl.close()
	nodes := []string{"n1", "n2", "n3"}
	up := map[string]string{"n1": "up", "n2": "up", "n3": "up"}
	placements := [][][]string{
		{{"n1"}, {"n1"}, {"n1"}, {"n1"}},             // everything local to n1 (remote for the others)
		{{"n1"}, {"n2"}, {"n1"}, {"n2"}},             // alternating
		{{"n2"}, {"n2"}, {"n3"}, {"n3"}},             // nothing on n1
		{{"n1", "n2"}, {"n2", "n3"}, {"n3"}, {"n1"}}, // replicated
	}
	cases := 0
	id := 0
	for pi, owners := range placements {
		for _, coord := range nodes {
			for nsrc := 1; nsrc <= 2; nsrc++ {
				exec := func(l, o int) (*vfResult, error) {
					id++
					sc := &vfScen{ID: id, Nodes: nodes, Owners: owners, Coord: coord, Fault: up, Kind: "query", NSrc: nsrc, Variant: 1, Limit: l, Offset: o}
					return vfExec(cl, sc, id, 10*time.Second)
				}
				full, err := exec(0, 0)
				if err != nil {
					t.Fatal(err)
				}
				if full.Outcome != "success" || len(full.Rows) != nsrc || len(full.Rows[0]) == 0 {
					t.Fatalf("verif harness: unlimited statement on a healthy cluster: outcome %s rows %v err %s", full.Outcome, full.Rows, full.Err)
				}
				for _, lo := range [][2]int{{1, 0}, {2, 0}, {1, 1}, {2, 1}, {2, 2}, {1, 3}, {3, 3}, {0, 2}} {
					got, err := exec(lo[0], lo[1])
					if err != nil {
						t.Fatal(err)
					}
					cases++
					for k := 0; k < nsrc; k++ {
						want := []int{}
						if lo[1] < len(full.Rows[k]) {
							want = full.Rows[k][lo[1]:]
						}
						if lo[0] > 0 && len(want) > lo[0] {
							want = want[:lo[0]]
						}
						if got.Outcome != "success" || fmt.Sprint(got.Rows[k]) != fmt.Sprint(want) {
							vtrace.Mismatch("limit-offset:rows", fmt.Sprintf("placement %d (owners %v) coordinator %s, %d source(s), source %d: LIMIT %d OFFSET %d returned markers %v (outcome %s %s); the statement without them returns %v, so rows [%d,%d) are %v",
								pi, owners, coord, nsrc, k, lo[0], lo[1], got.Rows[k], got.Outcome, got.Err, full.Rows[k], lo[1], lo[1]+lo[0], want),
								map[string]interface{}{"limitoffset": true})
							vtrace.Done("TestVerifFanoutLimitOffset", map[string]interface{}{"cases": cases})
							return
						}
					}
				}
			}
		}
	}
	vtrace.Done("TestVerifFanoutLimitOffset", map[string]interface{}{"cases": cases})
}

// TestVerifFanoutStoreStream: the frame stream of a remote storage read (ReadFilter / ReadGroup) that is cut -
// at a frame boundary or inside a frame - must not look like a complete stream to the reader.
func TestVerifFanoutStoreStream(t *testing.T) {
	var full bytes.Buffer
	snd := NewStoreStreamSender(&full)
	for i := 1; i <= 2; i++ {
		rr := &datatypes.ReadResponse{Frames: []datatypes.ReadResponse_Frame{{Data: &datatypes.ReadResponse_Frame_Series{
			Series: &datatypes.ReadResponse_SeriesFrame{DataType: datatypes.DataTypeFloat, Tags: []datatypes.Tag{{Key: []byte("shard"), Value: []byte(fmt.Sprintf("k%d", i))}}}}}}}
		if err := snd.Send(rr); err != nil {
			t.Fatal(err)
		}
	}
	b := full.Bytes()
	half := len(b) / 2 // both messages have the same length: the boundary between them
	count := func(data []byte) (int, error) {
		rcv := NewStoreStreamReceiver(bytes.NewReader(data))
		n := 0
		for {
			rr, err := rcv.Recv()
			if err == io.EOF {
				return n, nil
			}
			if err != nil {
				return n, err
			}
			if rr != nil {
				n += len(rr.Frames)
			}
		}
	}
	if n, err := count(b); err != nil || n != 2 {
		t.Fatalf("complete stream: %d frames, %v", n, err)
	}
	// The sender writes no end marker unless it has statistics: a cut at a frame boundary cannot be told from
	// the end.  A cut inside a frame can.
	cases := map[string][]byte{"cutFrame": b[:half], "cutMid-header": b[:half+5], "cutMid-body": b[:len(b)-3]}
	checked := 0
	for name, data := range cases {
		n, err := count(data)
		checked++
		if err == nil && n < 2 {
			cls := strings.SplitN(name, "-", 2)[0]
			vtrace.Mismatch("eof-clean:storage:"+cls, fmt.Sprintf("storage read stream cut (%s): the receiver reports a clean end after %d of 2 frames", name, n),
				map[string]interface{}{"storestream": name})
		}
	}
	vtrace.Done("TestVerifFanoutStoreStream", map[string]interface{}{"cases": checked})
}
