package coordinator

// C15 - payload half (spec-generated exploration): specs/wire/WirePatterns.tla enumerates, per message type of
// coordinator/rpc.go, which optional parts are present, and for streamed points the value type, nil marker, tag set,
// auxiliary values (every type, typed nil, untyped nil), aggregate count, name and time class.  Every pattern is
// instantiated, MarshalBinary -> UnmarshalBinary into a fresh value -> compared through a canonical form that is
// written here from the field lists of the structs (not through the codec under test); points go through the real
// IteratorEncoder and ReaderIterator over a real pipe.

import (
	"context"
	"encoding"
	"errors"
	"fmt"
	"io"
	"log"
	"math"
	"net"
	"os"
	"regexp"
	"sort"
	"strings"
	"testing"
	"time"

	"github.com/influxdata/influxdb/models"
	"github.com/influxdata/influxdb/pkg/estimator"
	"github.com/influxdata/influxdb/pkg/tracing"
	"github.com/influxdata/influxdb/pkg/verifx/vtrace"
	"github.com/influxdata/influxdb/query"
	"github.com/influxdata/influxdb/services/meta"
	"github.com/influxdata/influxdb/storage/reads/datatypes"
	"github.com/influxdata/influxdb/tsdb"
	"github.com/influxdata/influxql"
)

// ------------------------------------------------------------------ canonical forms

func vwExpr(e influxql.Expr) string {
	if e == nil {
		return "<nil>"
	}
	return e.String()
}

func vwErr(e error) string {
	if e == nil {
		return "<nil>"
	}
	return fmt.Sprintf("error(%q)", e.Error())
}

func vwCanonPoints(pts []models.Point) string {
	var sb strings.Builder
	sb.WriteString("[")
	for i, p := range pts {
		if i > 0 {
			sb.WriteString(" | ")
		}
		if p == nil {
			sb.WriteString("<nil point>")
			continue
		}
		f, err := p.Fields()
		var keys []string
		for k := range f {
			keys = append(keys, k)
		}
		sort.Strings(keys)
		fmt.Fprintf(&sb, "%q t=%d", string(p.Key()), p.UnixNano())
		if err != nil {
			fmt.Fprintf(&sb, " fields-error=%v", err)
		}
		for _, k := range keys {
			fmt.Fprintf(&sb, " %s=%T(%v)", k, f[k], f[k])
		}
	}
	sb.WriteString("]")
	return sb.String()
}

func vwCanonMeasurement(m *influxql.Measurement) string {
	if m == nil {
		return "<nil>"
	}
	re := "<nil>"
	if m.Regex != nil {
		re = m.Regex.Val.String()
	}
	return fmt.Sprintf("{db=%q rp=%q name=%q regex=%s target=%t sys=%q}", m.Database, m.RetentionPolicy, m.Name, re, m.IsTarget, m.SystemIterator)
}

func vwCanonSources(s influxql.Sources) string {
	var out []string
	for _, x := range s {
		if m, ok := x.(*influxql.Measurement); ok {
			out = append(out, vwCanonMeasurement(m))
		} else {
			out = append(out, fmt.Sprintf("%T", x))
		}
	}
	return "[" + strings.Join(out, " ") + "]"
}

func vwSortedKeys(m map[string]struct{}) []string {
	var k []string
	for x := range m {
		k = append(k, x)
	}
	sort.Strings(k)
	return k
}

func vwCanonOpt(o *query.IteratorOptions) string {
	loc := "<nil>"
	if o.Location != nil {
		loc = o.Location.String()
	}
	var aux []string
	for _, a := range o.Aux {
		aux = append(aux, fmt.Sprintf("%s::%s", a.Val, a.Type))
	}
	var dims []string
	dims = append(dims, o.Dimensions...)
	return fmt.Sprintf("{expr=%s aux=%v src=%s int=%d/%d dims=%q gb=%q loc=%s fill=%d/%T(%v) cond=%s t=%d..%d asc=%t lim=%d/%d/%d/%d strip=%t dedupe=%t ord=%t max=%d}",
		vwExpr(o.Expr), aux, vwCanonSources(o.Sources), o.Interval.Duration, o.Interval.Offset, dims, vwSortedKeys(o.GroupBy), loc,
		o.Fill, o.FillValue, o.FillValue, vwExpr(o.Condition), o.StartTime, o.EndTime, o.Ascending, o.Limit, o.Offset, o.SLimit, o.SOffset,
		o.StripName, o.Dedupe, o.Ordered, o.MaxSeriesN)
}

// a sketch is compared through what it is for: its estimate, and the estimate after merging a fixed probe set
// (the binary form of a sparse sketch depends on map iteration order)
func vwCanonSketch(s estimator.Sketch) string {
	if s == nil {
		return "<nil>"
	}
	c := s.Clone()
	merged := "?"
	if err := c.Merge(vwSketch(5)); err == nil {
		merged = fmt.Sprint(c.Count())
	}
	return fmt.Sprintf("sketch(count=%d merged=%s)", s.Count(), merged)
}

func vwCanonBytes(a [][]byte) string {
	var out []string
	for _, b := range a {
		out = append(out, fmt.Sprintf("%q", string(b)))
	}
	return "[" + strings.Join(out, " ") + "]"
}

func vwCanonResult(r *query.Result) string {
	b, err := r.MarshalJSON()
	return fmt.Sprintf("%s err=%v", string(b), err)
}

// vwCanon renders a request / response value field by field
func vwCanon(v interface{}) string {
	switch m := v.(type) {
	case *WriteShardRequest:
		return fmt.Sprintf("WriteShardRequest{shard=%d db=%q rp=%q points=%s}", m.ShardID(), m.Database(), m.RetentionPolicy(), vwCanonPoints(m.Points()))
	case *WriteShardResponse:
		return fmt.Sprintf("WriteShardResponse{code=%d msg=%q}", m.Code(), m.Message())
	case *ExecuteStatementRequest:
		return fmt.Sprintf("ExecuteStatementRequest{stmt=%q db=%q}", m.Statement(), m.Database())
	case *ExecuteStatementResponse:
		return fmt.Sprintf("ExecuteStatementResponse{code=%d msg=%q}", m.Code(), m.Message())
	case *TaskManagerStatementRequest:
		return fmt.Sprintf("TaskManagerStatementRequest{stmt=%q}", m.Statement)
	case *TaskManagerStatementResponse:
		return fmt.Sprintf("TaskManagerStatementResponse{result=%s err=%s}", vwCanonResult(&m.Result), vwErr(m.Err))
	case *MeasurementNamesRequest:
		return fmt.Sprintf("MeasurementNamesRequest{db=%q rp=%q cond=%s}", m.Database, m.RetentionPolicy, vwExpr(m.Condition))
	case *MeasurementNamesResponse:
		return fmt.Sprintf("MeasurementNamesResponse{names=%s err=%s}", vwCanonBytes(m.Names), vwErr(m.Err))
	case *TagKeysRequest:
		return fmt.Sprintf("TagKeysRequest{ids=%v cond=%s}", m.ShardIDs, vwExpr(m.Condition))
	case *TagKeysResponse:
		var out []string
		for _, k := range m.TagKeys {
			out = append(out, fmt.Sprintf("%q:%q", k.Measurement, append([]string{}, k.Keys...)))
		}
		return fmt.Sprintf("TagKeysResponse{keys=%v err=%s}", out, vwErr(m.Err))
	case *TagValuesRequest:
		return fmt.Sprintf("TagValuesRequest{ids=%v cond=%s}", m.ShardIDs, vwExpr(m.Condition))
	case *TagValuesResponse:
		var out []string
		for _, k := range m.TagValues {
			out = append(out, fmt.Sprintf("%q:%q", k.Measurement, append([]tsdb.KeyValue{}, k.Values...)))
		}
		return fmt.Sprintf("TagValuesResponse{values=%v err=%s}", out, vwErr(m.Err))
	case *SeriesSketchesRequest:
		return fmt.Sprintf("SeriesSketchesRequest{db=%q}", m.Database)
	case *SeriesSketchesResponse:
		return fmt.Sprintf("SeriesSketchesResponse{s=%s ts=%s err=%s}", vwCanonSketch(m.Sketch), vwCanonSketch(m.TSSketch), vwErr(m.Err))
	case *MeasurementsSketchesRequest:
		return fmt.Sprintf("MeasurementsSketchesRequest{db=%q}", m.Database)
	case *MeasurementsSketchesResponse:
		return fmt.Sprintf("MeasurementsSketchesResponse{s=%s ts=%s err=%s}", vwCanonSketch(m.Sketch), vwCanonSketch(m.TSSketch), vwErr(m.Err))
	case *StoreReadFilterRequest:
		b, err := m.Request.Marshal()
		return fmt.Sprintf("StoreReadFilterRequest{ids=%v req=%x err=%v}", m.ShardIDs, b, err)
	case *StoreReadFilterResponse:
		return fmt.Sprintf("StoreReadFilterResponse{err=%s}", vwErr(m.Err))
	case *StoreReadGroupRequest:
		b, err := m.Request.Marshal()
		return fmt.Sprintf("StoreReadGroupRequest{ids=%v req=%x err=%v}", m.ShardIDs, b, err)
	case *StoreReadGroupResponse:
		return fmt.Sprintf("StoreReadGroupResponse{err=%s}", vwErr(m.Err))
	case *CreateIteratorRequest:
		return fmt.Sprintf("CreateIteratorRequest{ids=%v m=%s opt=%s span=%d/%d}", m.ShardIDs, vwCanonMeasurement(&m.Measurement), vwCanonOpt(&m.Opt), m.SpanContext.TraceID, m.SpanContext.SpanID)
	case *CreateIteratorResponse:
		return fmt.Sprintf("CreateIteratorResponse{err=%s type=%s stats=%d/%d}", vwErr(m.Err), m.Type, m.Stats.SeriesN, m.Stats.PointN)
	case *IteratorCostRequest:
		return fmt.Sprintf("IteratorCostRequest{ids=%v m=%s opt=%s}", m.ShardIDs, vwCanonMeasurement(&m.Measurement), vwCanonOpt(&m.Opt))
	case *IteratorCostResponse:
		return fmt.Sprintf("IteratorCostResponse{err=%s cost=%+v}", vwErr(m.Err), m.Cost)
	case *FieldDimensionsRequest:
		return fmt.Sprintf("FieldDimensionsRequest{ids=%v m=%s}", m.ShardIDs, vwCanonMeasurement(&m.Measurement))
	case *FieldDimensionsResponse:
		var f []string
		for k, t := range m.Fields {
			f = append(f, fmt.Sprintf("%s:%s", k, t))
		}
		sort.Strings(f)
		return fmt.Sprintf("FieldDimensionsResponse{fields=%v dims=%q err=%s}", f, vwSortedKeys(m.Dimensions), vwErr(m.Err))
	case *MapTypeRequest:
		return fmt.Sprintf("MapTypeRequest{ids=%v m=%s field=%q}", m.ShardIDs, vwCanonMeasurement(&m.Measurement), m.Field)
	case *MapTypeResponse:
		return fmt.Sprintf("MapTypeResponse{type=%s err=%s}", m.Type, vwErr(m.Err))
	case *ExpandSourcesRequest:
		return fmt.Sprintf("ExpandSourcesRequest{ids=%v src=%s}", m.ShardIDs, vwCanonSources(m.Sources))
	case *ExpandSourcesResponse:
		return fmt.Sprintf("ExpandSourcesResponse{src=%s err=%s}", vwCanonSources(m.Sources), vwErr(m.Err))
	case *BackupShardRequest:
		return fmt.Sprintf("BackupShardRequest{shard=%d since=%s}", m.ShardID, vwCanonTime(m.Since))
	case *CopyShardRequest:
		return fmt.Sprintf("CopyShardRequest{host=%q db=%q rp=%q shard=%d since=%s}", m.Host, m.Database, m.Policy, m.ShardID, vwCanonTime(m.Since))
	case *CopyShardResponse:
		return fmt.Sprintf("CopyShardResponse{err=%s}", vwErr(m.Err))
	case *RemoveShardRequest:
		return fmt.Sprintf("RemoveShardRequest{shard=%d}", m.ShardID)
	case *RemoveShardResponse:
		return fmt.Sprintf("RemoveShardResponse{err=%s}", vwErr(m.Err))
	case *ListShardsResponse:
		var ids []uint64
		for id := range m.Shards {
			ids = append(ids, id)
		}
		sort.Slice(ids, func(i, j int) bool { return ids[i] < ids[j] })
		var out []string
		for _, id := range ids {
			o := m.Shards[id]
			if o == nil {
				out = append(out, fmt.Sprintf("%d:<nil>", id))
				continue
			}
			out = append(out, fmt.Sprintf("%d:{id=%d tcp=%q state=%q mod=%s size=%d err=%q}", id, o.ID, o.TCPAddr, o.State, vwCanonTime(o.LastModified), o.Size, o.Err))
		}
		return fmt.Sprintf("ListShardsResponse{shards=%v err=%s}", out, vwErr(m.Err))
	case *JoinClusterRequest:
		return fmt.Sprintf("JoinClusterRequest{servers=%q update=%t}", append([]string{}, m.MetaServers...), m.Update)
	case *JoinClusterResponse:
		node := "<nil>"
		if m.Node != nil {
			node = fmt.Sprintf("{id=%d addr=%q tcp=%q}", m.Node.ID, m.Node.Addr, m.Node.TCPAddr)
		}
		return fmt.Sprintf("JoinClusterResponse{node=%s err=%s}", node, vwErr(m.Err))
	case *LeaveClusterResponse:
		return fmt.Sprintf("LeaveClusterResponse{err=%s}", vwErr(m.Err))
	case *RemoveHintedHandoffRequest:
		return fmt.Sprintf("RemoveHintedHandoffRequest{node=%d}", m.NodeID)
	case *RemoveHintedHandoffResponse:
		return fmt.Sprintf("RemoveHintedHandoffResponse{err=%s}", vwErr(m.Err))
	}
	panic(fmt.Sprintf("vwCanon: unknown type %T", v))
}

func vwCanonTime(t time.Time) string {
	if t.IsZero() {
		return "zero"
	}
	return fmt.Sprintf("%d", t.UnixNano())
}

// ------------------------------------------------------------------ message patterns

type vwPattern struct {
	Msg string   `json:"msg"`
	On  []string `json:"on"`
}

type vwMsg interface {
	encoding.BinaryMarshaler
	encoding.BinaryUnmarshaler
}

func vwErrIf(on bool, text string) error {
	if on {
		return errors.New(text)
	}
	return nil
}

func vwIDs(on bool) []uint64 {
	if on {
		return []uint64{1, 2, math.MaxUint64}
	}
	return nil
}

func vwCond(on bool) influxql.Expr {
	if on {
		return influxql.MustParseExpr(`(host = 'a' OR region =~ /eu.*/) AND "weird key" != 'x''y' AND value > 1.5`)
	}
	return nil
}

func vwPatMeasurement(k map[string]bool) influxql.Measurement {
	m := influxql.Measurement{}
	if k["regex"] {
		m.Regex = &influxql.RegexLiteral{Val: regexp.MustCompile(`^c[a-z]+\d*$`)}
	} else {
		m.Name = "cpu load"
	}
	if k["db"] {
		m.Database, m.RetentionPolicy = "db0", "rp 0"
	}
	if k["sysiter"] {
		m.SystemIterator = "_series"
	}
	if k["target"] {
		m.IsTarget = true
	}
	return m
}

func vwPatOptions(k map[string]bool) query.IteratorOptions {
	var o query.IteratorOptions
	if k["expr"] {
		o.Expr = &influxql.VarRef{Val: "value", Type: influxql.Float}
	}
	if k["call"] {
		o.Expr = influxql.MustParseExpr(`percentile("value"::integer, 90.5)`)
	}
	if k["aux"] {
		o.Aux = []influxql.VarRef{{Val: "n"}, {Val: "weird name"}}
	}
	if k["auxtyped"] {
		o.Aux = []influxql.VarRef{{Val: "n", Type: influxql.Integer}, {Val: "host", Type: influxql.Tag}, {Val: "u", Type: influxql.Unsigned}, {Val: "b", Type: influxql.Boolean}, {Val: "s", Type: influxql.String}}
	}
	if k["interval"] {
		o.Interval = query.Interval{Duration: 90 * time.Second, Offset: -5 * time.Millisecond}
	}
	if k["dims"] {
		o.Dimensions = []string{"host", "region"}
	}
	if k["groupby"] {
		o.GroupBy = map[string]struct{}{"host": {}, "": {}}
	}
	if k["fill"] {
		o.Fill = influxql.PreviousFill
	}
	if k["fillnum"] {
		o.Fill, o.FillValue = influxql.NumberFill, float64(-2.25)
	}
	if k["fillint"] {
		o.Fill, o.FillValue = influxql.NumberFill, int64(5) // what the parser produces for fill(5)
	}
	if k["cond"] {
		o.Condition = vwCond(true)
	}
	if k["loc"] {
		o.Location = time.UTC
	}
	if k["limits"] {
		o.Limit, o.Offset, o.SLimit, o.SOffset = 10, 20, 30, 40
	}
	if k["flags"] {
		o.Ascending, o.StripName, o.Dedupe, o.Ordered = true, true, true, true
	}
	if k["times"] {
		o.StartTime, o.EndTime = influxql.MinTime, influxql.MaxTime
	}
	if k["sources"] {
		o.Sources = influxql.Sources{&influxql.Measurement{Database: "db0", RetentionPolicy: "rp0", Name: "cpu"},
			&influxql.Measurement{Regex: &influxql.RegexLiteral{Val: regexp.MustCompile(`m.m`)}}}
	}
	if k["maxseries"] {
		o.MaxSeriesN = 12345
	}
	return o
}

func vwPatSketch(on, filled bool) estimator.Sketch {
	if !on {
		return nil
	}
	if filled {
		return vwSketch(2000) // dense representation
	}
	return vwSketch(3)
}

// vwBuild instantiates the message named by the pattern; fresh = an empty value of the same type
func vwBuild(p vwPattern) (orig vwMsg, fresh vwMsg) {
	k := map[string]bool{}
	for _, x := range p.On {
		k[x] = true
	}
	switch p.Msg {
	case "WriteShardRequest":
		r := &WriteShardRequest{}
		r.SetShardID(7)
		if k["db"] {
			r.SetDatabase("db0")
		}
		if k["rp"] {
			r.SetRetentionPolicy("rp0")
		}
		mk := func(i int) models.Point {
			tags := map[string]string{}
			if k["ptags"] {
				tags = map[string]string{"host": fmt.Sprintf("h%d", i), "k,=\\ ": "v ,=\\"}
			}
			fields := map[string]interface{}{"value": 1.5 + float64(i)}
			if k["pfields"] {
				fields = map[string]interface{}{"f": math.MaxFloat64, "i": int64(math.MinInt64), "s": "a\"b\\c\nd", "b": true, "e": ""}
			}
			pt, err := models.NewPoint("m,e =", models.NewTags(tags), fields, time.Unix(0, int64(i)*1e9-1))
			if err != nil {
				panic(err)
			}
			return pt
		}
		if k["p1"] {
			r.AddPoints([]models.Point{mk(0)})
		}
		if k["p2"] {
			r.AddPoints([]models.Point{mk(1), mk(2)})
		}
		return r, &WriteShardRequest{}
	case "WriteShardResponse":
		r := &WriteShardResponse{}
		r.SetCode(0)
		if k["code"] {
			r.SetCode(1)
		}
		if k["msg"] {
			r.SetMessage("write shard 7: engine: \"boom\"\n")
		}
		return r, &WriteShardResponse{}
	case "ExecuteStatementRequest":
		r := &ExecuteStatementRequest{}
		r.SetStatement("DROP DATABASE x")
		if k["long"] {
			r.SetStatement(`DROP SERIES FROM "a b"."rp"./c.*/ WHERE "host" = 'x''y' AND t =~ /\//`)
		}
		r.SetDatabase("")
		if k["db"] {
			r.SetDatabase("db 0")
		}
		return r, &ExecuteStatementRequest{}
	case "ExecuteStatementResponse":
		r := &ExecuteStatementResponse{}
		r.SetCode(0)
		if k["code"] {
			r.SetCode(-1)
		}
		if k["msg"] {
			r.SetMessage("x")
		}
		return r, &ExecuteStatementResponse{}
	case "TaskManagerStatementRequest":
		r := &TaskManagerStatementRequest{}
		if k["stmt"] {
			r.Statement = "KILL QUERY 36 ON \"h:8088\""
		}
		return r, &TaskManagerStatementRequest{}
	case "TaskManagerStatementResponse":
		r := &TaskManagerStatementResponse{Err: vwErrIf(k["err"], "no such query")}
		if k["series"] {
			r.Result.Series = models.Rows{{Name: "q", Tags: map[string]string{"a": "b"}, Columns: []string{"qid", "query"}, Values: [][]interface{}{{"1", "SELECT 1"}, {"x", "y"}}}}
		}
		if k["messages"] {
			r.Result.Messages = []*query.Message{{Level: "warning", Text: "t"}}
		}
		if k["rerr"] {
			r.Result.Err = errors.New("result error")
		}
		if k["sid"] {
			r.Result.StatementID = 3
		}
		return r, &TaskManagerStatementResponse{}
	case "MeasurementNamesRequest":
		r := &MeasurementNamesRequest{Condition: vwCond(k["cond"])}
		if k["db"] {
			r.Database = "db0"
		}
		if k["rp"] {
			r.RetentionPolicy = "rp0"
		}
		return r, &MeasurementNamesRequest{}
	case "MeasurementNamesResponse":
		r := &MeasurementNamesResponse{Err: vwErrIf(k["err"], "e")}
		if k["names"] {
			r.Names = [][]byte{[]byte("cpu"), []byte("m\x00z")}
		}
		if k["emptyname"] {
			r.Names = append(r.Names, []byte{})
		}
		return r, &MeasurementNamesResponse{}
	case "TagKeysRequest":
		return &TagKeysRequest{ShardIDs: vwIDs(k["shards"]), Condition: vwCond(k["cond"])}, &TagKeysRequest{}
	case "TagKeysResponse":
		r := &TagKeysResponse{Err: vwErrIf(k["err"], "e")}
		if k["keys"] {
			r.TagKeys = []tsdb.TagKeys{{Measurement: "cpu", Keys: []string{"host", "a\"b"}}, {Measurement: "", Keys: nil}}
		}
		return r, &TagKeysResponse{}
	case "TagValuesRequest":
		return &TagValuesRequest{ShardIDs: vwIDs(k["shards"]), Condition: vwCond(k["cond"])}, &TagValuesRequest{}
	case "TagValuesResponse":
		r := &TagValuesResponse{Err: vwErrIf(k["err"], "e")}
		if k["values"] {
			r.TagValues = []tsdb.TagValues{{Measurement: "cpu", Values: []tsdb.KeyValue{{Key: "host", Value: "a"}, {Key: "", Value: ""}}}, {Measurement: "m"}}
		}
		return r, &TagValuesResponse{}
	case "SeriesSketchesRequest":
		r := &SeriesSketchesRequest{}
		if k["db"] {
			r.Database = "db0"
		}
		return r, &SeriesSketchesRequest{}
	case "SeriesSketchesResponse":
		return &SeriesSketchesResponse{Sketch: vwPatSketch(k["sketch"], k["filled"]), TSSketch: vwPatSketch(k["tssketch"], k["filled"]), Err: vwErrIf(k["err"], "e")}, &SeriesSketchesResponse{}
	case "MeasurementsSketchesRequest":
		r := &MeasurementsSketchesRequest{}
		if k["db"] {
			r.Database = "db0"
		}
		return r, &MeasurementsSketchesRequest{}
	case "MeasurementsSketchesResponse":
		return &MeasurementsSketchesResponse{Sketch: vwPatSketch(k["sketch"], k["filled"]), TSSketch: vwPatSketch(k["tssketch"], k["filled"]), Err: vwErrIf(k["err"], "e")}, &MeasurementsSketchesResponse{}
	case "StoreReadFilterRequest":
		r := &StoreReadFilterRequest{ShardIDs: vwIDs(k["shards"])}
		if k["range"] {
			r.Request.Range = datatypes.TimestampRange{Start: math.MinInt64, End: math.MaxInt64}
		}
		if k["pred"] {
			r.Request.Predicate = vwPredicate()
		}
		return r, &StoreReadFilterRequest{}
	case "StoreReadFilterResponse":
		return &StoreReadFilterResponse{Err: vwErrIf(k["err"], "e")}, &StoreReadFilterResponse{}
	case "StoreReadGroupRequest":
		r := &StoreReadGroupRequest{ShardIDs: vwIDs(k["shards"])}
		if k["range"] {
			r.Request.Range = datatypes.TimestampRange{Start: -1, End: 1}
		}
		if k["pred"] {
			r.Request.Predicate = vwPredicate()
		}
		if k["keys"] {
			r.Request.GroupKeys = []string{"host", ""}
		}
		if k["group"] {
			r.Request.Group = datatypes.GroupBy
		}
		if k["agg"] {
			r.Request.Aggregate = &datatypes.Aggregate{Type: datatypes.AggregateTypeCount}
		}
		if k["hints"] {
			r.Request.Hints = datatypes.HintFlags(7)
		}
		return r, &StoreReadGroupRequest{}
	case "StoreReadGroupResponse":
		return &StoreReadGroupResponse{Err: vwErrIf(k["err"], "e")}, &StoreReadGroupResponse{}
	case "CreateIteratorRequest":
		r := &CreateIteratorRequest{ShardIDs: vwIDs(k["shards"]), Measurement: vwPatMeasurement(k), Opt: vwPatOptions(k)}
		if k["span"] {
			r.SpanContext = tracing.SpanContext{TraceID: math.MaxUint64, SpanID: 1}
		}
		return r, &CreateIteratorRequest{}
	case "CreateIteratorResponse":
		r := &CreateIteratorResponse{Err: vwErrIf(k["err"], "e")}
		if k["type"] {
			r.Type = influxql.Unsigned
		}
		if k["stats"] {
			r.Stats = query.IteratorStats{SeriesN: 3, PointN: 1 << 40}
		}
		return r, &CreateIteratorResponse{}
	case "IteratorCostRequest":
		return &IteratorCostRequest{ShardIDs: vwIDs(k["shards"]), Measurement: vwPatMeasurement(k), Opt: vwPatOptions(k)}, &IteratorCostRequest{}
	case "IteratorCostResponse":
		r := &IteratorCostResponse{Err: vwErrIf(k["err"], "e")}
		if k["cost"] {
			r.Cost = query.IteratorCost{NumShards: 1, NumSeries: -2, CachedValues: 3, NumFiles: 4, BlocksRead: 5, BlockSize: math.MaxInt64}
		}
		return r, &IteratorCostResponse{}
	case "FieldDimensionsRequest":
		return &FieldDimensionsRequest{ShardIDs: vwIDs(k["shards"]), Measurement: vwPatMeasurement(k)}, &FieldDimensionsRequest{}
	case "FieldDimensionsResponse":
		r := &FieldDimensionsResponse{Err: vwErrIf(k["err"], "e")}
		if k["fields"] {
			r.Fields = map[string]influxql.DataType{"f": influxql.Float, "i": influxql.Integer, "u": influxql.Unsigned, "s": influxql.String, "b": influxql.Boolean, "": influxql.Tag}
		}
		if k["dims"] {
			r.Dimensions = map[string]struct{}{"host": {}, "": {}}
		}
		return r, &FieldDimensionsResponse{}
	case "MapTypeRequest":
		r := &MapTypeRequest{ShardIDs: vwIDs(k["shards"]), Measurement: vwPatMeasurement(k)}
		if k["field"] {
			r.Field = "weird field"
		}
		return r, &MapTypeRequest{}
	case "MapTypeResponse":
		r := &MapTypeResponse{Err: vwErrIf(k["err"], "e")}
		if k["type"] {
			r.Type = influxql.AnyField
		}
		return r, &MapTypeResponse{}
	case "ExpandSourcesRequest":
		r := &ExpandSourcesRequest{ShardIDs: vwIDs(k["shards"])}
		if k["s1"] {
			r.Sources = append(r.Sources, &influxql.Measurement{Name: "cpu"})
		}
		if k["s2regex"] {
			r.Sources = append(r.Sources, &influxql.Measurement{Database: "d", Regex: &influxql.RegexLiteral{Val: regexp.MustCompile(`a|b`)}})
		}
		if k["s3full"] {
			r.Sources = append(r.Sources, &influxql.Measurement{Database: "d", RetentionPolicy: "r", Name: "n", IsTarget: true, SystemIterator: "_tagKeys"})
		}
		return r, &ExpandSourcesRequest{}
	case "ExpandSourcesResponse":
		r := &ExpandSourcesResponse{Err: vwErrIf(k["err"], "e")}
		if k["sources"] {
			r.Sources = vwExpanded()
		}
		if k["regexsrc"] {
			r.Sources = append(r.Sources, &influxql.Measurement{Regex: &influxql.RegexLiteral{Val: regexp.MustCompile(`x+`)}})
		}
		return r, &ExpandSourcesResponse{}
	case "BackupShardRequest":
		r := &BackupShardRequest{}
		if k["shard"] {
			r.ShardID = math.MaxUint64
		}
		if k["since"] {
			r.Since = time.Unix(1700000000, 123456789)
		}
		if k["epoch"] {
			r.Since = time.Unix(0, 0)
		}
		return r, &BackupShardRequest{}
	case "CopyShardRequest":
		r := &CopyShardRequest{ShardID: 3}
		if k["host"] {
			r.Host = "h2:8088"
		}
		if k["db"] {
			r.Database = "db0"
		}
		if k["rp"] {
			r.Policy = "rp0"
		}
		if k["since"] {
			r.Since = time.Unix(0, -1)
		}
		return r, &CopyShardRequest{}
	case "CopyShardResponse":
		return &CopyShardResponse{Err: vwErrIf(k["err"], "")}, &CopyShardResponse{}
	case "RemoveShardRequest":
		r := &RemoveShardRequest{}
		if k["shard"] {
			r.ShardID = 9
		}
		return r, &RemoveShardRequest{}
	case "RemoveShardResponse":
		return &RemoveShardResponse{Err: vwErrIf(k["err"], "e")}, &RemoveShardResponse{}
	case "ListShardsResponse":
		r := &ListShardsResponse{Err: vwErrIf(k["err"], "e")}
		if k["shards"] {
			r.Shards = map[uint64]*meta.ShardOwnerInfo{
				1:              {ID: 2, TCPAddr: "h:8088", State: "hot", LastModified: time.Unix(1700000000, 5).UTC(), Size: 1 << 40},
				math.MaxUint64: {ID: 3, State: "cold"},
			}
		}
		if k["ownererr"] {
			if r.Shards == nil {
				r.Shards = map[uint64]*meta.ShardOwnerInfo{}
			}
			r.Shards[5] = &meta.ShardOwnerInfo{ID: 1, Err: "not found"}
		}
		return r, &ListShardsResponse{}
	case "JoinClusterRequest":
		r := &JoinClusterRequest{Update: k["update"]}
		if k["servers"] {
			r.MetaServers = []string{"m1:8091", ""}
		}
		return r, &JoinClusterRequest{}
	case "JoinClusterResponse":
		r := &JoinClusterResponse{Err: vwErrIf(k["err"], "e")}
		if k["node"] {
			r.Node = &meta.NodeInfo{ID: 4, Addr: "h:8086", TCPAddr: "h:8088"}
		}
		return r, &JoinClusterResponse{}
	case "LeaveClusterResponse":
		return &LeaveClusterResponse{Err: vwErrIf(k["err"], "e")}, &LeaveClusterResponse{}
	case "RemoveHintedHandoffRequest":
		r := &RemoveHintedHandoffRequest{}
		if k["node"] {
			r.NodeID = 8
		}
		return r, &RemoveHintedHandoffRequest{}
	case "RemoveHintedHandoffResponse":
		return &RemoveHintedHandoffResponse{Err: vwErrIf(k["err"], "e")}, &RemoveHintedHandoffResponse{}
	}
	return nil, nil
}

type vwCodecInput struct {
	Messages []vwPattern  `json:"messages"`
	Points   []vwPointPat `json:"points"`
	Streams  int          `json:"streams"`
}

func vwRoundTrip(p vwPattern) (sig, detail string) {
	defer func() {
		if r := recover(); r != nil {
			sig, detail = "roundtrip:"+p.Msg+":panic", fmt.Sprint(r)
		}
	}()
	orig, fresh := vwBuild(p)
	if orig == nil {
		return "roundtrip:" + p.Msg + ":no-builder", "the harness has no builder for this message"
	}
	want := vwCanon(orig)
	b, err := orig.MarshalBinary()
	if err != nil {
		return "roundtrip:" + p.Msg + ":marshal-error", fmt.Sprintf("MarshalBinary(%s): %v", want, err)
	}
	if err := fresh.UnmarshalBinary(b); err != nil {
		return "roundtrip:" + p.Msg + ":unmarshal-error", fmt.Sprintf("UnmarshalBinary(MarshalBinary(%s)): %v", want, err)
	}
	got := vwCanon(fresh)
	if got != want {
		// name the parts that differ: the signature identifies the field, not the whole message
		sig := "roundtrip:" + p.Msg + ":differs"
		if strings.Contains(want, "since=zero") && !strings.Contains(got, "since=zero") && strings.Replace(want, "since=zero", "", 1) == vwCutSince(got) {
			return "note:roundtrip:" + p.Msg + ":zero-since", fmt.Sprintf("a zero time.Time in Since comes back as %s", got)
		}
		if strings.Contains(want, "fill=2/int64(") && strings.Contains(got, "fill=2/<nil>(<nil>)") {
			sig = "roundtrip:IteratorOptions:fillvalue-int64"
		}
		return sig, fmt.Sprintf("encoded %s\ndecoded %s", want, got)
	}
	return "", ""
}

func vwCutSince(s string) string {
	i := strings.Index(s, "since=")
	if i < 0 {
		return s
	}
	j := i + len("since=")
	for j < len(s) && (s[j] == '-' || (s[j] >= '0' && s[j] <= '9')) {
		j++
	}
	return s[:i] + s[j:]
}

func TestVerifWireRoundTrip(t *testing.T) {
	log.SetOutput(io.Discard)
	var in vwCodecInput
	if err := vtrace.LoadJSON(os.Getenv("VERIF_IN"), &in); err != nil {
		t.Fatal(err)
	}
	sigs := map[string]int{}
	perMsg := map[string]int{}
	held := 0
	for i, p := range in.Messages {
		sig, detail := vwRoundTrip(p)
		perMsg[p.Msg]++
		if sig == "" {
			held++
			if i%997 == 0 {
				orig, _ := vwBuild(p)
				vtrace.Sample(map[string]interface{}{"pattern": p, "value": vwCanon(orig)})
			}
			continue
		}
		sigs[sig]++
		if sigs[sig] == 1 {
			vtrace.Mismatch(sig, detail, map[string]interface{}{"test": "roundtrip", "message": p})
		}
	}
	vtrace.Done("TestVerifWireRoundTrip", map[string]interface{}{"patterns": len(in.Messages), "held": held, "message_types": len(perMsg), "signatures": sigs})
	for s := range sigs {
		if !strings.HasPrefix(s, "note:") {
			t.Errorf("mismatch %s", s)
		}
	}
}

// ------------------------------------------------------------------ streamed points

type vwPointPat struct {
	VT   string   `json:"vt"`   // float | integer | unsigned | string | boolean
	Nil  bool     `json:"nil"`
	Tags string   `json:"tags"` // none | one | two | emptyval
	Aux  []string `json:"aux"`  // float integer unsigned string boolean nilfloat nilinteger nilunsigned nilstring nilboolean nil
	Agg  int      `json:"agg"`
	Name string   `json:"name"`
	Time string   `json:"time"` // zero | neg | pos | min | max
}

// vwPoint is the type-independent description of one query point
type vwPoint struct {
	Name       string
	Tags       map[string]string
	Time       int64
	Val        int // index into the value table of the type
	Aux        []interface{}
	Aggregated uint32
	Nil        bool
}

func vwAuxValue(kind string) interface{} {
	switch kind {
	case "float":
		return float64(-0.5)
	case "integer":
		return int64(math.MinInt64)
	case "unsigned":
		return uint64(math.MaxUint64)
	case "string":
		return "aux \x00 str"
	case "emptystring":
		return ""
	case "boolean":
		return true
	case "false":
		return false
	case "zerofloat":
		return float64(0)
	case "nilfloat":
		return (*float64)(nil)
	case "nilinteger":
		return (*int64)(nil)
	case "nilunsigned":
		return (*uint64)(nil)
	case "nilstring":
		return (*string)(nil)
	case "nilboolean":
		return (*bool)(nil)
	case "nil":
		return nil
	}
	panic("aux kind " + kind)
}

func vwFromPat(p vwPointPat, i int) vwPoint {
	out := vwPoint{Name: p.Name, Nil: p.Nil, Aggregated: uint32(p.Agg), Val: i % 5}
	switch p.Tags {
	case "one":
		out.Tags = map[string]string{"host": "a"}
	case "two":
		out.Tags = map[string]string{"host": "a", "region": "eu west"}
	case "emptyval":
		out.Tags = map[string]string{"host": "", "region": "x"}
	}
	switch p.Time {
	case "neg":
		out.Time = -1
	case "pos":
		out.Time = 1700000000123456789
	case "min":
		out.Time = influxql.MinTime
	case "max":
		out.Time = influxql.MaxTime
	}
	for _, a := range p.Aux {
		out.Aux = append(out.Aux, vwAuxValue(a))
	}
	return out
}

var vwFloatVals = []float64{0, -1.5, math.MaxFloat64, math.SmallestNonzeroFloat64, math.Inf(-1)}
var vwIntVals = []int64{0, -1, math.MaxInt64, math.MinInt64, 42}
var vwUintVals = []uint64{0, 1, math.MaxUint64, 1 << 63, 42}
var vwStrVals = []string{"", "x", "a\x00b", "üñí", strings.Repeat("long", 300)}
var vwBoolVals = []bool{false, true, true, false, true}

func vwCanonAux(aux []interface{}) string {
	var out []string
	for _, a := range aux {
		switch v := a.(type) {
		case nil:
			out = append(out, "nil")
		case *float64, *int64, *uint64, *string, *bool:
			out = append(out, fmt.Sprintf("%T(nil=%t)", v, vwIsNilPtr(v)))
		default:
			out = append(out, fmt.Sprintf("%T(%v)", v, v))
		}
	}
	return "[" + strings.Join(out, " ") + "]"
}

func vwIsNilPtr(v interface{}) bool {
	switch p := v.(type) {
	case *float64:
		return p == nil
	case *int64:
		return p == nil
	case *uint64:
		return p == nil
	case *string:
		return p == nil
	case *bool:
		return p == nil
	}
	return false
}

func vwCanonTags(t query.Tags) string {
	m := t.KeyValues()
	var keys []string
	for k := range m {
		keys = append(keys, k)
	}
	sort.Strings(keys)
	var out []string
	for _, k := range keys {
		out = append(out, fmt.Sprintf("%q=%q", k, m[k]))
	}
	return "{" + strings.Join(out, ",") + "}"
}

func vwCanonQP(name string, tags query.Tags, t int64, val interface{}, aux []interface{}, agg uint32, isNil bool) string {
	return fmt.Sprintf("name=%q tags=%s t=%d val=%T(%v) aux=%s agg=%d nil=%t", name, vwCanonTags(tags), t, val, val, vwCanonAux(aux), agg, isNil)
}

// what a stream of the given points must decode to
func vwCanonVwPoints(typ influxql.DataType, pts []vwPoint) []string {
	var out []string
	for _, p := range pts {
		var val interface{}
		switch typ {
		case influxql.Float:
			val = vwFloatVals[p.Val]
		case influxql.Integer:
			val = vwIntVals[p.Val]
		case influxql.Unsigned:
			val = vwUintVals[p.Val]
		case influxql.String:
			val = vwStrVals[p.Val]
		case influxql.Boolean:
			val = vwBoolVals[p.Val]
		}
		out = append(out, vwCanonQP(p.Name, query.NewTags(p.Tags), p.Time, val, p.Aux, p.Aggregated, p.Nil))
	}
	return out
}

type vwFloatItr struct {
	pts []vwPoint
	i   int
}

func (it *vwFloatItr) Stats() query.IteratorStats { return query.IteratorStats{SeriesN: 2, PointN: len(it.pts)} }
func (it *vwFloatItr) Close() error               { return nil }
func (it *vwFloatItr) Next() (*query.FloatPoint, error) {
	if it.i >= len(it.pts) {
		return nil, nil
	}
	p := it.pts[it.i]
	it.i++
	return &query.FloatPoint{Name: p.Name, Tags: query.NewTags(p.Tags), Time: p.Time, Value: vwFloatVals[p.Val], Aux: p.Aux, Aggregated: p.Aggregated, Nil: p.Nil}, nil
}

type vwIntegerItr struct {
	pts []vwPoint
	i   int
}

func (it *vwIntegerItr) Stats() query.IteratorStats { return query.IteratorStats{SeriesN: 2, PointN: len(it.pts)} }
func (it *vwIntegerItr) Close() error               { return nil }
func (it *vwIntegerItr) Next() (*query.IntegerPoint, error) {
	if it.i >= len(it.pts) {
		return nil, nil
	}
	p := it.pts[it.i]
	it.i++
	return &query.IntegerPoint{Name: p.Name, Tags: query.NewTags(p.Tags), Time: p.Time, Value: vwIntVals[p.Val], Aux: p.Aux, Aggregated: p.Aggregated, Nil: p.Nil}, nil
}

type vwUnsignedItr struct {
	pts []vwPoint
	i   int
}

func (it *vwUnsignedItr) Stats() query.IteratorStats { return query.IteratorStats{SeriesN: 2, PointN: len(it.pts)} }
func (it *vwUnsignedItr) Close() error               { return nil }
func (it *vwUnsignedItr) Next() (*query.UnsignedPoint, error) {
	if it.i >= len(it.pts) {
		return nil, nil
	}
	p := it.pts[it.i]
	it.i++
	return &query.UnsignedPoint{Name: p.Name, Tags: query.NewTags(p.Tags), Time: p.Time, Value: vwUintVals[p.Val], Aux: p.Aux, Aggregated: p.Aggregated, Nil: p.Nil}, nil
}

type vwStringItr struct {
	pts []vwPoint
	i   int
}

func (it *vwStringItr) Stats() query.IteratorStats { return query.IteratorStats{SeriesN: 2, PointN: len(it.pts)} }
func (it *vwStringItr) Close() error               { return nil }
func (it *vwStringItr) Next() (*query.StringPoint, error) {
	if it.i >= len(it.pts) {
		return nil, nil
	}
	p := it.pts[it.i]
	it.i++
	return &query.StringPoint{Name: p.Name, Tags: query.NewTags(p.Tags), Time: p.Time, Value: vwStrVals[p.Val], Aux: p.Aux, Aggregated: p.Aggregated, Nil: p.Nil}, nil
}

type vwBooleanItr struct {
	pts []vwPoint
	i   int
}

func (it *vwBooleanItr) Stats() query.IteratorStats { return query.IteratorStats{SeriesN: 2, PointN: len(it.pts)} }
func (it *vwBooleanItr) Close() error               { return nil }
func (it *vwBooleanItr) Next() (*query.BooleanPoint, error) {
	if it.i >= len(it.pts) {
		return nil, nil
	}
	p := it.pts[it.i]
	it.i++
	return &query.BooleanPoint{Name: p.Name, Tags: query.NewTags(p.Tags), Time: p.Time, Value: vwBoolVals[p.Val], Aux: p.Aux, Aggregated: p.Aggregated, Nil: p.Nil}, nil
}

func vwNewIterator(typ influxql.DataType, pts []vwPoint) query.Iterator {
	switch typ {
	case influxql.Integer:
		return &vwIntegerItr{pts: pts}
	case influxql.Unsigned:
		return &vwUnsignedItr{pts: pts}
	case influxql.String:
		return &vwStringItr{pts: pts}
	case influxql.Boolean:
		return &vwBooleanItr{pts: pts}
	}
	return &vwFloatItr{pts: pts}
}

// vwDrain reads an iterator to its end and renders every point
func vwDrain(itr query.Iterator) ([]string, error) {
	var out []string
	defer itr.Close()
	for {
		switch it := itr.(type) {
		case query.FloatIterator:
			p, err := it.Next()
			if err != nil || p == nil {
				return out, err
			}
			out = append(out, vwCanonQP(p.Name, p.Tags, p.Time, p.Value, p.Aux, p.Aggregated, p.Nil))
		case query.IntegerIterator:
			p, err := it.Next()
			if err != nil || p == nil {
				return out, err
			}
			out = append(out, vwCanonQP(p.Name, p.Tags, p.Time, p.Value, p.Aux, p.Aggregated, p.Nil))
		case query.UnsignedIterator:
			p, err := it.Next()
			if err != nil || p == nil {
				return out, err
			}
			out = append(out, vwCanonQP(p.Name, p.Tags, p.Time, p.Value, p.Aux, p.Aggregated, p.Nil))
		case query.StringIterator:
			p, err := it.Next()
			if err != nil || p == nil {
				return out, err
			}
			out = append(out, vwCanonQP(p.Name, p.Tags, p.Time, p.Value, p.Aux, p.Aggregated, p.Nil))
		case query.BooleanIterator:
			p, err := it.Next()
			if err != nil || p == nil {
				return out, err
			}
			out = append(out, vwCanonQP(p.Name, p.Tags, p.Time, p.Value, p.Aux, p.Aggregated, p.Nil))
		default:
			return out, fmt.Errorf("iterator of type %T", itr)
		}
	}
}

var vwTypes = map[string]influxql.DataType{"float": influxql.Float, "integer": influxql.Integer, "unsigned": influxql.Unsigned, "string": influxql.String, "boolean": influxql.Boolean}

// one stream: the real IteratorEncoder writes into a real pipe (loopback TCP), the real ReaderIterator reads it
func vwStreamOnce(typ influxql.DataType, pts []vwPoint) (got []string, err error) {
	ln, err := net.Listen("tcp", "127.0.0.1:0")
	if err != nil {
		return nil, fmt.Errorf("%w: %v", errVwInfra, err)
	}
	defer ln.Close()
	type res struct {
		err   error
		panic interface{}
	}
	done := make(chan res, 1)
	go func() {
		var r res
		defer func() {
			r.panic = recover()
			done <- r
		}()
		c, err := ln.Accept()
		if err != nil {
			r.err = err
			return
		}
		defer c.Close()
		enc := query.NewIteratorEncoder(c)
		r.err = enc.EncodeIterator(vwNewIterator(typ, pts))
	}()
	c, err := net.DialTimeout("tcp", ln.Addr().String(), vwWatchdog)
	if err != nil {
		return nil, fmt.Errorf("%w: %v", errVwInfra, err)
	}
	defer c.Close()
	c.SetReadDeadline(time.Now().Add(vwWatchdog))
	got, rerr := vwDrain(query.NewReaderIterator(context.Background(), c, typ, query.IteratorStats{}))
	var r res
	select {
	case r = <-done:
	case <-time.After(vwWatchdog):
		return nil, fmt.Errorf("%w: encoder did not finish", errVwInfra)
	}
	if r.panic != nil {
		return got, fmt.Errorf("encoder panicked: %v", r.panic)
	}
	if r.err != nil {
		return got, fmt.Errorf("encoder: %v", r.err)
	}
	return got, rerr
}

func TestVerifWireStream(t *testing.T) {
	log.SetOutput(io.Discard)
	var in vwCodecInput
	if err := vtrace.LoadJSON(os.Getenv("VERIF_IN"), &in); err != nil {
		t.Fatal(err)
	}
	per := in.Streams
	if per <= 0 {
		per = 64
	}
	byType := map[string][]vwPointPat{}
	for _, p := range in.Points {
		byType[p.VT] = append(byType[p.VT], p)
	}
	sigs := map[string]int{}
	streams, points, held := 0, 0, 0
	var names []string
	for k := range byType {
		names = append(names, k)
	}
	sort.Strings(names)
	for _, vt := range names {
		typ, ok := vwTypes[vt]
		if !ok {
			t.Fatalf("value type %q", vt)
		}
		pats := byType[vt]
		for lo := 0; lo < len(pats); lo += per {
			hi := lo + per
			if hi > len(pats) {
				hi = len(pats)
			}
			var pts []vwPoint
			for i, p := range pats[lo:hi] {
				pts = append(pts, vwFromPat(p, lo+i))
			}
			streams++
			points += len(pts)
			got, err := vwStreamOnce(typ, pts)
			if errors.Is(err, errVwInfra) {
				t.Fatal(err)
			}
			want := vwCanonVwPoints(typ, pts)
			sig, detail := "", ""
			var culprit interface{} = pats[lo]
			switch {
			case err != nil && strings.Contains(err.Error(), "panicked"):
				sig, detail = "stream:"+vt+":encoder-panic", err.Error()
			case err != nil:
				sig, detail = "stream:"+vt+":error", err.Error()
			case len(got) != len(want):
				sig, detail = "stream:"+vt+":count", fmt.Sprintf("%d points sent, %d received", len(want), len(got))
			default:
				for i := range want {
					if got[i] != want[i] {
						sig, detail = "stream:"+vt+":"+vwDiffField(want[i], got[i]), fmt.Sprintf("sent     %s\nreceived %s", want[i], got[i])
						culprit = pats[lo+i]
						break
					}
				}
			}
			if sig == "" {
				held += len(pts)
				if streams%50 == 1 {
					vtrace.Sample(map[string]interface{}{"stream_type": vt, "points": len(pts), "first": want[0]})
				}
				continue
			}
			sigs[sig]++
			if sigs[sig] == 1 {
				vtrace.Mismatch(sig, detail, map[string]interface{}{"test": "stream", "point": culprit})
			}
		}
	}
	vtrace.Done("TestVerifWireStream", map[string]interface{}{"streams": streams, "points": points, "held": held, "signatures": sigs})
	if len(sigs) > 0 {
		t.Errorf("mismatches: %v", sigs)
	}
}

// which part of a rendered point differs (the signature names the field)
func vwDiffField(want, got string) string {
	labels := []string{"name=", " tags=", " t=", " val=", " aux=", " agg=", " nil="}
	split := func(s string) []string {
		var parts []string
		for i, l := range labels {
			a := strings.Index(s, l)
			if a < 0 {
				parts = append(parts, "")
				continue
			}
			b := len(s)
			if i+1 < len(labels) {
				if j := strings.LastIndex(s, labels[i+1]); j > a {
					b = j
				}
			}
			parts = append(parts, s[a:b])
		}
		return parts
	}
	w, g := split(want), split(got)
	for i := range labels {
		if w[i] != g[i] {
			return strings.Trim(labels[i], " =")
		}
	}
	return "other"
}
