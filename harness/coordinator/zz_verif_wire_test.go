package coordinator

// C15 - framing half: every abstract connection printed by specs/wire/WireGen.tla is rendered to bytes and sent
// to a LIVE coordinator.Service behind a real tcp.Mux on loopback (stub TSDBStore / MetaClient / Store).
//
// Oracles (the property, not the implementation):
//   - the test binary survives (a panic in a handler goroutine kills it; the case in flight is on record);
//   - runtime.MemStats.TotalAlloc grows by no more than the accepted length of the frame (+ slack) while the
//     connection is served, and by no more than the slack for a rejected length;
//   - every malformed frame is answered with an error reply or by closing the connection; a frame is never skipped;
//   - every well-formed request is answered, the stub saw exactly the arguments that were encoded and the reply
//     carries exactly what the stub returned (lossless over the real socket);
//   - the store is never handed a nil point;
//   - a well-formed request on a NEW connection is answered afterwards.
// No sleeps: the harness waits for the server side of the connection to be closed by the handler (wrapped
// listener); every wait has a watchdog (expiry = infrastructure failure, exit 2).

import (
	"bytes"
	"context"
	"encoding/binary"
	"errors"
	"fmt"
	"io"
	"log"
	"math"
	"math/rand"
	"net"
	"os"
	"regexp"
	"runtime"
	"sort"
	"strings"
	"sync"
	"testing"
	"time"

	"github.com/gogo/protobuf/proto"
	"github.com/influxdata/influxdb/coordinator/internal"
	"github.com/influxdata/influxdb/models"
	"github.com/influxdata/influxdb/pkg/estimator"
	"github.com/influxdata/influxdb/pkg/estimator/hll"
	"github.com/influxdata/influxdb/pkg/verifx/vtrace"
	"github.com/influxdata/influxdb/query"
	"github.com/influxdata/influxdb/services/meta"
	"github.com/influxdata/influxdb/storage/reads"
	"github.com/influxdata/influxdb/storage/reads/datatypes"
	"github.com/influxdata/influxdb/tcp"
	"github.com/influxdata/influxdb/tsdb"
	"github.com/influxdata/influxql"
)

const vwWatchdog = 60 * time.Second
const vwSlack = 48 << 20 // allocation slack per connection (harness + decode noise), far below MaxMessageSize

var errVwInfra = errors.New("infrastructure")

// ------------------------------------------------------------------ input

type vwStep struct {
	A         string   `json:"a"`
	Hdr       string   `json:"hdr,omitempty"`
	How       string   `json:"how,omitempty"`
	Typ       string   `json:"typ,omitempty"`
	Lenc      string   `json:"lenc,omitempty"`
	Pay       string   `json:"pay,omitempty"`
	Allowed   []string `json:"allowed,omitempty"`
	Cont      bool     `json:"cont,omitempty"`
	Malformed bool     `json:"malformed,omitempty"`
}

type vwBeh struct {
	ID    int      `json:"id"`
	Steps []vwStep `json:"steps"`
	Probe string   `json:"probe"`
}

type vwInput struct {
	Behaviours []vwBeh  `json:"behaviours"`
	Skip       []string `json:"skip"`       // "lenc:pay" keys of frames not to send (a confirmed crash class)
	MaxM1      int      `json:"maxm1"`      // how many connections with a Max-1 length may be run
	OnlyFrames int      `json:"onlyframes"` // >0: send only the first k frames of every behaviour (bisection of a crash)
	MaxSigs    int      `json:"max_sigs"`
}

// ------------------------------------------------------------------ message type table

var vwTypeByte = map[string]byte{
	"writeShard": writeShardRequestMessage, "executeStatement": executeStatementRequestMessage,
	"taskManager": taskManagerStatementRequestMessage, "measurementNames": measurementNamesRequestMessage,
	"tagKeys": tagKeysRequestMessage, "tagValues": tagValuesRequestMessage,
	"seriesSketches": seriesSketchesRequestMessage, "measurementsSketches": measurementsSketchesRequestMessage,
	"storeReadFilter": storeReadFilterRequestMessage, "storeReadGroup": storeReadGroupRequestMessage,
	"createIterator": createIteratorRequestMessage, "iteratorCost": iteratorCostRequestMessage,
	"fieldDimensions": fieldDimensionsRequestMessage, "mapType": mapTypeRequestMessage,
	"expandSources": expandSourcesRequestMessage, "backupShard": backupShardRequestMessage,
	"copyShard": copyShardRequestMessage, "removeShard": removeShardRequestMessage,
	"listShards": listShardsRequestMessage, "joinCluster": joinClusterRequestMessage,
	"leaveCluster": leaveClusterRequestMessage, "removeHintedHandoff": removeHintedHandoffRequestMessage,
}

func vwIsUnknown(t string) bool { return t == "zero" || t == "response" || t == "max255" }

// ------------------------------------------------------------------ stubs

type vwStore struct {
	mu       sync.Mutex
	calls    []string
	nilPoint bool
	created  map[uint64]bool
	node     *vwNode
}

func (s *vwStore) logf(f string, a ...interface{}) {
	s.mu.Lock()
	s.calls = append(s.calls, fmt.Sprintf(f, a...))
	s.mu.Unlock()
}

func (s *vwStore) reset() {
	s.mu.Lock()
	s.calls, s.nilPoint, s.created = nil, false, map[uint64]bool{}
	s.mu.Unlock()
}

func (s *vwStore) snapshot() ([]string, bool) {
	s.mu.Lock()
	defer s.mu.Unlock()
	return append([]string(nil), s.calls...), s.nilPoint
}

func vwUnknownShard(id uint64) bool { return id >= 900 }

func vwAllUnknown(ids []uint64) bool {
	if len(ids) == 0 {
		return false
	}
	for _, id := range ids {
		if !vwUnknownShard(id) {
			return false
		}
	}
	return true
}

func (s *vwStore) ShardIDs() []uint64          { return []uint64{1, 2} }
func (s *vwStore) Shard(id uint64) *tsdb.Shard { return nil }
func (s *vwStore) ShardGroup(ids []uint64) tsdb.ShardGroup {
	s.logf("ShardGroup ids=%v", ids)
	return &vwShardGroup{st: s, empty: vwAllUnknown(ids)}
}
func (s *vwStore) CreateShard(db, rp string, id uint64, en bool) error {
	s.logf("CreateShard db=%q rp=%q id=%d", db, rp, id)
	if id >= 950 {
		return errors.New("vw: cannot create shard")
	}
	s.mu.Lock()
	s.created[id] = true
	s.mu.Unlock()
	return nil
}
func (s *vwStore) WriteToShard(id uint64, pts []models.Point) error {
	hasNil := false
	for _, p := range pts {
		if p == nil {
			hasNil = true
		}
	}
	s.mu.Lock()
	if hasNil {
		s.nilPoint = true
	}
	created := s.created[id]
	s.mu.Unlock()
	s.logf("WriteToShard id=%d pts=%s", id, vwCanonPoints(pts))
	if vwUnknownShard(id) && !created {
		return tsdb.ErrShardNotFound
	}
	return nil
}
func (s *vwStore) RestoreShard(id uint64, r io.Reader) error {
	b, err := io.ReadAll(r)
	s.logf("RestoreShard id=%d bytes=%q err=%v", id, string(b), err)
	return nil
}
func vwBackupBytes(id uint64, since time.Time) []byte {
	return []byte(strings.Repeat(fmt.Sprintf("BACKUP:%d:%d;", id, since.UnixNano()), 40))
}
func (s *vwStore) BackupShard(id uint64, since time.Time, w io.Writer) error {
	s.logf("BackupShard id=%d since=%d", id, since.UnixNano())
	if vwUnknownShard(id) {
		return fmt.Errorf("shard %d doesn't exist on this server", id)
	}
	_, err := w.Write(vwBackupBytes(id, since))
	return err
}
func (s *vwStore) DeleteDatabase(name string) error {
	s.logf("DeleteDatabase name=%q", name)
	return nil
}
func (s *vwStore) DeleteMeasurement(db, name string) error {
	s.logf("DeleteMeasurement db=%q name=%q", db, name)
	return nil
}
func (s *vwStore) DeleteRetentionPolicy(db, name string) error {
	s.logf("DeleteRetentionPolicy db=%q name=%q", db, name)
	return nil
}
func (s *vwStore) DeleteSeries(db string, src []influxql.Source, c influxql.Expr) error {
	s.logf("DeleteSeries db=%q src=%s cond=%s", db, influxql.Sources(src).String(), vwExpr(c))
	return nil
}
func (s *vwStore) DeleteShard(id uint64) error {
	s.logf("DeleteShard id=%d", id)
	if vwUnknownShard(id) {
		return errors.New("vw: no such shard")
	}
	return nil
}

var vwNames = [][]byte{[]byte("cpu"), []byte("mem"), []byte("m with space")}
var vwTagKeys = []tsdb.TagKeys{{Measurement: "cpu", Keys: []string{"host", "region"}}, {Measurement: "mem", Keys: nil}}
var vwTagValues = []tsdb.TagValues{{Measurement: "cpu", Values: []tsdb.KeyValue{{Key: "host", Value: "a"}, {Key: "host", Value: ""}}}}

func (s *vwStore) MeasurementNames(ctx context.Context, auth query.FineAuthorizer, db, rp string, cond influxql.Expr) ([][]byte, error) {
	s.logf("MeasurementNames db=%q rp=%q cond=%s", db, rp, vwExpr(cond))
	return vwNames, nil
}
func (s *vwStore) TagKeys(ctx context.Context, auth query.FineAuthorizer, ids []uint64, cond influxql.Expr) ([]tsdb.TagKeys, error) {
	s.logf("TagKeys ids=%v cond=%s", ids, vwExpr(cond))
	return vwTagKeys, nil
}
func (s *vwStore) TagValues(ctx context.Context, auth query.FineAuthorizer, ids []uint64, cond influxql.Expr) ([]tsdb.TagValues, error) {
	s.logf("TagValues ids=%v cond=%s", ids, vwExpr(cond))
	return vwTagValues, nil
}
func (s *vwStore) SeriesCardinality(ctx context.Context, db string) (int64, error)       { return 0, nil }
func (s *vwStore) MeasurementsCardinality(ctx context.Context, db string) (int64, error) { return 0, nil }

func vwSketch(n int) *hll.Plus {
	h := hll.NewDefaultPlus()
	for i := 0; i < n; i++ {
		h.Add([]byte(fmt.Sprintf("series-%d", i)))
	}
	return h
}
func (s *vwStore) SeriesSketches(ctx context.Context, db string) (estimator.Sketch, estimator.Sketch, error) {
	s.logf("SeriesSketches db=%q", db)
	if db == "vw_missing" {
		return nil, nil, errors.New("vw: database not found")
	}
	return vwSketch(7), vwSketch(2), nil
}
func (s *vwStore) MeasurementsSketches(ctx context.Context, db string) (estimator.Sketch, estimator.Sketch, error) {
	s.logf("MeasurementsSketches db=%q", db)
	if db == "vw_missing" {
		return nil, nil, errors.New("vw: database not found")
	}
	return vwSketch(3), vwSketch(0), nil
}

type vwShardGroup struct {
	st    *vwStore
	empty bool
}

func (g *vwShardGroup) MeasurementsByRegex(re *regexp.Regexp) []string {
	g.st.logf("MeasurementsByRegex re=%s", re.String())
	if g.empty || !re.MatchString("cpu") {
		return nil
	}
	return []string{"cpu"}
}
func (g *vwShardGroup) FieldKeysByMeasurement(name []byte) []string { return []string{"value"} }

var vwFields = map[string]influxql.DataType{"value": influxql.Float, "n": influxql.Integer, "s": influxql.String}
var vwDims = map[string]struct{}{"host": {}, "region": {}}

func (g *vwShardGroup) FieldDimensions(ms []string) (map[string]influxql.DataType, map[string]struct{}, error) {
	g.st.logf("FieldDimensions ms=%q", ms)
	if g.empty {
		return nil, nil, nil
	}
	return vwFields, vwDims, nil
}
func (g *vwShardGroup) MapType(measurement, field string) influxql.DataType {
	g.st.logf("MapType m=%q f=%q", measurement, field)
	if g.empty {
		return influxql.Unknown
	}
	if t, ok := vwFields[field]; ok {
		return t
	}
	return influxql.Tag
}

var vwCost = query.IteratorCost{NumShards: 2, NumSeries: 3, CachedValues: 5, NumFiles: 7, BlocksRead: 11, BlockSize: 13}

func (g *vwShardGroup) IteratorCost(measurement string, opt query.IteratorOptions) (query.IteratorCost, error) {
	g.st.logf("IteratorCost m=%q opt=%s", measurement, vwCanonOpt(&opt))
	if g.empty {
		return query.IteratorCost{}, nil
	}
	return vwCost, nil
}
func (g *vwShardGroup) ExpandSources(sources influxql.Sources) (influxql.Sources, error) {
	g.st.logf("ExpandSources src=%s", vwCanonSources(sources))
	if g.empty {
		return nil, nil
	}
	return vwExpanded(), nil
}
func vwExpanded() influxql.Sources {
	return influxql.Sources{&influxql.Measurement{Database: "db0", RetentionPolicy: "rp0", Name: "cpu"},
		&influxql.Measurement{Database: "db0", RetentionPolicy: "rp0", Name: "mem"}}
}
func (g *vwShardGroup) CreateIterator(ctx context.Context, m *influxql.Measurement, opt query.IteratorOptions) (query.Iterator, error) {
	g.st.logf("CreateIterator m=%s opt=%s", vwCanonMeasurement(m), vwCanonOpt(&opt))
	if g.empty {
		return nil, nil
	}
	typ := influxql.Float
	if ref, ok := opt.Expr.(*influxql.VarRef); ok && ref.Type != influxql.Unknown {
		typ = ref.Type
	}
	return vwNewIterator(typ, vwStreamPoints(typ)), nil
}

// the points a stub iterator of the given type yields: tags, aux values of every kind, nil markers
func vwStreamPoints(typ influxql.DataType) []vwPoint {
	var nf *float64
	var ns *string
	return []vwPoint{
		{Name: "cpu", Tags: map[string]string{"host": "a"}, Time: 10, Val: 0, Aux: []interface{}{float64(1.5), int64(-3), "x"}},
		{Name: "cpu", Tags: map[string]string{"host": "a", "region": ""}, Time: 20, Val: 1, Nil: true, Aux: []interface{}{nf, ns, nil}},
		{Name: "", Tags: nil, Time: 0, Val: 2, Aggregated: 4, Aux: []interface{}{uint64(math.MaxUint64), true, false}},
		{Name: "mem", Tags: map[string]string{"host": "b"}, Time: math.MaxInt64, Val: 3},
		{Name: "mem", Tags: map[string]string{"host": "b"}, Time: math.MinInt64 + 1, Val: 4},
	}
}

type vwMeta struct{ st *vwStore }

func (m *vwMeta) NodeID() uint64        { return 1 }
func (m *vwMeta) MetaServers() []string { return []string{"m1:8091", "m2:8091"} }
func (m *vwMeta) SetMetaServers(a []string) {
	m.st.logf("SetMetaServers %q", a)
}
func (m *vwMeta) DataNode(id uint64) (*meta.NodeInfo, error) { return vwNodeInfo(), nil }
func (m *vwMeta) CreateDataNode(a, b string) (*meta.NodeInfo, error) {
	return vwNodeInfo(), nil
}
func (m *vwMeta) DataNodeByTCPAddr(a string) (*meta.NodeInfo, error) {
	return nil, errors.New("vw: node not found")
}
func (m *vwMeta) Status() (*meta.MetaNodeStatus, error) {
	return &meta.MetaNodeStatus{Leader: "m1:8089"}, nil
}
func (m *vwMeta) Save() error { return nil }
func vwNodeInfo() *meta.NodeInfo {
	return &meta.NodeInfo{ID: 1, Addr: "h1:8086", TCPAddr: "h1:8088"}
}

type vwServer struct{ st *vwStore }

func (s *vwServer) Reset() error       { s.st.logf("Reset"); return nil }
func (s *vwServer) HTTPAddr() string   { return "h1:8086" }
func (s *vwServer) HTTPScheme() string { return "http" }
func (s *vwServer) TCPAddr() string    { return "h1:8088" }

type vwHH struct{ st *vwStore }

func (h *vwHH) RemoveNode(id uint64) error {
	h.st.logf("RemoveNode id=%d", id)
	if id >= 900 {
		return errors.New("vw: no such node")
	}
	return nil
}

type vwReadStore struct{ st *vwStore }

func (r *vwReadStore) ReadFilter(ctx context.Context, req *datatypes.ReadFilterRequest) (reads.ResultSet, error) {
	b, _ := req.Marshal()
	r.st.logf("ReadFilter ids=%v req=%x", ctx.Value(ShardIDsKey), b)
	return nil, nil
}
func (r *vwReadStore) ReadGroup(ctx context.Context, req *datatypes.ReadGroupRequest) (reads.GroupResultSet, error) {
	b, _ := req.Marshal()
	r.st.logf("ReadGroup ids=%v req=%x", ctx.Value(ShardIDsKey), b)
	return nil, nil
}

// ------------------------------------------------------------------ live node

type vwSrvConn struct {
	net.Conn
	once   sync.Once
	closed chan struct{}
}

func (c *vwSrvConn) Close() error {
	c.once.Do(func() { close(c.closed) })
	return c.Conn.Close()
}

type vwListener struct {
	net.Listener
	acc chan *vwSrvConn
}

func (l *vwListener) Accept() (net.Conn, error) {
	c, err := l.Listener.Accept()
	if err != nil {
		return nil, err
	}
	sc := &vwSrvConn{Conn: c, closed: make(chan struct{})}
	l.acc <- sc
	return sc, nil
}

type vwNode struct {
	ln    net.Listener
	svc   *Service
	store *vwStore
	acc   chan *vwSrvConn
	addr  string
}

func vwNewNode() (*vwNode, error) {
	ln, err := net.Listen("tcp", "127.0.0.1:0")
	if err != nil {
		return nil, err
	}
	mux := tcp.NewMux()
	mux.Logger = log.New(io.Discard, "", 0)
	muxln := mux.Listen(MuxHeader)
	defln := mux.DefaultListener()
	go mux.Serve(ln)
	deadline := time.Now().Add(vwWatchdog)
	for muxln.Addr() == nil || defln.Addr() == nil {
		if time.Now().After(deadline) {
			return nil, errors.New("mux did not start")
		}
		runtime.Gosched()
	}
	st := &vwStore{created: map[uint64]bool{}}
	n := &vwNode{ln: ln, store: st, acc: make(chan *vwSrvConn, 1024), addr: ln.Addr().String()}
	st.node = n
	s := NewService(Config{})
	s.Listener = &vwListener{Listener: muxln, acc: n.acc}
	s.DefaultListener = defln
	s.TSDBStore = st
	s.Store = &vwReadStore{st: st}
	s.MetaClient = &vwMeta{st: st}
	s.Server = &vwServer{st: st}
	s.HintedHandoff = &vwHH{st: st}
	s.TaskManager = query.NewTaskManager()
	if err := s.Open(); err != nil {
		return nil, err
	}
	n.svc = s
	return n, nil
}

func (n *vwNode) close() {
	n.ln.Close()
	done := make(chan struct{})
	go func() { n.svc.Close(); close(done) }()
	select {
	case <-done:
	case <-time.After(vwWatchdog):
	}
}

// ------------------------------------------------------------------ rendering frames

type vwRendered struct {
	step     vwStep
	typeByte byte
	bytes    []byte   // everything that is sent for this frame
	wantLog  []string // store calls a served request must have made (in this order)
	wantResp string   // canonical form of the expected ok reply ("" = not compared)
	stream   influxql.DataType
	backup   []byte
	note     string
}

func vwLenBytes(v int64) []byte {
	var b [8]byte
	binary.BigEndian.PutUint64(b[:], uint64(v))
	return b[:]
}

func vwFrameBytes(t byte, payload []byte) []byte {
	out := []byte{t}
	out = append(out, vwLenBytes(int64(len(payload)))...)
	return append(out, payload...)
}

func vwMust(b []byte, err error) []byte {
	if err != nil {
		panic(err)
	}
	return b
}

var vwBadEnvelope = []byte{0x0a, 0x7f, 0x01} // field 1, length-delimited, announces 127 bytes, has 1

func vwRender(n *vwNode, st vwStep, rnd *rand.Rand) vwRendered {
	r := vwRendered{step: st}
	if vwIsUnknown(st.Typ) {
		switch st.Typ {
		case "zero":
			r.typeByte = 0
		case "response":
			r.typeByte = byte(2 * (1 + rnd.Intn(22)))
		default:
			r.typeByte = []byte{255, 45, 46, 128, 200}[rnd.Intn(5)]
		}
		switch st.Pay {
		case "bare":
			r.bytes = []byte{r.typeByte}
		case "empty":
			r.bytes = vwFrameBytes(r.typeByte, nil)
		default: // embedded: the payload is itself a complete, valid frame; its length is even (an unknown type byte)
			var inner []byte
			for pad := 0; pad < 2; pad++ {
				var req ExecuteStatementRequest
				req.SetStatement("DROP DATABASE vw_embedded" + strings.Repeat(" ", pad))
				req.SetDatabase("x")
				inner = vwFrameBytes(executeStatementRequestMessage, vwMust(req.MarshalBinary()))
				if len(inner)%2 == 0 {
					break
				}
			}
			if len(inner)%2 == 1 || len(inner) > 254 {
				panic("embedded frame length must be even and small")
			}
			r.bytes = vwFrameBytes(r.typeByte, inner)
		}
		return r
	}
	r.typeByte = vwTypeByte[st.Typ]
	if st.Lenc == "none" { // bodyless
		r.bytes = []byte{r.typeByte}
		r.wantLog, r.wantResp = vwBodylessExpect(st.Typ)
		return r
	}
	hdr := func(v int64) []byte { return append([]byte{r.typeByte}, vwLenBytes(v)...) }
	switch st.Lenc {
	case "neg":
		r.bytes = hdr([]int64{-1, -2, -1 << 31, -MaxMessageSize}[rnd.Intn(4)])
	case "minint":
		r.bytes = hdr(math.MinInt64)
	case "max":
		r.bytes = hdr(MaxMessageSize)
	case "over":
		r.bytes = hdr(MaxMessageSize + 1 + int64(rnd.Intn(1000)))
	case "huge":
		r.bytes = hdr(math.MaxInt64)
	case "maxm1":
		r.bytes = hdr(MaxMessageSize - 1)
		if rnd.Intn(2) == 0 {
			r.bytes = append(r.bytes, bytes.Repeat([]byte{0xab}, 1+rnd.Intn(4096))...)
		}
	case "partial":
		r.bytes = hdr(16)[:1+1+rnd.Intn(7)]
	case "zero":
		r.bytes = hdr(0)
	case "small":
		var p []byte
		switch st.Pay {
		case "valid", "validU":
			p, r.wantLog, r.wantResp, r.stream, r.backup = vwValid(n, st, rnd)
		case "edge":
			p = vwEdge(n, st.Typ, rnd)
		case "badenv":
			p = vwBadEnvelope
		case "badcontent":
			p, r.note = vwBadContent(st.Typ, rnd)
		case "short":
			full, _, _, _, _ := vwValid(n, vwStep{Typ: st.Typ, Pay: "valid"}, rnd)
			if len(full) < 2 {
				full = append(full, 0, 0, 0)
			}
			r.bytes = append(hdr(int64(len(full))), full[:1+rnd.Intn(len(full)-1)]...)
			return r
		default:
			panic("unknown payload class " + st.Pay)
		}
		r.bytes = vwFrameBytes(r.typeByte, p)
	default:
		panic("unknown length class " + st.Lenc)
	}
	return r
}

func vwBodylessExpect(typ string) ([]string, string) {
	switch typ {
	case "listShards":
		shards := map[uint64]*meta.ShardOwnerInfo{
			1: {ID: 1, TCPAddr: "h1:8088", Err: "not found"},
			2: {ID: 1, TCPAddr: "h1:8088", Err: "not found"},
		}
		return nil, vwCanon(&ListShardsResponse{Shards: shards})
	case "leaveCluster":
		return []string{`SetMetaServers []`}, vwCanon(&LeaveClusterResponse{})
	}
	panic(typ)
}

func vwMeasurement(rnd *rand.Rand) influxql.Measurement {
	switch rnd.Intn(4) {
	case 0:
		return influxql.Measurement{Name: "cpu"}
	case 1:
		return influxql.Measurement{Database: "db0", RetentionPolicy: "rp0", Name: "cpu"}
	case 2:
		return influxql.Measurement{Database: "db0", RetentionPolicy: "rp0", Regex: &influxql.RegexLiteral{Val: regexp.MustCompile(`^c.u$`)}}
	}
	return influxql.Measurement{Name: "cpu", SystemIterator: "_fieldKeys", IsTarget: true}
}

func vwOptions(rnd *rand.Rand, typ influxql.DataType) query.IteratorOptions {
	opt := query.IteratorOptions{
		Expr:      &influxql.VarRef{Val: "value", Type: typ},
		StartTime: influxql.MinTime, EndTime: influxql.MaxTime, Ascending: true, Ordered: rnd.Intn(2) == 0,
	}
	if rnd.Intn(2) == 0 {
		opt.Aux = []influxql.VarRef{{Val: "n", Type: influxql.Integer}, {Val: "host", Type: influxql.Tag}}
		opt.Dimensions = []string{"host"}
		opt.GroupBy = map[string]struct{}{"host": {}}
		opt.Condition = influxql.MustParseExpr(`host = 'a' AND value > 1.5`)
		opt.Interval = query.Interval{Duration: time.Minute, Offset: time.Second}
		opt.Limit, opt.Offset, opt.SLimit, opt.SOffset, opt.MaxSeriesN = 10, 2, 3, 1, 1000
		opt.Fill, opt.FillValue = influxql.NumberFill, float64(4.5)
		opt.Dedupe, opt.StripName = true, true
		opt.Location = time.UTC
		opt.StartTime, opt.EndTime = 0, 1000000000
	}
	return opt
}

func vwShardIDs(rnd *rand.Rand) []uint64 {
	return [][]uint64{{1}, {1, 2}, {2, 1, 7}}[rnd.Intn(3)]
}

// a well-formed request the node can serve + what the stub must have seen + what the reply must carry
func vwValid(n *vwNode, st vwStep, rnd *rand.Rand) (p []byte, wantLog []string, wantResp string, stream influxql.DataType, backup []byte) {
	switch st.Typ {
	case "writeShard":
		var req WriteShardRequest
		id := uint64(1 + rnd.Intn(5))
		req.SetShardID(id)
		if rnd.Intn(2) == 0 {
			req.SetDatabase("db0")
			req.SetRetentionPolicy("rp0")
		}
		pts := vwModelPoints(rnd)
		req.AddPoints(pts)
		wantLog = []string{fmt.Sprintf("WriteToShard id=%d pts=%s", id, vwCanonPoints(pts))}
		var resp WriteShardResponse
		resp.SetCode(0)
		return vwMust(req.MarshalBinary()), wantLog, vwCanon(&resp), 0, nil
	case "executeStatement":
		var req ExecuteStatementRequest
		stmts := []struct{ q, log string }{
			{`DROP DATABASE vwdb`, `DeleteDatabase name="vwdb"`},
			{`DROP MEASUREMENT cpu`, `DeleteMeasurement db="db0" name="cpu"`},
			{`DROP SERIES FROM cpu WHERE host = 'a'`, `DeleteSeries db="db0" src=cpu cond=host = 'a'`},
			{`DELETE FROM cpu WHERE host = 'a'`, `DeleteSeries db="db0" src=cpu cond=host = 'a'`},
			{`DROP SHARD 3`, `DeleteShard id=3`},
			{`DROP RETENTION POLICY rp0 ON db0`, `DeleteRetentionPolicy db="db0" name="rp0"`},
		}
		s := stmts[rnd.Intn(len(stmts))]
		req.SetStatement(s.q)
		req.SetDatabase("db0")
		var resp ExecuteStatementResponse
		resp.SetCode(0)
		return vwMust(req.MarshalBinary()), []string{s.log}, vwCanon(&resp), 0, nil
	case "taskManager":
		req := TaskManagerStatementRequest{Statement: "SHOW QUERIES"}
		return vwMust(req.MarshalBinary()), nil, "", 0, nil
	case "measurementNames":
		req := MeasurementNamesRequest{Database: "db0"}
		if rnd.Intn(2) == 0 {
			req.RetentionPolicy = "rp0"
			req.Condition = influxql.MustParseExpr(`_name =~ /c.*/ AND host = 'a'`)
		}
		wantLog = []string{fmt.Sprintf("MeasurementNames db=%q rp=%q cond=%s", req.Database, req.RetentionPolicy, vwExpr(req.Condition))}
		return vwMust(req.MarshalBinary()), wantLog, vwCanon(&MeasurementNamesResponse{Names: vwNames}), 0, nil
	case "tagKeys", "tagValues":
		ids := vwShardIDs(rnd)
		var cond influxql.Expr
		if rnd.Intn(2) == 0 {
			cond = influxql.MustParseExpr(`_name = 'cpu' AND _tagKey != 'x'`)
		}
		if st.Typ == "tagKeys" {
			req := TagKeysRequest{ShardIDs: ids, Condition: cond}
			return vwMust(req.MarshalBinary()), []string{fmt.Sprintf("TagKeys ids=%v cond=%s", ids, vwExpr(cond))}, vwCanon(&TagKeysResponse{TagKeys: vwTagKeys}), 0, nil
		}
		req := TagValuesRequest{ShardIDs: ids, Condition: cond}
		return vwMust(req.MarshalBinary()), []string{fmt.Sprintf("TagValues ids=%v cond=%s", ids, vwExpr(cond))}, vwCanon(&TagValuesResponse{TagValues: vwTagValues}), 0, nil
	case "seriesSketches":
		req := SeriesSketchesRequest{Database: "db0"}
		return vwMust(req.MarshalBinary()), []string{`SeriesSketches db="db0"`}, vwCanon(&SeriesSketchesResponse{Sketch: vwSketch(7), TSSketch: vwSketch(2)}), 0, nil
	case "measurementsSketches":
		req := MeasurementsSketchesRequest{Database: "db0"}
		return vwMust(req.MarshalBinary()), []string{`MeasurementsSketches db="db0"`}, vwCanon(&MeasurementsSketchesResponse{Sketch: vwSketch(3), TSSketch: vwSketch(0)}), 0, nil
	case "storeReadFilter":
		req := StoreReadFilterRequest{ShardIDs: vwShardIDs(rnd)}
		req.Request.Range = datatypes.TimestampRange{Start: 5, End: 500}
		if rnd.Intn(2) == 0 {
			req.Request.Predicate = vwPredicate()
		}
		b, _ := req.Request.Marshal()
		wantLog = []string{fmt.Sprintf("ReadFilter ids=%v req=%x", req.ShardIDs, b)}
		return vwMust(req.MarshalBinary()), wantLog, vwCanon(&StoreReadFilterResponse{}), 0, nil
	case "storeReadGroup":
		req := StoreReadGroupRequest{ShardIDs: vwShardIDs(rnd)}
		req.Request.Range = datatypes.TimestampRange{Start: -5, End: 500}
		req.Request.GroupKeys = []string{"host"}
		req.Request.Group = datatypes.GroupBy
		req.Request.Hints = datatypes.HintFlags(rnd.Intn(4))
		if rnd.Intn(2) == 0 {
			req.Request.Aggregate = &datatypes.Aggregate{Type: datatypes.AggregateTypeSum}
		}
		b, _ := req.Request.Marshal()
		wantLog = []string{fmt.Sprintf("ReadGroup ids=%v req=%x", req.ShardIDs, b)}
		return vwMust(req.MarshalBinary()), wantLog, vwCanon(&StoreReadGroupResponse{}), 0, nil
	case "createIterator":
		typ := []influxql.DataType{influxql.Float, influxql.Integer, influxql.String, influxql.Boolean}[rnd.Intn(4)]
		if st.Pay == "validU" {
			typ = influxql.Unsigned
		}
		m := influxql.Measurement{Database: "db0", RetentionPolicy: "rp0", Name: "cpu"}
		req := CreateIteratorRequest{ShardIDs: vwShardIDs(rnd), Measurement: m, Opt: vwOptions(rnd, typ)}
		wantLog = []string{fmt.Sprintf("ShardGroup ids=%v", req.ShardIDs),
			fmt.Sprintf("CreateIterator m=%s opt=%s", vwCanonMeasurement(&m), vwCanonOpt(&req.Opt))}
		return vwMust(req.MarshalBinary()), wantLog, vwCanon(&CreateIteratorResponse{Type: typ, Stats: query.IteratorStats{SeriesN: 2, PointN: len(vwStreamPoints(typ))}}), typ, nil
	case "iteratorCost":
		m := influxql.Measurement{Database: "db0", RetentionPolicy: "rp0", Name: "cpu"}
		req := IteratorCostRequest{ShardIDs: vwShardIDs(rnd), Measurement: m, Opt: vwOptions(rnd, influxql.Float)}
		wantLog = []string{fmt.Sprintf("ShardGroup ids=%v", req.ShardIDs), fmt.Sprintf("IteratorCost m=%q opt=%s", "cpu", vwCanonOpt(&req.Opt))}
		return vwMust(req.MarshalBinary()), wantLog, vwCanon(&IteratorCostResponse{Cost: vwCost}), 0, nil
	case "fieldDimensions":
		req := FieldDimensionsRequest{ShardIDs: vwShardIDs(rnd), Measurement: influxql.Measurement{Name: "cpu"}}
		wantLog = []string{fmt.Sprintf("ShardGroup ids=%v", req.ShardIDs), `FieldDimensions ms=["cpu"]`}
		return vwMust(req.MarshalBinary()), wantLog, vwCanon(&FieldDimensionsResponse{Fields: vwFields, Dimensions: vwDims}), 0, nil
	case "mapType":
		f := []string{"value", "n", "host"}[rnd.Intn(3)]
		req := MapTypeRequest{ShardIDs: vwShardIDs(rnd), Measurement: influxql.Measurement{Name: "cpu"}, Field: f}
		wantLog = []string{fmt.Sprintf("ShardGroup ids=%v", req.ShardIDs), fmt.Sprintf("MapType m=%q f=%q", "cpu", f)}
		want := influxql.Tag
		if t, ok := vwFields[f]; ok {
			want = t
		}
		return vwMust(req.MarshalBinary()), wantLog, vwCanon(&MapTypeResponse{Type: want}), 0, nil
	case "expandSources":
		src := influxql.Sources{&influxql.Measurement{Database: "db0", RetentionPolicy: "rp0", Regex: &influxql.RegexLiteral{Val: regexp.MustCompile(`c.*`)}},
			&influxql.Measurement{Name: "mem"}}
		req := ExpandSourcesRequest{ShardIDs: vwShardIDs(rnd), Sources: src}
		wantLog = []string{fmt.Sprintf("ShardGroup ids=%v", req.ShardIDs), fmt.Sprintf("ExpandSources src=%s", vwCanonSources(src))}
		return vwMust(req.MarshalBinary()), wantLog, vwCanon(&ExpandSourcesResponse{Sources: vwExpanded()}), 0, nil
	case "backupShard":
		since := time.Unix(0, int64(rnd.Intn(1000))*1e9)
		req := BackupShardRequest{ShardID: 2, Since: since}
		return vwMust(req.MarshalBinary()), []string{fmt.Sprintf("BackupShard id=2 since=%d", since.UnixNano())}, "", 0, vwBackupBytes(2, since)
	case "copyShard":
		since := time.Unix(0, 77)
		req := CopyShardRequest{Host: n.addr, Database: "db0", Policy: "rp0", ShardID: 2, Since: since}
		wantLog = []string{`CreateShard db="db0" rp="rp0" id=2`,
			fmt.Sprintf("RestoreShard id=2 bytes=%q err=<nil>", string(vwBackupBytes(2, since)))}
		return vwMust(req.MarshalBinary()), wantLog, vwCanon(&CopyShardResponse{}), 0, nil
	case "removeShard":
		req := RemoveShardRequest{ShardID: 5}
		return vwMust(req.MarshalBinary()), []string{"DeleteShard id=5"}, vwCanon(&RemoveShardResponse{}), 0, nil
	case "joinCluster":
		req := JoinClusterRequest{MetaServers: []string{"m2:8091", "m3:8091"}, Update: false}
		return vwMust(req.MarshalBinary()), []string{`SetMetaServers ["m2:8091" "m3:8091"]`}, vwCanon(&JoinClusterResponse{Node: vwNodeInfo()}), 0, nil
	case "removeHintedHandoff":
		req := RemoveHintedHandoffRequest{NodeID: 4}
		return vwMust(req.MarshalBinary()), []string{"RemoveNode id=4"}, vwCanon(&RemoveHintedHandoffResponse{}), 0, nil
	}
	panic("no valid payload for " + st.Typ)
}

func vwPredicate() *datatypes.Predicate {
	return &datatypes.Predicate{Root: &datatypes.Node{
		NodeType: datatypes.NodeTypeComparisonExpression,
		Value:    &datatypes.Node_Comparison_{Comparison: datatypes.ComparisonEqual},
		Children: []*datatypes.Node{
			{NodeType: datatypes.NodeTypeTagRef, Value: &datatypes.Node_TagRefValue{TagRefValue: "host"}},
			{NodeType: datatypes.NodeTypeLiteral, Value: &datatypes.Node_StringValue{StringValue: "a"}},
		}}}
}

func vwModelPoints(rnd *rand.Rand) []models.Point {
	n := 1 + rnd.Intn(3)
	var out []models.Point
	for i := 0; i < n; i++ {
		tags := map[string]string{}
		if rnd.Intn(3) > 0 {
			tags["host"] = fmt.Sprintf("h%d", i)
		}
		if rnd.Intn(3) == 0 {
			tags["region with space"] = "eu,west=1"
		}
		fields := map[string]interface{}{"value": float64(i) + 0.5}
		if rnd.Intn(2) == 0 {
			fields["n"] = int64(-i)
			fields["s"] = "str \"quoted\""
			fields["b"] = i%2 == 0
		}
		ts := []time.Time{time.Unix(0, 0), time.Unix(0, 1), time.Unix(1700000000, 123456789), time.Unix(0, models.MinNanoTime), time.Unix(0, models.MaxNanoTime)}[rnd.Intn(5)]
		p, err := models.NewPoint("cpu", models.NewTags(tags), fields, ts)
		if err != nil {
			panic(err)
		}
		out = append(out, p)
	}
	return out
}

// well-formed, but the node cannot serve it as asked (unknown shard, statement of another kind, unreachable host...)
func vwEdge(n *vwNode, typ string, rnd *rand.Rand) []byte {
	unknown := []uint64{900 + uint64(rnd.Intn(40))}
	m := influxql.Measurement{Name: "cpu"}
	switch typ {
	case "writeShard":
		var req WriteShardRequest
		req.SetShardID([]uint64{910, 960}[rnd.Intn(2)])
		if rnd.Intn(3) > 0 {
			req.SetDatabase("db0")
			req.SetRetentionPolicy("rp0")
		}
		req.AddPoints(vwModelPoints(rnd))
		return vwMust(req.MarshalBinary())
	case "executeStatement":
		var req ExecuteStatementRequest
		req.SetStatement([]string{`SELECT * FROM cpu`, `CREATE DATABASE x`, `SHOW DATABASES`}[rnd.Intn(3)])
		req.SetDatabase("db0")
		return vwMust(req.MarshalBinary())
	case "taskManager":
		return vwMust((&TaskManagerStatementRequest{Statement: []string{`KILL QUERY 12345`, `DROP DATABASE x`, `SELECT 1`}[rnd.Intn(3)]}).MarshalBinary())
	case "measurementNames":
		return vwMust((&MeasurementNamesRequest{Database: "", RetentionPolicy: ""}).MarshalBinary())
	case "tagKeys":
		return vwMust((&TagKeysRequest{ShardIDs: unknown}).MarshalBinary())
	case "tagValues":
		return vwMust((&TagValuesRequest{ShardIDs: unknown}).MarshalBinary())
	case "seriesSketches":
		return vwMust((&SeriesSketchesRequest{Database: "vw_missing"}).MarshalBinary())
	case "measurementsSketches":
		return vwMust((&MeasurementsSketchesRequest{Database: "vw_missing"}).MarshalBinary())
	case "storeReadFilter":
		return vwMust((&StoreReadFilterRequest{ShardIDs: unknown}).MarshalBinary())
	case "storeReadGroup":
		return vwMust((&StoreReadGroupRequest{ShardIDs: unknown}).MarshalBinary())
	case "createIterator":
		return vwMust((&CreateIteratorRequest{ShardIDs: unknown, Measurement: m, Opt: vwOptions(rnd, influxql.Float)}).MarshalBinary())
	case "iteratorCost":
		return vwMust((&IteratorCostRequest{ShardIDs: unknown, Measurement: m, Opt: vwOptions(rnd, influxql.Float)}).MarshalBinary())
	case "fieldDimensions":
		return vwMust((&FieldDimensionsRequest{ShardIDs: unknown, Measurement: m}).MarshalBinary())
	case "mapType":
		return vwMust((&MapTypeRequest{ShardIDs: unknown, Measurement: m, Field: "value"}).MarshalBinary())
	case "expandSources":
		return vwMust((&ExpandSourcesRequest{ShardIDs: unknown, Sources: influxql.Sources{&m}}).MarshalBinary())
	case "backupShard":
		return vwMust((&BackupShardRequest{ShardID: 901, Since: time.Unix(0, 5)}).MarshalBinary())
	case "copyShard":
		return vwMust((&CopyShardRequest{Host: "127.0.0.1:1", Database: "db0", Policy: "rp0", ShardID: 2, Since: time.Unix(0, 5)}).MarshalBinary())
	case "removeShard":
		return vwMust((&RemoveShardRequest{ShardID: 901}).MarshalBinary())
	case "joinCluster":
		return vwMust((&JoinClusterRequest{MetaServers: []string{"other:8091"}}).MarshalBinary())
	case "removeHintedHandoff":
		return vwMust((&RemoveHintedHandoffRequest{NodeID: 901}).MarshalBinary())
	}
	panic("no edge payload for " + typ)
}

// decodable envelope, invalid content
func vwBadContent(typ string, rnd *rand.Rand) ([]byte, string) {
	badM := func() []byte { // a Measurement whose regex does not compile
		return vwMust(proto.Marshal(&vwPBMeasurement{Name: proto.String("cpu"), Regex: proto.String("(unclosed")}))
	}
	goodM := vwMust((&influxql.Measurement{Name: "cpu"}).MarshalBinary())
	goodOpt := vwMust((&query.IteratorOptions{}).MarshalBinary())
	garbage := []byte{0xff, 0xff, 0xff, 0xff, 0x0f, 0x01}
	requiredMissing := []byte{0x78, 0x01} // field 15, varint 1: decodable, every declared field absent
	switch typ {
	case "writeShard":
		var req WriteShardRequest
		req.SetShardID(1)
		req.SetDatabase("db0")
		req.SetRetentionPolicy("rp0")
		good := vwMust(vwModelPoints(rnd)[0].MarshalBinary())
		bad := [][]byte{[]byte("garbage"), {}, good[:len(good)/2], {0, 0, 0, 200, 1, 2}}[rnd.Intn(4)]
		pts := [][]byte{bad}
		if rnd.Intn(2) == 0 {
			pts = [][]byte{good, bad, good}
		}
		req.SetBinaryPoints(pts)
		return vwMust(req.MarshalBinary()), "unparsable point bytes"
	case "executeStatement":
		var req ExecuteStatementRequest
		req.SetStatement([]string{"THIS IS NOT INFLUXQL", "DROP", "", "DROP DATABASE \"unterminated"}[rnd.Intn(4)])
		req.SetDatabase("db0")
		return vwMust(req.MarshalBinary()), "unparsable statement"
	case "taskManager":
		return vwMust((&TaskManagerStatementRequest{Statement: []string{"NOT A STATEMENT (", ""}[rnd.Intn(2)]}).MarshalBinary()), "unparsable statement"
	case "measurementNames":
		return vwMust(proto.Marshal(&internal.MeasurementNamesRequest{Database: proto.String("db0"), Condition: proto.String("a = = (")})), "unparsable condition"
	case "tagKeys":
		return vwMust(proto.Marshal(&internal.TagKeysRequest{ShardIDs: []uint64{1}, Condition: proto.String("host =~ /(/")})), "unparsable condition"
	case "tagValues":
		return vwMust(proto.Marshal(&internal.TagValuesRequest{ShardIDs: []uint64{1}, Condition: proto.String("AND AND")})), "unparsable condition"
	case "seriesSketches", "measurementsSketches", "copyShard", "removeShard", "removeHintedHandoff", "backupShard":
		return requiredMissing, "required field missing"
	case "storeReadFilter":
		return vwMust(proto.Marshal(&internal.StoreReadFilterRequest{ShardIDs: []uint64{1}, Request: garbage})), "undecodable nested request"
	case "storeReadGroup":
		return vwMust(proto.Marshal(&internal.StoreReadGroupRequest{ShardIDs: []uint64{1}, Request: garbage})), "undecodable nested request"
	case "createIterator":
		switch rnd.Intn(4) {
		case 0:
			return vwMust(proto.Marshal(&internal.CreateIteratorRequest{ShardIDs: []uint64{1}, Measurement: badM(), Opt: goodOpt})), "bad regex"
		case 1:
			return vwMust(proto.Marshal(&internal.CreateIteratorRequest{ShardIDs: []uint64{1}, Measurement: goodM, Opt: garbage})), "undecodable options"
		case 2:
			return vwMust(proto.Marshal(&internal.CreateIteratorRequest{ShardIDs: []uint64{1}, Measurement: goodM, Opt: vwBadOpt(rnd)})), "invalid options content"
		}
		return vwMust(proto.Marshal(&internal.CreateIteratorRequest{ShardIDs: []uint64{1}, Measurement: goodM, Opt: goodOpt, SpanContext: []byte{1, 2, 3}})), "undecodable span context"
	case "iteratorCost":
		if rnd.Intn(2) == 0 {
			return vwMust(proto.Marshal(&internal.IteratorCostRequest{ShardIDs: []uint64{1}, Measurement: badM(), Opt: goodOpt})), "bad regex"
		}
		return vwMust(proto.Marshal(&internal.IteratorCostRequest{ShardIDs: []uint64{1}, Measurement: goodM, Opt: vwBadOpt(rnd)})), "invalid options content"
	case "fieldDimensions":
		return vwMust(proto.Marshal(&internal.FieldDimensionsRequest{ShardIDs: []uint64{1}, Measurement: [][]byte{badM(), garbage}[rnd.Intn(2)]})), "bad regex / undecodable measurement"
	case "mapType":
		return vwMust(proto.Marshal(&internal.MapTypeRequest{ShardIDs: []uint64{1}, Measurement: [][]byte{badM(), garbage}[rnd.Intn(2)], Field: proto.String("value")})), "bad regex / undecodable measurement"
	case "expandSources":
		return vwMust(proto.Marshal(&internal.ExpandSourcesRequest{ShardIDs: []uint64{1}, Sources: garbage})), "undecodable sources"
	case "joinCluster":
		return vwMust((&JoinClusterRequest{MetaServers: nil, Update: false}).MarshalBinary()), "empty meta servers"
	}
	panic("no bad content for " + typ)
}

// vwPBMeasurement mirrors query/internal.Measurement (field numbers read from query/internal/internal.proto) so that
// an invalid regex can be put on the wire; the real encoder only produces regexes that compile.
type vwPBMeasurement struct {
	Database        *string `protobuf:"bytes,1,opt,name=Database" json:"Database,omitempty"`
	RetentionPolicy *string `protobuf:"bytes,2,opt,name=RetentionPolicy" json:"RetentionPolicy,omitempty"`
	Name            *string `protobuf:"bytes,3,opt,name=Name" json:"Name,omitempty"`
	Regex           *string `protobuf:"bytes,4,opt,name=Regex" json:"Regex,omitempty"`
	IsTarget        *bool   `protobuf:"varint,5,opt,name=IsTarget" json:"IsTarget,omitempty"`
	SystemIterator  *string `protobuf:"bytes,6,opt,name=SystemIterator" json:"SystemIterator,omitempty"`
}

func (m *vwPBMeasurement) Reset()         { *m = vwPBMeasurement{} }
func (m *vwPBMeasurement) String() string { return proto.CompactTextString(m) }
func (*vwPBMeasurement) ProtoMessage()    {}

// IteratorOptions bytes with an unparsable expression / condition / unknown time zone: built from valid options by
// patching the string fields of the encoded form through a round trip of the real encoder with marker strings.
func vwBadOpt(rnd *rand.Rand) []byte {
	opt := query.IteratorOptions{Expr: &influxql.VarRef{Val: "VWMARKEREXPR"}, Condition: &influxql.VarRef{Val: "VWMARKERCOND"}}
	b := vwMust(opt.MarshalBinary())
	switch rnd.Intn(2) {
	case 0:
		return bytes.Replace(b, []byte("VWMARKEREXPR"), []byte("a = = ( 1234"), 1)
	}
	return bytes.Replace(b, []byte("VWMARKERCOND"), []byte(") AND AND ( "), 1)
}

// ------------------------------------------------------------------ one connection

type vwObs struct {
	Reacts   []string `json:"reacts"`
	Delta    uint64   `json:"alloc_delta"`
	Calls    []string `json:"calls,omitempty"`
	NilPoint bool     `json:"nil_point,omitempty"`
	Probe    string   `json:"probe"`
	Notes    []string `json:"notes,omitempty"`
}

type vwProblem struct{ sig, detail string }

func vwTotalAlloc() uint64 {
	var ms runtime.MemStats
	runtime.ReadMemStats(&ms)
	return ms.TotalAlloc
}

func (n *vwNode) dialHeader(h byte) (net.Conn, error) {
	c, err := net.DialTimeout("tcp", n.addr, vwWatchdog)
	if err != nil {
		return nil, err
	}
	if _, err := c.Write([]byte{h}); err != nil {
		c.Close()
		return nil, err
	}
	return c, nil
}

func (n *vwNode) takeAccepted() (*vwSrvConn, error) {
	select {
	case sc := <-n.acc:
		return sc, nil
	case <-time.After(vwWatchdog):
		return nil, fmt.Errorf("%w: the service did not accept the connection", errVwInfra)
	}
}

func vwWaitClosed(sc *vwSrvConn) error {
	select {
	case <-sc.closed:
		return nil
	case <-time.After(vwWatchdog):
		buf := make([]byte, 1<<20)
		buf = buf[:runtime.Stack(buf, true)]
		var keep []string
		for _, g := range strings.Split(string(buf), "\n\n") {
			if strings.Contains(g, "coordinator.") {
				keep = append(keep, g)
			}
		}
		return fmt.Errorf("%w: the handler did not close the connection\n%s", errVwInfra, strings.Join(keep, "\n\n"))
	}
}

// connections the node opened to itself while serving (copyShard -> backupShard): wait for them too
func (n *vwNode) drain() error {
	for {
		select {
		case sc := <-n.acc:
			if err := vwWaitClosed(sc); err != nil {
				return err
			}
		default:
			return nil
		}
	}
}

func vwReadAll(c net.Conn) ([]byte, error) {
	c.SetReadDeadline(time.Now().Add(vwWatchdog))
	b, err := io.ReadAll(c)
	if err != nil {
		if ne, ok := err.(net.Error); ok && ne.Timeout() {
			return b, fmt.Errorf("%w: reading replies timed out", errVwInfra)
		}
		// connection reset: the server closed with unread input; what was sent before is in b
	}
	return b, nil
}

func vwWriteChunks(c net.Conn, b []byte, rnd *rand.Rand) {
	for len(b) > 0 {
		k := len(b)
		switch rnd.Intn(4) {
		case 0:
			k = 1
		case 1:
			k = 1 + rnd.Intn(len(b))
		}
		if _, err := c.Write(b[:k]); err != nil {
			return // the server has closed: the rest goes nowhere
		}
		b = b[k:]
	}
}

func (n *vwNode) probe(rnd *rand.Rand) (string, error) {
	c, err := n.dialHeader(MuxHeader)
	if err != nil {
		return "refused: " + err.Error(), nil
	}
	defer c.Close()
	sc, err := n.takeAccepted()
	if err != nil {
		return "not accepted", nil
	}
	var req WriteShardRequest
	req.SetShardID(1)
	req.AddPoints(vwModelPoints(rnd)[:1])
	c.Write(vwFrameBytes(writeShardRequestMessage, vwMust(req.MarshalBinary())))
	c.SetReadDeadline(time.Now().Add(vwWatchdog))
	typ, buf, err := ReadTLV(c)
	if err != nil {
		return "no reply: " + err.Error(), nil
	}
	var resp WriteShardResponse
	if typ != writeShardResponseMessage || resp.UnmarshalBinary(buf) != nil || resp.Code() != 0 {
		return fmt.Sprintf("bad reply type=%d code=%d", typ, resp.Code()), nil
	}
	c.(*net.TCPConn).CloseWrite()
	if err := vwWaitClosed(sc); err != nil {
		return "", err
	}
	return "ok", nil
}

// decode one reply record for request type t from buf; returns reaction, canonical content, bytes consumed
func vwDecodeReply(t byte, buf []byte) (react string, canon string, used int) {
	if len(buf) < 9 {
		return "garbled", fmt.Sprintf("reply of %d byte(s): %x", len(buf), buf), len(buf)
	}
	typ := buf[0]
	sz := int64(binary.BigEndian.Uint64(buf[1:9]))
	if typ != t+1 {
		return "other", fmt.Sprintf("type %d", typ), 0
	}
	if sz < 0 || int64(len(buf)-9) < sz {
		return "garbled", fmt.Sprintf("reply announces %d bytes, %d present", sz, len(buf)-9), len(buf)
	}
	body := buf[9 : 9+sz]
	used = 9 + int(sz)
	v, errf := vwNewResponse(t)
	if v == nil {
		return "garbled", "no response type", used
	}
	if err := v.UnmarshalBinary(body); err != nil {
		return "garbled", "reply does not decode: " + err.Error(), used
	}
	if e := errf(); e != "" {
		return "err", e, used
	}
	return "ok", vwCanon(v), used
}

type vwUnmarshaler interface{ UnmarshalBinary([]byte) error }

// a fresh response value for the request type + accessor for its error ("" = success)
func vwNewResponse(t byte) (vwUnmarshaler, func() string) {
	es := func(e *error) func() string {
		return func() string {
			if *e != nil {
				return "error: " + (*e).Error()
			}
			return ""
		}
	}
	switch t {
	case writeShardRequestMessage:
		v := &WriteShardResponse{}
		return v, func() string {
			if v.Code() != 0 {
				return fmt.Sprintf("code %d: %s", v.Code(), v.Message())
			}
			return ""
		}
	case executeStatementRequestMessage:
		v := &ExecuteStatementResponse{}
		return v, func() string {
			if v.Code() != 0 {
				return fmt.Sprintf("code %d: %s", v.Code(), v.Message())
			}
			return ""
		}
	case taskManagerStatementRequestMessage:
		v := &TaskManagerStatementResponse{}
		return v, es(&v.Err)
	case measurementNamesRequestMessage:
		v := &MeasurementNamesResponse{}
		return v, es(&v.Err)
	case tagKeysRequestMessage:
		v := &TagKeysResponse{}
		return v, es(&v.Err)
	case tagValuesRequestMessage:
		v := &TagValuesResponse{}
		return v, es(&v.Err)
	case seriesSketchesRequestMessage:
		v := &SeriesSketchesResponse{}
		return v, es(&v.Err)
	case measurementsSketchesRequestMessage:
		v := &MeasurementsSketchesResponse{}
		return v, es(&v.Err)
	case storeReadFilterRequestMessage:
		v := &StoreReadFilterResponse{}
		return v, es(&v.Err)
	case storeReadGroupRequestMessage:
		v := &StoreReadGroupResponse{}
		return v, es(&v.Err)
	case createIteratorRequestMessage:
		v := &CreateIteratorResponse{}
		return v, es(&v.Err)
	case iteratorCostRequestMessage:
		v := &IteratorCostResponse{}
		return v, es(&v.Err)
	case fieldDimensionsRequestMessage:
		v := &FieldDimensionsResponse{}
		return v, es(&v.Err)
	case mapTypeRequestMessage:
		v := &MapTypeResponse{}
		return v, es(&v.Err)
	case expandSourcesRequestMessage:
		v := &ExpandSourcesResponse{}
		return v, es(&v.Err)
	case copyShardRequestMessage:
		v := &CopyShardResponse{}
		return v, es(&v.Err)
	case removeShardRequestMessage:
		v := &RemoveShardResponse{}
		return v, es(&v.Err)
	case listShardsRequestMessage:
		v := &ListShardsResponse{}
		return v, es(&v.Err)
	case joinClusterRequestMessage:
		v := &JoinClusterResponse{}
		return v, es(&v.Err)
	case leaveClusterRequestMessage:
		v := &LeaveClusterResponse{}
		return v, es(&v.Err)
	case removeHintedHandoffRequestMessage:
		v := &RemoveHintedHandoffResponse{}
		return v, es(&v.Err)
	}
	return nil, nil
}

func vwIn(s string, set []string) bool {
	for _, x := range set {
		if x == s {
			return true
		}
	}
	return false
}

func vwSubsequence(want, have []string) bool {
	i := 0
	for _, h := range have {
		if i < len(want) && h == want[i] {
			i++
		}
	}
	return i == len(want)
}

func vwKey(st vwStep) string { return st.Typ + ":" + st.Lenc + ":" + st.Pay }

// runCase plays one abstract connection; problems = what the property forbids
func (n *vwNode) runCase(b *vwBeh, seed int64, onlyFrames int) (vwObs, []vwProblem, error) {
	rnd := rand.New(rand.NewSource(seed*1000003 + int64(b.ID)))
	var obs vwObs
	var probs []vwProblem
	bad := func(sig, f string, a ...interface{}) { probs = append(probs, vwProblem{sig, fmt.Sprintf(f, a...)}) }

	hdr, end := "nothing", "half"
	var frames []vwRendered
	for _, st := range b.Steps {
		switch st.A {
		case "connect":
			hdr = st.Hdr
		case "frame":
			if onlyFrames > 0 && len(frames) >= onlyFrames {
				continue
			}
			frames = append(frames, vwRender(n, st, rnd))
		case "end":
			end = st.How
		}
	}
	n.store.reset()
	maxAllowed := uint64(vwSlack)
	for _, f := range frames {
		if f.step.Lenc == "maxm1" {
			maxAllowed += MaxMessageSize
		}
	}
	a0 := vwTotalAlloc()

	var hb byte = MuxHeader
	if hdr == "other" {
		hb = []byte{0x7f, 0x00, 0x01, 0xff, 'X'}[rnd.Intn(5)]
	}
	c, err := net.DialTimeout("tcp", n.addr, vwWatchdog)
	if err != nil {
		return obs, nil, fmt.Errorf("%w: dial: %v", errVwInfra, err)
	}
	defer c.Close()
	var sc *vwSrvConn
	if hdr != "nothing" {
		if _, err := c.Write([]byte{hb}); err != nil {
			return obs, nil, fmt.Errorf("%w: header: %v", errVwInfra, err)
		}
		if hdr == "coord" {
			if sc, err = n.takeAccepted(); err != nil {
				return obs, nil, err
			}
		} else {
			vwWriteChunks(c, []byte("\x01\x02 not http"), rnd)
		}
	}
	var all []byte
	for _, f := range frames {
		all = append(all, f.bytes...)
	}
	vwWriteChunks(c, all, rnd)

	var replies []byte
	if end == "half" {
		c.(*net.TCPConn).CloseWrite()
		if replies, err = vwReadAll(c); err != nil {
			return obs, nil, err
		}
	} else {
		if rnd.Intn(2) == 0 {
			c.(*net.TCPConn).SetLinger(0) // RST instead of FIN
		}
		c.Close()
	}
	if sc != nil {
		if err := vwWaitClosed(sc); err != nil {
			return obs, nil, err
		}
	}
	if err := n.drain(); err != nil {
		return obs, nil, err
	}
	obs.Delta = vwTotalAlloc() - a0
	obs.Calls, obs.NilPoint = n.store.snapshot()

	// ---- allocation
	if obs.Delta > maxAllowed {
		lc := "accepted"
		for _, f := range frames {
			if f.step.Lenc != "small" && f.step.Lenc != "zero" && f.step.Lenc != "none" {
				lc = f.step.Lenc
			}
		}
		bad("alloc:"+lc, "the process allocated %d bytes while serving the connection; allowed for these frames: %d", obs.Delta, maxAllowed)
	}
	// ---- store
	if obs.NilPoint {
		bad("store:nil-point", "TSDBStore.WriteToShard was handed a nil point")
	}
	for _, cl := range obs.Calls {
		if strings.Contains(cl, "vw_embedded") {
			bad("unknown-type:payload-executed", "the payload of a frame with an unknown type was executed as a request: %s", cl)
		}
	}
	// ---- reactions (only observable when the peer reads to the end)
	if end == "half" && hdr == "coord" {
		pos, closed, allOK := 0, false, true
		for i, f := range frames {
			if closed {
				obs.Reacts = append(obs.Reacts, "-")
				continue
			}
			st := f.step
			react, detail := "", ""
			rest := replies[pos:]
			switch {
			case vwIsUnknown(st.Typ):
				if len(rest) == 0 {
					react = "close"
				} else {
					react, detail = "skipped", fmt.Sprintf("%d reply byte(s) follow a frame of unknown type %d", len(rest), f.typeByte)
				}
			case st.Typ == "backupShard":
				if len(rest) == 0 {
					react = "close"
				} else if f.backup != nil && bytes.Equal(rest, f.backup) {
					react, pos = "ok", len(replies)
				} else if f.backup != nil {
					react, detail, pos = "garbled", fmt.Sprintf("backup stream differs: %d bytes, want %d", len(rest), len(f.backup)), len(replies)
				} else {
					react, pos = "ok", len(replies) // edge/zero: a stream the stub produced
				}
			default:
				if len(rest) == 0 {
					react = "close"
					break
				}
				var canon string
				var used int
				react, canon, used = vwDecodeReply(f.typeByte, rest)
				detail = canon
				if react == "other" {
					react, detail = "skipped", "the next reply is "+canon+": this frame was passed over"
					break
				}
				pos += used
				if react == "ok" && f.wantResp != "" && canon != f.wantResp {
					bad("lossy-response:"+st.Typ, "reply carries %s, the node answered %s", canon, f.wantResp)
				}
				if react == "ok" && st.Typ == "createIterator" {
					if f.stream != influxql.Unknown {
						if msg := vwCheckStream(replies[pos:], f.stream, rest[:used]); msg != "" {
							bad("lossy-stream:"+f.stream.String(), "%s", msg)
						}
					}
					pos = len(replies) // whatever follows the reply is the point stream
				}
			}
			obs.Reacts = append(obs.Reacts, react)
			if react == "close" {
				closed = true
			}
			switch {
			case react == "skipped":
				cls := st.Typ
				if vwIsUnknown(st.Typ) {
					cls = "unknown-type"
				}
				bad("skipped:"+cls, "frame %d (%s) was neither answered nor did it end the connection: %s", i, vwKey(st), detail)
			case react == "garbled":
				bad("reply-malformed:"+st.Typ, "frame %d (%s): %s", i, vwKey(st), detail)
				closed = true
			case vwIn(react, st.Allowed):
				if react == "ok" && len(f.wantLog) > 0 && !vwSubsequence(f.wantLog, obs.Calls) {
					bad("lossy-request:"+st.Typ, "frame %d (%s): the node was expected to see %q, it saw %q", i, vwKey(st), f.wantLog, obs.Calls)
				}
			case st.Malformed && react == "ok":
				bad("malformed-accepted:"+vwKey(st), "frame %d (%s; %s) was answered with success", i, vwKey(st), f.note)
			case !st.Malformed && react == "err":
				bad("valid-refused:"+st.Typ, "frame %d (%s) was answered with %s", i, vwKey(st), detail)
			case !st.Malformed && react == "close":
				if allOK {
					bad("valid-unanswered:"+st.Typ, "frame %d (%s) got no reply although every earlier frame was served", i, vwKey(st))
				} else {
					obs.Notes = append(obs.Notes, fmt.Sprintf("frame %d unanswered after an error on the connection", i))
				}
			default:
				bad("reaction:"+vwKey(st)+":"+react, "frame %d (%s): reaction %s, allowed %v", i, vwKey(st), react, st.Allowed)
			}
			if react != "ok" {
				allOK = false
			}
			if !closed && !st.Cont && react != "skipped" {
				// the model says the handler returns after this frame; whatever follows is not judged
				if pos < len(replies) {
					obs.Notes = append(obs.Notes, fmt.Sprintf("frame %d: the model closes here, the node went on", i))
				} else {
					closed = true
				}
			}
		}
		if pos < len(replies) && !closed {
			bad("reply-surplus", "%d reply byte(s) that no frame accounts for", len(replies)-pos)
		}
	} else if end == "half" && len(replies) > 0 && hdr != "coord" {
		bad("reply-surplus", "%d byte(s) answered on a connection that never reached the coordinator service", len(replies))
	}

	// ---- a well-formed request on a new connection
	p, err := n.probe(rnd)
	if err != nil {
		return obs, probs, err
	}
	obs.Probe = p
	if p != "ok" {
		bad("probe:unanswered", "a well-formed request on a new connection after this one: %s", p)
	}
	return obs, probs, nil
}

// the point stream behind a successful CreateIterator reply, read through the real ReaderIterator
func vwCheckStream(stream []byte, typ influxql.DataType, reply []byte) string {
	var resp CreateIteratorResponse
	if err := resp.UnmarshalBinary(reply[9:]); err != nil {
		return "reply: " + err.Error()
	}
	if resp.Type != typ {
		return fmt.Sprintf("iterator type %s announced, the node created %s", resp.Type, typ)
	}
	itr := query.NewReaderIterator(context.Background(), bytes.NewReader(stream), resp.Type, resp.Stats)
	got, err := vwDrain(itr)
	if err != nil {
		return "stream: " + err.Error()
	}
	want := vwCanonVwPoints(typ, vwStreamPoints(typ))
	if strings.Join(got, "\n") != strings.Join(want, "\n") {
		return fmt.Sprintf("streamed points differ:\n got  %q\n want %q", got, want)
	}
	return ""
}

// ------------------------------------------------------------------ driver

func TestVerifWireReplay(t *testing.T) {
	log.SetOutput(io.Discard)
	var in vwInput
	if err := vtrace.LoadJSON(os.Getenv("VERIF_IN"), &in); err != nil {
		t.Fatal(err)
	}
	n, err := vwNewNode()
	if err != nil {
		t.Fatal(err)
	}
	seed := vtrace.Seed()
	skip := map[string]bool{}
	for _, k := range in.Skip {
		skip[k] = true
	}
	order := rand.New(rand.NewSource(seed)).Perm(len(in.Behaviours))
	maxm1 := in.MaxM1
	maxSigs := in.MaxSigs
	if maxSigs == 0 {
		maxSigs = 4
	}
	sigs := map[string]int{}
	var ran, frames, skipped, skippedM1, held, samples int
	stopped := false
	reacts := map[string]int{}
	var maxDelta, maxDeltaM1 uint64
	for _, idx := range order {
		b := &in.Behaviours[idx]
		drop, m1 := false, false
		for _, st := range b.Steps {
			if st.A == "frame" {
				if skip[st.Lenc+":"+st.Pay] {
					drop = true
				}
				if st.Lenc == "maxm1" {
					m1 = true
				}
			}
		}
		if drop {
			skipped++
			continue
		}
		if m1 {
			if maxm1 <= 0 {
				skippedM1++
				continue
			}
			maxm1--
		}
		vtrace.Out(map[string]interface{}{"k": "inflight", "id": b.ID})
		obs, probs, err := n.runCase(b, seed, in.OnlyFrames)
		if err != nil {
			vtrace.Out(map[string]interface{}{"k": "infra", "id": b.ID, "detail": err.Error()})
			t.Fatalf("case %d: %v", b.ID, err)
		}
		ran++
		for _, r := range obs.Reacts {
			reacts[r]++
			frames++
		}
		if m1 {
			if obs.Delta > maxDeltaM1 {
				maxDeltaM1 = obs.Delta
			}
		} else if obs.Delta > maxDelta {
			maxDelta = obs.Delta
		}
		if len(probs) == 0 {
			held++
			if samples < 4 && len(obs.Reacts) >= 2 {
				samples++
				vtrace.Sample(map[string]interface{}{"connection": b.Steps, "observed": obs})
			}
		}
		for _, p := range probs {
			if strings.HasPrefix(p.sig, "alloc:") {
				// do not allocate gigabytes again and again: leave this length class out of the rest of the run
				for _, st := range b.Steps {
					if st.A == "frame" && st.Lenc != "small" && st.Lenc != "zero" && st.Lenc != "none" {
						skip[st.Lenc+":"+st.Pay] = true
					}
				}
			}
			sigs[p.sig]++
			if sigs[p.sig] <= 1 {
				vtrace.Mismatch(p.sig, p.detail, map[string]interface{}{"test": "replay", "behaviour": b, "observed": obs})
			}
		}
		if len(sigs) >= maxSigs*8 {
			break
		}
		if obs.Probe != "ok" {
			// the node no longer answers new connections: nothing after this connection can be judged
			stopped = true
			break
		}
	}
	n.close()
	var keys []string
	for k := range sigs {
		keys = append(keys, k)
	}
	sort.Strings(keys)
	vtrace.Done("TestVerifWireReplay", map[string]interface{}{"behaviours": ran, "frames_judged": frames, "held": held,
		"skipped_crash_class": skipped, "skipped_maxm1_budget": skippedM1, "reactions": reacts, "signatures": sigs,
		"max_alloc_delta": maxDelta, "max_alloc_delta_maxm1": maxDeltaM1, "stopped_node_unreachable": stopped})
	if len(sigs) > 0 {
		t.Errorf("mismatches: %v", keys)
	}
}
