package httpd_test

// C16 verification harness (injected with `go test -overlay`, never part of the repository).
//
// TestVerifAuthHTTP sends every case printed by specs/auth/AuthGen.tla through the real httpd.Handler
// with authentication enabled, wired as cmd/influxd/run/server.go wires it: real meta.Client as
// MetaClient (metadata received through its own pollForUpdates path from a snapshot server), real
// meta.QueryAuthorizer / meta.WriteAuthorizer, real query.Executor; only the StatementExecutor and
// the PointsWriter are recorders.  Compared with the model: HTTP status and how many statements /
// writes reached the executor.

import (
	"bytes"
	"encoding/json"
	"sort"
	"fmt"
	"net"
	"net/http"
	"net/http/httptest"
	"net/url"
	"os"
	"strconv"
	"strings"
	"sync"
	"sync/atomic"
	"testing"
	"time"

	"github.com/dgrijalva/jwt-go/v4"
	"github.com/gogo/protobuf/proto"
	"github.com/golang/snappy"
	"github.com/influxdata/influxdb/coordinator"
	"github.com/influxdata/influxdb/internal"
	"github.com/influxdata/influxdb/models"
	"github.com/influxdata/influxdb/pkg/verifx/authx"
	"github.com/influxdata/influxdb/pkg/verifx/vtrace"
	"github.com/influxdata/influxdb/prometheus/remote"
	"github.com/influxdata/influxdb/query"
	"github.com/influxdata/influxdb/services/httpd"
	"github.com/influxdata/influxdb/services/meta"
	"github.com/influxdata/influxql"
	"golang.org/x/crypto/bcrypt"
)

const (
	vhSecret   = "c16 shared secret"
	vhWatchdog = 20 * time.Second
)

// ---- snapshot server (same protocol as services/meta/handler.go serveSnapshot), public meta API only
type vhSrv struct {
	mu   sync.Mutex
	data *meta.Data
	ln   net.Listener
	hs   *http.Server
	done chan struct{}
}

func vhNewSrv(build func(d *meta.Data) error) (*vhSrv, error) {
	ln, err := net.Listen("tcp", "127.0.0.1:0")
	if err != nil {
		return nil, err
	}
	d := &meta.Data{Index: 1, ClusterID: 1, MaxNodeID: 1}
	d.MetaNodes = []meta.NodeInfo{{ID: 1, Addr: ln.Addr().String(), TCPAddr: ln.Addr().String()}}
	if err := build(d); err != nil {
		ln.Close()
		return nil, err
	}
	d.Index = 2
	s := &vhSrv{data: d, ln: ln, done: make(chan struct{})}
	s.hs = &http.Server{Handler: http.HandlerFunc(func(w http.ResponseWriter, r *http.Request) {
		idx, _ := strconv.ParseUint(r.URL.Query().Get("index"), 10, 64)
		if s.data.Index > idx {
			b, err := s.data.MarshalBinary()
			if err != nil {
				http.Error(w, err.Error(), 500)
				return
			}
			w.Header().Add("Content-Type", "application/octet-stream")
			w.Write(b)
			return
		}
		select { // nothing newer will ever come: long poll until the client goes away
		case <-r.Context().Done():
		case <-s.done:
			http.Error(w, "closed", 500)
		}
	})}
	go s.hs.Serve(ln)
	return s, nil
}

func (s *vhSrv) close() { close(s.done); s.hs.Close() }

func vhHash(pw string) string {
	h, err := bcrypt.GenerateFromPassword([]byte(pw), bcrypt.MinCost)
	if err != nil {
		panic(err)
	}
	return string(h)
}

func vhBuildWorld(world string) func(d *meta.Data) error {
	return func(d *meta.Data) error {
		for _, db := range []string{"d1", "d2"} {
			if err := d.CreateDatabase(db); err != nil {
				return err
			}
			if err := d.CreateRetentionPolicy(db, &meta.RetentionPolicyInfo{Name: "autogen", ReplicaN: 1}, true); err != nil {
				return err
			}
			if err := d.CreateContinuousQuery(db, "cq_"+db, "CREATE CONTINUOUS QUERY cq_"+db+" ON "+db+" BEGIN SELECT count(v) INTO m2 FROM m GROUP BY time(1h) END"); err != nil {
				return err
			}
		}
		if world == "noUsers" {
			return nil
		}
		for _, u := range authx.Users() {
			if u.Admin && world == "noAdmin" {
				continue
			}
			if err := d.CreateUser(u.Name(), vhHash(u.Password()), false); err != nil {
				return err
			}
			if u.P1 != influxql.NoPrivileges {
				if err := d.SetPrivilege(u.Name(), "d1", u.P1); err != nil {
					return err
				}
			}
			if u.P2 != influxql.NoPrivileges {
				if err := d.SetPrivilege(u.Name(), "d2", u.P2); err != nil {
					return err
				}
			}
			if u.Admin {
				if err := d.SetAdminPrivilege(u.Name(), true); err != nil {
					return err
				}
			}
		}
		if world == "normal" {
			return d.CreateUser("root", vhHash("rootpw"), true)
		}
		return nil
	}
}

func vhInfra(t *testing.T, format string, a ...interface{}) {
	msg := fmt.Sprintf(format, a...)
	vtrace.Out(map[string]interface{}{"k": "infra", "detail": msg})
	t.Fatal(msg)
}

// ---- recorders
type vhExec struct{ n int64 }

func (e *vhExec) ExecuteStatement(ctx *query.ExecutionContext, stmt influxql.Statement) error {
	atomic.AddInt64(&e.n, 1)
	return ctx.Send(&query.Result{})
}

type vhPoints struct{ n int64 }

func (p *vhPoints) WritePoints(database, retentionPolicy string, consistencyLevel models.ConsistencyLevel, user meta.User, points []models.Point) error {
	atomic.AddInt64(&p.n, 1)
	return nil
}

type vhNode struct {
	h    *httpd.Handler
	exec *vhExec
	pw   *vhPoints
}

func vhNewNode(c *meta.Client) *vhNode {
	cfg := httpd.NewConfig()
	cfg.AuthEnabled = true
	cfg.SharedSecret = vhSecret
	cfg.LogEnabled = false
	n := &vhNode{exec: &vhExec{}, pw: &vhPoints{}}
	h := httpd.NewHandler(cfg)
	h.MetaClient = c
	h.QueryAuthorizer = meta.NewQueryAuthorizer(c)
	h.WriteAuthorizer = meta.NewWriteAuthorizer(c)
	h.QueryExecutor = query.NewExecutor()
	h.QueryExecutor.StatementExecutor = n.exec
	h.PointsWriter = n.pw
	h.Version = "0.0.0"
	h.BuildType = "OSS"
	n.h = h
	return n
}

// ---- credentials
func vhJWT(claims jwt.MapClaims, secret string) string {
	tok := jwt.NewWithClaims(jwt.GetSigningMethod("HS512"), claims)
	s, err := tok.SignedString([]byte(secret))
	if err != nil {
		panic(err)
	}
	return s
}

// vhCred decorates the request with the credential case cc for canonical user u.
func vhCred(r *http.Request, cc string, u authx.User) error {
	name, pw := u.Name(), u.Password()
	parts := strings.SplitN(cc, ":", 2)
	if cc == "none" {
		return nil
	}
	carrier, kind := parts[0], parts[1]
	switch kind {
	case "wrongpw":
		pw += "x"
	case "unknown":
		name = "ghost"
	case "emptypw":
		pw = ""
	}
	switch carrier {
	case "basic":
		r.SetBasicAuth(name, pw)
	case "query":
		q := r.URL.Query()
		q.Set("u", name)
		q.Set("p", pw)
		r.URL.RawQuery = q.Encode()
	case "token":
		r.Header.Set("Authorization", "Token "+name+":"+pw)
	case "bearer":
		claims := jwt.MapClaims{"username": name, "exp": time.Now().Add(10 * time.Minute).Unix()}
		secret := vhSecret
		switch kind {
		case "badsig":
			secret = "not the shared secret"
		case "expired":
			claims["exp"] = time.Now().Add(-time.Minute).Unix()
		case "noexp":
			delete(claims, "exp")
		case "nouser":
			delete(claims, "username")
		}
		r.Header.Set("Authorization", "Bearer "+vhJWT(claims, secret))
	default:
		return fmt.Errorf("unknown credential case %q", cc)
	}
	return nil
}

var vhPromBody = func() []byte {
	req := &remote.WriteRequest{Timeseries: []*remote.TimeSeries{{
		Labels:  []*remote.LabelPair{{Name: "__name__", Value: "m"}, {Name: "host", Value: "a"}},
		Samples: []*remote.Sample{{TimestampMs: 1, Value: 1.5}},
	}}}
	data, err := proto.Marshal(req)
	if err != nil {
		panic(err)
	}
	return snappy.Encode(nil, data)
}()

type vhReq struct {
	method, path string
	params       url.Values
	body         []byte
	okStatus     int
	label        string
}

// vhRequests returns the concrete requests of a group (a write case is sent to every write endpoint).
func vhRequests(g *authx.Group, gi int) ([]vhReq, error) {
	if g.Kind == "write" {
		lp := []byte("m,host=a v=1 1\n")
		return []vhReq{
			{"POST", "/write", url.Values{"db": {g.DB}}, lp, 204, "v1"},
			{"POST", "/api/v2/write", url.Values{"bucket": {g.DB + "/autogen"}}, lp, 204, "v2"},
			{"POST", "/api/v1/prom/write", url.Values{"db": {g.DB}}, vhPromBody, 204, "prom"},
		}, nil
	}
	_, txt, err := authx.Query(g.Stmts)
	if err != nil {
		return nil, err
	}
	if txt == "" {
		return nil, nil // AST-only statement: cannot be sent
	}
	p := url.Values{"q": {txt}}
	if g.DDB != "-" {
		p.Set("db", g.DDB)
	}
	method := "POST"
	if gi%4 == 3 {
		method = "GET"
	}
	return []vhReq{{method, "/query", p, nil, 200, "query"}}, nil
}

func TestVerifAuthHTTP(t *testing.T) {
	var in authx.Input
	if err := vtrace.LoadJSON(os.Getenv("VERIF_IN"), &in); err != nil {
		t.Skip("no VERIF_IN")
	}
	base, err := os.MkdirTemp(os.Getenv("VERIF_SCRATCH"), "c16http")
	if err != nil {
		t.Fatal(err)
	}
	defer os.RemoveAll(base)
	workers := vtrace.EnvInt("VERIF_WORKERS", 8)
	clients := map[string]*meta.Client{}
	for _, w := range []string{"noUsers", "noAdmin", "normal"} {
		s, err := vhNewSrv(vhBuildWorld(w))
		if err != nil {
			vhInfra(t, "world %s: %v", w, err)
		}
		defer s.close()
		cfg := meta.NewConfig()
		cfg.Dir = base + "/" + w
		os.MkdirAll(cfg.Dir, 0755)
		c := meta.NewClient(cfg)
		c.SetMetaServers([]string{s.ln.Addr().String()})
		if err := c.Open(); err != nil {
			vhInfra(t, "world %s: %v", w, err)
		}
		defer c.Close()
		deadline := time.After(vhWatchdog)
		for {
			ch := c.WaitForDataChanged()
			if d := c.Data(); d.Index >= 2 {
				break
			}
			select {
			case <-ch:
			case <-deadline:
				vhInfra(t, "world %s: metadata did not arrive", w)
			}
		}
		clients[w] = c
	}
	if clients["noUsers"].UserCount() != 0 || clients["noAdmin"].AdminUserExists() || !clients["normal"].AdminUserExists() {
		vhInfra(t, "worlds are not as intended")
	}
	users := authx.Users()
	groups := in.Groups
	if in.Only != nil {
		groups = []authx.Group{in.Only.Group}
		workers = 1
	}

	var mu sync.Mutex
	seenSig := map[string]bool{}
	var nReq, nExec, nDrift, nUnsendable, n401, n403, nSamples int64
	var failed atomic.Value
	jobs := make(chan int, 64)
	var wg sync.WaitGroup
	for w := 0; w < workers; w++ {
		wg.Add(1)
		go func() {
			defer wg.Done()
			nodes := map[string]*vhNode{}
			for k, c := range clients {
				nodes[k] = vhNewNode(c)
			}
			// A node that has been up for a while has seen every user log in: warm the credential
			// cache through the handler, so that the rejected-credential cases below also go "through
			// the cache" (and so that a single replayed case has the same history).
			for ui, u := range users {
				if in.Only != nil && ui != in.Only.User {
					continue
				}
				r := httptest.NewRequest("GET", "/query?q=SHOW+DATABASES", nil)
				r.SetBasicAuth(u.Name(), u.Password())
				w := httptest.NewRecorder()
				nodes["normal"].h.ServeHTTP(w, r)
				if w.Code != 200 {
					failed.Store(fmt.Sprintf("warm-up login of %s: status %d %.200s", u.Name(), w.Code, w.Body.String()))
				}
			}
			for gi := range jobs {
				if failed.Load() != nil {
					continue
				}
				g := &groups[gi]
				reqs, err := vhRequests(g, gi)
				if err != nil {
					failed.Store(err.Error())
					continue
				}
				if reqs == nil {
					atomic.AddInt64(&nUnsendable, 1)
					continue
				}
				node := nodes[g.World]
				for ui, code := range g.Codes {
					if code < 0 || (in.Only != nil && ui != in.Only.User) {
						continue
					}
					st, ex, allowed := authx.Decode(code)
					for _, rq := range reqs {
						r := httptest.NewRequest(rq.method, rq.path+"?"+rq.params.Encode(), bytes.NewReader(rq.body))
						if err := vhCred(r, g.CC, users[ui]); err != nil {
							failed.Store(err.Error())
							continue
						}
						e0, p0 := atomic.LoadInt64(&node.exec.n), atomic.LoadInt64(&node.pw.n)
						w := httptest.NewRecorder()
						node.h.ServeHTTP(w, r)
						ran := int(atomic.LoadInt64(&node.exec.n)-e0) + int(atomic.LoadInt64(&node.pw.n)-p0)
						atomic.AddInt64(&nReq, 1)
						atomic.AddInt64(&nExec, int64(ran))
						switch w.Code {
						case 401:
							atomic.AddInt64(&n401, 1)
						case 403:
							atomic.AddInt64(&n403, 1)
						}
						what := fmt.Sprintf("%s %s?%s as %s [%s] in world %s", rq.method, rq.path, rq.params.Encode(), users[ui].Name(), g.CC, g.World)
						rp := authx.Replay{Group: *g, User: ui}
						if ran > 0 && !allowed {
							sig := authx.Sig(*g, ex > 0, "http")
							mu.Lock()
							if authx.Report(seenSig, sig) {
								vtrace.Mismatch(sig, fmt.Sprintf("%s: status %d, %d statement(s)/write(s) reached the executor although the property does not allow the request", what, w.Code, ran), rp)
							}
							mu.Unlock()
							continue
						}
						wantStatus := st
						if st == 200 || st == 204 {
							wantStatus = rq.okStatus
						}
						if w.Code != wantStatus || ran != ex {
							if atomic.AddInt64(&nDrift, 1) <= 5 {
								vtrace.Out(map[string]interface{}{"k": "drift", "detail": fmt.Sprintf("%s: status %d executed %d, model expects status %d executed %d (allowed=%v) body=%.200s",
									what, w.Code, ran, wantStatus, ex, allowed, w.Body.String()), "replay": rp})
							}
						}
						if ran > 0 && g.World == "normal" && !users[ui].Admin && atomic.AddInt64(&nSamples, 1) <= 2 {
							vtrace.Sample(map[string]interface{}{"level": "http", "request": what, "status": w.Code, "executed": ran, "allowed": allowed})
						}
					}
				}
			}
		}()
	}
	for gi := range groups {
		jobs <- gi
	}
	close(jobs)
	wg.Wait()
	if f := failed.Load(); f != nil {
		vhInfra(t, "%v", f)
	}
	vtrace.Done("TestVerifAuthHTTP", map[string]interface{}{"groups": len(groups), "requests": nReq, "executed": nExec, "status401": n401,
		"status403": n403, "drift": nDrift, "unsendable_groups": nUnsendable, "workers": workers})
}

// ---------------------------------------------------------------------------------------------
// statements that list across databases: SHOW DATABASES, SHOW CONTINUOUS QUERIES, SHOW MEASUREMENTS ON *.*
// through the real handler, the real query.Executor and the real coordinator.StatementExecutor (real
// meta client, recording TSDB store).  The result may only mention databases the user holds a grant on.

type vhListRow struct {
	Vis     []string `json:"vis"`
	Cqs     []string `json:"cqs"`
	Meas    []string `json:"meas"`
	MayVis  []string `json:"mayvis"`
	MayMeas []string `json:"maymeas"`
}

type vhListIn struct {
	Listing  []vhListRow `json:"listing"`
	OnlyUser *int        `json:"only_user"`
}

type vhResp struct {
	Results []struct {
		Series []struct {
			Name   string          `json:"name"`
			Values [][]interface{} `json:"values"`
		} `json:"series"`
		Err string `json:"error"`
	} `json:"results"`
}

func vhSet(xs []string) string {
	ys := append([]string(nil), xs...)
	sort.Strings(ys)
	return strings.Join(ys, ",")
}

func vhSubset(xs, of []string) bool {
	m := map[string]bool{}
	for _, x := range of {
		m[x] = true
	}
	for _, x := range xs {
		if !m[x] {
			return false
		}
	}
	return true
}

func TestVerifAuthListing(t *testing.T) {
	var in vhListIn
	if err := vtrace.LoadJSON(os.Getenv("VERIF_IN"), &in); err != nil || len(in.Listing) != 32 {
		t.Skip("no VERIF_IN")
	}
	base, err := os.MkdirTemp(os.Getenv("VERIF_SCRATCH"), "c16list")
	if err != nil {
		t.Fatal(err)
	}
	defer os.RemoveAll(base)
	s, err := vhNewSrv(vhBuildWorld("normal"))
	if err != nil {
		vhInfra(t, "%v", err)
	}
	defer s.close()
	cfg := meta.NewConfig()
	cfg.Dir = base
	c := meta.NewClient(cfg)
	c.SetMetaServers([]string{s.ln.Addr().String()})
	if err := c.Open(); err != nil {
		vhInfra(t, "%v", err)
	}
	defer c.Close()
	deadline := time.After(vhWatchdog)
	for {
		ch := c.WaitForDataChanged()
		if d := c.Data(); d.Index >= 2 {
			break
		}
		select {
		case <-ch:
		case <-deadline:
			vhInfra(t, "metadata did not arrive")
		}
	}
	node := vhNewNode(c)
	var mu sync.Mutex
	var touched []string
	store := &internal.TSDBStoreMock{}
	store.MeasurementNamesFn = func(auth query.FineAuthorizer, database string, retentionPolicy string, cond influxql.Expr) ([][]byte, error) {
		mu.Lock()
		touched = append(touched, database)
		mu.Unlock()
		return [][]byte{[]byte("m_" + database)}, nil
	}
	node.h.QueryExecutor.StatementExecutor = &coordinator.StatementExecutor{MetaClient: c, TSDBStore: store}

	users := authx.Users()
	seen := map[string]bool{}
	var nReq, nListed, nDrift int
	for ui, u := range users {
		if in.OnlyUser != nil && ui != *in.OnlyUser {
			continue
		}
		row := in.Listing[ui]
		for _, ddb := range []string{"", "d1", "d2"} {
			for _, what := range []string{"databases", "cqs", "measurements"} {
				qtxt := map[string]string{"databases": "SHOW DATABASES", "cqs": "SHOW CONTINUOUS QUERIES", "measurements": "SHOW MEASUREMENTS ON *.*"}[what]
				p := url.Values{"q": {qtxt}}
				if ddb != "" {
					p.Set("db", ddb)
				}
				r := httptest.NewRequest("GET", "/query?"+p.Encode(), nil)
				r.SetBasicAuth(u.Name(), u.Password())
				mu.Lock()
				touched = nil
				mu.Unlock()
				w := httptest.NewRecorder()
				node.h.ServeHTTP(w, r)
				nReq++
				if w.Code == 403 {
					continue // request-level authorization is the matrix's subject
				}
				var resp vhResp
				if w.Code != 200 || json.Unmarshal(w.Body.Bytes(), &resp) != nil || len(resp.Results) != 1 || resp.Results[0].Err != "" {
					vhInfra(t, "%s as %s: status %d body %.300s", qtxt, u.Name(), w.Code, w.Body.String())
				}
				var listed []string
				exp, may := row.Vis, row.MayVis
				switch what {
				case "databases":
					for _, sr := range resp.Results[0].Series {
						for _, v := range sr.Values {
							listed = append(listed, fmt.Sprint(v[0]))
						}
					}
				case "cqs":
					exp = row.Cqs
					for _, sr := range resp.Results[0].Series {
						listed = append(listed, sr.Name)
					}
				case "measurements":
					exp, may = row.Meas, row.MayMeas
					dbs := map[string]bool{}
					mu.Lock()
					for _, d := range touched {
						dbs[d] = true
					}
					mu.Unlock()
					for _, sr := range resp.Results[0].Series {
						for _, v := range sr.Values {
							if len(v) > 1 { // name, database, retention policy
								dbs[fmt.Sprint(v[1])] = true
							}
						}
					}
					for d := range dbs {
						listed = append(listed, d)
					}
				}
				nListed += len(listed)
				rp := map[string]interface{}{"listing": in.Listing, "only_user": ui}
				if !vhSubset(listed, may) {
					sig := "listing:" + what + ":leak"
					if authx.Report(seen, sig) {
						vtrace.Mismatch(sig, fmt.Sprintf("`%s` as %s (db=%q) mentions databases {%s}; the user holds grants for {%s} only", qtxt, u.Name(), ddb, vhSet(listed), vhSet(may)), rp)
					}
				} else if vhSet(listed) != vhSet(exp) {
					nDrift++
					if nDrift <= 3 {
						vtrace.Out(map[string]interface{}{"k": "drift", "detail": fmt.Sprintf("`%s` as %s (db=%q) lists {%s}, model expects {%s}", qtxt, u.Name(), ddb, vhSet(listed), vhSet(exp)), "replay": rp})
					}
				}
			}
		}
	}
	vtrace.Done("TestVerifAuthListing", map[string]interface{}{"requests": nReq, "listed": nListed, "drift": nDrift})
}
