package hh

// Processor-level harness: the real NodeProcessor (WriteShard / SendWrite) over the real queue with a
// scripted shard writer.  (a) sequential replay of HHQueueGen processor behaviours, (b) stress with a
// Go-side oracle: every WriteShard that returned nil is handed to the shard writer (at least once, in
// acceptance order) or is still in the queue after restart.

import (
	"errors"
	"fmt"
	"io"
	"os"
	"path/filepath"
	"runtime"
	"sort"
	"sync"
	"sync/atomic"
	"testing"
	"time"

	"github.com/influxdata/influxdb/models"
	"github.com/influxdata/influxdb/pkg/verifhook"
	"github.com/influxdata/influxdb/pkg/verifx/vtrace"
	"github.com/influxdata/influxdb/services/meta"
	"github.com/influxdata/influxdb/toml"
)

type vpMeta struct{ active int32 }

func (m *vpMeta) DataNode(id uint64) (*meta.NodeInfo, error) {
	if atomic.LoadInt32(&m.active) == 0 {
		return nil, meta.ErrNodeNotFound
	}
	return &meta.NodeInfo{ID: id}, nil
}

type vpWriter struct {
	mu      sync.Mutex
	outcome func(id int) error // scripted answer of the target node
	got     []int              // ids handed to the shard writer, in order
}

func vpPointID(b []byte) int {
	p, err := models.NewPointFromBytes(b)
	if err != nil {
		return -1
	}
	f, _ := p.Fields()
	v, _ := f["id"].(int64)
	return int(v)
}

func (w *vpWriter) WriteShardBinary(shardID, ownerID uint64, points [][]byte) error {
	w.mu.Lock()
	defer w.mu.Unlock()
	id := -1
	if len(points) > 0 {
		id = vpPointID(points[0])
	}
	w.got = append(w.got, id)
	if w.outcome != nil {
		return w.outcome(id)
	}
	return nil
}

func vpPoint(id int) models.Point {
	return models.MustNewPoint("m", models.NewTags(map[string]string{"t": fmt.Sprintf("v%d", id%7)}),
		models.Fields{"id": int64(id)}, time.Unix(int64(id), 0))
}

func vpNew(dir string, w *vpWriter, m *vpMeta) *NodeProcessor {
	cfg := NewConfig()
	cfg.RetryInterval = toml.Duration(24 * time.Hour) // the run loop never fires: the driver calls SendWrite itself
	cfg.RetryMaxInterval = toml.Duration(24 * time.Hour)
	cfg.PurgeInterval = toml.Duration(24 * time.Hour)
	return NewNodeProcessor(cfg, 2, 1, dir, w, m)
}

// vpBlockIDs reads the ids of the points of every pending block from the segment files.
func vpPendingOnDisk(dir string) ([]int, error) {
	ents, err := os.ReadDir(dir)
	if err != nil {
		return nil, err
	}
	type seg struct {
		id  int
		ids []int
	}
	var segs []seg
	for _, e := range ents {
		n := vhSegID(e.Name())
		if n == 0 {
			continue
		}
		b, err := os.ReadFile(filepath.Join(dir, e.Name()))
		if err != nil || len(b) < 8 {
			return nil, fmt.Errorf("segment %s unreadable", e.Name())
		}
		pos := int64(be64(b[len(b)-8:]))
		off := int64(0)
		var ids []int
		for off < int64(len(b))-8 {
			n := int64(be64(b[off : off+8]))
			if off+8+n > int64(len(b))-8 {
				return nil, fmt.Errorf("segment %s: bad block at %d", e.Name(), off)
			}
			if off >= pos {
				_, pts, err := unmarshalWrite(b[off+8 : off+8+n])
				if err != nil || len(pts) == 0 {
					return nil, fmt.Errorf("segment %s: undecodable block at %d", e.Name(), off)
				}
				ids = append(ids, vpPointID(pts[0]))
			}
			off += 8 + n
		}
		segs = append(segs, seg{n, ids})
	}
	sort.Slice(segs, func(i, j int) bool { return segs[i].id < segs[j].id })
	out := []int{}
	for _, s := range segs {
		out = append(out, s.ids...)
	}
	return out, nil
}

func be64(b []byte) uint64 {
	var v uint64
	for _, x := range b[:8] {
		v = v<<8 | uint64(x)
	}
	return v
}

var errRetry = errors.New("connection refused")
var errReject = errors.New("partial write: field type conflict")

// ---- (a) sequential replay of processor-level behaviours ------------------------------------------

func TestVerifHHReplayP(t *testing.T) {
	var in vhInput
	if err := vtrace.LoadJSON(os.Getenv("VERIF_IN"), &in); err != nil {
		t.Fatalf("input: %v", err)
	}
	steps := 0
	for bi, beh := range in.Behaviours {
		steps += vpReplay(t, in.Consts, beh)
		if bi < 1 {
			vtrace.Sample(map[string]interface{}{"processor_behaviour": beh})
		}
	}
	vtrace.Done("TestVerifHHReplayP", map[string]interface{}{"behaviours": len(in.Behaviours), "steps": steps})
}

func vpReplay(t *testing.T, consts map[string]int, beh []vhStep) (steps int) {
	root, _ := os.MkdirTemp(os.Getenv("VERIF_SCRATCH"), "hhp")
	defer os.RemoveAll(root)
	dir := filepath.Join(root, "p")
	w, m := &vpWriter{}, &vpMeta{active: 1}
	np := vpNew(dir, w, m)
	if err := np.Open(); err != nil {
		t.Fatal(err)
	}
	defer func() {
		if np != nil {
			np.Close()
		}
	}()
	mis := func(sig, detail string, i int) {
		vtrace.Mismatch(sig, detail, map[string]interface{}{"test": "P", "consts": consts, "behaviour": beh, "step": i})
	}
	for i, st := range beh {
		steps++
		switch st.A {
		case "append":
			err := np.WriteShard([]models.Point{vpPoint(st.ID)})
			if (err == nil) != (st.Res == "ok") {
				mis("proc:append:result", fmt.Sprintf("step %d WriteShard: err=%v, model %s", i, err, st.Res), i)
				return
			}
		case "sendok", "sendretry", "sendrej":
			want := st.ID
			w.mu.Lock()
			w.got = nil
			switch st.A {
			case "sendok":
				w.outcome = nil
			case "sendretry":
				w.outcome = func(int) error { return errRetry }
			case "sendrej":
				w.outcome = func(int) error { return errReject }
			}
			w.mu.Unlock()
			_, err := np.SendWrite()
			w.mu.Lock()
			got := append([]int{}, w.got...)
			w.mu.Unlock()
			if len(got) != 1 || got[0] != want {
				mis("proc:"+st.A+":sent", fmt.Sprintf("step %d SendWrite handed %v to the shard writer (err=%v), model: block %d", i, got, err, want), i)
				return
			}
		case "sendeof":
			w.mu.Lock()
			w.got = nil
			w.mu.Unlock()
			_, err := np.SendWrite()
			if err != io.EOF || len(w.got) != 0 {
				mis("proc:sendeof", fmt.Sprintf("step %d SendWrite on a drained head: err=%v sent=%v, model: EOF, nothing sent", i, err, w.got), i)
				return
			}
		case "close":
			if err := np.Close(); err != nil {
				mis("proc:close:error", fmt.Sprintf("step %d: %v", i, err), i)
				return
			}
		case "crash":
			// process death: no Close; the queue object is abandoned, descriptors dropped
			img := filepath.Join(root, fmt.Sprintf("img%d", i))
			if err := vtrace.CopyDir(dir, img); err != nil {
				t.Fatal(err)
			}
			np.Close()
			dir = img
		case "open":
			np = vpNew(dir, w, m)
			if err := np.Open(); err != nil {
				mis("proc:open:error", fmt.Sprintf("step %d: %v", i, err), i)
				return
			}
		case "setmax":
			continue // not part of the processor's API
		case "age":
			old := time.Now().Add(-2 * time.Duration(np.MaxAge))
			ents, _ := os.ReadDir(dir)
			for _, e := range ents {
				os.Chtimes(filepath.Join(dir, e.Name()), old, old)
			}
		case "purge":
			// exactly what NodeProcessor.run does on its purge tick
			if err := np.queue.PurgeOlderThan(time.Now().Add(-np.MaxAge)); err != nil {
				mis("proc:purge:error", fmt.Sprintf("step %d: %v", i, err), i)
				return
			}
		default:
			t.Fatalf("unknown action %q", st.A)
		}
		// what is pending must be exactly what the model says, in order (read back from the files)
		got, err := vpPendingOnDisk(dir)
		if err != nil {
			mis("proc:"+st.A+":unreadable", fmt.Sprintf("step %d after %s: %v", i, st.A, err), i)
			return
		}
		if !vhEqInts(got, st.St.Pending) {
			mis("proc:"+st.A+":pending", fmt.Sprintf("step %d after %s: pending on disk %v, model %v", i, st.A, got, st.St.Pending), i)
			return
		}
		if st.St.Open {
			if e := np.Empty(); e != st.St.Empty {
				mis(fmt.Sprintf("proc:empty:after-%s:got-%v", st.A, e), fmt.Sprintf("step %d after %s: Empty()=%v, pending %v", i, st.A, e, st.St.Pending), i)
			}
		}
	}
	return
}

// ---- (b) stress: concurrent WriteShard against the sender ------------------------------------------

func TestVerifHHProcStress(t *testing.T) {
	rounds := vtrace.EnvInt("VERIF_ROUNDS", 30)
	delivered := 0
	for r := 0; r < rounds; r++ {
		root, _ := os.MkdirTemp(os.Getenv("VERIF_SCRATCH"), "hhs")
		dir := filepath.Join(root, "p")
		w, m := &vpWriter{}, &vpMeta{active: 1}
		np := vpNew(dir, w, m)
		if err := np.Open(); err != nil {
			t.Fatal(err)
		}
		// acceptance order from the hook under the queue lock
		var rankMu sync.Mutex
		rank := map[int]int{}
		verifhook.Set(func(ev string, args ...interface{}) {
			if ev == "hh.append.locked" {
				_, pts, err := unmarshalWrite(args[1].([]byte))
				if err == nil && len(pts) > 0 {
					rankMu.Lock()
					rank[vpPointID(pts[0])] = len(rank) + 1
					rankMu.Unlock()
				}
			}
		})
		nW, per := 1+r%12, 40
		if r%3 == 0 {
			nW = 16
		}
		var wg sync.WaitGroup
		var okMu sync.Mutex
		ok := map[int]bool{}
		var stop int32
		var swg sync.WaitGroup
		swg.Add(1)
		go func() { // the sender: SendWrite in a loop, as NodeProcessor.run does when its timer fires
			defer swg.Done()
			for atomic.LoadInt32(&stop) == 0 {
				if _, err := np.SendWrite(); err != nil {
					runtime.Gosched()
				}
			}
		}()
		for a := 0; a < nW; a++ {
			wg.Add(1)
			go func(a int) {
				defer wg.Done()
				for k := 0; k < per; k++ {
					id := (a+1)*100000 + k
					if err := np.WriteShard([]models.Point{vpPoint(id)}); err == nil {
						okMu.Lock()
						ok[id] = true
						okMu.Unlock()
					}
					if k%8 == 0 {
						runtime.Gosched()
					}
				}
			}(a)
		}
		wg.Wait()
		atomic.StoreInt32(&stop, 1)
		swg.Wait()
		verifhook.Set(nil)
		if err := np.Close(); err != nil {
			t.Fatal(err)
		}
		// restart and drain
		np2 := vpNew(dir, w, m)
		if err := np2.Open(); err != nil {
			t.Fatal(err)
		}
		eofs := 0
		for i := 0; i < 100000 && eofs < 3; i++ {
			if _, err := np2.SendWrite(); err == io.EOF {
				eofs++
			} else {
				eofs = 0
			}
		}
		np2.Close()
		seen := map[int]bool{}
		last, problem := 0, ""
		for _, id := range w.got {
			seen[id] = true
			if rank[id] < last {
				problem = fmt.Sprintf("order: block %d (rank %d) handed to the shard writer after rank %d", id, rank[id], last)
			}
			last = rank[id]
		}
		var lost []int
		for id := range ok {
			if !seen[id] {
				lost = append(lost, id)
			}
		}
		sort.Ints(lost)
		if len(lost) > 0 {
			problem = fmt.Sprintf("lost: %d WriteShard calls returned nil but their points were never handed to the shard writer, before or after restart; first ids %v (writers=%d)", len(lost), lost[:min(5, len(lost))], nW)
		}
		delivered += len(w.got)
		os.RemoveAll(root)
		if problem != "" {
			vtrace.Mismatch("procstress:"+problem[:4], problem, map[string]interface{}{"test": "S", "round": r})
			break
		}
	}
	vtrace.Done("TestVerifHHProcStress", map[string]interface{}{"rounds": rounds, "delivered": delivered})
}

// ---- (c) batch bisection (specs/hhqueue/HHSplit.tla) -----------------------------------------------

type vsCase struct {
	Pts    []int   `json:"pts"`
	Blocks [][]int `json:"blocks"`
	Res    string  `json:"res"`
}

func TestVerifHHSplit(t *testing.T) {
	var in struct {
		Cases []vsCase `json:"cases"`
	}
	if err := vtrace.LoadJSON(os.Getenv("VERIF_IN"), &in); err != nil {
		t.Fatalf("input: %v", err)
	}
	const unit = 1 << 20
	const slack = 64 << 10
	if defaultSegmentSize != 10*unit {
		vtrace.Out(map[string]interface{}{"k": "error", "detail": "defaultSegmentSize changed; HHSplit constants must follow"})
		t.Fatalf("defaultSegmentSize = %d", defaultSegmentSize)
	}
	pad := make([]byte, 11*unit)
	for i := range pad {
		pad[i] = 'x'
	}
	for ci, c := range in.Cases {
		root, _ := os.MkdirTemp(os.Getenv("VERIF_SCRATCH"), "hhsplit")
		dir := filepath.Join(root, "p")
		w, m := &vpWriter{}, &vpMeta{active: 1}
		np := vpNew(dir, w, m)
		np.MaxSize = 1 << 40
		if err := np.Open(); err != nil {
			t.Fatal(err)
		}
		var pts []models.Point
		for k, s := range c.Pts {
			pts = append(pts, models.MustNewPoint("m", nil, models.Fields{"id": int64(k), "pad": string(pad[:s*unit-slack])}, time.Unix(int64(k), 0)))
		}
		err := np.WriteShard(pts)
		np.Close()
		res := "ok"
		if err == ErrSegmentFull {
			res = "segfull"
		} else if err != nil {
			res = "err:" + err.Error()
		}
		// read the blocks back from the segment files, in order
		var blocks [][]int
		ents, _ := os.ReadDir(dir)
		var names []int
		for _, e := range ents {
			if n := vhSegID(e.Name()); n > 0 {
				names = append(names, n)
			}
		}
		sort.Ints(names)
		bad := ""
		for _, n := range names {
			b, _ := os.ReadFile(filepath.Join(dir, fmt.Sprint(n)))
			off := int64(0)
			for off < int64(len(b))-8 {
				sz := int64(be64(b[off : off+8]))
				if sz > defaultSegmentSize {
					bad = fmt.Sprintf("block of %d bytes exceeds the segment size", sz)
				}
				_, raw, uerr := unmarshalWrite(b[off+8 : off+8+sz])
				if uerr != nil {
					bad = "undecodable block: " + uerr.Error()
					break
				}
				lo, hi := -1, -1
				for x, pb := range raw {
					id := vpPointID(pb)
					if x == 0 {
						lo = id
					} else if id != hi {
						bad = fmt.Sprintf("points out of order inside a block: %d after %d", id, hi-1)
					}
					hi = id + 1
				}
				blocks = append(blocks, []int{lo, hi})
				off += 8 + sz
			}
		}
		os.RemoveAll(root)
		if ci < 2 {
			vtrace.Sample(map[string]interface{}{"split_case": c, "real_blocks": blocks, "real_res": res})
		}
		same := len(blocks) == len(c.Blocks) && res == c.Res
		for k := 0; same && k < len(blocks); k++ {
			same = blocks[k][0] == c.Blocks[k][0] && blocks[k][1] == c.Blocks[k][1]
		}
		if bad != "" || !same {
			// property-level reading of the difference: are all points of an accepted batch queued, once, in order?
			sig := "note:split:layout"
			next := 0
			for _, b := range blocks {
				if b[0] != next {
					sig = "split:lost-or-reordered"
				}
				next = b[1]
			}
			if res == "ok" && next != len(c.Pts) {
				sig = "split:lost-or-reordered"
			}
			if (res == "segfull") != (c.Res == "segfull") {
				sig = "split:result"
			}
			if bad != "" {
				sig = "split:block"
			}
			vtrace.Mismatch(sig, fmt.Sprintf("batch sizes %v (MiB): real blocks %v res=%s %s; model blocks %v res=%s", c.Pts, blocks, res, bad, c.Blocks, c.Res),
				map[string]interface{}{"test": "SPLIT", "case": c})
		}
	}
	vtrace.Done("TestVerifHHSplit", map[string]interface{}{"cases": len(in.Cases)})
}

// ---- (d) service level (specs/hhqueue/HHService.tla): writers against the periodic purge of processors -------

func TestVerifHHServiceStress(t *testing.T) {
	rounds := vtrace.EnvInt("VERIF_ROUNDS", 12)
	delivered := 0
	for r := 0; r < rounds; r++ {
		root, _ := os.MkdirTemp(os.Getenv("VERIF_SCRATCH"), "hhsvc")
		w, m := &vpWriter{}, &vpMeta{active: 1}
		cfg := NewConfig()
		cfg.Dir = filepath.Join(root, "hh")
		cfg.PurgeInterval = toml.Duration(time.Duration(vtrace.EnvInt("VERIF_SVC_PURGE_US", 1000)) * time.Microsecond) // the purge pass runs constantly
		cfg.RetryInterval = toml.Duration(time.Duration(vtrace.EnvInt("VERIF_SVC_RETRY_US", 1000)) * time.Microsecond) // so does the sender: queues are mostly empty
		cfg.RetryMaxInterval = toml.Duration(5 * time.Millisecond)
		s := NewService(cfg, w)
		s.MetaClient = m
		if err := s.Open(); err != nil {
			t.Fatal(err)
		}
		var wg sync.WaitGroup
		var okMu sync.Mutex
		ok := map[int]bool{}
		for a := 0; a < 6; a++ {
			wg.Add(1)
			go func(a int) {
				defer wg.Done()
				for k := 0; k < 150; k++ {
					id := (a+1)*100000 + k
					shard, node := uint64(1+a%2), uint64(2+a%3)
					if err := s.WriteShard(shard, node, []models.Point{vpPoint(id)}); err == nil {
						okMu.Lock()
						ok[id] = true
						okMu.Unlock()
					}
					if k%3 == 0 {
						time.Sleep(200 * time.Microsecond) // pacing only: lets queues drain so that the purge sees them empty
					}
				}
			}(a)
		}
		wg.Wait()
		if err := s.Close(); err != nil {
			t.Fatal(err)
		}
		if os.Getenv("VERIF_DEBUG") != "" {
			n := 0
			for node := 2; node <= 4; node++ {
				for shard := 1; shard <= 2; shard++ {
					ids, err := vpPendingOnDisk(filepath.Join(cfg.Dir, fmt.Sprint(node), fmt.Sprint(shard)))
					n += len(ids)
					vtrace.Out(map[string]interface{}{"k": "debug", "when": "after-close-1", "node": node, "shard": shard, "pending": len(ids), "err": fmt.Sprint(err)})
				}
			}
			okMu.Lock()
			vtrace.Out(map[string]interface{}{"k": "debug", "when": "after-close-1", "total_pending": n, "acked": len(ok), "delivered": len(w.got)})
			okMu.Unlock()
		}
		// restart: everything still on disk is sent
		s2 := NewService(cfg, w)
		s2.MetaClient = m
		if err := s2.Open(); err != nil {
			t.Fatal(err)
		}
		deadline := time.Now().Add(20 * time.Second)
		for {
			drained := true
			for node := uint64(2); node <= 4; node++ {
				for shard := uint64(1); shard <= 2; shard++ {
					if !s2.Empty(shard, node) {
						drained = false
					}
				}
			}
			if drained || time.Now().After(deadline) {
				break
			}
			time.Sleep(2 * time.Millisecond)
		}
		s2.Close()
		w.mu.Lock()
		seen := map[int]bool{}
		for _, id := range w.got {
			seen[id] = true
		}
		delivered += len(w.got)
		w.mu.Unlock()
		// what is still queued on disk is not lost either
		onDisk := 0
		for node := 2; node <= 4; node++ {
			for shard := 1; shard <= 2; shard++ {
				ids, err := vpPendingOnDisk(filepath.Join(cfg.Dir, fmt.Sprint(node), fmt.Sprint(shard)))
				if err == nil {
					for _, id := range ids {
						seen[id] = true
						onDisk++
					}
				}
			}
		}
		var lost []int
		for id := range ok {
			if !seen[id] {
				lost = append(lost, id)
			}
		}
		sort.Ints(lost)
		os.RemoveAll(root)
		if len(lost) > 0 {
			vtrace.Mismatch("hhservice:lost", fmt.Sprintf("round %d: %d hinted writes were accepted by Service.WriteShard (node active the whole time) but were neither handed to the shard writer (before or after restart) nor are still queued on disk (%d are); first ids %v", r, len(lost), onDisk, lost[:min(5, len(lost))]),
				map[string]interface{}{"test": "SVC", "round": r})
			break
		}
	}
	vtrace.Done("TestVerifHHServiceStress", map[string]interface{}{"rounds": rounds, "delivered": delivered})
}
