package hh

// Verification harness for C12 (binary point form in hinted handoff), injected with `go test -overlay`.
// Batches of points parsed from the lines that the C12 generator rendered (and the real parser accepted) go
// through marshalWrite / unmarshalWrite / models.NewPointFromBytes: the batch must come back point for
// point; truncations and byte edits of the block must never panic.

import (
	"bufio"
	"encoding/hex"
	"fmt"
	"math/rand"
	"os"
	"strings"
	"testing"
	"time"

	"github.com/influxdata/influxdb/models"
	"github.com/influxdata/influxdb/pkg/verifx/vtrace"
)

type vhcInput struct {
	LinesFile string  `json:"lines_file"`
	Seed      int64   `json:"seed"`
	Batches   int     `json:"batches"`
	Batch     []vhcLn `json:"batch"` // replay: one batch
	Mut       []byte  `json:"mut"`   // replay: one mutated block
}

type vhcLn struct {
	Prec string `json:"prec"`
	Hex  string `json:"hex"`
}

func vhcDecode(block []byte) (ids uint64, pts []models.Point, err error, pv interface{}) {
	defer func() {
		if e := recover(); e != nil {
			pv = e
		}
	}()
	id, raw, err := unmarshalWrite(block)
	if err != nil {
		return id, nil, err, nil
	}
	for _, b := range raw {
		p, err := models.NewPointFromBytes(b)
		if err != nil {
			return id, pts, err, nil
		}
		// what the shard writer / store will do with it
		_ = p.Key()
		_ = p.Tags()
		_, _ = p.Fields()
		_ = p.String()
		pts = append(pts, p)
	}
	return id, pts, nil, nil
}

func TestVerifHHCodec(t *testing.T) {
	var in vhcInput
	if err := vtrace.LoadJSON(os.Getenv("VERIF_IN"), &in); err != nil {
		t.Fatal(err)
	}
	models.EnableUintSupport()
	now := time.Unix(0, 1500000000123456789).UTC()
	if in.Mut != nil {
		if _, _, _, pv := vhcDecode(in.Mut); pv != nil {
			vtrace.Mismatch("hhcodec:panic", fmt.Sprintf("decoding a damaged block panicked: %v", pv), map[string]interface{}{"test": "HHC", "mut": in.Mut})
		}
		vtrace.Done("TestVerifHHCodec", map[string]interface{}{"batches": 0})
		return
	}
	var all []vhcLn
	if in.Batch != nil {
		all = in.Batch
		in.Batches = 1
	} else {
		f, err := os.Open(in.LinesFile)
		if err != nil {
			t.Fatal(err)
		}
		sc := bufio.NewScanner(f)
		sc.Buffer(make([]byte, 1<<20), 1<<24)
		for sc.Scan() {
			parts := strings.SplitN(sc.Text(), " ", 2)
			if len(parts) == 2 {
				all = append(all, vhcLn{parts[0], parts[1]})
			}
		}
		f.Close()
	}
	if len(all) == 0 {
		t.Fatal("no lines")
	}
	rnd := rand.New(rand.NewSource(in.Seed))
	points, muts, reported := 0, 0, 0
	for b := 0; b < in.Batches; b++ {
		var batch []vhcLn
		if in.Batch != nil {
			batch = all
		} else {
			for n := 1 + rnd.Intn(8); n > 0; n-- {
				batch = append(batch, all[rnd.Intn(len(all))])
			}
		}
		var pts []models.Point
		for _, ln := range batch {
			raw, err := hex.DecodeString(ln.Hex)
			if err != nil {
				t.Fatal(err)
			}
			ps, err := models.ParsePointsWithPrecision(raw, now, ln.Prec)
			if err != nil || len(ps) != 1 {
				t.Fatalf("line %q no longer parses: %v", raw, err)
			}
			pts = append(pts, ps[0])
		}
		shard := rnd.Uint64()
		block := marshalWrite(shard, pts)
		id, got, err, pv := vhcDecode(block)
		bad := ""
		switch {
		case pv != nil:
			bad = fmt.Sprintf("panic: %v", pv)
		case err != nil:
			bad = fmt.Sprintf("error: %v", err)
		case id != shard:
			bad = fmt.Sprintf("shard id %d != %d", id, shard)
		case len(got) != len(pts):
			bad = fmt.Sprintf("%d points came back, %d went in", len(got), len(pts))
		default:
			for i := range pts {
				if string(got[i].Key()) != string(pts[i].Key()) || got[i].String() != pts[i].String() || got[i].UnixNano() != pts[i].UnixNano() || got[i].HashID() != pts[i].HashID() {
					bad = fmt.Sprintf("point %d changed: %q -> %q", i, pts[i].String(), got[i].String())
					break
				}
			}
		}
		points += len(pts)
		if bad != "" && reported < 3 {
			reported++
			vtrace.Mismatch("hhcodec:roundtrip", "marshalWrite/unmarshalWrite: "+bad, map[string]interface{}{"test": "HHC", "batch": batch})
		}
		if in.Batch != nil {
			break
		}
		// truncations at a few places and byte edits: an error or points, never a panic
		for k := 0; k < 24; k++ {
			m := append([]byte(nil), block...)
			switch k % 3 {
			case 0:
				m = m[:rnd.Intn(len(m))]
			case 1:
				m[rnd.Intn(len(m))] = byte(rnd.Intn(256))
			case 2:
				m[rnd.Intn(len(m))] = []byte{'"', '\\', ',', '=', ' ', 0, 0xff}[rnd.Intn(7)]
			}
			muts++
			if _, _, _, pv := vhcDecode(m); pv != nil && reported < 3 {
				reported++
				vtrace.Mismatch("hhcodec:panic", fmt.Sprintf("decoding a damaged block panicked: %v", pv), map[string]interface{}{"test": "HHC", "mut": m})
			}
		}
	}
	vtrace.Done("TestVerifHHCodec", map[string]interface{}{"batches": in.Batches, "points": points, "mutations": muts})
}
