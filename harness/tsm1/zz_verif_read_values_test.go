package tsm1

// Verification harness helpers shared by the C02 (read replay) and C09 (compaction layouts) drivers:
// instantiation of the models' abstract values, types and times as concrete extreme representatives.
// Injected with `go test -overlay`, never part of the repository.

import (
	"fmt"
	"math"
	"strings"

	"github.com/influxdata/influxdb/models"
)

const (
	vvFloat = iota
	vvInteger
	vvUnsigned
	vvString
	vvBoolean
)

var vvTypeNames = []string{"float", "integer", "unsigned", "string", "boolean"}

var vvLongString = strings.Repeat("x", 300)

// vvValue maps an abstract model value v (small integer) to a concrete field value of the type.
// alt selects a second family of representatives; sub > 0 is the position inside a scaled run of points
// (one model point blown up to many real points) and yields ordinary values derived from (v, sub).
// Distinct abstract values map to distinguishable concrete values (booleans: only modulo 2).
func vvValue(typ, v, sub int, alt bool) interface{} {
	if sub > 0 {
		switch typ {
		case vvFloat:
			return float64(v*100000+sub) + 0.25
		case vvInteger:
			return int64(v*100000 + sub)
		case vvUnsigned:
			return uint64(v*100000 + sub)
		case vvString:
			return fmt.Sprintf("%d-%d", v, sub)
		default:
			return (v+sub)%2 == 1
		}
	}
	v = ((v % 3) + 3) % 3
	switch typ {
	case vvFloat:
		if alt {
			return []float64{-math.MaxFloat64, math.SmallestNonzeroFloat64, 1.5}[v]
		}
		return []float64{math.Copysign(0, -1), 0, math.MaxFloat64}[v]
	case vvInteger:
		if alt {
			return []int64{-1, 1, 42}[v]
		}
		return []int64{math.MinInt64, 0, math.MaxInt64}[v]
	case vvUnsigned:
		if alt {
			return []uint64{1, 2, 1 << 63}[v]
		}
		return []uint64{0, math.MaxUint64, math.MaxInt64}[v]
	case vvString:
		if alt {
			return []string{"a b,c=d\"e\\", "é\x00", "0"}[v]
		}
		return []string{"", "a", vvLongString}[v]
	default:
		return v%2 == 1
	}
}

// vvEqual compares two field values exactly (floats by bit pattern: -0 and +0 differ).
func vvEqual(a, b interface{}) bool {
	fa, oka := a.(float64)
	fb, okb := b.(float64)
	if oka || okb {
		return oka && okb && math.Float64bits(fa) == math.Float64bits(fb)
	}
	return a == b
}

func vvFmt(v interface{}) string {
	switch x := v.(type) {
	case float64:
		return fmt.Sprintf("f%016x", math.Float64bits(x))
	case string:
		if len(x) > 12 {
			return fmt.Sprintf("s%d:%q..", len(x), x[:8])
		}
		return fmt.Sprintf("%q", x)
	}
	return fmt.Sprintf("%v", v)
}

// vvNewValue builds a tsm1.Value of the dynamic type of v.
func vvNewValue(t int64, v interface{}) Value {
	switch x := v.(type) {
	case float64:
		return NewFloatValue(t, x)
	case int64:
		return NewIntegerValue(t, x)
	case uint64:
		return NewUnsignedValue(t, x)
	case string:
		return NewStringValue(t, x)
	case bool:
		return NewBooleanValue(t, x)
	}
	panic(fmt.Sprintf("vvNewValue: unsupported %T", v))
}

// vvTimeMaps: monotone maps from model time 0..n-1 to concrete nanosecond timestamps.
// Model time 0 of "plain" is the Unix epoch; "extreme" touches both ends of the representable range.
var vvTimeMapNames = []string{"plain", "extreme", "seconds", "negative"}

func vvTimeMap(name string, n int) []int64 {
	out := make([]int64, n)
	for i := 0; i < n; i++ {
		switch name {
		case "plain":
			out[i] = int64(i)
		case "seconds":
			out[i] = int64(i) * 1e9
		case "negative":
			out[i] = int64(i) - int64(n/2)
		case "extreme":
			switch {
			case i == 0:
				out[i] = models.MinNanoTime
			case i == 1 && n >= 4:
				out[i] = models.MinNanoTime + 1
			case i == n-1:
				out[i] = models.MaxNanoTime
			case i == n-2 && n >= 4:
				out[i] = models.MaxNanoTime - 1
			default:
				out[i] = int64(i) - int64(n/2)
			}
		default:
			panic("unknown time map " + name)
		}
	}
	return out
}

// vvPoint is one concrete (time, value) pair.
type vvPoint struct {
	T int64
	V interface{}
}

func vvFmtPoints(ps []vvPoint) string {
	var sb strings.Builder
	sb.WriteByte('[')
	for i, p := range ps {
		if i > 0 {
			sb.WriteByte(' ')
		}
		if i >= 12 {
			fmt.Fprintf(&sb, "...%d more", len(ps)-i)
			break
		}
		fmt.Fprintf(&sb, "%d:%s", p.T, vvFmt(p.V))
	}
	sb.WriteByte(']')
	return sb.String()
}

func vvEqualPoints(a, b []vvPoint) bool {
	if len(a) != len(b) {
		return false
	}
	for i := range a {
		if a[i].T != b[i].T || !vvEqual(a[i].V, b[i].V) {
			return false
		}
	}
	return true
}

// vvFromValues converts tsm1 values.
func vvFromValues(vs []Value) []vvPoint {
	out := make([]vvPoint, 0, len(vs))
	for _, v := range vs {
		out = append(out, vvPoint{v.UnixNano(), v.Value()})
	}
	return out
}
