package tsm1

// Verification harness for C13 (injected with `go test -overlay`, never part of the repository).
//
// WAL framing: cases enumerated by TLC from specs/walframe/WalFrame.tla (frames, cut, expected replay) are
// built with the real WALSegmentWriter, cut, and replayed with the real WALSegmentReader and CacheLoader;
// in addition seeded segments of arbitrary entry mixes are cut at EVERY byte offset.
// Block codecs: cases enumerated by TLC from specs/blockcodec/BlockCodec.tla (type, length class, timestamp
// shape, value shape, predicted scheme) are instantiated with seeded sequences, encoded with every encoder
// (Values.Encode, <T>Values.Encode, Encode<T>ArrayBlock) and decoded with every decoder (DecodeBlock,
// Decode<T>Block, Decode<T>ArrayBlock): bit for bit equality, including timestamps.

import (
	"bytes"
	"encoding/binary"
	"fmt"
	"hash/fnv"
	"io/ioutil"
	"math"
	"math/rand"
	"os"
	"path/filepath"
	"sort"
	"strings"
	"testing"

	"github.com/golang/snappy"
	"github.com/influxdata/influxdb/pkg/verifx/vtrace"
	"github.com/influxdata/influxdb/tsdb"
)

// ---------------------------------------------------------------------------------------------- WAL

type vcFrame struct {
	Type string `json:"type"`
	Plen int    `json:"plen"`
	Bad  string `json:"bad"`
}

type vcWalCase struct {
	Frames  []vcFrame `json:"frames"`
	Cut     int       `json:"cut"`
	Entries int       `json:"entries"`
	Count   int       `json:"count"`
	Status  string    `json:"status"`
	Idx     int       `json:"idx"`
}

type vcWalInput struct {
	Cases     []vcWalCase `json:"cases"`
	Seed      int64       `json:"seed"`
	Segments  int         `json:"segments"`   // every-byte part: number of seeded segments
	MaxEnt    int         `json:"max_ent"`    // entries per segment
	MaxVals   int         `json:"max_vals"`   // values per key
	LoaderMod int         `json:"loader_mod"` // run the CacheLoader on every LoaderMod-th cut (1: all)
	// replay of one case: the bytes and frame bounds of the original run (the encoding of a WriteWALEntry
	// follows Go's map order, so re-encoding would move the offsets); the entries are regenerated from the seed
	Data   []byte   `json:"data"`
	Bounds [][2]int `json:"bounds"`
	CCut   *int     `json:"ccut"`
	Seg    *struct {
		Seed int64 `json:"seed"`
		Idx  int   `json:"idx"`
		Cut  int   `json:"cut"`
	} `json:"seg"`
}

type vcNopCloser struct{ *bytes.Buffer }

func (vcNopCloser) Close() error { return nil }

// vcEntry is the harness' own record of what was put into a frame (nil entry: undecodable frame).
type vcEntry struct {
	e     WALEntry
	start int // offset of the frame
	end   int
	hdr   int // header length (5)
}

func vcRandKey(rnd *rand.Rand, typ string) string {
	// the key carries its field type so that one key never changes type inside a segment
	return fmt.Sprintf("m%d,t=%c#!~#%s%d", rnd.Intn(3), 'a'+rune(rnd.Intn(3)), typ, rnd.Intn(2))
}

func vcRandValue(rnd *rand.Rand, typ string, t int64) Value {
	switch typ {
	case "f":
		return NewFloatValue(t, math.Float64frombits(rnd.Uint64()))
	case "i":
		return NewIntegerValue(t, int64(rnd.Uint64()))
	case "u":
		return NewUnsignedValue(t, rnd.Uint64())
	case "b":
		return NewBooleanValue(t, rnd.Intn(2) == 0)
	}
	n := []int{0, 1, 3, 17, 300}[rnd.Intn(5)]
	b := make([]byte, n)
	rnd.Read(b)
	return NewStringValue(t, string(b))
}

func vcRandWrite(rnd *rand.Rand, maxVals int) *WriteWALEntry {
	w := &WriteWALEntry{Values: map[string][]Value{}}
	for k := 1 + rnd.Intn(3); k > 0; k-- {
		typ := []string{"f", "i", "u", "b", "s"}[rnd.Intn(5)]
		key := vcRandKey(rnd, typ)
		if _, ok := w.Values[key]; ok {
			continue
		}
		n := 1 + rnd.Intn(maxVals)
		t := []int64{0, -5, 1500000000000000000, math.MinInt64 + 2, math.MaxInt64 - 2000}[rnd.Intn(5)]
		for i := 0; i < n; i++ {
			w.Values[key] = append(w.Values[key], vcRandValue(rnd, typ, t))
			t += 1 + int64(rnd.Intn(3))
		}
	}
	return w
}

func vcRandKeys(rnd *rand.Rand) [][]byte {
	var ks [][]byte
	for k := 1 + rnd.Intn(3); k > 0; k-- {
		ks = append(ks, []byte(vcRandKey(rnd, []string{"f", "i", "u", "b", "s"}[rnd.Intn(5)])))
	}
	return ks
}

func vcRandEntry(rnd *rand.Rand, typ string, maxVals int) WALEntry {
	switch typ {
	case "write":
		return vcRandWrite(rnd, maxVals)
	case "delete":
		return &DeleteWALEntry{Keys: vcRandKeys(rnd)}
	}
	min := []int64{math.MinInt64, -5, 0, 1500000000000000000}[rnd.Intn(4)]
	return &DeleteRangeWALEntry{Keys: vcRandKeys(rnd), Min: min, Max: min + int64(rnd.Intn(10))}
}

// vcWriteFrame appends one frame with the real segment writer, the way WAL.writeToLog does.
func vcWriteFrame(w *WALSegmentWriter, e WALEntry, bad string, rnd *rand.Rand) error {
	raw, err := e.Encode(make([]byte, e.MarshalSize()))
	if err != nil {
		return err
	}
	typ := e.Type()
	switch bad {
	case "entry":
		// a body that cannot be unmarshalled (DeleteWALEntry accepts any body: handled by the caller)
		switch e.(type) {
		case *WriteWALEntry:
			raw = raw[:len(raw)-1] // the last value is incomplete whatever the (random) key order was
		case *DeleteRangeWALEntry:
			raw = raw[:8+rnd.Intn(8)]
		}
	case "type":
		typ = WalEntryType(0x7f)
	}
	compressed := snappy.Encode(nil, raw)
	if bad == "snappy" {
		compressed = bytes.Repeat([]byte{0xff}, 3+rnd.Intn(20)) // not a snappy block (length varint overflows)
	}
	return w.Write(typ, compressed)
}

func vcSameValue(a, b Value) bool {
	if a.UnixNano() != b.UnixNano() {
		return false
	}
	switch x := a.(type) {
	case FloatValue:
		y, ok := b.(FloatValue)
		return ok && math.Float64bits(x.value) == math.Float64bits(y.value)
	case IntegerValue:
		y, ok := b.(IntegerValue)
		return ok && x.value == y.value
	case UnsignedValue:
		y, ok := b.(UnsignedValue)
		return ok && x.value == y.value
	case BooleanValue:
		y, ok := b.(BooleanValue)
		return ok && x.value == y.value
	case StringValue:
		y, ok := b.(StringValue)
		return ok && x.value == y.value
	}
	return false
}

func vcSameKeys(a, b [][]byte) bool {
	if len(a) != len(b) {
		return false
	}
	for i := range a {
		if !bytes.Equal(a[i], b[i]) {
			return false
		}
	}
	return true
}

func vcSameEntry(a, b WALEntry) string {
	switch x := a.(type) {
	case *WriteWALEntry:
		y, ok := b.(*WriteWALEntry)
		if !ok {
			return fmt.Sprintf("type %T != %T", a, b)
		}
		if len(x.Values) != len(y.Values) {
			return fmt.Sprintf("%d keys != %d keys", len(x.Values), len(y.Values))
		}
		for k, vs := range x.Values {
			ws := y.Values[k]
			if len(vs) != len(ws) {
				return fmt.Sprintf("key %q: %d values != %d", k, len(vs), len(ws))
			}
			for i := range vs {
				if !vcSameValue(vs[i], ws[i]) {
					return fmt.Sprintf("key %q value %d: %v != %v", k, i, vs[i], ws[i])
				}
			}
		}
	case *DeleteWALEntry:
		y, ok := b.(*DeleteWALEntry)
		if !ok {
			return fmt.Sprintf("type %T != %T", a, b)
		}
		if !vcSameKeys(x.Keys, y.Keys) {
			return fmt.Sprintf("delete keys %q != %q", x.Keys, y.Keys)
		}
	case *DeleteRangeWALEntry:
		y, ok := b.(*DeleteRangeWALEntry)
		if !ok {
			return fmt.Sprintf("type %T != %T", a, b)
		}
		if !vcSameKeys(x.Keys, y.Keys) || x.Min != y.Min || x.Max != y.Max {
			return fmt.Sprintf("delete range %q [%d,%d] != %q [%d,%d]", x.Keys, x.Min, x.Max, y.Keys, y.Min, y.Max)
		}
	}
	return ""
}

type vcReplay struct {
	entries []WALEntry
	count   int64
	status  string // "eof" | "error"
	err     error
	panic   interface{}
}

// vcRead replays bytes with the real segment reader the way CacheLoader.Load drives it.
func vcRead(data []byte) (r vcReplay) {
	defer func() {
		if e := recover(); e != nil {
			r.panic = e
		}
	}()
	rd := NewWALSegmentReader(ioutil.NopCloser(bytes.NewReader(data)))
	defer rd.Close()
	r.status = "eof"
	for guard := 0; rd.Next(); guard++ {
		e, err := rd.Read()
		if err != nil {
			r.status, r.err = "error", err
			break
		}
		r.entries = append(r.entries, e)
		if guard > 1<<20 {
			panic("reader does not terminate")
		}
	}
	r.count = rd.Count()
	return
}

// vcModelStore is the oracle for the cache contents after a replay: key -> time -> value.
type vcModelStore map[string]map[int64]Value

func (m vcModelStore) apply(e WALEntry) {
	switch x := e.(type) {
	case *WriteWALEntry:
		for k, vs := range x.Values {
			if m[k] == nil {
				m[k] = map[int64]Value{}
			}
			for _, v := range vs {
				m[k][v.UnixNano()] = v
			}
		}
	case *DeleteWALEntry:
		for _, k := range x.Keys {
			delete(m, string(k))
		}
	case *DeleteRangeWALEntry:
		for _, k := range x.Keys {
			for t := range m[string(k)] {
				if t >= x.Min && t <= x.Max {
					delete(m[string(k)], t)
				}
			}
			if len(m[string(k)]) == 0 {
				delete(m, string(k))
			}
		}
	}
}

// vcLoader runs the real CacheLoader on a file holding data; returns a description of a deviation or "".
func vcLoader(dir string, data []byte, want []WALEntry, wantSize int) (bad string, pv interface{}) {
	defer func() {
		if e := recover(); e != nil {
			pv = e
		}
	}()
	p := filepath.Join(dir, "_00001.wal")
	if err := ioutil.WriteFile(p, data, 0644); err != nil {
		return "infra: " + err.Error(), nil
	}
	cache := NewCache(0)
	if err := NewCacheLoader([]string{p}).Load(cache); err != nil {
		return fmt.Sprintf("CacheLoader.Load returned an error (the good prefix is lost to the caller): %v", err), nil
	}
	st, err := os.Stat(p)
	if err != nil {
		return "infra: " + err.Error(), nil
	}
	if int(st.Size()) != wantSize {
		return fmt.Sprintf("segment is %d bytes after the load, expected %d (end of the last complete entry)", st.Size(), wantSize), nil
	}
	model := vcModelStore{}
	for _, e := range want {
		model.apply(e)
	}
	keys := cache.Keys()
	if len(keys) != len(model) {
		return fmt.Sprintf("cache has %d keys, expected %d", len(keys), len(model)), nil
	}
	for _, k := range keys {
		mv := model[string(k)]
		got := cache.Values(k)
		if len(got) != len(mv) {
			return fmt.Sprintf("cache key %q has %d values, expected %d", k, len(got), len(mv)), nil
		}
		for _, v := range got {
			if w, ok := mv[v.UnixNano()]; !ok || !vcSameValue(v, w) {
				return fmt.Sprintf("cache key %q at %d holds %v, expected %v", k, v.UnixNano(), v, w), nil
			}
		}
	}
	return "", nil
}

type vcWalChecker struct {
	seen     map[string]int
	counters map[string]int
	dir      string
}

func (c *vcWalChecker) mismatch(sig, detail string, rp map[string]interface{}) {
	c.seen[sig]++
	if c.seen[sig] == 1 && len(c.seen) <= 6 {
		vtrace.Mismatch(sig, detail, rp)
	}
}

// check compares one replay of data[:cut] with the expectation.
func (c *vcWalChecker) check(kind string, data []byte, cut int, ents []vcEntry, wantN int, wantStatus string, loader bool, rp map[string]interface{}, where string) {
	rp["data"], rp["ccut"] = data, cut
	var bounds [][2]int
	for _, e := range ents {
		bounds = append(bounds, [2]int{e.start, e.end})
	}
	rp["bounds"] = bounds
	wantCount := 0
	if wantN > 0 {
		wantCount = ents[wantN-1].end
	}
	r := vcRead(data[:cut])
	c.counters["replays"]++
	switch {
	case r.panic != nil:
		c.mismatch("wal:"+kind+":panic:"+where, fmt.Sprintf("reader panicked at cut %d: %v", cut, r.panic), rp)
		return
	case len(r.entries) < wantN:
		c.mismatch("wal:"+kind+":lost:"+where, fmt.Sprintf("cut %d: %d entries replayed, %d complete entries lie before the cut (status %s, err %v)", cut, len(r.entries), wantN, r.status, r.err), rp)
		return
	case len(r.entries) > wantN:
		c.mismatch("wal:"+kind+":extra:"+where, fmt.Sprintf("cut %d: %d entries replayed but only %d complete decodable entries lie before the cut", cut, len(r.entries), wantN), rp)
		return
	}
	for i, e := range r.entries {
		if d := vcSameEntry(ents[i].e, e); d != "" {
			c.mismatch("wal:"+kind+":changed:"+where, fmt.Sprintf("cut %d: entry %d came back changed: %s", cut, i, d), rp)
			return
		}
	}
	if int(r.count) != wantCount {
		c.mismatch("wal:"+kind+":count:"+where, fmt.Sprintf("cut %d: Count() = %d, expected %d (end of the last replayed entry)", cut, r.count, wantCount), rp)
	}
	if r.status != wantStatus {
		c.mismatch("wal:"+kind+":status:"+where, fmt.Sprintf("cut %d: reader ended with %s (err %v), expected %s", cut, r.status, r.err, wantStatus), rp)
	}
	if loader {
		var want []WALEntry
		for i := 0; i < wantN; i++ {
			want = append(want, ents[i].e)
		}
		c.counters["loader_runs"]++
		bad, pv := vcLoader(c.dir, data[:cut], want, wantCount)
		if pv != nil {
			c.mismatch("wal:"+kind+":loader-panic:"+where, fmt.Sprintf("CacheLoader panicked at cut %d: %v", cut, pv), rp)
		} else if strings.HasPrefix(bad, "infra:") {
			panic(bad)
		} else if bad != "" {
			c.mismatch("wal:"+kind+":loader:"+where, fmt.Sprintf("cut %d: %s", cut, bad), rp)
		}
	}
}

func vcWhere(ents []vcEntry, cut int) string {
	for _, e := range ents {
		if cut > e.start && cut < e.end {
			t := "undecodable"
			switch e.e.(type) {
			case *WriteWALEntry:
				t = "write"
			case *DeleteWALEntry:
				t = "delete"
			case *DeleteRangeWALEntry:
				t = "deleteRange"
			}
			if cut-e.start < e.hdr {
				return t + "-header"
			}
			return t + "-payload"
		}
	}
	return "boundary"
}

// vcBuildModelCase builds the concrete segment of a TLC case; returns data, entries and the concrete cut.
func vcBuildModelCase(cs *vcWalCase, seed int64) ([]byte, []vcEntry, int, error) {
	rnd := rand.New(rand.NewSource(seed*7919 + int64(cs.Idx)))
	buf := &bytes.Buffer{}
	w := NewWALSegmentWriter(vcNopCloser{buf})
	var ents []vcEntry
	for _, f := range cs.Frames {
		e := vcRandEntry(rnd, f.Type, 4)
		bad := f.Bad
		if bad == "entry" && f.Type == "delete" {
			bad = "snappy" // every body is a valid DeleteWALEntry: use the other way of being undecodable
		}
		start := buf.Len()
		if err := vcWriteFrame(w, e, bad, rnd); err != nil {
			return nil, nil, 0, err
		}
		if err := w.Flush(); err != nil {
			return nil, nil, 0, err
		}
		ve := vcEntry{e: e, start: start, end: buf.Len(), hdr: 5}
		if bad != "none" {
			ve.e = nil
		}
		ents = append(ents, ve)
	}
	// abstract cut -> concrete offset
	pos, cut := 0, -1
	for i, f := range cs.Frames {
		size := 5 + f.Plen
		if cs.Cut <= pos+size {
			r := cs.Cut - pos
			L := ents[i].end - ents[i].start - 5
			switch {
			case r <= 5:
				cut = ents[i].start + r
			case r == size:
				cut = ents[i].end
			case r == 6: // first payload byte(s)
				cut = ents[i].start + 5 + 1
				if L < 2 {
					cut = ents[i].start + 5
				}
			default: // all but the last byte
				cut = ents[i].end - 1
			}
			break
		}
		pos += size
	}
	if cut < 0 {
		return nil, nil, 0, fmt.Errorf("cut %d outside the segment", cs.Cut)
	}
	return buf.Bytes(), ents, cut, nil
}

// vcBuildRandomSegment: arbitrary entry mix for the every-byte part.
func vcBuildRandomSegment(seed int64, idx, maxEnt, maxVals int) ([]byte, []vcEntry, error) {
	rnd := rand.New(rand.NewSource(seed*104729 + int64(idx)))
	buf := &bytes.Buffer{}
	w := NewWALSegmentWriter(vcNopCloser{buf})
	var ents []vcEntry
	for k := 1 + rnd.Intn(maxEnt); k > 0; k-- {
		typ := []string{"write", "write", "write", "delete", "deleteRange"}[rnd.Intn(5)]
		e := vcRandEntry(rnd, typ, maxVals)
		start := buf.Len()
		if err := vcWriteFrame(w, e, "none", rnd); err != nil {
			return nil, nil, err
		}
		if err := w.Flush(); err != nil {
			return nil, nil, err
		}
		ents = append(ents, vcEntry{e: e, start: start, end: buf.Len(), hdr: 5})
	}
	return buf.Bytes(), ents, nil
}

func TestVerifWalFrame(t *testing.T) {
	var in vcWalInput
	if err := vtrace.LoadJSON(os.Getenv("VERIF_IN"), &in); err != nil {
		t.Fatal(err)
	}
	dir, err := ioutil.TempDir(os.Getenv("VERIF_SCRATCH"), "c13wal")
	if err != nil {
		t.Fatal(err)
	}
	defer os.RemoveAll(dir)
	c := &vcWalChecker{seen: map[string]int{}, counters: map[string]int{}, dir: dir}
	if in.LoaderMod == 0 {
		in.LoaderMod = 1
	}
	classes := map[string]bool{}
	// 1. the cases of the model
	for i := range in.Cases {
		cs := &in.Cases[i]
		if cs.Idx == 0 {
			cs.Idx = i + 1
		}
		data, ents, cut, err := vcBuildModelCase(cs, in.Seed)
		if err != nil {
			t.Fatal(err)
		}
		if in.Data != nil && len(in.Cases) == 1 && len(in.Bounds) == len(ents) && in.CCut != nil {
			data, cut = in.Data, *in.CCut
			for j := range ents {
				ents[j].start, ents[j].end = in.Bounds[j][0], in.Bounds[j][1]
			}
		}
		c.counters["model_cases"]++
		where := vcWhere(ents, cut)
		var fs []string
		for _, f := range cs.Frames {
			fs = append(fs, f.Type+"/"+f.Bad)
		}
		classes[strings.Join(fs, ",")+"@"+where+fmt.Sprint(cs.Entries)] = true
		c.check("model", data, cut, ents, cs.Entries, cs.Status, true, map[string]interface{}{"test": "WALM", "case": cs, "seed": in.Seed}, where)
		if i < 2 {
			vtrace.Sample(map[string]interface{}{"wal_case": cs, "concrete_cut": cut, "segment_bytes": len(data)})
		}
	}
	// 2. every byte offset of seeded segments
	segs := make([]int, 0, in.Segments)
	for i := 0; i < in.Segments; i++ {
		segs = append(segs, i)
	}
	onlyCut := -1
	if in.Seg != nil {
		segs, onlyCut = []int{in.Seg.Idx}, in.Seg.Cut
		in.Seed = in.Seg.Seed
	}
	for _, idx := range segs {
		data, ents, err := vcBuildRandomSegment(in.Seed, idx, in.MaxEnt, in.MaxVals)
		if err != nil {
			t.Fatal(err)
		}
		if in.Data != nil && in.Seg != nil && len(in.Bounds) == len(ents) {
			data = in.Data
			for j := range ents {
				ents[j].start, ents[j].end = in.Bounds[j][0], in.Bounds[j][1]
			}
		}
		c.counters["segments"]++
		c.counters["segment_bytes"] += len(data)
		for cut := 0; cut <= len(data); cut++ {
			if onlyCut >= 0 && cut != onlyCut {
				continue
			}
			n := 0
			for n < len(ents) && ents[n].end <= cut {
				n++
			}
			status := "error"
			if (n == 0 && cut == 0) || (n > 0 && ents[n-1].end == cut) {
				status = "eof"
			}
			where := vcWhere(ents, cut)
			classes["seg@"+where] = true
			c.counters["cuts"]++
			c.check("everybyte", data, cut, ents, n, status, cut%in.LoaderMod == 0 || where == "boundary" || onlyCut >= 0,
				map[string]interface{}{"test": "WALE", "seg": map[string]interface{}{"seed": in.Seed, "idx": idx, "cut": cut},
					"max_ent": in.MaxEnt, "max_vals": in.MaxVals}, where)
		}
	}
	cnt := map[string]interface{}{"signatures": c.seen, "distinct_classes": len(classes)}
	for k, v := range c.counters {
		cnt[k] = v
	}
	vtrace.Done("TestVerifWalFrame", cnt)
	if len(c.seen) > 0 {
		t.Errorf("%d mismatch classes", len(c.seen))
	}
}

// ---------------------------------------------------------------------------------------------- blocks

type vcShape struct {
	K string `json:"k"`
	P int    `json:"p"`
}

type vcBlockCase struct {
	Type        string  `json:"type"`
	N           int     `json:"n"`
	Ts          vcShape `json:"ts"`
	Val         vcShape `json:"val"`
	TsScheme    string  `json:"tsScheme"`
	ValSchemeIt string  `json:"valSchemeIt"`
	ValSchemeBa string  `json:"valSchemeBa"`
	Ok          bool    `json:"ok"`
}

type vcBlockInput struct {
	Cases []vcBlockCase `json:"cases"`
	Seed  int64         `json:"seed"`
	Reps  int           `json:"reps"`
	Rep   int           `json:"rep"` // replay: only this repetition (1-based), 0: all
}

const vcLimit = uint64(1)<<60 - 1 // simple8b.MaxValue

func vcPow10(e int) uint64 {
	p := uint64(1)
	for ; e > 0; e-- {
		p *= 10
	}
	return p
}

// vcExactBits: a random value with exactly w significant bits (w >= 1).
func vcExactBits(rnd *rand.Rand, w int) uint64 {
	if w >= 64 {
		return rnd.Uint64() | 1<<63
	}
	return uint64(1)<<uint(w-1) | rnd.Uint64()&(uint64(1)<<uint(w-1)-1)
}

// vcDeltas produces n-1 unsigned deltas of the given shape ("ts" flavour: raw deltas; "int" flavour: zig-zag
// encoded deltas).  The shapes are those of BlockCodec.tla.
func vcDeltas(rnd *rand.Rand, s vcShape, n int) []uint64 {
	m := n - 1
	if m <= 0 {
		return nil
	}
	d := make([]uint64, m)
	small := func() uint64 { return 1 + uint64(rnd.Intn(1000)) }
	irregular := func() {
		for i := range d {
			d[i] = small()
		}
		if m >= 2 && d[0] == d[1] {
			d[1]++
		}
	}
	switch s.K {
	case "regular":
		c := []uint64{1, 3, 7, 11, 123}[rnd.Intn(5)] * vcPow10(s.P)
		for i := range d {
			d[i] = c
		}
	case "zeroDelta", "constant":
		// all zero
	case "descending":
		c := -int64(1 + rnd.Intn(1000))
		for i := range d {
			d[i] = uint64(c)
		}
	case "oneOff":
		c := small() * 1000
		for i := range d {
			d[i] = c
		}
		pos := map[int]int{1: 0, 2: m / 2, 3: m - 1}[s.P]
		d[pos] = c + 1
	case "width":
		if s.P == 0 {
			// runs of ones for the 240- and 120-value selectors, broken by other values
			for i := range d {
				d[i] = 1
			}
			for _, p := range []int{240, 361, m - 1} {
				if p < m {
					d[p] = 3
				}
			}
		} else {
			for i := range d {
				d[i] = vcExactBits(rnd, s.P)
			}
			if s.P == 60 {
				d[rnd.Intn(m)] = vcLimit
			}
			if m >= 2 && d[0] == d[1] { // exactly one bit: all equal would be a run
				d[1] = d[0] ^ 1
				if s.P == 1 {
					d[1] = 0
				}
			}
		}
	case "scaled":
		p := vcPow10(s.P)
		for i := range d {
			d[i] = (1 + uint64(rnd.Intn(997))) * p
		}
		d[0] = 7 * p
		if m >= 2 {
			d[1] = 13 * p
		}
	case "atLimit":
		irregular()
		d[rnd.Intn(m)] = vcLimit
	case "overLimit":
		irregular()
		d[rnd.Intn(m)] = vcLimit + 1
	case "hugeDelta":
		irregular()
		d[rnd.Intn(m)] = vcExactBits(rnd, 61+rnd.Intn(4))
	case "unsorted":
		irregular()
		d[rnd.Intn(m)] = uint64(-int64(1 + rnd.Intn(100000)))
	default: // "random", "firstHuge": small irregular
		irregular()
	}
	return d
}

func vcTimes(rnd *rand.Rand, s vcShape, n int) []int64 {
	ts := make([]int64, n)
	ts[0] = []int64{0, 1500000000000000000, -1000, 1}[rnd.Intn(4)]
	if s.K == "extremes" {
		for i := range ts {
			ts[i] = int64(rnd.Uint64() >> 2)
		}
		p := rnd.Intn(n - 1)
		ts[p], ts[p+1] = math.MinInt64, math.MaxInt64
		return ts
	}
	for i, d := range vcDeltas(rnd, s, n) {
		ts[i+1] = int64(uint64(ts[i]) + d)
	}
	return ts
}

func vcInts(rnd *rand.Rand, s vcShape, n int) []int64 {
	v := make([]int64, n)
	v[0] = int64(rnd.Intn(2001) - 1000)
	switch s.K {
	case "extremes":
		for i := range v {
			v[i] = []int64{math.MinInt64, math.MaxInt64}[i%2]
		}
		return v
	case "linear":
		step := int64(s.P) * int64(1+rnd.Intn(1000))
		for i := 1; i < n; i++ {
			v[i] = v[i-1] + step
		}
		return v
	case "firstHuge", "firstHugeLinear":
		v[0] = math.MaxInt64 - int64(rnd.Intn(1000))
		if rnd.Intn(2) == 0 {
			v[0] = math.MinInt64 + int64(rnd.Intn(1000))
		}
		if s.K == "firstHugeLinear" {
			for i := 1; i < n; i++ {
				v[i] = v[i-1] - 3 // wraps, as the encoder's subtraction does
			}
			return v
		}
	}
	// the deltas of vcDeltas are the zig-zag encoded ones here
	for i, z := range vcDeltas(rnd, s, n) {
		v[i+1] = v[i] + ZigZagDecode(z)
	}
	return v
}

func vcFloats(rnd *rand.Rand, s vcShape, n int) []float64 {
	v := make([]float64, n)
	finite := func() float64 {
		for {
			f := math.Float64frombits(rnd.Uint64())
			if !math.IsNaN(f) && !math.IsInf(f, 0) {
				return f
			}
		}
	}
	base := finite()
	for i := range v {
		switch s.K {
		case "constant":
			v[i] = base
		case "counting":
			v[i] = float64(i + 1)
		case "random":
			v[i] = finite()
		case "window": // changes confined to a few middle mantissa bits: the previous window is reused
			v[i] = math.Float64frombits(math.Float64bits(1.5) ^ uint64(rnd.Intn(1<<10))<<20)
		case "signFlip":
			v[i] = base
			if i%2 == 1 {
				v[i] = -base
			}
		case "lowBit": // XOR = 1: 63 leading zeros (clamped to 31), no trailing zeros
			v[i] = math.Float64frombits(math.Float64bits(base) ^ uint64(i%2))
		case "zeroes":
			v[i] = []float64{0, math.Copysign(0, -1), 0, 0}[rnd.Intn(4)]
		case "denormal":
			v[i] = math.Float64frombits(rnd.Uint64() & (1<<52 - 1))
		case "infinities":
			v[i] = []float64{math.Inf(1), math.Inf(-1), 1, math.Inf(1)}[rnd.Intn(4)]
		case "limits":
			v[i] = []float64{math.MaxFloat64, -math.MaxFloat64, math.SmallestNonzeroFloat64, -math.SmallestNonzeroFloat64, 0, math.Float64frombits(0x7fefffffffffffff ^ 1), math.Float64frombits(1<<63 | 1)}[rnd.Intn(7)]
		case "nan":
			v[i] = float64(i)
		}
	}
	if s.K == "nan" {
		v[rnd.Intn(n)] = math.NaN()
	}
	return v
}

func vcBools(rnd *rand.Rand, s vcShape, n int) []bool {
	v := make([]bool, n)
	for i := range v {
		switch s.K {
		case "allTrue":
			v[i] = true
		case "alternate":
			v[i] = i%2 == 0
		case "random":
			v[i] = rnd.Intn(2) == 0
		}
	}
	return v
}

func vcStrings(rnd *rand.Rand, s vcShape, n int) []string {
	v := make([]string, n)
	rb := func(k int) string {
		b := make([]byte, k)
		rnd.Read(b)
		return string(b)
	}
	for i := range v {
		switch s.K {
		case "empty":
		case "short":
			v[i] = fmt.Sprintf("v%d", rnd.Intn(100000))
		case "mixed":
			v[i] = rb([]int{0, 1, 2, 7, 64, 300}[rnd.Intn(6)])
		case "long":
			v[i] = rb(65536 + rnd.Intn(3) - 1)
		case "nonutf8":
			v[i] = string([]byte{0xff, 0, 0xfe, byte(rnd.Intn(256))}) + rb(rnd.Intn(5))
		case "repetitive":
			v[i] = strings.Repeat("abc", rnd.Intn(2000))
		}
	}
	return v
}

type vcSeq struct {
	ts []int64
	f  []float64
	i  []int64
	u  []uint64
	b  []bool
	s  []string
}

func vcMakeSeq(cs *vcBlockCase, seed int64, rep int) *vcSeq {
	h := fnv.New64a()
	fmt.Fprintf(h, "%s|%d|%v|%v|%d|%d", cs.Type, cs.N, cs.Ts, cs.Val, seed, rep)
	rnd := rand.New(rand.NewSource(int64(h.Sum64())))
	q := &vcSeq{ts: vcTimes(rnd, cs.Ts, cs.N)}
	switch cs.Type {
	case "float":
		q.f = vcFloats(rnd, cs.Val, cs.N)
	case "integer":
		q.i = vcInts(rnd, cs.Val, cs.N)
	case "unsigned":
		for _, x := range vcInts(rnd, cs.Val, cs.N) {
			q.u = append(q.u, uint64(x))
		}
	case "boolean":
		q.b = vcBools(rnd, cs.Val, cs.N)
	case "string":
		q.s = vcStrings(rnd, cs.Val, cs.N)
	}
	return q
}

func (q *vcSeq) bitsAt(typ string, i int) string {
	switch typ {
	case "float":
		return fmt.Sprintf("%#x", math.Float64bits(q.f[i]))
	case "integer":
		return fmt.Sprint(q.i[i])
	case "unsigned":
		return fmt.Sprint(q.u[i])
	case "boolean":
		return fmt.Sprint(q.b[i])
	}
	if len(q.s[i]) > 40 {
		return fmt.Sprintf("string of %d bytes", len(q.s[i]))
	}
	return fmt.Sprintf("%q", q.s[i])
}

// vcEncode: the three encoders.  Inputs are copied: the batch encoders use them as scratch space.
func vcEncode(cs *vcBlockCase, q *vcSeq, enc string) (blk []byte, err error, pv interface{}) {
	defer func() {
		if e := recover(); e != nil {
			pv = e
		}
	}()
	n := len(q.ts)
	ts := append([]int64(nil), q.ts...)
	switch enc {
	case "values": // generic []Value -> encode<T>Block (iterator encoders)
		vs := make(Values, n)
		for i := 0; i < n; i++ {
			switch cs.Type {
			case "float":
				vs[i] = NewFloatValue(ts[i], q.f[i])
			case "integer":
				vs[i] = NewIntegerValue(ts[i], q.i[i])
			case "unsigned":
				vs[i] = NewUnsignedValue(ts[i], q.u[i])
			case "boolean":
				vs[i] = NewBooleanValue(ts[i], q.b[i])
			case "string":
				vs[i] = NewStringValue(ts[i], q.s[i])
			}
		}
		blk, err = vs.Encode(nil)
	case "typed": // <T>Values.Encode (encoding.gen.go)
		switch cs.Type {
		case "float":
			vs := make(FloatValues, n)
			for i := range vs {
				vs[i] = FloatValue{unixnano: ts[i], value: q.f[i]}
			}
			blk, err = vs.Encode(nil)
		case "integer":
			vs := make(IntegerValues, n)
			for i := range vs {
				vs[i] = IntegerValue{unixnano: ts[i], value: q.i[i]}
			}
			blk, err = vs.Encode(nil)
		case "unsigned":
			vs := make(UnsignedValues, n)
			for i := range vs {
				vs[i] = UnsignedValue{unixnano: ts[i], value: q.u[i]}
			}
			blk, err = vs.Encode(nil)
		case "boolean":
			vs := make(BooleanValues, n)
			for i := range vs {
				vs[i] = BooleanValue{unixnano: ts[i], value: q.b[i]}
			}
			blk, err = vs.Encode(nil)
		case "string":
			vs := make(StringValues, n)
			for i := range vs {
				vs[i] = StringValue{unixnano: ts[i], value: q.s[i]}
			}
			blk, err = vs.Encode(nil)
		}
	case "array": // Encode<T>ArrayBlock (batch encoders)
		switch cs.Type {
		case "float":
			blk, err = EncodeFloatArrayBlock(&tsdb.FloatArray{Timestamps: ts, Values: append([]float64(nil), q.f...)}, nil)
		case "integer":
			blk, err = EncodeIntegerArrayBlock(&tsdb.IntegerArray{Timestamps: ts, Values: append([]int64(nil), q.i...)}, nil)
		case "unsigned":
			blk, err = EncodeUnsignedArrayBlock(&tsdb.UnsignedArray{Timestamps: ts, Values: append([]uint64(nil), q.u...)}, nil)
		case "boolean":
			blk, err = EncodeBooleanArrayBlock(&tsdb.BooleanArray{Timestamps: ts, Values: append([]bool(nil), q.b...)}, nil)
		case "string":
			blk, err = EncodeStringArrayBlock(&tsdb.StringArray{Timestamps: ts, Values: append([]string(nil), q.s...)}, nil)
		}
	}
	return
}

// vcDecode: the three decoders; the result is brought into the vcSeq form.
func vcDecode(cs *vcBlockCase, blk []byte, dec string) (out *vcSeq, err error, pv interface{}) {
	defer func() {
		if e := recover(); e != nil {
			pv = e
		}
	}()
	out = &vcSeq{}
	blk = append([]byte(nil), blk...)
	switch dec {
	case "generic":
		var vs []Value
		vs, err = DecodeBlock(blk, nil)
		for _, v := range vs {
			out.ts = append(out.ts, v.UnixNano())
			switch x := v.(type) {
			case FloatValue:
				out.f = append(out.f, x.value)
			case IntegerValue:
				out.i = append(out.i, x.value)
			case UnsignedValue:
				out.u = append(out.u, x.value)
			case BooleanValue:
				out.b = append(out.b, x.value)
			case StringValue:
				out.s = append(out.s, x.value)
			}
		}
	case "typed":
		switch cs.Type {
		case "float":
			var a []FloatValue
			a, err = DecodeFloatBlock(blk, &a)
			for _, x := range a {
				out.ts, out.f = append(out.ts, x.unixnano), append(out.f, x.value)
			}
		case "integer":
			var a []IntegerValue
			a, err = DecodeIntegerBlock(blk, &a)
			for _, x := range a {
				out.ts, out.i = append(out.ts, x.unixnano), append(out.i, x.value)
			}
		case "unsigned":
			var a []UnsignedValue
			a, err = DecodeUnsignedBlock(blk, &a)
			for _, x := range a {
				out.ts, out.u = append(out.ts, x.unixnano), append(out.u, x.value)
			}
		case "boolean":
			var a []BooleanValue
			a, err = DecodeBooleanBlock(blk, &a)
			for _, x := range a {
				out.ts, out.b = append(out.ts, x.unixnano), append(out.b, x.value)
			}
		case "string":
			var a []StringValue
			a, err = DecodeStringBlock(blk, &a)
			for _, x := range a {
				out.ts, out.s = append(out.ts, x.unixnano), append(out.s, x.value)
			}
		}
	case "array":
		switch cs.Type {
		case "float":
			a := &tsdb.FloatArray{}
			err = DecodeFloatArrayBlock(blk, a)
			out.ts, out.f = a.Timestamps, a.Values
		case "integer":
			a := &tsdb.IntegerArray{}
			err = DecodeIntegerArrayBlock(blk, a)
			out.ts, out.i = a.Timestamps, a.Values
		case "unsigned":
			a := &tsdb.UnsignedArray{}
			err = DecodeUnsignedArrayBlock(blk, a)
			out.ts, out.u = a.Timestamps, a.Values
		case "boolean":
			a := &tsdb.BooleanArray{}
			err = DecodeBooleanArrayBlock(blk, a)
			out.ts, out.b = a.Timestamps, a.Values
		case "string":
			a := &tsdb.StringArray{}
			err = DecodeStringArrayBlock(blk, a)
			out.ts, out.s = a.Timestamps, a.Values
		}
	}
	return
}

// vcCompare: bit for bit.
func vcCompare(typ string, a, b *vcSeq) string {
	if len(a.ts) != len(b.ts) {
		return fmt.Sprintf("count: %d timestamps in, %d out", len(a.ts), len(b.ts))
	}
	for i := range a.ts {
		if a.ts[i] != b.ts[i] {
			return fmt.Sprintf("time: timestamp %d is %d, was %d", i, b.ts[i], a.ts[i])
		}
	}
	nv := map[string]int{"float": len(b.f), "integer": len(b.i), "unsigned": len(b.u), "boolean": len(b.b), "string": len(b.s)}[typ]
	if nv != len(a.ts) {
		return fmt.Sprintf("count: %d values in, %d out", len(a.ts), nv)
	}
	for i := range a.ts {
		same := true
		switch typ {
		case "float":
			same = math.Float64bits(a.f[i]) == math.Float64bits(b.f[i])
		case "integer":
			same = a.i[i] == b.i[i]
		case "unsigned":
			same = a.u[i] == b.u[i]
		case "boolean":
			same = a.b[i] == b.b[i]
		case "string":
			same = a.s[i] == b.s[i]
		}
		if !same {
			return fmt.Sprintf("value: value %d is %s, was %s", i, b.bitsAt(typ, i), a.bitsAt(typ, i))
		}
	}
	return ""
}

var vcSchemeNames = map[byte]string{0: "raw", 1: "packed", 2: "rle"}

func TestVerifBlockCodec(t *testing.T) {
	var in vcBlockInput
	if err := vtrace.LoadJSON(os.Getenv("VERIF_IN"), &in); err != nil {
		t.Fatal(err)
	}
	if in.Reps == 0 {
		in.Reps = 1
	}
	seen := map[string]int{}
	counters := map[string]int{}
	schemes := map[string]int{}
	classes := map[string]bool{}
	mismatch := func(sig, detail string, cs *vcBlockCase, rep int) {
		seen[sig]++
		if seen[sig] == 1 && len(seen) <= 6 {
			vtrace.Mismatch(sig, detail, map[string]interface{}{"test": "BLK", "case": cs, "seed": in.Seed, "rep": rep})
		}
	}
	for ci := range in.Cases {
		cs := &in.Cases[ci]
		shape := fmt.Sprintf("%s:n=%d:ts=%s.%d:val=%s.%d", cs.Type, cs.N, cs.Ts.K, cs.Ts.P, cs.Val.K, cs.Val.P)
		shapeNoN := fmt.Sprintf("%s:ts=%s.%d:val=%s.%d", cs.Type, cs.Ts.K, cs.Ts.P, cs.Val.K, cs.Val.P)
		classes[shape] = true
		for rep := 1; rep <= in.Reps; rep++ {
			if in.Rep != 0 && rep != in.Rep {
				continue
			}
			q := vcMakeSeq(cs, in.Seed, rep)
			counters["sequences"]++
			counters["values"] += cs.N
			for _, enc := range []string{"values", "typed", "array"} {
				blk, err, pv := vcEncode(cs, q, enc)
				counters["encodes"]++
				if pv != nil {
					mismatch("block:panic:encode-"+enc+":"+shapeNoN, fmt.Sprintf("%s encoder panicked on %s: %v", enc, shape, pv), cs, rep)
					continue
				}
				if err != nil {
					if !cs.Ok {
						counters["refused"]++
						continue // NaN: the encoder may refuse, it must not store something else
					}
					mismatch("block:encode-error:"+enc+":"+shapeNoN, fmt.Sprintf("%s encoder failed on %s: %v", enc, shape, err), cs, rep)
					continue
				}
				// the scheme the encoder picked (header nibbles), against the decision table
				if tsb, vb, uerr := unpackBlock(blk[1:]); uerr == nil && len(tsb) > 0 && len(vb) > 0 {
					got := vcSchemeNames[tsb[0]>>4]
					schemes["ts:"+got]++
					if got != cs.TsScheme {
						mismatch("note:scheme:ts:"+enc+":"+shapeNoN, fmt.Sprintf("%s: timestamp scheme %s, decision table says %s", shape, got, cs.TsScheme), cs, rep)
					}
					if cs.Type == "integer" || cs.Type == "unsigned" {
						want := cs.ValSchemeIt
						if enc == "array" {
							want = cs.ValSchemeBa
						}
						got := vcSchemeNames[vb[0]>>4]
						schemes["int:"+got]++
						if got != want {
							mismatch("note:scheme:int:"+enc+":"+shapeNoN, fmt.Sprintf("%s: integer scheme %s, decision table says %s", shape, got, want), cs, rep)
						}
					}
				}
				for _, dec := range []string{"generic", "typed", "array"} {
					out, derr, pv := vcDecode(cs, blk, dec)
					counters["decodes"]++
					switch {
					case pv != nil:
						mismatch("block:panic:decode-"+dec+":"+shapeNoN, fmt.Sprintf("%s decoder panicked on a block of the %s encoder (%s): %v", dec, enc, shape, pv), cs, rep)
					case derr != nil:
						mismatch("block:decode-error:"+enc+"-"+dec+":"+shapeNoN, fmt.Sprintf("%s decoder failed on a block of the %s encoder (%s): %v", dec, enc, shape, derr), cs, rep)
					default:
						if d := vcCompare(cs.Type, q, out); d != "" {
							mismatch("block:"+strings.SplitN(d, ":", 2)[0]+":"+enc+"-"+dec+":"+shapeNoN,
								fmt.Sprintf("%s encoder -> %s decoder changed the data (%s): %s", enc, dec, shape, d), cs, rep)
						}
					}
				}
			}
		}
		if ci < 2 {
			vtrace.Sample(map[string]interface{}{"block_case": cs})
		}
	}
	var sk []string
	for k := range schemes {
		sk = append(sk, k)
	}
	sort.Strings(sk)
	cnt := map[string]interface{}{"signatures": seen, "distinct_classes": len(classes), "schemes": schemes}
	for k, v := range counters {
		cnt[k] = v
	}
	vtrace.Done("TestVerifBlockCodec", cnt)
	real := 0
	for s := range seen {
		if !strings.HasPrefix(s, "note:") {
			real++
		}
	}
	if real > 0 {
		t.Errorf("%d mismatch classes", real)
	}
	_ = binary.BigEndian
}
