package models

// Verification harness for C12 (injected with `go test -overlay`, never part of the repository).
// Input: lines enumerated by TLC from specs/lineprotocol/LineProtocol.tla - the raw text of every element
// (byte values; values >= 1000 are "plain" name characters rendered through a seed-chosen order-preserving
// map) together with the meaning predicted from the documented grammar.  Each line is rendered to bytes and
// given to the real ParsePointsWithPrecision; accept/reject, the parsed point (types and bits), the text and
// binary round trips, independence from the tag order and absence of panics are checked.

import (
	"bytes"
	"encoding/json"
	"fmt"
	"math"
	"math/big"
	"math/rand"
	"os"
	"regexp"
	"sort"
	"strconv"
	"strings"
	"testing"
	"time"

	"github.com/influxdata/influxdb/pkg/verifx/vtrace"
)

type vlField struct {
	Key   []int  `json:"key"`
	NoEq  bool   `json:"noeq"`
	Txt   string `json:"txt"`
	Raw   []int  `json:"raw"`
	IsStr bool   `json:"isstr"`
}

type vlExpField struct {
	Ok   bool   `json:"ok"`
	Name []int  `json:"name"`
	Type string `json:"type"`
	Num  string `json:"num"`
	Str  []int  `json:"str"`
}

type vlTag struct {
	K []int `json:"k"`
	V []int `json:"v"`
}

type vlExpect struct {
	Res    string       `json:"res"`
	Reason string       `json:"reason"`
	Meas   []int        `json:"meas"`
	Tags   []vlTag      `json:"tags"`
	Fields []vlExpField `json:"fields"`
	Time   struct {
		Kind string `json:"kind"`
		Base string `json:"base"`
		Off  int    `json:"off"`
		Prec string `json:"prec"`
	} `json:"time"`
}

type vlForm struct {
	Lead   string          `json:"lead"`
	Meas   string          `json:"meas"`
	Tags   [][]interface{} `json:"tags"`
	Sep1   string          `json:"sep1"`
	Fields [][]interface{} `json:"fields"`
	Sep2   string          `json:"sep2"`
	Tail   string          `json:"tail"`
}

type vlLine struct {
	Lead   []int     `json:"lead"`
	Meas   []int     `json:"meas"`
	Tags   [][]int   `json:"tags"`
	Pad    string    `json:"pad"`
	Sep1   []int     `json:"sep1"`
	Fields []vlField `json:"fields"`
	Ts     struct {
		Base string `json:"base"`
		Off  int    `json:"off"`
	} `json:"ts"`
	Prec       string   `json:"prec"`
	Sep2       []int    `json:"sep2"`
	Tail       []int    `json:"tail"`
	Swallows   bool     `json:"swallows"`
	Permutable bool     `json:"permutable"`
	W          int      `json:"w"`
	Form       vlForm   `json:"form"`
	Expect     vlExpect `json:"expect"`
	Idx        int      `json:"idx"` // index in the generated list (part of the rendering seed)
}

type vlInput struct {
	Lines     []vlLine `json:"lines"`
	Seed      int64    `json:"seed"`
	Multi     int      `json:"multi"`     // number of multi-line requests to build
	Mutations int      `json:"mutations"` // text / binary mutations per accepted line
	MaxSigs   int      `json:"max_sigs"`
	DumpLines string   `json:"dump_lines"` // file that receives the rendered accepted lines (for the hh codec driver)
}

var vlBands = [3]string{"-./0123456789", "ABCDEFGHIJKLMNOPQRSTUVWXYZ", "abcdefghijklmnopqrs"}

func vlBand(c int) int { return (c-1000)/100 - 1 }

// vlSubst chooses, for the variable characters used by a line, an order-preserving map into their band.
func vlSubst(l *vlLine, seed int64) map[int]byte {
	used := map[int]bool{}
	add := func(s []int) {
		for _, c := range s {
			if c >= 1000 {
				used[c] = true
			}
		}
	}
	add(l.Meas)
	for _, t := range l.Tags {
		add(t)
	}
	for _, f := range l.Fields {
		add(f.Key)
		add(f.Raw)
	}
	rnd := rand.New(rand.NewSource(seed*1000003 + int64(l.Idx)))
	m := map[int]byte{}
	for b := 0; b < 3; b++ {
		var cs []int
		for c := range used {
			if vlBand(c) == b {
				cs = append(cs, c)
			}
		}
		sort.Ints(cs)
		alpha := vlBands[b]
		if len(cs) > len(alpha) {
			panic("band too small")
		}
		// a sorted random sample of len(cs) positions
		pos := rnd.Perm(len(alpha))[:len(cs)]
		sort.Ints(pos)
		for i, c := range cs {
			m[c] = alpha[pos[i]]
		}
	}
	return m
}

func vlBytes(s []int, m map[int]byte) []byte {
	out := make([]byte, 0, len(s))
	for _, c := range s {
		if c >= 1000 {
			out = append(out, m[c])
		} else {
			out = append(out, byte(c))
		}
	}
	return out
}

var (
	vlMaxNano = big.NewInt(MaxNanoTime)
	vlMinNano = big.NewInt(MinNanoTime)
)

func vlMult(prec string) int64 {
	switch prec {
	case "u":
		return 1000
	case "ms":
		return 1000000
	case "s":
		return 1000000000
	case "m":
		return 60 * 1000000000
	case "h":
		return 3600 * 1000000000
	}
	return 1
}

// vlTsText instantiates a symbolic timestamp; the second result is the value in nanoseconds (nil: not a number).
func vlTsText(base string, off int, prec string) (string, *big.Int) {
	mult := big.NewInt(vlMult(prec))
	var v *big.Int
	switch base {
	case "zero":
		v = big.NewInt(0)
	case "maxfit":
		v = new(big.Int).Quo(vlMaxNano, mult) // truncated division of a positive number = floor
	case "minfit":
		v = new(big.Int).Neg(new(big.Int).Quo(new(big.Int).Neg(vlMinNano), mult))
	case "maxint64":
		v = big.NewInt(math.MaxInt64)
	case "minint64":
		v = big.NewInt(math.MinInt64)
	case "overint64":
		v = new(big.Int).Add(big.NewInt(math.MaxInt64), big.NewInt(1))
	case "wrap":
		v = new(big.Int).Add(new(big.Int).Lsh(big.NewInt(1), 62), big.NewInt(1))
	case "nondigit":
		return "12a4", nil
	case "float":
		return "1.5", nil
	case "plus":
		return "+1", nil
	case "minusOnly":
		return "-", nil
	case "leadingZeros":
		return "007", new(big.Int).Mul(big.NewInt(7), mult)
	case "multiwrap":
		// |ts*mult| = k*2^64 + r + (less than mult): more than one wrap of int64
		k := []int64{1, 2, 5}[off/4]
		r := new(big.Int).Lsh(big.NewInt(1), 62)
		if (off/2)%2 == 1 {
			r.Add(r, new(big.Int).Lsh(big.NewInt(1), 63))
		}
		V := new(big.Int).Add(new(big.Int).Mul(big.NewInt(k), new(big.Int).Lsh(big.NewInt(1), 64)), r)
		q, m := new(big.Int).QuoRem(V, mult, new(big.Int))
		if m.Sign() != 0 {
			q.Add(q, big.NewInt(1))
		}
		if off%2 == 1 {
			q.Neg(q)
		}
		return q.String(), new(big.Int).Mul(q, mult)
	default:
		if strings.HasPrefix(base, "lit") {
			q, ok := new(big.Int).SetString(base[3:], 10)
			if !ok {
				panic("bad literal timestamp " + base)
			}
			q.Mul(q, big.NewInt(int64(off)))
			return q.String(), new(big.Int).Mul(q, mult)
		}
		panic("unknown ts base " + base)
	}
	v = new(big.Int).Add(v, big.NewInt(int64(off)))
	return v.String(), new(big.Int).Mul(v, mult)
}

type vlRendered struct {
	text    []byte
	tagTxt  [][]byte // rendered tag segments (k=v)
	measTxt []byte
	rest    []byte // everything after the key
	lead    []byte
	m       map[int]byte
}

func vlRender(l *vlLine, seed int64) *vlRendered {
	m := vlSubst(l, seed)
	r := &vlRendered{m: m}
	r.lead = vlBytes(l.Lead, m)
	r.measTxt = vlBytes(l.Meas, m)
	for _, t := range l.Tags {
		r.tagTxt = append(r.tagTxt, vlBytes(t, m))
	}
	var rest []byte
	rest = append(rest, vlBytes(l.Sep1, m)...)
	maxFieldKey := 0
	for i, f := range l.Fields {
		if i > 0 {
			rest = append(rest, ',')
		}
		k := vlBytes(f.Key, m)
		if len(k) > maxFieldKey {
			maxFieldKey = len(k)
		}
		rest = append(rest, k...)
		if f.NoEq {
			continue
		}
		rest = append(rest, '=')
		if f.IsStr {
			rest = append(rest, vlBytes(f.Raw, m)...)
		} else {
			rest = append(rest, f.Txt...)
		}
	}
	if l.Ts.Base != "absent" {
		rest = append(rest, vlBytes(l.Sep2, m)...)
		txt, _ := vlTsText(l.Ts.Base, l.Ts.Off, l.Prec)
		rest = append(rest, txt...)
	}
	rest = append(rest, vlBytes(l.Tail, m)...)
	r.rest = rest
	if l.Pad != "none" {
		// series key size = len(key) + 4 + len(field key) must be exactly MaxKeyLength (atLimit) or one more
		keyLen := len(r.measTxt)
		for _, t := range r.tagTxt {
			keyLen += 1 + len(t)
		}
		want := MaxKeyLength - 4 - maxFieldKey
		if l.Pad == "overLimit" {
			want++
		}
		padc := m[l.Meas[len(l.Meas)-1]]
		r.measTxt = append(r.measTxt, bytes.Repeat([]byte{padc}, want-keyLen)...)
	}
	r.text = vlAssemble(r, nil)
	return r
}

// vlAssemble builds the line with the tags in the given order (nil: as generated).
func vlAssemble(r *vlRendered, perm []int) []byte {
	var b []byte
	b = append(b, r.lead...)
	b = append(b, r.measTxt...)
	for i := range r.tagTxt {
		j := i
		if perm != nil {
			j = perm[i]
		}
		b = append(b, ',')
		b = append(b, r.tagTxt[j]...)
	}
	b = append(b, r.rest...)
	return b
}

var vlDefaultTime = time.Unix(0, 1500000000123456789).UTC()

type vlVal struct {
	typ  string
	bits uint64 // float bits / int64 / uint64 / bool
	str  string
}

func (v vlVal) String() string {
	if v.typ == "string" {
		return fmt.Sprintf("string(%q)", v.str)
	}
	return fmt.Sprintf("%s(%#x)", v.typ, v.bits)
}

func vlFromGo(x interface{}) vlVal {
	switch t := x.(type) {
	case float64:
		return vlVal{typ: "float", bits: math.Float64bits(t)}
	case int64:
		return vlVal{typ: "integer", bits: uint64(t)}
	case uint64:
		return vlVal{typ: "unsigned", bits: t}
	case bool:
		if t {
			return vlVal{typ: "boolean", bits: 1}
		}
		return vlVal{typ: "boolean"}
	case string:
		return vlVal{typ: "string", str: t}
	}
	return vlVal{typ: fmt.Sprintf("%T", x)}
}

// vlExpected turns the model's field meaning into a typed value (decimal text -> bits via strconv/big).
func vlExpected(f vlExpField, m map[int]byte) vlVal {
	switch f.Type {
	case "float":
		x, err := strconv.ParseFloat(f.Num, 64)
		if err != nil {
			panic("bad expected float " + f.Num)
		}
		return vlVal{typ: "float", bits: math.Float64bits(x)}
	case "integer":
		x, ok := new(big.Int).SetString(f.Num, 10)
		if !ok || !x.IsInt64() {
			panic("bad expected integer " + f.Num)
		}
		return vlVal{typ: "integer", bits: uint64(x.Int64())}
	case "unsigned":
		x, ok := new(big.Int).SetString(f.Num, 10)
		if !ok || !x.IsUint64() {
			panic("bad expected unsigned " + f.Num)
		}
		return vlVal{typ: "unsigned", bits: x.Uint64()}
	case "boolean":
		if f.Num == "true" {
			return vlVal{typ: "boolean", bits: 1}
		}
		return vlVal{typ: "boolean"}
	case "string":
		return vlVal{typ: "string", str: string(vlBytes(f.Str, m))}
	}
	panic("bad expected type " + f.Type)
}

type vlPoint struct {
	key    string
	name   string
	tags   [][2]string
	fields []struct {
		name string
		val  vlVal
	}
	fmap map[string]vlVal
	ns   int64
	hash uint64
}

// vlObserve reads everything the property talks about out of a parsed point (may panic: callers recover).
func vlObserve(p Point) (*vlPoint, error) {
	o := &vlPoint{key: string(p.Key()), name: string(p.Name()), ns: p.UnixNano(), hash: p.HashID(), fmap: map[string]vlVal{}}
	for _, t := range p.Tags() {
		o.tags = append(o.tags, [2]string{string(t.Key), string(t.Value)})
	}
	it := p.FieldIterator()
	for it.Next() {
		var v vlVal
		switch it.Type() {
		case Float:
			x, err := it.FloatValue()
			if err != nil {
				return nil, err
			}
			v = vlFromGo(x)
		case Integer:
			x, err := it.IntegerValue()
			if err != nil {
				return nil, err
			}
			v = vlFromGo(x)
		case Unsigned:
			x, err := it.UnsignedValue()
			if err != nil {
				return nil, err
			}
			v = vlFromGo(x)
		case Boolean:
			x, err := it.BooleanValue()
			if err != nil {
				return nil, err
			}
			v = vlFromGo(x)
		case String:
			v = vlFromGo(it.StringValue())
		default:
			v = vlVal{typ: "empty"}
		}
		o.fields = append(o.fields, struct {
			name string
			val  vlVal
		}{string(it.FieldKey()), v})
	}
	fs, err := p.Fields()
	if err != nil {
		return nil, err
	}
	for k, x := range fs {
		o.fmap[k] = vlFromGo(x)
	}
	return o, nil
}

func (o *vlPoint) equal(b *vlPoint) string {
	if o.key != b.key {
		return fmt.Sprintf("key %q != %q", o.key, b.key)
	}
	if o.hash != b.hash {
		return "hash differs"
	}
	if o.ns != b.ns {
		return fmt.Sprintf("time %d != %d", o.ns, b.ns)
	}
	if len(o.fields) != len(b.fields) {
		return fmt.Sprintf("%d fields != %d fields", len(o.fields), len(b.fields))
	}
	for i := range o.fields {
		if o.fields[i] != b.fields[i] {
			return fmt.Sprintf("field %d: %s=%v != %s=%v", i, o.fields[i].name, o.fields[i].val, b.fields[i].name, b.fields[i].val)
		}
	}
	if len(o.fmap) != len(b.fmap) {
		return "field maps differ in size"
	}
	for k, v := range o.fmap {
		if b.fmap[k] != v {
			return fmt.Sprintf("field map %s: %v != %v", k, v, b.fmap[k])
		}
	}
	return ""
}

type vlResult struct {
	pts   []Point
	err   error
	panic interface{}
}

func vlParse(text []byte, prec string) (r vlResult) {
	defer func() {
		if e := recover(); e != nil {
			r.panic = e
		}
	}()
	// the parser keeps references into (and may re-order) its input: give it a private copy
	buf := append([]byte(nil), text...)
	r.pts, r.err = ParsePointsWithPrecision(buf, vlDefaultTime, prec)
	return
}

// vlExercise calls every accessor of a decoded point; returns a panic value if any of them panics.
func vlExercise(p Point) (pv interface{}) {
	defer func() {
		if e := recover(); e != nil {
			pv = e
		}
	}()
	_ = p.Name()
	_ = p.Tags()
	_ = p.Key()
	_ = p.HashID()
	_ = p.String()
	_ = p.StringSize()
	_, _ = p.Fields()
	it := p.FieldIterator()
	for it.Next() {
		_ = it.FieldKey()
		switch it.Type() {
		case Float:
			_, _ = it.FloatValue()
		case Integer:
			_, _ = it.IntegerValue()
		case Unsigned:
			_, _ = it.UnsignedValue()
		case Boolean:
			_, _ = it.BooleanValue()
		case String:
			_ = it.StringValue()
		}
	}
	_ = p.Split(16)
	_, _ = p.MarshalBinary()
	_ = ValidPointStrings(p)
	return nil
}

var vlSan = regexp.MustCompile(`[^A-Za-z0-9_.+-]+`)

func vlSanitize(s string) string { return vlSan.ReplaceAllString(s, "_") }

var vlDigits = regexp.MustCompile(`[0-9]+`)

// vlPanicClass: the panic message without its numbers, shortened.
func vlPanicClass(pv interface{}) string {
	s := vlSanitize(vlDigits.ReplaceAllString(fmt.Sprint(pv), "N"))
	if len(s) > 48 {
		s = s[:48]
	}
	return s
}

// vlCulprit names the element of the line that the class of a mismatch is about.
func vlCulprit(l *vlLine, about string) string {
	f := l.Form
	var parts []string
	switch about {
	case "field":
		for i, ef := range l.Expect.Fields {
			if !ef.Ok && i < len(f.Fields) {
				return vlSanitize(fmt.Sprintf("fk=%v,fv=%v", f.Fields[i][1], f.Fields[i][2]))
			}
		}
		fallthrough
	case "fields":
		for _, x := range f.Fields {
			if x[1] != "plain" || x[2] != "1" {
				parts = append(parts, fmt.Sprintf("fk=%v,fv=%v", x[1], x[2]))
			}
		}
	case "key":
		if f.Meas != "plain" {
			parts = append(parts, "m="+f.Meas)
		}
		for _, x := range f.Tags {
			if x[1] != "plain" || x[2] != "plain" {
				parts = append(parts, fmt.Sprintf("tk=%v,tv=%v", x[1], x[2]))
			}
		}
		if l.Pad != "none" {
			parts = append(parts, "pad="+l.Pad)
		}
	case "time":
		parts = append(parts, fmt.Sprintf("ts=%s%+d,prec=%s", l.Ts.Base, l.Ts.Off, l.Prec))
	}
	if f.Lead != "none" {
		parts = append(parts, "lead="+f.Lead)
	}
	if f.Sep1 != "space" {
		parts = append(parts, "sep1="+f.Sep1)
	}
	if l.Ts.Base != "absent" && f.Sep2 != "space" {
		parts = append(parts, "sep2="+f.Sep2)
	}
	if f.Tail != "none" {
		parts = append(parts, "tail="+f.Tail)
	}
	if len(parts) == 0 {
		return "default"
	}
	return vlSanitize(strings.Join(parts, ";"))
}

func vlAbout(reason string) string {
	switch {
	case strings.HasPrefix(reason, "invalid ") && reason != "invalid tag format", reason == "missing field value",
		reason == "missing field key", reason == "unbalanced quotes", reason == "junk after string", reason == "invalid field format":
		return "field"
	case reason == "bad timestamp":
		return "time"
	case reason == "missing fields":
		return "fields"
	}
	return "key"
}

type vlChecker struct {
	seed     int64
	seen     map[string]int
	maxSigs  int
	counters map[string]int
	forms    map[string]bool
	rnd      *rand.Rand
	muts     int
}

func (c *vlChecker) mismatch(sig, detail string, l *vlLine, extra map[string]interface{}) {
	c.seen[sig]++
	if c.seen[sig] > 1 || len(c.seen) > c.maxSigs {
		return
	}
	rp := map[string]interface{}{"test": "LP", "line": l, "seed": c.seed}
	for k, v := range extra {
		rp[k] = v
	}
	vtrace.Mismatch(sig, detail, rp)
}

func vlPerms(n int) [][]int {
	if n <= 1 {
		return nil
	}
	var out [][]int
	var rec func(cur []int, used []bool)
	rec = func(cur []int, used []bool) {
		if len(cur) == n {
			out = append(out, append([]int(nil), cur...))
			return
		}
		for i := 0; i < n; i++ {
			if !used[i] {
				used[i] = true
				rec(append(cur, i), used)
				used[i] = false
			}
		}
	}
	rec(nil, make([]bool, n))
	return out
}

// checkLine parses one rendered line alone and compares with the model.  Returns the accepted point's
// observation (nil if none) so that multi-line requests can be compared with it.
func (c *vlChecker) checkLine(l *vlLine) (*vlRendered, *vlPoint) {
	r := vlRender(l, c.seed)
	text := r.text
	if l.Idx%2 == 0 {
		text = append(append([]byte(nil), text...), '\n')
	}
	c.counters["lines"]++
	if l.W >= 1 { // non-trivial: at least one element is not in its default form
		c.forms[fmt.Sprintf("%v|%v|%v|%v|%v|%v|%v|%v|%s%d|%s|%s", l.Form.Lead, l.Form.Meas, l.Form.Tags, l.Form.Sep1, l.Form.Fields, l.Form.Sep2, l.Form.Tail, l.Pad, l.Ts.Base, l.Ts.Off, l.Prec, l.Expect.Res)] = true
	}
	if l.Ts.Base != "absent" {
		if txt, v := vlTsText(l.Ts.Base, l.Ts.Off, l.Prec); v != nil {
			t, isInt := new(big.Int).SetString(txt, 10)
			inRange := isInt && t.IsInt64() && v.Cmp(vlMinNano) >= 0 && v.Cmp(vlMaxNano) <= 0
			if (l.Expect.Res == "ok" && !inRange) || (l.Expect.Res == "reject" && l.Expect.Reason == "bad timestamp" && inRange) {
				panic(fmt.Sprintf("LineProtocol.tla disagrees with the big-integer oracle: timestamp %s precision %s scaled %s, model says %s", txt, l.Prec, v, l.Expect.Res))
			}
		}
	}
	res := vlParse(text, l.Prec)
	show := func() string {
		t := r.text
		if len(t) > 300 {
			t = append(append([]byte(nil), t[:150]...), []byte("...")...)
		}
		return fmt.Sprintf("line %q precision %s", t, l.Prec)
	}
	if res.panic != nil {
		c.mismatch("lp:panic:parse:"+vlCulprit(l, vlAbout(l.Expect.Reason)), fmt.Sprintf("parser panicked: %v on %s", res.panic, show()), l, nil)
		return r, nil
	}
	switch l.Expect.Res {
	case "skip":
		c.counters["skip"]++
		if res.err != nil || len(res.pts) != 0 {
			c.mismatch("lp:skip:"+vlCulprit(l, "key"), fmt.Sprintf("comment/blank line produced %d points, err=%v: %s", len(res.pts), res.err, show()), l, nil)
		}
		return r, nil
	case "reject":
		c.counters["reject"]++
		c.counters["reject:"+l.Expect.Reason]++
		if res.err == nil || len(res.pts) != 0 {
			c.mismatch("lp:accepted:"+vlSanitize(l.Expect.Reason)+":"+vlCulprit(l, vlAbout(l.Expect.Reason)),
				fmt.Sprintf("malformed line (%s) accepted: %d points, err=%v: %s", l.Expect.Reason, len(res.pts), res.err, show()), l, nil)
			for _, p := range res.pts {
				if pv := vlExercise(p); pv != nil {
					c.mismatch("lp:panic:accessor:"+vlCulprit(l, vlAbout(l.Expect.Reason)), fmt.Sprintf("accessor panicked: %v on %s", pv, show()), l, nil)
				}
			}
		}
		return r, nil
	}
	c.counters["ok"]++
	if res.err != nil || len(res.pts) != 1 {
		about := "key"
		es := fmt.Sprint(res.err)
		switch {
		case strings.Contains(es, "time") || strings.Contains(es, "timestamp") || strings.Contains(es, "value out of range") && l.Ts.Base != "absent":
			about = "time"
		case strings.Contains(es, "field") || strings.Contains(es, "number") || strings.Contains(es, "boolean") || strings.Contains(es, "float") || strings.Contains(es, "integer") || strings.Contains(es, "quotes"):
			about = "fields"
		}
		c.mismatch("lp:rejected:"+vlCulprit(l, about), fmt.Sprintf("valid line rejected: %d points, err=%v: %s", len(res.pts), res.err, show()), l, nil)
		return r, nil
	}
	p := res.pts[0]
	var o *vlPoint
	var oerr error
	func() {
		defer func() {
			if e := recover(); e != nil {
				oerr = fmt.Errorf("panic: %v", e)
			}
		}()
		o, oerr = vlObserve(p)
	}()
	if oerr != nil {
		c.mismatch("lp:unreadable:"+vlCulprit(l, "fields"), fmt.Sprintf("accepted point cannot be read back: %v: %s", oerr, show()), l, nil)
		return r, nil
	}
	exp := &l.Expect
	// measurement: through the key (ParseKey = what the storage layer uses) and through Name()
	wantMeas := string(vlBytes(exp.Meas, r.m))
	if l.Pad != "none" {
		wantMeas = string(r.measTxt)
	}
	kname, ktags := ParseKey(p.Key())
	if kname != wantMeas {
		c.mismatch("lp:meas:key:"+vlCulprit(l, "key"), fmt.Sprintf("measurement in key %q, expected %q: %s", kname, wantMeas, show()), l, nil)
	}
	if o.name != wantMeas {
		// sub-class: Name() additionally unescapes \= and \" (escapes of tags / field keys, not of measurements)
		cls := "other"
		if o.name == strings.NewReplacer(`\=`, `=`, `\"`, `"`).Replace(wantMeas) {
			cls = "unescapes-eq-quote"
		}
		c.mismatch("lp:meas:name:"+cls+":"+vlCulprit(l, "key"), fmt.Sprintf("Name() %q, expected %q (as in the series key): %s", o.name, wantMeas, show()), l, nil)
	}
	// tags: canonical order, exact bytes
	var wantTags [][2]string
	for _, t := range exp.Tags {
		wantTags = append(wantTags, [2]string{string(vlBytes(t.K, r.m)), string(vlBytes(t.V, r.m))})
	}
	tagsOK := true
	if fmt.Sprint(o.tags) != fmt.Sprint(wantTags) || len(o.tags) != len(wantTags) {
		tagsOK = false
		cls := "lp:tags:"
		a, b := append([][2]string(nil), o.tags...), append([][2]string(nil), wantTags...)
		sort.Slice(a, func(i, j int) bool { return a[i][0] < a[j][0] })
		sort.Slice(b, func(i, j int) bool { return b[i][0] < b[j][0] })
		if fmt.Sprint(a) == fmt.Sprint(b) {
			// right tag set, wrong order.  Sub-class: ordered by the ESCAPED text of the keys
			cls = "lp:tagorder:other:"
			e := append([][2]string(nil), wantTags...)
			sort.Slice(e, func(i, j int) bool { return string(escapeTag([]byte(e[i][0]))) < string(escapeTag([]byte(e[j][0]))) })
			if fmt.Sprint(e) == fmt.Sprint(o.tags) {
				cls = "lp:tagorder:escaped-sort:"
			}
		}
		c.mismatch(cls+vlCulprit(l, "key"), fmt.Sprintf("Tags() %q, expected (ordered by key) %q; Key() %q: %s", o.tags, wantTags, o.key, show()), l, nil)
	} else {
		var kt [][2]string
		for _, t := range ktags {
			kt = append(kt, [2]string{string(t.Key), string(t.Value)})
		}
		if fmt.Sprint(kt) != fmt.Sprint(wantTags) {
			c.mismatch("lp:tags:parsekey:"+vlCulprit(l, "key"), fmt.Sprintf("ParseKey(Key()) tags %q, expected %q: %s", kt, wantTags, show()), l, nil)
		}
		// the key is a function of (measurement, tag set): the constructor used by every other input path
		// (NewPoint / MakeKey) must give the same series key and hash
		// (MakeKey takes escaped or unescaped names - "unescape then re-escape" - so a name with a literal
		// backslash in front of ',' or ' ' has no faithful argument: left out, see notes/C12.md)
		tags := make(Tags, 0, len(wantTags))
		for _, t := range wantTags {
			tags = append(tags, NewTag([]byte(t[0]), []byte(t[1])))
		}
		if mk := string(MakeKey([]byte(wantMeas), tags)); mk != o.key && !strings.Contains(wantMeas, "\\") {
			c.mismatch("lp:canonical-key:"+vlCulprit(l, "key"), fmt.Sprintf("Key() %q but MakeKey(measurement, tags) %q: %s", o.key, mk, show()), l, nil)
		}
	}
	// fields: text order through the iterator, last-wins map through Fields()
	fieldsOK := len(o.fields) == len(exp.Fields)
	wantMap := map[string]vlVal{}
	for i, ef := range exp.Fields {
		name := string(vlBytes(ef.Name, r.m))
		want := vlExpected(ef, r.m)
		wantMap[name] = want // (cal) the last occurrence of a repeated field name wins
		if i < len(o.fields) {
			got := o.fields[i]
			if got.name != name {
				fieldsOK = false
				c.mismatch("lp:field-name:"+vlCulprit(l, "fields"), fmt.Sprintf("field %d name %q, expected %q: %s", i, got.name, name, show()), l, nil)
			} else if got.val.typ != want.typ {
				fieldsOK = false
				c.mismatch("lp:field-type:"+vlSanitize(l.Fields[i].Txt)+":"+vlCulprit(l, "fields"), fmt.Sprintf("field %s is %v, expected %v: %s", name, got.val, want, show()), l, nil)
			} else if got.val != want {
				fieldsOK = false
				c.mismatch("lp:field-value:"+vlSanitize(l.Fields[i].Txt)+":"+vlCulprit(l, "fields"), fmt.Sprintf("field %s is %v, expected %v: %s", name, got.val, want, show()), l, nil)
			}
		}
	}
	if len(o.fields) != len(exp.Fields) {
		c.mismatch("lp:field-count:"+vlCulprit(l, "fields"), fmt.Sprintf("%d fields, expected %d: %s", len(o.fields), len(exp.Fields), show()), l, nil)
	}
	if fieldsOK {
		if len(o.fmap) != len(wantMap) {
			c.mismatch("lp:field-map:"+vlCulprit(l, "fields"), fmt.Sprintf("Fields() has %d entries, expected %d: %s", len(o.fmap), len(wantMap), show()), l, nil)
		}
		for k, v := range wantMap {
			if o.fmap[k] != v {
				c.mismatch("lp:field-map:"+vlCulprit(l, "fields"), fmt.Sprintf("Fields()[%q] = %v, expected %v: %s", k, o.fmap[k], v, show()), l, nil)
			}
		}
	}
	// time
	var wantNs int64
	if exp.Time.Kind == "default" {
		mult := vlMult(exp.Time.Prec)
		d := vlDefaultTime.UnixNano()
		wantNs = d - d%mult
	} else {
		_, v := vlTsText(exp.Time.Base, exp.Time.Off, exp.Time.Prec)
		wantNs = v.Int64()
	}
	if o.ns != wantNs {
		c.mismatch("lp:time:"+vlCulprit(l, "time"), fmt.Sprintf("time %d, expected %d: %s", o.ns, wantNs, show()), l, nil)
	}
	// text round trip: String() parses (precision n) to the same point
	func() {
		defer func() {
			if e := recover(); e != nil {
				c.mismatch("lp:panic:string:"+vlCulprit(l, "fields"), fmt.Sprintf("String() round trip panicked: %v: %s", e, show()), l, nil)
			}
		}()
		s := p.String()
		rr := vlParse([]byte(s), "n")
		if rr.panic != nil || rr.err != nil || len(rr.pts) != 1 {
			c.mismatch("lp:string-roundtrip:reparse:"+vlCulprit(l, "fields"), fmt.Sprintf("String() = %.300q does not parse back: %v %v: %s", s, rr.err, rr.panic, show()), l, nil)
			return
		}
		o2, err := vlObserve(rr.pts[0])
		if err != nil {
			c.mismatch("lp:string-roundtrip:reparse:"+vlCulprit(l, "fields"), fmt.Sprintf("String() = %.300q parses to an unreadable point: %v", s, err), l, nil)
			return
		}
		if d := o.equal(o2); d != "" {
			c.mismatch("lp:string-roundtrip:differs:"+vlCulprit(l, "fields"), fmt.Sprintf("String() = %.300q parses to a different point: %s: %s", s, d, show()), l, nil)
		}
		if got := p.StringSize(); got != len(s) {
			c.mismatch("lp:stringsize:"+vlCulprit(l, "time"), fmt.Sprintf("StringSize() %d != len(String()) %d", got, len(s)), l, nil)
		}
	}()
	// binary round trip
	func() {
		defer func() {
			if e := recover(); e != nil {
				c.mismatch("lp:panic:binary:"+vlCulprit(l, "fields"), fmt.Sprintf("binary round trip panicked: %v: %s", e, show()), l, nil)
			}
		}()
		b, err := p.MarshalBinary()
		if err != nil {
			c.mismatch("lp:binary:marshal:"+vlCulprit(l, "fields"), fmt.Sprintf("MarshalBinary: %v: %s", err, show()), l, nil)
			return
		}
		q, err := NewPointFromBytes(append([]byte(nil), b...))
		if err != nil {
			c.mismatch("lp:binary:unmarshal:"+vlCulprit(l, "fields"), fmt.Sprintf("NewPointFromBytes(MarshalBinary(p)): %v: %s", err, show()), l, nil)
			return
		}
		o2, err := vlObserve(q)
		if err != nil {
			c.mismatch("lp:binary:unmarshal:"+vlCulprit(l, "fields"), fmt.Sprintf("decoded point unreadable: %v: %s", err, show()), l, nil)
			return
		}
		if d := o.equal(o2); d != "" {
			c.mismatch("lp:binary:differs:"+vlCulprit(l, "fields"), fmt.Sprintf("binary round trip changed the point: %s: %s", d, show()), l, nil)
		}
		c.counters["binary_roundtrips"]++
		if len(b) < 400 {
			c.binaryMutations(l, b)
		}
	}()
	// tag order independence
	if n := len(r.tagTxt); n >= 2 && l.Pad == "none" && l.Permutable {
		for _, perm := range vlPerms(n) {
			rr := vlParse(vlAssemble(r, perm), l.Prec)
			if rr.panic != nil || rr.err != nil || len(rr.pts) != 1 {
				c.mismatch("lp:perm:rejected:"+vlCulprit(l, "key"), fmt.Sprintf("tag order %v: err=%v panic=%v: %s", perm, rr.err, rr.panic, show()), l, nil)
				continue
			}
			c.counters["permutations"]++
			if k := string(rr.pts[0].Key()); k != o.key {
				c.mismatch("lp:perm:key:"+vlCulprit(l, "key"), fmt.Sprintf("tag order %v gives key %q instead of %q: %s", perm, k, o.key, show()), l, nil)
			} else if rr.pts[0].HashID() != o.hash {
				c.mismatch("lp:perm:hash:"+vlCulprit(l, "key"), fmt.Sprintf("tag order %v gives another HashID: %s", perm, show()), l, nil)
			}
		}
	}
	// the constructor agrees with the parser: NewPoint(meaning) is the same point
	func() {
		defer func() {
			if e := recover(); e != nil {
				c.mismatch("lp:panic:newpoint:"+vlCulprit(l, "fields"), fmt.Sprintf("NewPoint panicked: %v: %s", e, show()), l, nil)
			}
		}()
		if !fieldsOK || !tagsOK || len(wantMap) != len(exp.Fields) || l.Pad != "none" || strings.Contains(wantMeas, "\\") {
			return
		}
		fields := Fields{}
		for k, v := range wantMap {
			switch v.typ {
			case "float":
				fields[k] = math.Float64frombits(v.bits)
			case "integer":
				fields[k] = int64(v.bits)
			case "unsigned":
				fields[k] = v.bits
			case "boolean":
				fields[k] = v.bits == 1
			case "string":
				fields[k] = v.str
			}
		}
		tm := map[string]string{}
		for _, t := range wantTags {
			tm[t[0]] = t[1]
		}
		np, err := NewPoint(wantMeas, NewTags(tm), fields, time.Unix(0, wantNs).UTC())
		if err != nil {
			c.mismatch("lp:newpoint:error:"+vlCulprit(l, "fields"), fmt.Sprintf("NewPoint of the parsed meaning fails: %v: %s", err, show()), l, nil)
			return
		}
		c.counters["newpoint"]++
		rr := vlParse([]byte(np.String()), "n")
		if rr.panic != nil || rr.err != nil || len(rr.pts) != 1 {
			c.mismatch("lp:newpoint:reparse:"+vlCulprit(l, "fields"), fmt.Sprintf("NewPoint(...).String() = %.300q does not parse: %v %v", np.String(), rr.err, rr.panic), l, nil)
			return
		}
		o2, err := vlObserve(rr.pts[0])
		if err != nil {
			c.mismatch("lp:newpoint:reparse:"+vlCulprit(l, "fields"), fmt.Sprintf("NewPoint(...).String() parses to an unreadable point: %v", err), l, nil)
			return
		}
		if o2.ns != wantNs || len(o2.fmap) != len(wantMap) {
			c.mismatch("lp:newpoint:differs:"+vlCulprit(l, "fields"), fmt.Sprintf("NewPoint(...).String() = %.300q parses to another point", np.String()), l, nil)
			return
		}
		for k, v := range wantMap {
			if o2.fmap[k] != v {
				c.mismatch("lp:newpoint:differs:"+vlCulprit(l, "fields"), fmt.Sprintf("NewPoint(...).String() = %.300q: field %q = %v, expected %v", np.String(), k, o2.fmap[k], v), l, nil)
			}
		}
		if n2, _ := ParseKey(rr.pts[0].Key()); fmt.Sprint(o2.tags) != fmt.Sprint(wantTags) || n2 != wantMeas {
			c.mismatch("lp:newpoint:differs:"+vlCulprit(l, "key"), fmt.Sprintf("NewPoint(...).String() = %.300q: measurement/tags %q %q, expected %q %q", np.String(), n2, o2.tags, wantMeas, wantTags), l, nil)
		}
	}()
	// robustness of the text parser around this line
	c.textMutations(l, r.text)
	return r, o
}

// binaryMutations: every truncation and a number of byte flips / length-prefix edits of the binary form must
// be answered with an error or a point whose accessors work - never with a panic.
func (c *vlChecker) binaryMutations(l *vlLine, b []byte) {
	try := func(kind string, mut []byte, arg int) {
		var pv interface{}
		func() {
			defer func() {
				if e := recover(); e != nil {
					pv = e
				}
			}()
			q, err := NewPointFromBytes(mut)
			if err == nil && q != nil {
				pv = vlExercise(q)
			}
		}()
		c.counters["binary_mutations"]++
		if pv != nil {
			c.mismatch("lp:panic:binary-"+kind+":"+vlPanicClass(pv), fmt.Sprintf("binary decoder / accessor panicked on a %s (arg %d) of a valid point: %v", kind, arg, pv), l,
				map[string]interface{}{"mut": kind, "arg": arg, "bin": mut})
		}
	}
	for n := 0; n < len(b); n++ {
		try("truncation", append([]byte(nil), b[:n]...), n)
	}
	for i := 0; i < c.muts; i++ {
		m := append([]byte(nil), b...)
		pos := c.rnd.Intn(len(m))
		switch c.rnd.Intn(4) {
		case 0:
			m[pos] ^= 1 << uint(c.rnd.Intn(8))
			try("bitflip", m, pos)
		case 1:
			m[pos] = byte(c.rnd.Intn(256))
			try("byte", m, pos)
		case 2:
			m[pos] = []byte{'"', '\\', ',', '=', ' ', 0, 'i', 'u'}[c.rnd.Intn(8)]
			try("special", m, pos)
		case 3:
			// edit a length prefix
			if c.rnd.Intn(2) == 0 || len(m) < 8 {
				m[c.rnd.Intn(4)] = byte(c.rnd.Intn(256))
			} else {
				kl := int(m[0])<<24 | int(m[1])<<16 | int(m[2])<<8 | int(m[3])
				if 4+kl+4 <= len(m) {
					m[4+kl+c.rnd.Intn(4)] = byte(c.rnd.Intn(256))
				}
			}
			try("length", m, pos)
		}
	}
}

func (c *vlChecker) textMutations(l *vlLine, text []byte) {
	if len(text) > 400 {
		return
	}
	specials := []byte{'"', '\\', ',', '=', ' ', 0, '\n', '\t', 0xff, '-', '.', 'e', 'i', 'u', '#'}
	for i := 0; i < c.muts; i++ {
		m := append([]byte(nil), text...)
		pos := c.rnd.Intn(len(m))
		switch c.rnd.Intn(4) {
		case 0:
			m[pos] = specials[c.rnd.Intn(len(specials))]
		case 1:
			m = append(m[:pos], m[pos+1:]...)
		case 2:
			m = append(m[:pos], append([]byte{specials[c.rnd.Intn(len(specials))]}, m[pos:]...)...)
		case 3:
			m = m[:pos]
		}
		r := vlParse(m, l.Prec)
		c.counters["text_mutations"]++
		pv := r.panic
		if pv == nil {
			for _, p := range r.pts {
				if pv = vlExercise(p); pv != nil {
					break
				}
			}
		}
		if pv != nil {
			c.mismatch("lp:panic:text-mutation:"+vlPanicClass(pv), fmt.Sprintf("parser / accessor panicked on %q: %v", m, pv), l, map[string]interface{}{"text": m})
		}
	}
}

// TestVerifLineProtocol: VERIF_IN = {"lines": [...], ...}
func TestVerifLineProtocol(t *testing.T) {
	var in vlInput
	if err := vtrace.LoadJSON(os.Getenv("VERIF_IN"), &in); err != nil {
		t.Fatal(err)
	}
	EnableUintSupport()
	if in.MaxSigs == 0 {
		in.MaxSigs = 12
	}
	c := &vlChecker{seed: in.Seed, seen: map[string]int{}, maxSigs: in.MaxSigs, counters: map[string]int{}, forms: map[string]bool{},
		rnd: rand.New(rand.NewSource(in.Seed)), muts: in.Mutations}
	for i := range in.Lines {
		if in.Lines[i].Idx == 0 {
			in.Lines[i].Idx = i + 1
		}
	}
	// simplest forms first, so that the reported representative of a class is a minimal one
	sort.SliceStable(in.Lines, func(i, j int) bool { return in.Lines[i].W < in.Lines[j].W })
	type done struct {
		l *vlLine
		r *vlRendered
		o *vlPoint
	}
	var all []done
	var dump *os.File
	if in.DumpLines != "" {
		var err error
		if dump, err = os.Create(in.DumpLines); err != nil {
			t.Fatal(err)
		}
		defer dump.Close()
	}
	for i := range in.Lines {
		l := &in.Lines[i]
		r, o := c.checkLine(l)
		if len(r.text) < 400 {
			all = append(all, done{l, r, o})
		}
		if dump != nil && o != nil && l.Expect.Res == "ok" && len(r.text) < 400 {
			// hex, one line per point, with its precision
			fmt.Fprintf(dump, "%s %x\n", l.Prec, r.text)
		}
		if i < 3 || i == len(in.Lines)/2 {
			vtrace.Sample(map[string]interface{}{"line": string(r.text[:vlMin(len(r.text), 120)]), "precision": l.Prec, "expect": l.Expect.Res, "reason": l.Expect.Reason})
		}
	}
	// multi-line requests: a malformed line is lost alone
	for n := 0; n < in.Multi && len(all) > 0; n++ {
		k := 2 + c.rnd.Intn(5)
		prec := []string{"n", "u", "ms", "s", "m", "h"}[c.rnd.Intn(6)]
		var req []done
		for tries := 0; len(req) < k && tries < 200; tries++ {
			d := all[c.rnd.Intn(len(all))]
			if d.l.Prec != prec && d.l.Ts.Base != "absent" {
				continue // a request has one precision; lines without timestamp take any
			}
			if d.l.Prec != prec && d.l.Expect.Res == "ok" {
				continue // the default time is truncated to the precision
			}
			if d.l.Swallows && len(req) != k-1 {
				continue // an unterminated string extends to the end of the request: only as the last line
			}
			req = append(req, d)
		}
		if len(req) < 2 {
			continue
		}
		var text []byte
		var want []*vlPoint
		wantErr, skipReq := false, false
		for i, d := range req {
			text = append(text, d.r.text...)
			if i < len(req)-1 || c.rnd.Intn(2) == 0 {
				text = append(text, '\n')
			}
			switch d.l.Expect.Res {
			case "ok":
				if d.o == nil {
					skipReq = true // this line was already reported alone
				}
				want = append(want, d.o)
			case "reject":
				wantErr = true
			}
		}
		if skipReq {
			continue
		}
		c.counters["multiline_requests"]++
		res := vlParse(text, prec)
		bad := ""
		if res.panic != nil {
			bad = fmt.Sprintf("panic %v", res.panic)
		} else if (res.err != nil) != wantErr {
			bad = fmt.Sprintf("err=%v, expected an error: %v", res.err, wantErr)
		} else if len(res.pts) != len(want) {
			bad = fmt.Sprintf("%d points, expected %d (err=%v)", len(res.pts), len(want), res.err)
		} else {
			for i, p := range res.pts {
				o, err := vlObserve(p)
				if err != nil {
					bad = fmt.Sprintf("point %d unreadable: %v", i, err)
					break
				}
				if d := want[i].equal(o); d != "" {
					bad = fmt.Sprintf("point %d differs from the same line parsed alone: %s", i, d)
					break
				}
			}
		}
		if bad != "" {
			// class: the forms of the first line whose addition makes the prefix deviate
			culprit := "?"
			for j := 1; j <= len(req); j++ {
				var pt []byte
				nOK, anyBad := 0, false
				for _, d := range req[:j] {
					pt = append(append(pt, d.r.text...), '\n')
					if d.l.Expect.Res == "ok" {
						nOK++
					} else if d.l.Expect.Res == "reject" {
						anyBad = true
					}
				}
				rr := vlParse(pt, prec)
				if rr.panic != nil || len(rr.pts) != nOK || (rr.err != nil) != anyBad {
					culprit = vlCulprit(req[j-1].l, vlAbout(req[j-1].l.Expect.Reason))
					break
				}
			}
			lines := make([]*vlLine, len(req))
			for i, d := range req {
				lines[i] = d.l
			}
			c.seen["lp:multiline:"+culprit]++
			if c.seen["lp:multiline:"+culprit] == 1 && len(c.seen) <= c.maxSigs {
				vtrace.Mismatch("lp:multiline:"+culprit, fmt.Sprintf("request %q: %s", text, bad),
					map[string]interface{}{"test": "LPM", "lines": lines, "seed": c.seed, "prec": prec, "text": text})
			}
		}
	}
	cnt := map[string]interface{}{"distinct_forms": len(c.forms), "signatures": c.seen}
	for k, v := range c.counters {
		cnt[k] = v
	}
	vtrace.Done("TestVerifLineProtocol", cnt)
	if len(c.seen) > 0 {
		t.Errorf("%d mismatch classes", len(c.seen))
	}
}

func vlMin(a, b int) int {
	if a < b {
		return a
	}
	return b
}

// TestVerifLineProtocolReplay re-runs one recorded case: {"test":"LP","line":...,"seed":...} or
// {"test":"LPM","lines":[...],"text":[bytes],"prec":...} or a raw binary / text mutation.
func TestVerifLineProtocolReplay(t *testing.T) {
	var rp struct {
		Test  string          `json:"test"`
		Line  *vlLine         `json:"line"`
		Lines []*vlLine       `json:"lines"`
		Seed  int64           `json:"seed"`
		Prec  string          `json:"prec"`
		Text  json.RawMessage `json:"text"`
		Bin   json.RawMessage `json:"bin"`
		Mut   string          `json:"mut"`
	}
	if err := vtrace.LoadJSON(os.Getenv("VERIF_IN"), &rp); err != nil {
		t.Fatal(err)
	}
	EnableUintSupport()
	c := &vlChecker{seed: rp.Seed, seen: map[string]int{}, maxSigs: 100, counters: map[string]int{}, forms: map[string]bool{},
		rnd: rand.New(rand.NewSource(rp.Seed)), muts: 0}
	decode := func(raw json.RawMessage) []byte {
		var b []byte // encoding/json writes []byte as base64
		if err := json.Unmarshal(raw, &b); err != nil {
			t.Fatal(err)
		}
		return b
	}
	switch {
	case rp.Bin != nil:
		b := decode(rp.Bin)
		var pv interface{}
		func() {
			defer func() {
				if e := recover(); e != nil {
					pv = e
				}
			}()
			q, err := NewPointFromBytes(b)
			if err == nil && q != nil {
				pv = vlExercise(q)
			}
		}()
		if pv != nil {
			vtrace.Mismatch("lp:panic:binary-"+rp.Mut+":"+vlPanicClass(pv), fmt.Sprintf("binary decoder / accessor panicked: %v", pv), rp)
		}
	case rp.Test == "LP" && rp.Text != nil:
		m := decode(rp.Text)
		r := vlParse(m, rp.Line.Prec)
		pv := r.panic
		if pv == nil {
			for _, p := range r.pts {
				if pv = vlExercise(p); pv != nil {
					break
				}
			}
		}
		if pv != nil {
			vtrace.Mismatch("lp:panic:text-mutation:"+vlPanicClass(pv), fmt.Sprintf("parser / accessor panicked on %q: %v", m, pv), rp)
		}
	case rp.Test == "LP":
		c.checkLine(rp.Line)
	case rp.Test == "LPM":
		text := decode(rp.Text)
		res := vlParse(text, rp.Prec)
		nOK, anyBad := 0, false
		for _, l := range rp.Lines {
			if l.Expect.Res == "ok" {
				nOK++
			} else if l.Expect.Res == "reject" {
				anyBad = true
			}
		}
		if res.panic != nil || len(res.pts) != nOK || (res.err != nil) != anyBad {
			vtrace.Mismatch("lp:multiline:replay", fmt.Sprintf("request %q: %d points (expected %d), err=%v, panic=%v", text, len(res.pts), nOK, res.err, res.panic), rp)
		}
	}
	vtrace.Done("TestVerifLineProtocolReplay", map[string]interface{}{"signatures": c.seen})
}
