// Package c18kit holds the parts of the C18 harness (backup / restore / copy-shard) that are shared by
// the store-level replay (package tsdb_test) and the network-level replay (package meta_test): scenario
// types as printed by CopyShardGen, a driver that brings a real tsdb.Store shard into the modelled
// state, reads through the iterator API, a tar stream tracker used to gate or cut a backup stream at
// the modelled points, and the judge.  It exists only in the build overlay (pkg/verifx/c18kit).
package c18kit

import (
	"context"
	"fmt"
	"io"
	"net"
	"os"
	"path/filepath"
	"sort"
	"strconv"
	"strings"
	"sync"
	"time"

	"github.com/influxdata/influxdb/models"
	"github.com/influxdata/influxdb/query"
	"github.com/influxdata/influxdb/tsdb"
	_ "github.com/influxdata/influxdb/tsdb/engine"
	"github.com/influxdata/influxdb/tsdb/engine/tsm1"
	_ "github.com/influxdata/influxdb/tsdb/index"
	"github.com/influxdata/influxql"
	"go.uber.org/zap"
)

// ---------------------------------------------------------------------------------------------- scenario

// FileSt is one source file of the model: generation, sequence, pending tombstones, mtimes (model clock).
type FileSt struct {
	G    int   `json:"g"`
	S    int   `json:"s"`
	Tomb []int `json:"tomb"`
	Mt   int   `json:"mt"`
	Tmt  int   `json:"tmt"`
}

// UnitSt is one tar entry the backup must contain.
type UnitSt struct {
	K string `json:"k"` // "tsm" | "tomb"
	G int    `json:"g"`
	S int    `json:"s"`
}

// State is the model state after a step.
type State struct {
	Src        []int    `json:"src"`
	Files      []FileSt `json:"files"`
	SnapOn     bool     `json:"snapOn"`
	CacheEmpty bool     `json:"cacheEmpty"`
	HasShard   bool     `json:"hasShard"`
	Units      []UnitSt `json:"units"`
	Sent       int      `json:"sent"`
	Wire       string   `json:"wire"`
	Partial    bool     `json:"partial"`
	Since      int      `json:"since"`
	Window     [][]int  `json:"window"`
	Round      int      `json:"round"`
	ChainOK    bool     `json:"chainOK"`
	Pc         string   `json:"pc"`
	DstModel   []int    `json:"dstModel"`
	RespModel  string   `json:"respModel"`
	Owners     []string `json:"owners"`
}

// Step is one action of CopyShard.
type Step struct {
	A  string `json:"a"`
	P  int    `json:"p"`
	V  int    `json:"v"`
	X  string `json:"x"`
	St State  `json:"st"`
}

// ---------------------------------------------------------------------------------------------- concrete values

const (
	DB          = "db0"
	RP          = "rp0"
	Measurement = "m"
)

var hosts = []string{"a", "b"}

// PointKey maps model point p (1-based) to its series (host tag) and timestamp.  Timestamp 0 is the Unix
// epoch (several encodings treat 0 specially).
func PointKey(p int) (host string, t int64) {
	return hosts[(p-1)%2], int64((p-1)/2) * 10
}

// Content is the logical content of a shard as read through the iterator API:
// "host@time/field" -> value.
type Content map[string]string

// ModelContent converts a model content vector (value per point, 0 = absent).
func ModelContent(c []int) Content {
	out := Content{}
	for i, v := range c {
		if v == 0 {
			continue
		}
		h, t := PointKey(i + 1)
		out[fmt.Sprintf("%s@%d/f", h, t)] = strconv.FormatFloat(float64(v), 'g', -1, 64)
		out[fmt.Sprintf("%s@%d/i", h, t)] = strconv.FormatInt(int64(10*v), 10)
	}
	return out
}

func (c Content) Equal(o Content) bool {
	if len(c) != len(o) {
		return false
	}
	for k, v := range c {
		if ov, ok := o[k]; !ok || ov != v {
			return false
		}
	}
	return true
}

func (c Content) String() string {
	ks := make([]string, 0, len(c))
	for k := range c {
		ks = append(ks, k)
	}
	sort.Strings(ks)
	var b strings.Builder
	b.WriteString("{")
	for i, k := range ks {
		if i > 0 {
			b.WriteString(" ")
		}
		b.WriteString(k + "=" + c[k])
	}
	b.WriteString("}")
	return b.String()
}

// Diff describes how c differs from want: keys only in c, keys only in want, keys with other values.
func (c Content) Diff(want Content) (extra, missing, stale []string) {
	for k, v := range c {
		if wv, ok := want[k]; !ok {
			extra = append(extra, k)
		} else if wv != v {
			stale = append(stale, k)
		}
	}
	for k := range want {
		if _, ok := c[k]; !ok {
			missing = append(missing, k)
		}
	}
	sort.Strings(extra)
	sort.Strings(missing)
	sort.Strings(stale)
	return
}

// InWindow reports whether c equals one of the model contents; if not it returns the nearest one.
func InWindow(c Content, window [][]int) (bool, Content) {
	var best Content
	bestN := -1
	for _, w := range window {
		m := ModelContent(w)
		if c.Equal(m) {
			return true, m
		}
		e, mi, s := c.Diff(m)
		if n := len(e) + len(mi) + len(s); bestN < 0 || n < bestN {
			best, bestN = m, n
		}
	}
	return false, best
}

// ---------------------------------------------------------------------------------------------- node

type noPlanner struct{}

func (noPlanner) Plan(time.Time) []tsm1.CompactionGroup { return nil }
func (noPlanner) PlanLevel(int) []tsm1.CompactionGroup  { return nil }
func (noPlanner) PlanOptimize() []tsm1.CompactionGroup  { return nil }
func (noPlanner) Release([]tsm1.CompactionGroup)        {}
func (noPlanner) FullyCompacted() bool                  { return true }
func (noPlanner) ForceFull()                            {}
func (noPlanner) SetFileStore(*tsm1.FileStore)          {}

// Node is one real tsdb.Store in a directory of its own.
type Node struct {
	Dir   string
	Index string
	Store *tsdb.Store
	// DefaultPlanner keeps the engine's own compaction planner (background compactions may run).
	DefaultPlanner bool

	snaps map[uint64]*inflight

	stuck bool              // an engine call never returned (watchdog): the store is left alone
	names map[string]UnitSt // real "generation-sequence" -> the model's, from the last CheckLayout
}

type inflight struct {
	snap *tsm1.Cache
	segs []string
}

// SnapInFlight reports whether SnapBegin was called for the shard without SnapEnd.
func (n *Node) SnapInFlight(id uint64) bool { return n.snaps[id] != nil }

// ModelName translates the generation and sequence of a real file into the model's numbering.
func (n *Node) ModelName(g, s int) (int, int) {
	if u, ok := n.names[fmt.Sprintf("%d-%d", g, s)]; ok {
		return u.G, u.S
	}
	return g, s
}

// OpenNode opens a store under dir.
func OpenNode(dir, index string, defaultPlanner bool) (*Node, error) {
	n := &Node{Dir: dir, Index: index, DefaultPlanner: defaultPlanner}
	return n, n.open()
}

func (n *Node) open() error {
	s := tsdb.NewStore(filepath.Join(n.Dir, "data"))
	s.EngineOptions.IndexVersion = n.Index
	s.EngineOptions.Config.WALDir = filepath.Join(n.Dir, "wal")
	if !n.DefaultPlanner {
		s.EngineOptions.CompactionPlannerCreator = func(cfg tsdb.Config) interface{} { return noPlanner{} }
	}
	s.WithLogger(zap.NewNop())
	if err := s.Open(); err != nil {
		return err
	}
	n.Store = s
	return nil
}

// Reopen closes the store and opens it again on the same directory (restart).
func (n *Node) Reopen() error {
	if err := n.Store.Close(); err != nil {
		return err
	}
	return n.open()
}

// Close closes the store and removes the directory.
func (n *Node) Close() {
	if n.stuck {
		return
	}
	if n.Store != nil {
		n.Store.Close()
	}
	os.RemoveAll(n.Dir)
}

func (n *Node) engine(id uint64) (*tsdb.Shard, *tsm1.Engine, error) {
	sh := n.Store.Shard(id)
	if sh == nil {
		return nil, nil, fmt.Errorf("shard %d does not exist in %s", id, n.Dir)
	}
	eng, err := sh.Engine()
	if err != nil {
		return nil, nil, err
	}
	e, ok := eng.(*tsm1.Engine)
	if !ok {
		return nil, nil, fmt.Errorf("engine is %T", eng)
	}
	return sh, e, nil
}

// Write writes model point p with model value v: field f (float) = v, field i (integer) = 10 v.
func (n *Node) Write(id uint64, p, v int) error {
	h, t := PointKey(p)
	pt, err := models.NewPoint(Measurement, models.NewTags(map[string]string{"host": h}),
		models.Fields{"f": float64(v), "i": int64(10 * v)}, time.Unix(0, t))
	if err != nil {
		return err
	}
	return n.Store.WriteToShard(id, []models.Point{pt})
}

// Wake re-enables the shard's compactions.  Store.monitorShards disables them (cache snapshots included)
// on every shard it finds idle at its 10 s tick and enables them again at the next tick after data
// arrived; a harness step that needs a snapshot in between does what that next tick would do.
func (n *Node) Wake(id uint64) {
	if sh := n.Store.Shard(id); sh != nil {
		sh.SetCompactionsEnabled(true)
	}
}

func disabledErr(err error) bool {
	return err != nil && (strings.Contains(err.Error(), "disabled") || strings.Contains(err.Error(), "aborted"))
}

// Snapshot runs the engine's WriteSnapshot from start to end.
func (n *Node) Snapshot(id uint64) error {
	_, e, err := n.engine(id)
	if err != nil {
		return err
	}
	for try := 0; ; try++ {
		n.Wake(id)
		if err = e.WriteSnapshot(); !disabledErr(err) || try == 3 {
			return err
		}
	}
}

// SnapBegin performs the first half of Engine.WriteSnapshot (close the WAL segment, Cache.Snapshot) with the
// same exported calls and leaves the snapshot in flight - the state a slow Compactor.WriteSnapshot leaves the
// engine in for as long as it runs.
func (n *Node) SnapBegin(id uint64) error {
	_, e, err := n.engine(id)
	if err != nil {
		return err
	}
	if n.snaps[id] != nil {
		return fmt.Errorf("a snapshot is already in flight")
	}
	fl := &inflight{}
	if e.WALEnabled {
		if err := e.WAL.CloseSegment(); err != nil {
			return err
		}
		if fl.segs, err = e.WAL.ClosedSegments(); err != nil {
			return err
		}
	}
	if fl.snap, err = e.Cache.Snapshot(); err != nil {
		return err
	}
	if n.snaps == nil {
		n.snaps = map[uint64]*inflight{}
	}
	n.snaps[id] = fl
	return nil
}

// SnapEnd performs the second half (Engine.writeSnapshotAndCommit) with the same exported calls.
func (n *Node) SnapEnd(id uint64) error {
	_, e, err := n.engine(id)
	if err != nil {
		return err
	}
	fl := n.snaps[id]
	if fl == nil {
		return fmt.Errorf("no snapshot in flight")
	}
	delete(n.snaps, id)
	snap := fl.snap
	snap.Deduplicate()
	var files []string
	for try := 0; ; try++ {
		n.Wake(id)
		if files, err = e.Compactor.WriteSnapshot(snap); !disabledErr(err) || try == 3 {
			break
		}
	}
	if err != nil {
		e.Cache.ClearSnapshot(false)
		return err
	}
	if err := e.FileStore.Replace(nil, files); err != nil {
		e.Cache.ClearSnapshot(false)
		return err
	}
	e.Cache.ClearSnapshot(true)
	if e.WALEnabled {
		return e.WAL.Remove(fl.segs)
	}
	return nil
}

// BreakSnapshot makes the next cache snapshot of the shard fail for a reason other than "a snapshot is in
// progress"; the returned function undoes it.
//
//	"disabled": Shard.SetCompactionsEnabled(false), the state Shard.Free (Store.monitorShards on an idle shard) leaves
//	            behind until the next tick; Compactor.WriteSnapshot returns errSnapshotsDisabled
//	"io":       a directory sits where the next snapshot file has to be created
func (n *Node) BreakSnapshot(id uint64, kind string) (func(), error) {
	sh, e, err := n.engine(id)
	if err != nil {
		return nil, err
	}
	switch kind {
	case "disabled":
		sh.SetCompactionsEnabled(false)
		return func() { sh.SetCompactionsEnabled(true) }, nil
	case "io":
		g := e.FileStore.NextGeneration() // consumed; the snapshot will ask for the next one
		var dirs []string
		for k := 1; k <= 2; k++ {
			d := filepath.Join(sh.Path(), fmt.Sprintf("%s.%s.%s", tsm1.DefaultFormatFileName(g+k, 1), tsm1.TSMFileExtension, tsm1.TmpTSMFileExtension))
			if err := os.MkdirAll(filepath.Join(d, "x"), 0777); err != nil {
				return nil, err
			}
			dirs = append(dirs, d)
		}
		return func() {
			for _, d := range dirs {
				os.RemoveAll(d)
			}
		}, nil
	}
	return nil, fmt.Errorf("unknown snapshot fault %q", kind)
}

type seriesElem struct {
	name []byte
	tags models.Tags
}

func (e seriesElem) Name() []byte        { return e.name }
func (e seriesElem) Tags() models.Tags   { return e.tags }
func (e seriesElem) Deleted() bool       { return false }
func (e seriesElem) Expr() influxql.Expr { return nil }

type seriesIter struct{ elems []seriesElem }

func (it *seriesIter) Close() error { return nil }
func (it *seriesIter) Next() (tsdb.SeriesElem, error) {
	if len(it.elems) == 0 {
		return nil, nil
	}
	e := it.elems[0]
	it.elems = it.elems[1:]
	return e, nil
}

// Delete removes model point p: DeleteSeriesRange(series of p, t(p), t(p)).
func (n *Node) Delete(id uint64, p int) error {
	sh, _, err := n.engine(id)
	if err != nil {
		return err
	}
	h, t := PointKey(p)
	it := &seriesIter{elems: []seriesElem{{name: []byte(Measurement), tags: models.NewTags(map[string]string{"host": h})}}}
	done := make(chan error, 1)
	go func() { done <- sh.DeleteSeriesRange(it, t, t) }()
	select {
	case err := <-done:
		return err
	case <-time.After(90 * time.Second):
		// a delete that never returns holds engine locks: the store cannot be closed either
		n.stuck = true
		return fmt.Errorf("watchdog: DeleteSeriesRange did not return within 90 s")
	}
}

// Compact runs a full compaction of all TSM files of the shard with the real Compactor and installs the
// result the way Engine.compactGroup does.
func (n *Node) Compact(id uint64) error {
	_, e, err := n.engine(id)
	if err != nil {
		return err
	}
	var paths []string
	for _, f := range e.FileStore.Files() {
		paths = append(paths, f.Path())
	}
	sort.Strings(paths)
	if len(paths) == 0 {
		return nil
	}
	var out []string
	for try := 0; ; try++ {
		e.Compactor.EnableCompactions()
		if out, err = e.Compactor.CompactFull(paths); !disabledErr(err) || try == 3 {
			break
		}
	}
	if err != nil {
		return err
	}
	return e.FileStore.Replace(paths, out)
}

// RealFile is one TSM file of the real shard.
type RealFile struct {
	Name     string // base name, e.g. 000000001-000000001.tsm
	G, S     int
	Tomb     bool
	Path     string
	TombPath string
}

// Files lists the shard's TSM files in file-store order.
func (n *Node) Files(id uint64) ([]RealFile, error) {
	_, e, err := n.engine(id)
	if err != nil {
		return nil, err
	}
	var out []RealFile
	for _, f := range e.FileStore.Files() {
		rf := RealFile{Name: filepath.Base(f.Path()), Path: f.Path()}
		if rf.G, rf.S, err = tsm1.DefaultParseFileName(rf.Name); err != nil {
			return nil, err
		}
		if ts := f.TombstoneStats(); ts.TombstoneExists {
			rf.Tomb = true
			rf.TombPath = ts.Path
		}
		out = append(out, rf)
	}
	sort.Slice(out, func(i, j int) bool { return out[i].Name < out[j].Name })
	return out, nil
}

// T0 is the concrete time of model clock 0; model clock k is T0 + k * 400 ms, so that consecutive clock values
// often fall into the same wall-clock second ("modified later than since" is a comparison of instants, not of seconds).
var T0 = time.Unix(1000000000, 0).UTC()

// ClockTime converts a model clock value.
func ClockTime(k int) time.Time { return T0.Add(time.Duration(k) * 400 * time.Millisecond) }

// CheckLayout compares the real file set with the model's and, when they agree, sets every file's
// modification time to the model's clock value (so that time-bounded backups are decided by the
// comparison in SinceFilterTarFile alone, not by the wall clock of the run).
func (n *Node) CheckLayout(id uint64, want []FileSt) (string, error) {
	got, err := n.Files(id)
	if err != nil {
		return "", err
	}
	desc := func() string {
		var g []string
		for _, f := range got {
			t := ""
			if f.Tomb {
				t = "+tomb"
			}
			g = append(g, fmt.Sprintf("%d-%d%s", f.G, f.S, t))
		}
		var w []string
		for _, f := range want {
			t := ""
			if len(f.Tomb) > 0 {
				t = "+tomb"
			}
			w = append(w, fmt.Sprintf("%d-%d%s", f.G, f.S, t))
		}
		return fmt.Sprintf("real files %v, model %v", g, w)
	}
	if len(got) != len(want) {
		return desc(), nil
	}
	// Generations are compared up to an order-preserving renaming: the engine consumes a generation number
	// for a cache snapshot that turns out to hold no values, which the model does not track.
	names := map[string]UnitSt{}
	for i := range got {
		if got[i].S != want[i].S || got[i].Tomb != (len(want[i].Tomb) > 0) {
			return desc(), nil
		}
		if i > 0 && (got[i].G > got[i-1].G) != (want[i].G > want[i-1].G) {
			return desc(), nil
		}
		names[fmt.Sprintf("%d-%d", got[i].G, got[i].S)] = UnitSt{G: want[i].G, S: want[i].S}
	}
	n.names = names
	for i := range got {
		mt := ClockTime(want[i].Mt)
		if err := os.Chtimes(got[i].Path, mt, mt); err != nil {
			if os.IsNotExist(err) {
				return "", &FileMissingError{Path: got[i].Path}
			}
			return "", err
		}
		if got[i].Tomb {
			tt := ClockTime(want[i].Tmt)
			if err := os.Chtimes(got[i].TombPath, tt, tt); err != nil {
				if os.IsNotExist(err) {
					return "", &FileMissingError{Path: got[i].TombPath}
				}
				return "", err
			}
		}
	}
	return "", nil
}

// FileMissingError: a file the shard's file store lists as live does not exist in the shard directory.
type FileMissingError struct{ Path string }

func (e *FileMissingError) Error() string {
	return "file store lists " + filepath.Base(e.Path) + " but the file is not in the shard directory"
}

// Read returns the logical content of the shard through Shard.CreateIterator: every series, both fields.
func (n *Node) Read(id uint64) (Content, error) {
	sh := n.Store.Shard(id)
	if sh == nil {
		return nil, fmt.Errorf("shard %d does not exist", id)
	}
	return ReadShard(sh)
}

// ReadShard reads one shard.
func ReadShard(sh *tsdb.Shard) (Content, error) {
	out := Content{}
	for _, h := range hosts {
		for _, f := range []string{"f", "i"} {
			opt := query.IteratorOptions{
				Expr:      &influxql.VarRef{Val: f},
				Condition: &influxql.BinaryExpr{Op: influxql.EQ, LHS: &influxql.VarRef{Val: "host"}, RHS: &influxql.StringLiteral{Val: h}},
				Ascending: true, StartTime: influxql.MinTime, EndTime: influxql.MaxTime, Ordered: true,
			}
			itr, err := sh.CreateIterator(context.Background(), &influxql.Measurement{Name: Measurement}, opt)
			if err != nil {
				return nil, fmt.Errorf("CreateIterator(%s,%s): %v", h, f, err)
			}
			if itr == nil {
				continue
			}
			for {
				var t int64
				var v string
				var end bool
				switch it := itr.(type) {
				case query.FloatIterator:
					p, e := it.Next()
					if err = e; p == nil {
						end = true
					} else {
						t, v = p.Time, strconv.FormatFloat(p.Value, 'g', -1, 64)
					}
				case query.IntegerIterator:
					p, e := it.Next()
					if err = e; p == nil {
						end = true
					} else {
						t, v = p.Time, strconv.FormatInt(p.Value, 10)
					}
				default:
					itr.Close()
					return nil, fmt.Errorf("field %s of host %s is read by a %T", f, h, itr)
				}
				if err != nil {
					itr.Close()
					return nil, fmt.Errorf("reading %s/%s: %v", h, f, err)
				}
				if end {
					break
				}
				k := fmt.Sprintf("%s@%d/%s", h, t, f)
				if _, dup := out[k]; dup {
					itr.Close()
					return nil, fmt.Errorf("two points for %s", k)
				}
				out[k] = v
			}
			itr.Close()
		}
	}
	return out, nil
}

// ---------------------------------------------------------------------------------------------- tar stream tracking

// TarEntry is one entry of a tar stream as seen on the wire.
type TarEntry struct {
	Name    string
	Size    int64
	HdrOff  int64
	DataOff int64
	EndOff  int64 // after the padding
}

// UnitOf maps an entry name to the model's unit (kind, generation, sequence).
func UnitOf(name string) (UnitSt, bool) {
	base := filepath.Base(filepath.FromSlash(name))
	var k string
	switch {
	case strings.HasSuffix(base, "."+tsm1.TSMFileExtension):
		k = "tsm"
	case strings.HasSuffix(base, "."+tsm1.TombstoneFileExtension):
		k = "tomb"
	default:
		return UnitSt{}, false
	}
	g, s, err := tsm1.DefaultParseFileName(base)
	if err != nil {
		return UnitSt{}, false
	}
	return UnitSt{K: k, G: g, S: s}, true
}

func padded(n int64) int64 { return (n + 511) / 512 * 512 }

func cstr(b []byte) string {
	for i, c := range b {
		if c == 0 {
			return string(b[:i])
		}
	}
	return string(b)
}

func octal(b []byte) int64 {
	s := strings.Trim(cstr(b), " ")
	if s == "" {
		return 0
	}
	n, _ := strconv.ParseInt(s, 8, 64)
	return n
}

// tracker follows a tar byte stream.  A "boundary" is the position in front of a header block (or of the
// end-of-archive marker); auxiliary entries (PAX / GNU long names) are glued to the entry they precede.
type tracker struct {
	off      int64
	hdr      []byte
	inHdr    bool
	next     int64 // offset of the next boundary once the header is known
	aux      bool  // current header is auxiliary
	cur      *TarEntry
	entries  []TarEntry // completed entries (auxiliary ones not counted)
	trailer  bool       // inside / after the end-of-archive marker
	auxStart int64
}

func newTracker() *tracker { return &tracker{inHdr: true} }

// atBoundary: the next byte starts a header block of a new (non-auxiliary-continued) entry or the marker.
func (t *tracker) atBoundary() bool { return t.inHdr && len(t.hdr) == 0 && !t.aux && !t.trailer }

// consume takes bytes up to the next boundary (at most len(p)); returns the number taken.
func (t *tracker) consume(p []byte) int {
	n := 0
	for n < len(p) {
		if t.trailer {
			t.off += int64(len(p) - n)
			return len(p)
		}
		if t.inHdr {
			need := 512 - len(t.hdr)
			k := len(p) - n
			if k > need {
				k = need
			}
			t.hdr = append(t.hdr, p[n:n+k]...)
			n += k
			t.off += int64(k)
			if len(t.hdr) < 512 {
				continue
			}
			h := t.hdr
			t.hdr = nil
			zero := true
			for _, c := range h {
				if c != 0 {
					zero = false
					break
				}
			}
			if zero {
				t.trailer = true
				continue
			}
			size := octal(h[124:136])
			typ := h[156]
			hdrOff := t.off - 512
			if typ == 'x' || typ == 'g' || typ == 'L' || typ == 'K' {
				if !t.aux {
					t.auxStart = hdrOff
				}
				t.aux = true
				t.cur = nil
			} else {
				name := cstr(h[0:100])
				if pre := cstr(h[345:500]); pre != "" && cstr(h[257:263]) == "ustar" {
					name = pre + "/" + name
				}
				start := hdrOff
				if t.aux {
					start = t.auxStart
				}
				t.aux = false
				t.cur = &TarEntry{Name: name, Size: size, HdrOff: start, DataOff: t.off, EndOff: t.off + padded(size)}
			}
			t.next = t.off + padded(size)
			t.inHdr = false
			if t.next == t.off {
				t.finish()
				if !t.aux {
					return n
				}
			}
			continue
		}
		k := int64(len(p) - n)
		if rem := t.next - t.off; k > rem {
			k = rem
		}
		n += int(k)
		t.off += k
		if t.off == t.next {
			t.finish()
			if !t.aux {
				return n
			}
		}
	}
	return n
}

func (t *tracker) finish() {
	t.inHdr = true
	if t.cur != nil {
		t.entries = append(t.entries, *t.cur)
		t.cur = nil
	}
}

// Layout parses a complete tar stream.
func Layout(b []byte) ([]TarEntry, bool) {
	t := newTracker()
	for len(b) > 0 {
		n := t.consume(b)
		b = b[n:]
	}
	return t.entries, t.trailer
}

// CutOffset is the number of bytes of the stream b that reach the reader for a modelled cut.
func CutOffset(b []byte, at string, sent int) (int, error) {
	ents, _ := Layout(b)
	switch at {
	case "beforeFirst":
		return 0, nil
	case "midFile":
		if sent >= len(ents) {
			return 0, fmt.Errorf("midFile: %d entries, sent %d", len(ents), sent)
		}
		e := ents[sent]
		if e.Size == 0 {
			return int(e.HdrOff + 256), nil
		}
		return int(e.DataOff + e.Size/2), nil
	case "boundary":
		if sent < 1 || sent > len(ents) {
			return 0, fmt.Errorf("boundary: %d entries, sent %d", len(ents), sent)
		}
		return int(ents[sent-1].EndOff), nil
	case "beforeTrailer":
		if len(ents) == 0 {
			return 0, nil
		}
		return int(ents[len(ents)-1].EndOff), nil
	}
	return 0, fmt.Errorf("unknown cut %q", at)
}

// TarGate is an io.Writer that collects a backup stream and stops the writer in front of every entry
// (and in front of the end-of-archive marker) until the driver lets it go on.
type TarGate struct {
	mu      sync.Mutex
	buf     []byte
	tr      *tracker
	free    bool
	arrived chan int // number of completed entries at the boundary reached
	release chan struct{}
	Watch   time.Duration
}

func NewTarGate() *TarGate {
	return &TarGate{tr: newTracker(), arrived: make(chan int, 1), release: make(chan struct{}), Watch: 120 * time.Second}
}

func (g *TarGate) Write(p []byte) (int, error) {
	total := 0
	for len(p) > 0 {
		g.mu.Lock()
		stop := g.tr.atBoundary() && !g.free
		done := len(g.tr.entries)
		g.mu.Unlock()
		if stop {
			select {
			case g.arrived <- done:
			case <-time.After(g.Watch):
				return total, fmt.Errorf("gate watchdog: the driver did not take the arrival")
			}
			select {
			case <-g.release:
			case <-time.After(g.Watch):
				return total, fmt.Errorf("gate watchdog: not released")
			}
		}
		g.mu.Lock()
		n := g.tr.consume(p)
		g.buf = append(g.buf, p[:n]...)
		g.mu.Unlock()
		total += n
		p = p[n:]
	}
	return total, nil
}

// Arrived waits until the writer stands at a boundary; returns the number of entries completed so far.
func (g *TarGate) Arrived() <-chan int { return g.arrived }

// Step lets the writer run to the next boundary.
func (g *TarGate) Step() {
	select {
	case g.release <- struct{}{}:
	case <-time.After(g.Watch):
	}
}

// Free lets the writer run to the end; call when the writer stands at a boundary or before it started.
func (g *TarGate) Free(standing bool) {
	g.mu.Lock()
	g.free = true
	g.mu.Unlock()
	if standing {
		g.Step()
	}
}

// Bytes returns what was written so far.
func (g *TarGate) Bytes() []byte {
	g.mu.Lock()
	defer g.mu.Unlock()
	return append([]byte(nil), g.buf...)
}

// Entries returns the completed entries so far.
func (g *TarGate) Entries() []TarEntry {
	g.mu.Lock()
	defer g.mu.Unlock()
	return append([]TarEntry(nil), g.tr.entries...)
}

// ---------------------------------------------------------------------------------------------- connection cut

// CutPlan describes where the next connection accepted by a CutListener ends.
type CutPlan struct {
	At   string // "", "beforeFirst", "midFile", "boundary", "beforeTrailer"
	Sent int    // complete entries delivered before the cut
	RST  bool   // close with SO_LINGER 0
}

// CutListener wraps the raw listener of a node; connections it accepts write through a tar tracker.
type CutListener struct {
	net.Listener
	mu    sync.Mutex
	plan  *CutPlan
	Conns int
	Cuts  int
	Bytes int64
}

// Arm sets the plan for the next accepted connection (nil: pass through).
func (l *CutListener) Arm(p *CutPlan) {
	l.mu.Lock()
	l.plan = p
	l.mu.Unlock()
}

func (l *CutListener) Accept() (net.Conn, error) {
	c, err := l.Listener.Accept()
	if err != nil {
		return nil, err
	}
	l.mu.Lock()
	p := l.plan
	l.plan = nil
	l.Conns++
	l.mu.Unlock()
	if p == nil || p.At == "" {
		return c, nil
	}
	return &cutConn{Conn: c, l: l, plan: *p, tr: newTracker()}, nil
}

type cutConn struct {
	net.Conn
	l    *CutListener
	plan CutPlan
	tr   *tracker
	mu   sync.Mutex
	cut  bool
}

func (c *cutConn) doCut() {
	c.cut = true
	c.l.mu.Lock()
	c.l.Cuts++
	c.l.mu.Unlock()
	if c.plan.RST {
		if tc, ok := c.Conn.(*net.TCPConn); ok {
			tc.SetLinger(0)
		}
	}
	c.Conn.Close()
}

func (c *cutConn) Write(p []byte) (int, error) {
	c.mu.Lock()
	defer c.mu.Unlock()
	total := 0
	for len(p) > 0 {
		if c.cut {
			return total, io.ErrClosedPipe
		}
		if c.tr.atBoundary() {
			done := len(c.tr.entries)
			trailerNext := p[0] == 0
			switch c.plan.At {
			case "beforeFirst":
				if done == 0 {
					c.doCut()
				}
			case "boundary":
				if done == c.plan.Sent && !trailerNext {
					c.doCut()
				}
			case "beforeTrailer":
				if trailerNext {
					c.doCut()
				}
			}
			if c.cut {
				return total, io.ErrClosedPipe
			}
		}
		limit := len(p)
		if c.plan.At == "midFile" && len(c.tr.entries) == c.plan.Sent && !c.tr.trailer {
			// inside entry number Sent: stop in the middle of its data (or of its header when it has no data)
			if c.tr.inHdr {
				if len(c.tr.hdr)+limit > 512 {
					limit = 512 - len(c.tr.hdr)
				}
			} else if c.tr.cur != nil {
				half := c.tr.cur.DataOff + c.tr.cur.Size/2
				if c.tr.cur.Size == 0 {
					half = c.tr.cur.DataOff
				}
				if rem := half - c.tr.off; rem <= 0 {
					c.doCut()
					return total, io.ErrClosedPipe
				} else if int64(limit) > rem {
					limit = int(rem)
				}
			}
		}
		n := c.tr.consume(p[:limit])
		m, err := c.Conn.Write(p[:n])
		total += m
		c.l.mu.Lock()
		c.l.Bytes += int64(m)
		c.l.mu.Unlock()
		if err != nil {
			return total, err
		}
		p = p[n:]
	}
	return total, nil
}

// ---------------------------------------------------------------------------------------------- judge

// Class names the content class of the source when a backup begins (prev = state before BackupBegin).
func Class(prev *State, missing bool) string {
	switch {
	case missing:
		return "missing"
	case prev == nil:
		return "empty"
	case prev.SnapOn:
		return "inflight"
	}
	tomb := false
	for _, f := range prev.Files {
		if len(f.Tomb) > 0 {
			tomb = true
		}
	}
	switch {
	case len(prev.Files) == 0 && prev.CacheEmpty:
		return "empty"
	case len(prev.Files) == 0:
		return "cache"
	case tomb && prev.CacheEmpty:
		return "tomb"
	case tomb:
		return "tomb+cache"
	case prev.CacheEmpty:
		return "files"
	}
	return "mixed"
}

// DiffClass names the way a copy that is not in the window differs, given the circumstances.
func DiffClass(got Content, window [][]int, cutAccepted, inflight, tombShipped bool) (string, string) {
	_, near := InWindow(got, window)
	if near == nil {
		near = Content{}
	}
	extra, missing, stale := got.Diff(near)
	detail := fmt.Sprintf("copy reads %s; nearest allowed source state %s (only in the copy: %v, missing in the copy: %v, other value: %v)",
		got, near, extra, missing, stale)
	switch {
	case cutAccepted && (len(missing) > 0 || len(stale) > 0):
		return "truncated-accepted", detail
	case inflight && (len(missing) > 0 || len(stale) > 0):
		return "acked-missing", detail
	case tombShipped && (len(extra) > 0 || len(stale) > 0):
		return "deleted-resurrected", detail
	case cutAccepted:
		return "truncated-accepted", detail
	}
	return "differs", detail
}
