// Package authx holds what the two C16 harnesses (services/meta in-package, services/httpd) share:
// the decoded form of the cases printed by specs/auth/AuthGen.tla, the canonical user order of the
// model, and the table of InfluxQL statement INSTANCES per (class, form) of the model.
// It exists only in the build overlay (virtual path pkg/verifx/authx) and must not import services/meta.
package authx

import (
	"fmt"
	"reflect"
	"sort"
	"strings"

	"github.com/influxdata/influxql"
)

// StmtKey is a statement instance of the model: class (influxql type name without "Statement"),
// syntactic form and the database slots.
type StmtKey struct {
	Cls  string `json:"cls"`
	Form string `json:"form"`
	A    string `json:"a"`
	B    string `json:"b"`
	Dev  string `json:"dev"` // recorded deviation of the implementation that applies to this instance ("" = none)
}

func (k StmtKey) String() string { return k.Cls + "." + k.Form }

// Group is one line of AuthGen: (world, credential case, operation, default database) with the
// expected code for every user of the canonical order (-1: user does not exist in that world).
// code = status*100 + executed*10 + allowed.
type Group struct {
	World     string    `json:"world"`
	CC        string    `json:"cc"`
	DDB       string    `json:"ddb"`
	Kind      string    `json:"kind"`
	DB        string    `json:"db"`
	Stmts     []StmtKey `json:"stmts"`
	Devs      []string  `json:"devs"`
	Principal string    `json:"principal"`
	Codes     []int     `json:"codes"`
}

// Input is what the orchestrator hands to the matrix drivers.
type Input struct {
	Groups    []Group  `json:"groups"`
	Classes   []string `json:"classes"`    // classes of the model
	StmtTypes []string `json:"stmt_types"` // every type of the influxql package that implements Statement
	Only      *Replay  `json:"only"`       // replay of a single case
}

// Replay identifies one case.
type Replay struct {
	Group Group `json:"group"`
	User  int   `json:"user"` // index into the canonical order, 0-based
}

// Decode splits a code.
func Decode(code int) (status, executed int, allowed bool) {
	return code / 100, (code / 10) % 10, code%10 == 1
}

var privNames = []string{"none", "read", "write", "all"}

// User is a user of the canonical order: index = admin*16 + priv(d1)*4 + priv(d2).
type User struct {
	Index  int
	Admin  bool
	P1, P2 influxql.Privilege
}

// Users returns the canonical order (same indexing as U(i) in Auth.tla, 0-based here).
func Users() []User {
	var us []User
	for i := 0; i < 32; i++ {
		us = append(us, User{Index: i, Admin: i/16 == 1, P1: influxql.Privilege((i / 4) % 4), P2: influxql.Privilege(i % 4)})
	}
	return us
}

// Name is the user's name in the real metadata.
func (u User) Name() string {
	a := "n"
	if u.Admin {
		a = "a"
	}
	return fmt.Sprintf("u_%s_%s_%s", a, privNames[int(u.P1)], privNames[int(u.P2)])
}

// Password of a canonical user.
func (u User) Password() string { return "pw-" + u.Name() }

func init() {
	// the model's privilege order none < read < write < all is the numeric order of influxql.Privilege
	if influxql.NoPrivileges != 0 || influxql.ReadPrivilege != 1 || influxql.WritePrivilege != 2 || influxql.AllPrivileges != 3 {
		panic("authx: influxql.Privilege numbering changed")
	}
}

// templates: InfluxQL text per (class, form); {a} and {b} are the database slots.
// A value starting with "ast:" is built directly (the parser cannot produce that type).
var templates = map[string]string{
	"AlterRetentionPolicy.plain":  `ALTER RETENTION POLICY rp ON d1 DURATION 1h`,
	"CreateDatabase.plain":        `CREATE DATABASE dx`,
	"CreateRetentionPolicy.plain": `CREATE RETENTION POLICY rp ON d1 DURATION 1h REPLICATION 1`,
	"CreateSubscription.plain":    `CREATE SUBSCRIPTION s ON d1.rp DESTINATIONS ALL 'udp://h:1'`,
	"DropDatabase.plain":          `DROP DATABASE d1`,
	"DropShard.plain":             `DROP SHARD 1`,
	"DropSubscription.plain":      `DROP SUBSCRIPTION s ON d1.rp`,
	"DropUser.plain":              `DROP USER x`,
	"Grant.plain":                 `GRANT READ ON d1 TO x`,
	"GrantAdmin.plain":            `GRANT ALL PRIVILEGES TO x`,
	"KillQuery.plain":             `KILL QUERY 1`,
	"Revoke.plain":                `REVOKE READ ON d1 FROM x`,
	"RevokeAdmin.plain":           `REVOKE ALL PRIVILEGES FROM x`,
	"SetPasswordUser.plain":       `SET PASSWORD FOR x = 'p'`,
	"ShowDiagnostics.plain":       `SHOW DIAGNOSTICS`,
	"ShowGrantsForUser.plain":     `SHOW GRANTS FOR x`,
	"ShowShardGroups.plain":       `SHOW SHARD GROUPS`,
	"ShowShards.plain":            `SHOW SHARDS`,
	"ShowStats.plain":             `SHOW STATS`,
	"ShowSubscriptions.plain":     `SHOW SUBSCRIPTIONS`,
	"ShowUsers.plain":             `SHOW USERS`,
	"CreateUser.plain":            `CREATE USER x WITH PASSWORD 'p'`,
	"CreateUser.admin":            `CREATE USER x WITH PASSWORD 'p' WITH ALL PRIVILEGES`,
	"ShowDatabases.plain":         `SHOW DATABASES`,

	"ShowContinuousQueries.default": `SHOW CONTINUOUS QUERIES`,
	"ShowQueries.default":           `SHOW QUERIES`,
	"ShowServers.default":           `SHOW SERVERS`,

	"ShowFieldKeys.default":                    `SHOW FIELD KEYS`,
	"ShowFieldKeys.on":                         `SHOW FIELD KEYS ON {a}`,
	"ShowFieldKeys.from":                       `SHOW FIELD KEYS FROM {a}..m`,
	"ShowSeries.default":                       `SHOW SERIES`,
	"ShowSeries.on":                            `SHOW SERIES ON {a}`,
	"ShowSeries.from":                          `SHOW SERIES FROM {a}..m`,
	"ShowTagKeys.default":                      `SHOW TAG KEYS`,
	"ShowTagKeys.on":                           `SHOW TAG KEYS ON {a}`,
	"ShowTagValues.default":                    `SHOW TAG VALUES WITH KEY = k`,
	"ShowTagValues.on":                         `SHOW TAG VALUES ON {a} WITH KEY = k`,
	"ShowMeasurements.default":                 `SHOW MEASUREMENTS`,
	"ShowMeasurements.on":                      `SHOW MEASUREMENTS ON {a}`,
	"ShowMeasurements.on_rp":                   `SHOW MEASUREMENTS ON {a}.rp`,
	"ShowMeasurements.wild":                    `SHOW MEASUREMENTS ON *.*`,
	"ShowRetentionPolicies.default":            `SHOW RETENTION POLICIES`,
	"ShowRetentionPolicies.on":                 `SHOW RETENTION POLICIES ON {a}`,
	"ShowSeriesCardinality.default":            `SHOW SERIES CARDINALITY`,
	"ShowSeriesCardinality.on":                 `SHOW SERIES CARDINALITY ON {a}`,
	"ShowSeriesCardinality.exact_default":      `SHOW SERIES EXACT CARDINALITY`,
	"ShowSeriesCardinality.exact_on":           `SHOW SERIES EXACT CARDINALITY ON {a}`,
	"ShowSeriesCardinality.exact_on_from":      `SHOW SERIES EXACT CARDINALITY ON {a} FROM m`,
	"ShowMeasurementCardinality.default":       `SHOW MEASUREMENT CARDINALITY`,
	"ShowMeasurementCardinality.on":            `SHOW MEASUREMENT CARDINALITY ON {a}`,
	"ShowMeasurementCardinality.exact_default": `SHOW MEASUREMENT EXACT CARDINALITY`,
	"ShowMeasurementCardinality.exact_on":      `SHOW MEASUREMENT EXACT CARDINALITY ON {a}`,
	"ShowMeasurementCardinality.exact_on_from": `SHOW MEASUREMENT EXACT CARDINALITY ON {a} FROM m`,
	"ShowTagKeyCardinality.default":            `SHOW TAG KEY CARDINALITY`,
	"ShowTagKeyCardinality.on":                 `SHOW TAG KEY CARDINALITY ON {a}`,
	"ShowTagKeyCardinality.exact_on":           `SHOW TAG KEY EXACT CARDINALITY ON {a}`,
	"ShowTagKeyCardinality.on_from":            `SHOW TAG KEY CARDINALITY ON {a} FROM m`,
	"ShowFieldKeyCardinality.default":          `SHOW FIELD KEY CARDINALITY`,
	"ShowFieldKeyCardinality.on":               `SHOW FIELD KEY CARDINALITY ON {a}`,
	"ShowFieldKeyCardinality.exact_on":         `SHOW FIELD KEY EXACT CARDINALITY ON {a}`,
	"ShowFieldKeyCardinality.on_from":          `SHOW FIELD KEY CARDINALITY ON {a} FROM m`,
	"ShowTagValuesCardinality.default":         `SHOW TAG VALUES CARDINALITY WITH KEY = k`,
	"ShowTagValuesCardinality.on":              `SHOW TAG VALUES CARDINALITY ON {a} WITH KEY = k`,
	"ShowTagValuesCardinality.exact_on":        `SHOW TAG VALUES EXACT CARDINALITY ON {a} WITH KEY = k`,
	"ShowTagValuesCardinality.on_from":         `SHOW TAG VALUES CARDINALITY ON {a} FROM m WITH KEY = k`,

	"Select.default":      `SELECT v FROM m`,
	"Select.from":         `SELECT v FROM {a}..m`,
	"Select.subq":         `SELECT v FROM (SELECT v FROM {a}..m)`,
	"Select.from2":        `SELECT v FROM {a}..m, {b}..m2`,
	"Select.into_default": `SELECT v INTO m2 FROM m`,
	"Select.into":         `SELECT v INTO {b}..m2 FROM {a}..m`,
	"Select.into_mixed":   `SELECT v INTO {a}..m2 FROM m`,
	// explicit and default databases mixed within one statement, both orders
	"Select.from_mixed":      `SELECT v FROM {a}..m, m2`,
	"Select.from_mixed_rev":  `SELECT v FROM m2, {a}..m`,
	"Select.subq_mixed":      `SELECT v FROM (SELECT v FROM {a}..m), m2`,
	"Select.subq_mixed_rev":  `SELECT v FROM m2, (SELECT v FROM {a}..m)`,
	"Select.subq_inner_dfl":  `SELECT v FROM {a}..m, (SELECT v FROM m2)`,
	"Select.into_dfl_from":   `SELECT v INTO m2 FROM {a}..m`,
	"Select.into_from_mixed": `SELECT v INTO {b}..m3 FROM {a}..m, m2`,
	"Explain.from_mixed":     `EXPLAIN SELECT v FROM {a}..m, m2`,
	"Explain.from_mixed_rev": `EXPLAIN SELECT v FROM m2, {a}..m`,
	"Explain.default":        `EXPLAIN SELECT v FROM m`,
	"Explain.from":           `EXPLAIN SELECT v FROM {a}..m`,
	"Explain.analyze_from":   `EXPLAIN ANALYZE SELECT v FROM {a}..m`,

	"DeleteSeries.default":    `DELETE FROM m`,
	"DeleteSeries.where":      `DELETE WHERE time < 10`,
	"DropSeries.default":      `DROP SERIES FROM m`,
	"Delete.default":          `ast:delete`,
	"DropMeasurement.default": `DROP MEASUREMENT m`,

	"DropContinuousQuery.on":        `DROP CONTINUOUS QUERY cq ON {a}`,
	"DropRetentionPolicy.on":        `DROP RETENTION POLICY rp ON {a}`,
	"CreateContinuousQuery.on":      `CREATE CONTINUOUS QUERY cq ON {a} BEGIN SELECT count(v) INTO m2 FROM m GROUP BY time(1h) END`,
	"CreateContinuousQuery.on_into": `CREATE CONTINUOUS QUERY cq ON {a} BEGIN SELECT count(v) INTO {b}.rp.m2 FROM m GROUP BY time(1h) END`,
	"CreateContinuousQuery.on_from": `CREATE CONTINUOUS QUERY cq ON {a} BEGIN SELECT count(v) INTO m2 FROM {b}.rp.m GROUP BY time(1h) END`,
}

// astOnly lists the Statement types the parser cannot produce (kept in the matrix through a literal AST).
var astOnly = map[string]string{
	"Delete": "the parser turns DELETE into *DeleteSeriesStatement; *DeleteStatement only exists as an AST node",
}

// Text returns the InfluxQL text of an instance ("" for AST-only instances).
func Text(k StmtKey) (string, error) {
	t, ok := templates[k.String()]
	if !ok {
		return "", fmt.Errorf("no statement instance for model form %s", k)
	}
	if strings.HasPrefix(t, "ast:") {
		return "", nil
	}
	if strings.Contains(t, "{a}") && k.A == "-" || strings.Contains(t, "{b}") && k.B == "-" {
		return "", fmt.Errorf("form %s needs a database slot the model did not fill", k)
	}
	t = strings.Replace(t, "{a}", k.A, -1)
	t = strings.Replace(t, "{b}", k.B, -1)
	return t, nil
}

// TypeName returns the class of a parsed statement.
func TypeName(s influxql.Statement) string {
	t := reflect.TypeOf(s)
	for t.Kind() == reflect.Ptr {
		t = t.Elem()
	}
	return strings.TrimSuffix(t.Name(), "Statement")
}

// Statement builds the real statement of an instance and checks that it has the class the model says.
func Statement(k StmtKey) (influxql.Statement, error) {
	txt, err := Text(k)
	if err != nil {
		return nil, err
	}
	var st influxql.Statement
	if txt == "" {
		switch templates[k.String()] {
		case "ast:delete":
			st = &influxql.DeleteStatement{Source: &influxql.Measurement{Name: "m"}}
		default:
			return nil, fmt.Errorf("unknown ast template for %s", k)
		}
	} else {
		q, err := influxql.ParseQuery(txt)
		if err != nil {
			return nil, fmt.Errorf("instance %s %q does not parse: %v", k, txt, err)
		}
		if len(q.Statements) != 1 {
			return nil, fmt.Errorf("instance %s %q parses to %d statements", k, txt, len(q.Statements))
		}
		st = q.Statements[0]
	}
	if got := TypeName(st); got != k.Cls {
		return nil, fmt.Errorf("instance %s %q has type %s", k, txt, got)
	}
	return st, nil
}

// Query builds the real query of a group; text is "" when it contains an AST-only statement
// (such a query cannot be sent over HTTP).
func Query(keys []StmtKey) (q *influxql.Query, text string, err error) {
	q = &influxql.Query{}
	var parts []string
	sendable := true
	for _, k := range keys {
		st, err := Statement(k)
		if err != nil {
			return nil, "", err
		}
		q.Statements = append(q.Statements, st)
		t, _ := Text(k)
		if t == "" {
			sendable = false
		}
		parts = append(parts, t)
	}
	if sendable {
		text = strings.Join(parts, "; ")
		// the text as a whole must parse to the same statement types (what the handler will see)
		pq, err := influxql.ParseQuery(text)
		if err != nil {
			return nil, "", fmt.Errorf("query %q does not parse: %v", text, err)
		}
		if len(pq.Statements) != len(keys) {
			return nil, "", fmt.Errorf("query %q parses to %d statements, want %d", text, len(pq.Statements), len(keys))
		}
		for i := range keys {
			if TypeName(pq.Statements[i]) != keys[i].Cls {
				return nil, "", fmt.Errorf("query %q statement %d has type %s", text, i, TypeName(pq.Statements[i]))
			}
		}
	}
	return q, text, nil
}

// Unclassified implements the guard "every influxql.Statement type is in some class":
// stmtTypes = types of the influxql package implementing Statement (scanned from its source by the
// orchestrator), classes = classes of the model.  Returned: types without class / without instance,
// and classes of the model that no longer exist in the package.
func Unclassified(stmtTypes, classes []string) (missing []string, stale []string) {
	inModel := map[string]bool{}
	for _, c := range classes {
		inModel[c] = true
	}
	hasInstance := map[string]bool{}
	for k := range templates {
		hasInstance[strings.SplitN(k, ".", 2)[0]] = true
	}
	inPkg := map[string]bool{}
	for _, t := range stmtTypes {
		c := strings.TrimSuffix(t, "Statement")
		inPkg[c] = true
		if !inModel[c] || !hasInstance[c] {
			missing = append(missing, t)
		}
	}
	for _, c := range classes {
		if !inPkg[c] {
			stale = append(stale, c)
		}
	}
	sort.Strings(missing)
	sort.Strings(stale)
	return
}

// AstOnly reports the classes that are kept through a literal AST and why.
func AstOnly() map[string]string { return astOnly }

// Sig is the signature of "ran although not allowed".
// predicted: the implementation model (with its recorded deviations) expected the execution; the
// signature then names the deviation and the statement form it belongs to.
func Sig(g Group, predicted bool, level string) string {
	var ks []string
	for _, k := range g.Stmts {
		ks = append(ks, k.String())
	}
	what := strings.Join(ks, ";")
	if g.Kind == "write" {
		what = "write"
	}
	if predicted {
		for _, k := range g.Stmts {
			if k.Dev != "" {
				return "dev:" + k.Dev + ":" + k.String()
			}
		}
		if g.World == "noUsers" && len(g.Stmts) > 1 {
			return "dev:firstAdminMulti:" + g.Stmts[0].String()
		}
		return "dev:?:" + what
	}
	// unpredicted: class of the case = world, credential validity, statement classes (forms and carriers
	// would only multiply the examples that are re-run one by one)
	cred := "invalid-credentials"
	if strings.HasSuffix(g.CC, ":valid") {
		cred = "valid-credentials"
	}
	if g.Kind != "write" {
		var cs []string
		for _, k := range g.Stmts {
			cs = append(cs, k.Cls)
		}
		what = strings.Join(cs, ";")
	}
	return fmt.Sprintf("%s:ran-not-allowed:%s:%s:%s", level, g.World, cred, what)
}

// MaxSigs bounds the number of distinct unpredicted mismatch signatures a driver reports (each one
// is re-run on its own by the orchestrator).  Signatures of recorded deviations ("dev:") are bounded
// by the model's table and always reported.
const MaxSigs = 4

// Report says whether a mismatch with this signature is to be reported (first occurrence, within the bound).
func Report(seen map[string]bool, sig string) bool {
	if seen[sig] {
		return false
	}
	if !strings.HasPrefix(sig, "dev:") {
		n := 0
		for s := range seen {
			if !strings.HasPrefix(s, "dev:") {
				n++
			}
		}
		if n >= MaxSigs {
			return false
		}
	}
	seen[sig] = true
	return true
}
